(* LTS of ABT_future (src/futures.c, src/include/abti_waitlist.h) for one future with
   any number of compartments n (0, 1, 2, ...), with or without a callback, and
   unboundedly many callers of any kind (ULT, external pthread, tasklet).
   Labels are exactly the records a history of the real library contains:
     - spinlock acquire / release on p_future->lock                  (FAcq / FRel)
     - wait-list enqueue, per-node wake, broadcast-finished           (FEnq / FWake / FBcast)
     - CALLBACK record written right before p_callback(array)      (FCallback)
     - DATA record written atomically with the release-store of `counter`
       in set (new value) and reset (0)                               (FData)
     - LOAD record written atomically with the lock-free acquire-load of
       `counter` in ABT_future_test                                   (FLoad)
     - begin / end records written by the harness around each API call, the
       harness' record of *is_ready after test (FNote) and of each array entry
       the callback finds in its argument (FCbVal)
   One step = one atomic action of the C code.  The store `array[counter] = value`
   has no record of its own; it is part of the first recorded action that follows
   it in the same critical section (CALLBACK if this set fills the future and a
   callback is registered, otherwise the counter store).

   Model only; proofs are in FutureProofs.v. *)
From Coq Require Import List Arith ZArith Bool.
From ABT Require Import Conc.EvCommon.
Import ListNotations.

Inductive fpcT :=
| FIdle       (* not in an operation *)
| FFin        (* operation finished, return code in fret; the harness' END record is next *)
(* ABT_future_set *)
| FS0         (* about to acquire(lock) *)
| FS1         (* holds lock; has loaded counter and num_compartments *)
| FS2         (* array[counter] stored, callback invoked (counter + 1 = n); counter not yet stored *)
| FS3         (* counter stored and = n; ABTI_waitlist_broadcast not yet started *)
| FS3w        (* inside the broadcast loop: at least one node woken *)
| FS3b        (* broadcast loop finished; about to release(lock) *)
| FS4         (* counter stored and < n; about to release(lock) *)
(* ABT_future_wait *)
| FW0         (* about to acquire(lock) *)
| FW1         (* holds lock, has loaded counter *)
| FUQ         (* ULT: enqueued, context being switched; the callback releases the lock on its behalf *)
| FUS         (* ULT: BLOCKED, queued *)
| FEW         (* external: holds lock, queued, not READY *)
| FEWr        (* external: holds lock, already READY *)
| FES         (* external: queued, lock released, on the futex / between checks *)
| FER         (* external: READY; the quick check lets it return without taking the lock *)
| FWF         (* wait has returned ABT_SUCCESS; END record next *)
(* ABT_future_test *)
| FT0         (* about to acquire-load counter (no lock) *)
| FTR         (* returned; verdict in fflag *)
(* ABT_future_reset *)
| FR0 | FR1   (* about to acquire / holds lock *)
| FR2.        (* counter = 0 stored; about to release *)

Inductive fop := FOSet (v : Z) | FOWait | FOTest | FOReset.

Inductive fev :=
| FBegin (t : nat) (k : ckind) (o : fop)
| FEnd   (t : nat) (r : Z)
| FAcq   (t : nat)
| FRel
| FEnq   (t : nat) (ult : bool)
| FWake  (x : nat)
| FBcast
| FData  (t : nat) (c : Z)              (* ABTD_atomic_release_store_size(&counter, c) *)
| FCallback (t : nat)                   (* p_callback(array) is about to be called by t *)
| FCbVal (t : nat) (i : nat) (v : Z)    (* harness callback: arg[i] = v *)
| FLoad  (t : nat) (c : Z)              (* ABTD_atomic_acquire_load_size(&counter) = c in test *)
| FNote  (t : nat) (flag : bool).       (* harness: *is_ready after test *)

Record fst := fmk {
  flock    : option nat;     (* lock word; Some t = taken by t (ghost owner) *)
  fcounter : nat;            (* p_future->counter *)
  fnc      : nat;            (* p_future->num_compartments *)
  fcb      : bool;           (* p_future->p_callback != NULL *)
  fslots   : list Z;         (* p_future->array (length num_compartments; initial content 0 stands for indeterminate) *)
  fcbc     : nat;            (* number of callback invocations since creation / the last reset *)
  fwl      : list nat;       (* p_future->waitlist, head first *)
  fpc      : nat -> fpcT;
  fck      : nat -> ckind;
  fav      : nat -> Z;       (* set: argument value *)
  fret     : nat -> Z;
  fflag    : nat -> bool;    (* test: *is_ready *)
  (* ghost *)
  fgen     : nat;            (* number of resets so far *)
  fsetvals : list Z;         (* values of the successful sets since creation / the last reset, in order of their counter stores *)
  fcbseen  : list Z;         (* array content at the last callback invocation *)
  fwgen    : nat -> nat      (* generation in which the caller's wait returned / test sampled *)
}.

Definition ERR_FUTURE : Z := 45%Z.   (* ABT_ERR_FUTURE *)

Definition fset_pc (s : fst) (t : nat) (p : fpcT) : fst :=
  fmk (flock s) (fcounter s) (fnc s) (fcb s) (fslots s) (fcbc s) (fwl s) (upd (fpc s) t p) (fck s) (fav s)
      (fret s) (fflag s) (fgen s) (fsetvals s) (fcbseen s) (fwgen s).
Definition fset_lock_pc (s : fst) (l : option nat) (t : nat) (p : fpcT) : fst :=
  fmk l (fcounter s) (fnc s) (fcb s) (fslots s) (fcbc s) (fwl s) (upd (fpc s) t p) (fck s) (fav s)
      (fret s) (fflag s) (fgen s) (fsetvals s) (fcbseen s) (fwgen s).
Definition fbegin (s : fst) (t : nat) (k : ckind) (p : fpcT) : fst :=
  fmk (flock s) (fcounter s) (fnc s) (fcb s) (fslots s) (fcbc s) (fwl s) (upd (fpc s) t p) (upd (fck s) t k) (fav s)
      (fret s) (fflag s) (fgen s) (fsetvals s) (fcbseen s) (fwgen s).
(* t releases the lock; its operation is complete with return code r *)
Definition ffin (s : fst) (t : nat) (r : Z) : fst :=
  fmk None (fcounter s) (fnc s) (fcb s) (fslots s) (fcbc s) (fwl s) (upd (fpc s) t FFin) (fck s) (fav s)
      (upd (fret s) t r) (fflag s) (fgen s) (fsetvals s) (fcbseen s) (fwgen s).
(* a waiter leaves the wait: wait-list, pc of x, return code, generation stamp *)
Definition fwoken (s : fst) (l : option nat) (w : list nat) (x : nat) (p : fpcT) : fst :=
  fmk l (fcounter s) (fnc s) (fcb s) (fslots s) (fcbc s) w (upd (fpc s) x p) (fck s) (fav s)
      (upd (fret s) x 0%Z) (fflag s) (fgen s) (fsetvals s) (fcbseen s) (upd (fwgen s) x (fgen s)).

Definition fstep (s : fst) (e : fev) : option fst :=
  match e with
  | FBegin t k o =>
      match fpc s t with
      | FIdle =>
          match o with
          | FOSet v =>
              Some (fmk (flock s) (fcounter s) (fnc s) (fcb s) (fslots s) (fcbc s) (fwl s) (upd (fpc s) t FS0)
                        (upd (fck s) t k) (upd (fav s) t v) (fret s) (fflag s) (fgen s) (fsetvals s) (fcbseen s) (fwgen s))
          | FOWait =>
              (* a tasklet gets ABT_ERR_FUTURE before the lock is touched *)
              if is_task k then
                Some (fmk (flock s) (fcounter s) (fnc s) (fcb s) (fslots s) (fcbc s) (fwl s) (upd (fpc s) t FFin)
                          (upd (fck s) t k) (fav s) (upd (fret s) t ERR_FUTURE) (fflag s) (fgen s) (fsetvals s) (fcbseen s) (fwgen s))
              else Some (fbegin s t k FW0)
          | FOTest => Some (fbegin s t k FT0)
          | FOReset => Some (fbegin s t k FR0)
          end
      | _ => None
      end
  | FEnd t r =>
      match fpc s t with
      | FFin | FWF | FER => if Z.eqb (fret s t) r then Some (fset_pc s t FIdle) else None
      | _ => None
      end
  | FAcq t =>
      match flock s with
      | Some _ => None
      | None =>
          match fpc s t with
          | FS0 => Some (fset_lock_pc s (Some t) t FS1)
          | FW0 => Some (fset_lock_pc s (Some t) t FW1)
          | FR0 => Some (fset_lock_pc s (Some t) t FR1)
          | FES => Some (fset_lock_pc s (Some t) t FEW)
          | FER => Some (fset_lock_pc s (Some t) t FEWr)
          | _ => None
          end
      end
  | FRel =>
      match flock s with
      | None => None
      | Some t =>
          match fpc s t with
          | FS1 => (* if (counter >= num_compartments) { release; ABT_ERR_FUTURE } *)
                   if Nat.leb (fnc s) (fcounter s) then Some (ffin s t ERR_FUTURE) else None
          | FS3 | FS3b => match fwl s with [] => Some (ffin s t 0%Z) | _ => None end
          | FS4 => Some (ffin s t 0%Z)
          | FW1 => (* counter >= num_compartments: release and return *)
                   if Nat.leb (fnc s) (fcounter s) then Some (fwoken s None (fwl s) t FWF) else None
          | FUQ => Some (fset_lock_pc s None t FUS)
          | FEW => Some (fset_lock_pc s None t FES)
          | FEWr => Some (fset_lock_pc s None t FWF)
          | FR2 => Some (ffin s t 0%Z)
          | _ => None
          end
      end
  | FEnq t ult =>
      match fpc s t with
      | FW1 =>
          if Nat.ltb (fcounter s) (fnc s) then
            if Bool.eqb ult (is_ult (fck s t)) then
              Some (fmk (flock s) (fcounter s) (fnc s) (fcb s) (fslots s) (fcbc s) (fwl s ++ [t])
                        (upd (fpc s) t (if ult then FUQ else FEW)) (fck s) (fav s)
                        (fret s) (fflag s) (fgen s) (fsetvals s) (fcbseen s) (fwgen s))
            else None
          else None
      | _ => None
      end
  | FWake x =>
      match flock s, fwl s with
      | Some u, y :: rest =>
          if Nat.eqb x y then
            match fpc s u with
            | FS3 | FS3w =>
                match fpc s x with
                | FUS => Some (fwoken (fset_pc s u FS3w) (flock s) rest x FWF)
                | FES => Some (fwoken (fset_pc s u FS3w) (flock s) rest x FER)
                | _ => None
                end
            | _ => None
            end
          else None
      | _, _ => None
      end
  | FBcast =>
      match flock s, fwl s with
      | Some u, [] => match fpc s u with FS3w => Some (fset_pc s u FS3b) | _ => None end
      | _, _ => None
      end
  | FCallback t =>
      if oeq (flock s) t then
        match fpc s t with
        | FS1 =>
            (* p_future->array[counter] = value; counter++;
               if (counter == num_compartments && p_future->p_callback != NULL) p_callback(array) *)
            if Nat.ltb (fcounter s) (fnc s) && Nat.eqb (S (fcounter s)) (fnc s) && fcb s then
              let a' := set_nth (fcounter s) (fav s t) (fslots s) in
              Some (fmk (flock s) (fcounter s) (fnc s) (fcb s) a' (S (fcbc s)) (fwl s) (upd (fpc s) t FS2) (fck s) (fav s)
                        (fret s) (fflag s) (fgen s) (fsetvals s) a' (fwgen s))
            else None
        | _ => None
        end
      else None
  | FCbVal t i v =>
      match fpc s t with
      | FS2 => match nth_error (fslots s) i with
               | Some w => if Z.eqb v w then Some s else None
               | None => None
               end
      | _ => None
      end
  | FData t c =>
      if oeq (flock s) t then
        match fpc s t with
        | FS1 =>
            if Nat.ltb (fcounter s) (fnc s) && negb (Nat.eqb (S (fcounter s)) (fnc s) && fcb s)
               && Z.eqb c (Z.of_nat (S (fcounter s))) then
              Some (fmk (flock s) (S (fcounter s)) (fnc s) (fcb s) (set_nth (fcounter s) (fav s t) (fslots s)) (fcbc s) (fwl s)
                        (upd (fpc s) t (if Nat.eqb (S (fcounter s)) (fnc s) then FS3 else FS4)) (fck s) (fav s)
                        (fret s) (fflag s) (fgen s) (fsetvals s ++ [fav s t]) (fcbseen s) (fwgen s))
            else None
        | FS2 =>
            if Z.eqb c (Z.of_nat (S (fcounter s))) then
              Some (fmk (flock s) (S (fcounter s)) (fnc s) (fcb s) (fslots s) (fcbc s) (fwl s)
                        (upd (fpc s) t (if Nat.eqb (S (fcounter s)) (fnc s) then FS3 else FS4)) (fck s) (fav s)
                        (fret s) (fflag s) (fgen s) (fsetvals s ++ [fav s t]) (fcbseen s) (fwgen s))
            else None
        | FR1 =>
            (* contract of ABT_future_reset (undefined otherwise): no waiter is blocked on the future *)
            match fwl s with
            | [] => if Z.eqb c 0 then
                      Some (fmk (flock s) 0 (fnc s) (fcb s) (fslots s) 0 (fwl s) (upd (fpc s) t FR2) (fck s) (fav s)
                                (fret s) (fflag s) (S (fgen s)) [] (fcbseen s) (fwgen s))
                    else None
            | _ => None
            end
        | _ => None
        end
      else None
  | FLoad t c =>
      match fpc s t with
      | FT0 =>
          if Z.eqb c (Z.of_nat (fcounter s)) then
            Some (fmk (flock s) (fcounter s) (fnc s) (fcb s) (fslots s) (fcbc s) (fwl s) (upd (fpc s) t FTR) (fck s) (fav s)
                      (upd (fret s) t 0%Z) (upd (fflag s) t (Nat.eqb (fcounter s) (fnc s))) (fgen s) (fsetvals s) (fcbseen s)
                      (upd (fwgen s) t (fgen s)))
          else None
      | _ => None
      end
  | FNote t flag =>
      match fpc s t with
      | FTR => if Bool.eqb flag (fflag s t) then Some (fset_pc s t FFin) else None
      | _ => None
      end
  end.

(* ABT_future_create(n, cb) *)
Definition finit (n : nat) (cb : bool) : fst :=
  fmk None 0 n cb (repeat 0%Z n) 0 [] (fun _ => FIdle) (fun _ => KUlt) (fun _ => 0%Z)
      (fun _ => 0%Z) (fun _ => false) 0 [] [] (fun _ => 0).

Fixpoint frun (s : fst) (tr : list fev) : option fst :=
  match tr with
  | [] => Some s
  | e :: r => match fstep s e with Some s' => frun s' r | None => None end
  end.

Definition finlock (p : fpcT) : bool :=
  match p with FS1 | FS2 | FS3 | FS3w | FS3b | FS4 | FW1 | FUQ | FEW | FEWr | FR1 | FR2 => true | _ => false end.
Definition fqueued (p : fpcT) : bool :=
  match p with FUQ | FUS | FEW | FES => true | _ => false end.
Definition freturned (p : fpcT) : bool :=
  match p with FWF | FER | FEWr => true | _ => false end.
Definition fwaking (p : fpcT) : bool :=
  match p with FS3 | FS3w => true | _ => false end.
Definition ffull (p : fpcT) : bool :=
  match p with FS3 | FS3w | FS3b => true | _ => false end.
Definition is_fs2 (p : fpcT) : bool := match p with FS2 => true | _ => false end.
(* a callback invocation is in progress (its caller holds the lock) *)
Definition fin_cb (s : fst) : bool :=
  match flock s with Some u => is_fs2 (fpc s u) | None => false end.
