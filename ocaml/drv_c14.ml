(* C14 driver: one case per input line, one canonical result line per case.
   T ; M u th ok , U u , G u ...                       raw table operations (unit.c)
   W <kinds> ; I th p cu ok , S th p cu ok , X th p cu ok , D th , G th
                                                      association functions (abti_unit.h), kinds over B/U
   A <kinds> ; c th p named script : os , pt p th : os , pu p th : os , po p k , pp p k ,
               sa th p : os , mg th p , rn th : os , ru th p : os , fr th , rv th p script : os , ck th
                                                      public API, kinds over B/U/L
   unit handles are arena offsets (0 = NULL); thread th is the descriptor "16*th";
   script: letters y (yield) and m<digit> (migrate self to pool), "-" = empty. *)
let z16 = z_of_int 16
let ptr_of_th th = Z.mul z16 (z_of_int th)
let th_of_ptr p = int_of_z (Z.div p z16)
let unit_of_string s = let v = z_of_string s in if v = Z0 then uNIT_NULL else v
let pr_unit u =
  if u = uNIT_NULL then "0"
  else if is_builtin_unit u then "b" ^ string_of_int (th_of_ptr (thread_of_builtin u))
  else "u" ^ string_of_z u
let pr_thr t = "t" ^ string_of_int (th_of_ptr t)

let pr_buckets ~stale (t : table) =
  let b = Buffer.create 64 in
  List.iteri (fun i bk ->
      if bk <> [] then begin
        Buffer.add_string b (Printf.sprintf "%d:[" i);
        Buffer.add_string b (String.concat ","
          (List.map (fun (cu, cth) ->
               if cu = uNIT_NULL && not stale then "0:_" else pr_unit cu ^ ":" ^ pr_thr cth) bk));
        Buffer.add_string b "]"
      end) t;
  Buffer.contents b

let pr_call = function
  | CCreate (p, th, u) -> Printf.sprintf "C%s.%s=%s" (string_of_z p) (pr_thr th) (pr_unit u)
  | CFree (p, u) -> Printf.sprintf "F%s.%s" (string_of_z p) (pr_unit u)
  | CPush (p, u) -> Printf.sprintf "P%s.%s" (string_of_z p) (pr_unit u)
  | CPop (p, u) -> Printf.sprintf "O%s.%s" (string_of_z p) (pr_unit u)
let pr_log l = String.concat " " (List.rev_map pr_call l)
let pr_threads l =
  let l = List.sort compare (List.map (fun (t, x) -> (th_of_ptr t, x)) l) in
  String.concat " " (List.map (fun (t, x) ->
      Printf.sprintf "t%d=(%s,%s)" t (pr_unit x.t_unit) (string_of_z x.t_pool)) l)

let split_case line =
  match String.index_opt line ';' with
  | None -> failwith ("bad case: " ^ line)
  | Some i -> (String.trim (String.sub line 0 i),
               String.sub line (i + 1) (String.length line - i - 1))

let bool_of s = s <> "0"

(* ---- T ---- *)
let do_t line =
  let (_, ops) = split_case line in
  let ops = List.map (fun s -> match words s with
      | ["M"; u; th; ok] -> TMap (unit_of_string u, ptr_of_th (int_of_string th), bool_of ok)
      | ["U"; u] -> TUnmap (unit_of_string u)
      | ["G"; u] -> TGet (unit_of_string u)
      | _ -> failwith ("bad T op: " ^ s)) (split_on ',' ops) in
  let (t, rs) = trun_raw tbl_init ops in
  "T " ^ String.concat " " (List.map (function
      | None -> "ABORT"
      | Some (TRmap b) -> if b then "m1" else "m0"
      | Some TRunmap -> "u"
      | Some (TRget th) -> "g" ^ string_of_int (th_of_ptr th)) rs)
  ^ " | " ^ pr_buckets ~stale:true t

let kinds_bi kinds = fun p ->
  let i = int_of_z p in i >= 0 && i < String.length kinds && kinds.[i] = 'B'

(* ---- W ---- *)
let do_w line =
  let (hd, ops) = split_case line in
  let kinds = (match words hd with [_; k] -> k | _ -> failwith "bad W header") in
  let bi = kinds_bi kinds in
  let o cu ok = (unit_of_string cu, bool_of ok) in
  let ops = List.map (fun s -> match words s with
      | ["I"; th; p; cu; ok] -> AInit (ptr_of_th (int_of_string th), z_of_string p, o cu ok)
      | ["S"; th; p; cu; ok] -> ASet (ptr_of_th (int_of_string th), z_of_string p, o cu ok)
      | ["X"; th; p; cu; ok] -> AUSet (ptr_of_th (int_of_string th), z_of_string p, o cu ok)
      | ["D"; th] -> AUnset (ptr_of_th (int_of_string th))
      | ["G"; th] -> AGet (ptr_of_th (int_of_string th))
      | _ -> failwith ("bad W op: " ^ s)) (split_on ',' ops) in
  match arun bi init_state ops with
  | Misuse -> "W MISUSE"
  | Abort -> "W ABORT"
  | Wrong -> "W WRONG"
  | Ok (s, rs) ->
    "W " ^ String.concat " " (List.map (function
        | ARcode c -> "c" ^ string_of_z c
        | ARcode_thread (c, r) -> "c" ^ string_of_z c ^ ":t" ^ string_of_int (th_of_ptr r)
        | ARnone -> "-"
        | ARthread r -> pr_thr r) rs)
    ^ " ; " ^ pr_log s.a_log
    ^ " | " ^ pr_threads s.a_thr ^ " ; " ^ pr_buckets ~stale:true s.a_tbl

(* ---- A ---- *)
let parse_script s =
  if s = "-" then [] else begin
    let r = ref [] and i = ref 0 in
    while !i < String.length s do
      (match s.[!i] with
       | 'y' -> r := SYield :: !r; incr i
       | 'm' -> r := SMig (z_of_int (Char.code s.[!i + 1] - 48)) :: !r; i := !i + 2
       | _ -> failwith ("bad script: " ^ s))
    done;
    List.rev !r
  end

let do_a line =
  let (hd, ops) = split_case line in
  let kinds = (match words hd with [_; k] -> k | _ -> failwith "bad A header") in
  let bi = kinds_bi kinds in
  let pools = List.init (String.length kinds) z_of_int in
  let parse s =
    let (body, os) = (match String.index_opt s ':' with
        | None -> (s, [])
        | Some i -> (String.sub s 0 i,
                     List.map (fun w -> (unit_of_string w, true))
                       (words (String.sub s (i + 1) (String.length s - i - 1))))) in
    let th x = ptr_of_th (int_of_string x) in
    match words body with
    | ["c"; t; p; named; sc] -> [XCreate (th t, z_of_string p, bool_of named, parse_script sc, os)]
    | ["pt"; p; t] -> [XPushThread (z_of_string p, th t, os)]
    | ["pm"; p; t] -> [XPushThread (z_of_string p, th t, os)]   (* ABT_pool_push_threads with a batch of one *)
    | ["pu"; p; t] -> [XPushUnit (z_of_string p, th t, os)]
    | ["po"; p; k] | ["pp"; p; k] -> [XPop (z_of_string p, z_of_string k)]
    (* ABT_pool_pop_threads(len = n): n single pops of the model (a pop of an empty pool changes nothing) *)
    | ["pn"; p; n; k] -> List.init (int_of_string n) (fun _ -> XPop (z_of_string p, z_of_string k))
    | ["sa"; t; p] -> [XSetPool (th t, z_of_string p, os)]
    | ["mg"; t; p] -> [XMigrate (th t, z_of_string p)]
    | ["rn"; t] -> [XRun (th t, os)]
    | ["ru"; t; p] -> [XRunUnit (th t, z_of_string p, os)]
    | ["fr"; t] -> [XFree (th t)]
    | ["rv"; t; p; sc] -> [XRevive (th t, z_of_string p, parse_script sc, os)]
    | ["ck"; t] -> [XCheck (th t)]
    | _ -> failwith ("bad A op: " ^ s) in
  let ops = List.concat_map parse (split_on ',' ops) in
  let ((s, rs), e) = xrun bi (xinit pools) ops in
  let pr_res = function
    | XRcode c -> "c" ^ string_of_z c
    | XRpop (t, u) -> if t = Z0 then "t0/0" else pr_thr t ^ "/" ^ pr_unit u
    | XRrun (c, w) -> "r" ^ string_of_z c ^ "." ^ string_of_z w
    | XRcheck (u, t) -> pr_unit u ^ ">" ^ pr_thr t in
  let runs = List.sort compare (List.map (fun (t, n) -> (th_of_ptr t, n)) s.x_runs) in
  let thr = pr_threads s.x_a.a_thr in
  let pools = String.concat " " (List.map (fun (p, c) ->
      if bi p then Printf.sprintf "%s:#%d" (string_of_z p) (List.length c)
      else Printf.sprintf "%s:[%s]" (string_of_z p) (String.concat "," (List.map pr_unit c)))
      s.x_pools) in
  "A " ^ String.concat " " (List.map pr_res rs)
  ^ (match e with None -> "" | Some Z0 -> "" | Some c ->
      if c = z_of_int 1 then " MISUSE" else if c = z_of_int 2 then " ABORT" else " WRONG")
  ^ " ; " ^ String.concat " " (List.map (fun (t, n) -> Printf.sprintf "%d=%s" t (string_of_z n)) runs)
  ^ " ; " ^ pr_log s.x_a.a_log
  ^ " | " ^ thr ^ " ; " ^ pools ^ " ; " ^ pr_buckets ~stale:false s.x_a.a_tbl

let () =
  let ic = if Array.length Sys.argv > 1 then open_in Sys.argv.(1) else stdin in
  List.iter (fun line ->
      let line = String.trim line in
      if line <> "" && line.[0] <> '#' then
        print_endline (match line.[0] with
            | 'T' -> do_t line
            | 'W' -> do_w line
            | 'A' -> do_a line
            | 'S' -> "S ok"
            | 'N' -> "N " ^ string_of_z uNIT_NULL
            | _ -> failwith ("bad line: " ^ line)))
    (read_lines ic)
