(* C04 driver: replays a recorded history (harness/h_c04.c) through the extracted
   Mutex LTS, one LTS instance per mutex.  usage: drv_c04 <history>  ->
   one line:  OK ... | MISMATCH ... ; second line: monitors *)
let pc_name = function
  | Idle -> "Idle" | L0 -> "L0" | L1 -> "L1" | L2 -> "L2" | L2ok -> "L2ok" | L3 -> "L3"
  | UQ -> "UQ" | US -> "US" | EW -> "EW" | EWr -> "EWr" | ES -> "ES" | ER -> "ER"
  | Holding -> "Holding" | T0 -> "T0" | S0 -> "S0" | U1 -> "U1" | U2 -> "U2" | U3 -> "U3"
let starts_with s p = String.length s >= String.length p && String.sub s 0 (String.length p) = p
let () =
  let lines = read_lines (open_in Sys.argv.(1)) in
  let status = ref "" in
  let kinds = Hashtbl.create 8 in           (* mutex index -> kind *)
  let mons = ref [] in
  let thrdone = ref [] in
  let evs = ref [] in
  List.iteri (fun i l ->
      match words l with
      | "STATUS" :: s :: _ -> status := s
      | "THR" :: _ -> ()
      | "MON" :: m :: rest ->
        let idx = int_of_string (String.sub m 1 (String.length m - 1)) in
        let kv = List.map (fun w -> match String.split_on_char '=' w with [k; v] -> (k, int_of_string v) | _ -> ("", 0)) rest in
        Hashtbl.replace kinds idx (List.assoc "kind" kv);
        mons := (idx, kv) :: !mons
      | "THRDONE" :: t :: d :: _ -> thrdone := (int_of_string t, int_of_string d) :: !thrdone
      | a :: k :: rest -> evs := (i, int_of_string a, k, rest) :: !evs
      | _ -> ()) lines;
  let evs = List.rev !evs in
  let nm = Hashtbl.length kinds in
  let states = Array.init nm (fun i -> let k = (try Hashtbl.find kinds i with Not_found -> 0) in init (k = 1 || k = 3)) in
  let mutex_of_obj o = (* "m3.lock" -> (3, "lock") *)
    match String.split_on_char '.' o with
    | [m; f] -> (int_of_string (String.sub m 1 (String.length m - 1)), f)
    | _ -> failwith ("bad object " ^ o) in
  let node n = if n = "none" then -1 else int_of_string (String.sub n 1 (String.length n - 1)) in
  let mismatch = ref None in
  let count = ref 0 in
  (try
    List.iter (fun (ln, a, k, rest) ->
      let tr = (* (mutex, event) *)
        match k, rest with
        | "BEGIN", [op; m; _] ->
          let o = (match op with "0" -> OLock | "1" -> OTry | "2" -> OSpin | _ -> OUnlock) in
          Some (int_of_string m, EBegin (nat_of_int a, o))
        | "END", [_; m; r] -> Some (int_of_string m, EEnd (nat_of_int a, z_of_string r))
        | "TRY", [o; f; _] -> let (m, fld) = mutex_of_obj o in
          if fld = "lock" then Some (m, ETry (nat_of_int a, f <> "0")) else failwith "TRY on a waiter_lock"
        | "ACQ", [o; _; _] -> let (m, fld) = mutex_of_obj o in
          Some (m, if fld = "lock" then EAcqL (nat_of_int a) else EAcqW (nat_of_int a))
        | "REL", [o; _; _] -> let (m, fld) = mutex_of_obj o in
          Some (m, if fld = "lock" then ERelL else ERelW)
        | "ENQ", [o; n; c] -> let (m, _) = mutex_of_obj o in
          Some (m, EEnq (nat_of_int (node n), c = "1"))
        | "WAKE", [o; n; _] -> let (m, _) = mutex_of_obj o in Some (m, EWake (nat_of_int (node n)))
        | "BCAST", [o; _; _] -> let (m, _) = mutex_of_obj o in Some (m, EBcast)
        | _ -> failwith ("unexpected event in a mutex history: " ^ k) in
      match tr with
      | None -> ()
      | Some (m, e) ->
        let needs_actor = (match e with ERelL | ERelW | EWake _ | EBcast -> false | _ -> true) in
        if needs_actor && a < 0 then begin
          mismatch := Some (Printf.sprintf "line=%d mutex=%d event=%s by an unregistered actor" ln m k); raise Exit end;
        (match step states.(m) e with
         | Some s' -> states.(m) <- s'; incr count
         | None ->
           let s = states.(m) in
           let pcs = if a >= 0 then pc_name (s.pc (nat_of_int a)) else "-" in
           mismatch := Some (Printf.sprintf "line=%d mutex=%d actor=%d event=%s %s : not enabled in the model (pc=%s lock=%s wlock=%s wl=[%s] nest=%d)"
                               ln m a k (String.concat " " rest) pcs
                               (match s.holder with Some h -> string_of_int (int_of_nat h) | None -> "free")
                               (match s.wlock with Some h -> string_of_int (int_of_nat h) | None -> "free")
                               (String.concat "," (List.map (fun x -> string_of_int (int_of_nat x)) s.wl))
                               (int_of_nat s.nest));
           raise Exit)) evs
  with Exit -> ());
  (match !mismatch with
   | None -> Printf.printf "OK events=%d mutexes=%d status=%s\n" !count nm !status
   | Some m -> Printf.printf "MISMATCH %s\n" m);
  (* monitors on the implementation's own observations *)
  let bad = ref [] in
  if !status <> "DONE" then bad := ("status=" ^ !status) :: !bad;
  List.iter (fun (i, kv) ->
      if List.assoc "entries" kv <> List.assoc "counter" kv then bad := Printf.sprintf "m%d:lost-update(entries=%d,counter=%d)" i (List.assoc "entries" kv) (List.assoc "counter" kv) :: !bad;
      if List.assoc "overlap" kv <> 0 then bad := Printf.sprintf "m%d:two-holders" i :: !bad;
      if List.assoc "inside" kv <> 0 then bad := Printf.sprintf "m%d:inside=%d" i (List.assoc "inside" kv) :: !bad) !mons;
  List.iter (fun (t, d) -> if d <> 1 then bad := Printf.sprintf "thread%d-not-finished" t :: !bad) !thrdone;
  (* final model state: everything quiescent *)
  if !mismatch = None && !status = "DONE" then
    Array.iteri (fun i s -> if s.holder <> None || s.wlock <> None || s.wl <> [] then
                    bad := Printf.sprintf "m%d:model-final-state-not-quiescent" i :: !bad) states;
  if !bad = [] then print_endline "MON ok" else print_endline ("MONFAIL " ^ String.concat " " (List.rev !bad))
