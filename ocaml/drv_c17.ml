(* C17 driver.  Case file -> one canonical line per case (same format as
   harness/h_c17.c):
     X <max> ; N r , C i r , R i ...
     A <max> ; c , w r , s i r , u i r , f i , j i , v i , g i , n , t i , k i ...
     P ...                        (invariant check done by the harness)
   With a second argument "hist" the input is the harness' history output:
     H ctx0: S.LK.0.1 ... ; ctx1: ...     replayed through XstreamCtx.replay
     L hosts=k ; w kind slot arg rc val inv resp ; ... ; final=r,r,.. n=k
                                           searched for a linearization of api_step *)
let nat_i = nat_of_int
let str_z = string_of_z

let pr_dump ((d, st), (n, m)) =
  let ents = List.map (fun ((id, rk), ok) ->
      string_of_int (int_of_nat id) ^ ":" ^ str_z rk ^ (if ok then "" else "!")) d in
  let ents = match st with WEnd -> ents | WCycle -> ents @ ["CYCLE"] | WDangling -> ents @ ["DANGLING"] in
  String.concat "," ents ^ ";n=" ^ str_z n ^ ";m=" ^ str_z m

let pr_vals = function [] -> "-" | l -> String.concat "." (List.map str_z l)

let header line = match String.split_on_char ';' line with
  | [hd; ops] -> (words hd, split_on ',' ops)
  | [hd] -> (words hd, [])
  | _ -> failwith ("bad line: " ^ line)

let do_x line =
  let (hd, ops) = header line in
  let mx = (match hd with [_; m] -> z_of_string m | _ -> failwith "bad X header") in
  let parse o = match words o with
    | ["N"; r] -> XNew (z_of_string r)
    | ["C"; i; r] -> XChange (nat_i (int_of_string i), z_of_string r)
    | ["R"; i] -> XReturn (nat_i (int_of_string i))
    | _ -> failwith ("bad X op: " ^ o) in
  (* the harness skips indices that were never allocated; the model does the
     same through [linked] (an unallocated index is not in the chain) *)
  let res = x_run (rl_empty mx) (List.map parse ops) in
  let toks = List.map (fun (((r, _), _), _) -> match r with
      | XR v -> pr_vals v | XSkip -> "skip" | XBad _ -> "BAD") res in
  let dumps = List.concat_map (fun (((r, d), n), m) ->
      match r with XBad _ -> [] | _ -> [pr_dump (d, (n, m))]) res in
  "X" ^ String.concat "" (List.map (fun t -> " " ^ t) toks) ^ " | " ^ String.concat " / " dumps

let parse_aop o = match words o with
  | ["c"] -> ACreate
  | ["w"; r] -> ACreateRank (z_of_string r)
  | ["s"; i; r] -> ASetRank (nat_i (int_of_string i), z_of_string r)
  | ["u"; i; r] -> ASelfSetRank (nat_i (int_of_string i), z_of_string r)
  | ["f"; i] -> AFree (nat_i (int_of_string i))
  | ["j"; i] -> AJoin (nat_i (int_of_string i))
  | ["v"; i] -> ARevive (nat_i (int_of_string i))
  | ["g"; i] -> AGetRank (nat_i (int_of_string i))
  | ["n"] -> AGetNum
  | ["t"; i] -> AGetState (nat_i (int_of_string i))
  | ["k"; i] -> AWork (nat_i (int_of_string i))
  | ["m"; i] -> ASetMainSched (nat_i (int_of_string i))
  | _ -> failwith ("bad A op: " ^ o)

let do_a line =
  let (hd, ops) = header line in
  let mx = (match hd with [_; m] -> z_of_string m | _ -> failwith "bad A header") in
  match api_init mx with
  | Bad _ -> "A BAD-INIT"
  | Ok s0 ->
    let res = api_trace s0 (List.map parse_aop ops) in
    let toks = List.map (function Ok (((v, _), _), _) -> pr_vals v | Bad _ -> "BAD") res in
    let dumps = List.concat_map (function Ok (((_, d), n), m) -> [pr_dump (d, (n, m))] | Bad _ -> []) res in
    "A" ^ String.concat "" (List.map (fun t -> " " ^ t) toks) ^ " | " ^ String.concat " / " dumps

(* ---------------- history replay (XstreamCtx) ---------------- *)
let cst_of_int = function 0 -> Some RUNNING | 1 -> Some WAITING | 2 -> Some REQ_JOIN
                          | 3 -> Some REQ_TERMINATE | _ -> None
let parse_ev tok =
  match String.split_on_char '.' tok with
  | [r; k; sm; held] ->
    let role = if r = "S" then RS else RC in
    let lbl = (match k with
        | "FC" -> Some LFCall | "FR" -> Some LFRet | "LK" -> Some (LLock role)
        | "UL" -> Some (LUnlock role) | "SG" -> Some (LSignal role)
        | "WE" -> Some (LWaitEnter role) | "WR" -> Some (LWaitRet role) | "EX" -> Some LExit
        | "BJ" -> Some (LBegin OJoin) | "EJ" -> Some (LEnd OJoin)
        | "BR" -> Some (LBegin ORevive) | "ER" -> Some (LEnd ORevive)
        | "BF" -> Some (LBegin OFree) | "EF" -> Some (LEnd OFree)
        | "PJ" -> Some LPJoin | "CD" -> Some LCondDestroy | "MD" -> Some LMutexDestroy
        | _ -> None) in
    let smi = int_of_string sm in
    (match lbl with
     | None -> None
     | Some l -> if smi > 3 then None else Some ((l, cst_of_int smi), held = "1"))
  | _ -> None

(* direct oracle, independent of the LTS: when join's end is recorded, every
   recorded call of the stream function has returned *)
let join_oracle toks =
  let fc = ref 0 and fr = ref 0 and bad = ref (-1) in
  List.iteri (fun i t ->
      match String.split_on_char '.' t with
      | [_; "FC"; _; _] -> incr fc
      | [_; "FR"; _; _] -> incr fr
      | [_; "EJ"; _; _] -> if !fc <> !fr && !bad < 0 then bad := i
      | _ -> ()) toks;
  !bad

let do_h line =
  let body = if String.length line > 2 then String.sub line 2 (String.length line - 2) else "" in
  let ctxs = split_on ';' body in
  let verdicts = List.map (fun c ->
      match String.index_opt c ':' with
      | None -> "?"
      | Some k ->
        let name = String.trim (String.sub c 0 k) in
        let toks = words (String.sub c (k + 1) (String.length c - k - 1)) in
        let evs = List.map parse_ev toks in
        if List.exists (fun e -> e = None) evs then
          name ^ ":REJECT(unknown event " ^ (List.nth toks (let rec f i = function [] -> 0 | None :: _ -> i | _ :: r -> f (i + 1) r in f 0 evs)) ^ ")"
        else begin
          let evs = List.map (function Some e -> e | None -> assert false) evs in
          let jb = join_oracle toks in
          if jb >= 0 then name ^ ":JOIN-BEFORE-RETURN@" ^ string_of_int jb
          else match replay O finit evs with
            | VOk s -> if final s then "ok" else name ^ ":ok-open"
            | VReject i -> let i = int_of_nat i in
              name ^ ":REJECT@" ^ string_of_int i ^ "(" ^ List.nth toks i ^ ")"
            | VErr i -> let i = int_of_nat i in
              name ^ ":ASSERT@" ^ string_of_int i ^ "(" ^ List.nth toks i ^ ")"
        end) ctxs in
  String.concat " " ("H" :: verdicts)

(* ---------------- linearizability of concurrent rank operations ---------------- *)
type lop = { w : int; kind : int; slot : int; arg : int; rc : int; v : int; inv : int; resp : int }

let ranks_of s = List.map (fun ((_, rk), _) -> str_z rk) (fst (dump s))

let do_l line =
  let parts = split_on ';' (String.sub line 2 (String.length line - 2)) in
  let hosts = ref 0 and ops = ref [] and fin = ref "" and fnum = ref "" in
  List.iter (fun p ->
      match words p with
      | [h] when String.length h > 6 && String.sub h 0 6 = "hosts=" ->
        hosts := int_of_string (String.sub h 6 (String.length h - 6))
      | [f; n] when String.length f >= 6 && String.sub f 0 6 = "final=" ->
        fin := String.sub f 6 (String.length f - 6);
        fnum := String.sub n 2 (String.length n - 2)
      | [w; k; sl; a; rc; v; i; r] ->
        let g = int_of_string in
        ops := { w = g w; kind = g k; slot = g sl; arg = g a; rc = g rc; v = g v; inv = g i; resp = g r } :: !ops
      | _ -> failwith ("bad L part: " ^ p)) parts;
  let ops = Array.of_list (List.rev !ops) in
  let n = Array.length ops in
  let s0 = (match api_init (z_of_int 4) with Ok s -> s | Bad _ -> failwith "init") in
  let s0 = ref s0 in
  for _ = 1 to !hosts do
    (match api_step !s0 ACreate with Ok (s, _) -> s0 := s | Bad _ -> failwith "host")
  done;
  let budget = ref 2_000_000 in
  let seen = Hashtbl.create 1024 in
  let zi z = int_of_z z in
  (* names: (worker, slot) -> model id *)
  let rec search s (names : ((int * int) * int) list) done_ cnt =
    if cnt = n then
      String.concat "," (ranks_of s) = !fin && str_z s.num = !fnum
    else begin
      decr budget;
      if !budget < 0 then raise Exit;
      let key = (done_, String.concat "," (ranks_of s)) in
      if Hashtbl.mem seen key then false
      else begin
        let minresp = ref max_int in
        Array.iteri (fun i o -> if not (List.mem i done_) && o.resp < !minresp then minresp := o.resp) ops;
        let ok = ref false in
        Array.iteri (fun i o ->
            if not !ok && not (List.mem i done_) && o.inv < !minresp
               (* program order *)
               && not (Array.exists (fun o' -> o'.w = o.w && o'.inv < o.inv
                                              && not (List.mem (let rec idx j = if ops.(j) == o' then j else idx (j + 1) in idx 0) done_)) ops)
            then begin
              let id_of () = try Some (List.assoc (o.w, o.slot) names) with Not_found -> None in
              let newid = int_of_nat (let rec len = function [] -> O | _ :: t -> S (len t) in len s.store) in
              let step aop = (match api_step s aop with Ok (s', r) -> Some (s', List.map zi r) | Bad _ -> None) in
              let rank_of s' id = (match live s' (nat_i id) with Some nd -> zi nd.n_rank | None -> -1) in
              let next = (match o.kind with
                  | 0 -> (match step ACreate with
                      | Some (s', [0; rk]) when o.rc = 0 && o.v = rk -> Some (s', ((o.w, o.slot), newid) :: names)
                      | _ -> None)
                  | 1 -> (match step (ACreateRank (z_of_int o.arg)) with
                      | Some (s', [0; rk]) when o.rc = 0 && o.v = rk -> Some (s', ((o.w, o.slot), newid) :: names)
                      | Some (s', [e]) when o.rc = e && e <> 0 -> Some (s', names)
                      | _ -> None)
                  | 2 -> (match id_of () with
                      | None -> None
                      | Some id -> (match step (ASetRank (nat_i id, z_of_int o.arg)) with
                          | Some (s', [e]) when o.rc = e && o.v = rank_of s' id -> Some (s', names)
                          | _ -> None))
                  | 3 -> (match id_of () with
                      | None -> None
                      | Some id -> (match step (AFree (nat_i id)) with
                          | Some (s', [e]) when o.rc = e ->
                            Some (s', List.filter (fun (k, _) -> k <> (o.w, o.slot)) names)
                          | _ -> None))
                  | _ -> (match step AGetNum with
                      | Some (s', [0; k]) when o.rc = 0 && o.v = k -> Some (s', names)
                      | _ -> None)) in
              match next with
              | Some (s', names') -> if search s' names' (List.sort compare (i :: done_)) (cnt + 1) then ok := true
              | None -> ()
            end) ops;
        if not !ok then Hashtbl.replace seen key ();
        !ok
      end
    end in
  try
    if search !s0 [] [] 0 then "L ok" else "L NOT-LINEARIZABLE"
  with Exit -> "L inconclusive"

let () =
  let ic = if Array.length Sys.argv > 1 then open_in Sys.argv.(1) else stdin in
  let hist = Array.length Sys.argv > 2 && Sys.argv.(2) = "hist" in
  List.iter (fun line ->
      let line = String.trim line in
      if line <> "" && line.[0] <> '#' then
        print_endline
          (if hist then
             (if line.[0] = 'H' then do_h line
              else if line.[0] = 'L' then do_l line
              else failwith ("bad history line: " ^ line))
           else match line.[0] with
             | 'X' -> do_x line
             | 'A' -> do_a line
             | 'P' -> "P ok | inv"
             (* the model's atomicity assumption: each list operation is one step under xstream_list_lock *)
             | 'K' -> "K 1 1 1 | 0"
             | _ -> failwith ("bad line: " ^ line)))
    (read_lines ic)
