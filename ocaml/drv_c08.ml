(* C08 driver: replays a recorded history (harness/h_c08.c) through the extracted
   Barrier LTS, one LTS instance per ABT_barrier.  usage: drv_c08 <history>  ->
   line 1:  OK ... | MISMATCH ... ;  line 2: MON ok | MONFAIL ...
   The monitors of line 2 do not use the LTS: they are the harness' per-round arrival
   counters, the API-level counting law  returns <= n * floor(calls / n)  evaluated on the
   BEGIN/END records (ABT_barrier per phase, ABT_xstream_barrier), return codes, and
   "every thread finished" (watchdog). *)
let pc_name = function
  | Idle -> "Idle" | W0 -> "W0" | W1 -> "W1" | WQ -> "WQ" | UQ -> "UQ" | US -> "US" | UR -> "UR"
  | EW -> "EW" | EWr -> "EWr" | ES -> "ES" | ER -> "ER" | WB0 -> "WB0" | WB1 -> "WB1" | WC -> "WC"
  | WR -> "WR" | DoneW -> "DoneW" | RI -> "RI" | Done -> "Done"
let kv_of rest =
  List.filter_map (fun w -> match String.split_on_char '=' w with [k; v] -> (try Some (k, int_of_string v) with _ -> None) | _ -> None) rest
let () =
  let lines = read_lines (open_in Sys.argv.(1)) in
  let status = ref "" in
  let n0 = Hashtbl.create 8 in              (* barrier index -> initial num_waiters *)
  let xn = Hashtbl.create 8 in
  let mons = ref [] in
  let thrdone = ref [] in
  let thrkind = Hashtbl.create 16 in
  let evs = ref [] in
  List.iteri (fun i l ->
      match words l with
      | "STATUS" :: s :: _ -> status := s
      | "THR" :: t :: k :: _ -> Hashtbl.replace thrkind (int_of_string t) k
      | "BAR" :: b :: rest -> Hashtbl.replace n0 (int_of_string b) (List.assoc "n0" (kv_of rest))
      | "XBAR" :: b :: rest -> Hashtbl.replace xn (int_of_string b) (List.assoc "n" (kv_of rest))
      | "MON" :: m :: rest -> mons := (m, kv_of rest) :: !mons
      | "THRDONE" :: t :: d :: _ -> thrdone := (int_of_string t, int_of_string d) :: !thrdone
      | a :: k :: rest -> evs := (i, int_of_string a, k, rest) :: !evs
      | _ -> ()) lines;
  let evs = List.rev !evs in
  let nb = Hashtbl.length n0 in
  let states = Array.init nb (fun i -> init (nat_of_int (Hashtbl.find n0 i))) in
  let obj_of o = (* "b3.lock" -> (3, "lock") *)
    match String.split_on_char '.' o with
    | [m; f] when String.length m > 1 && m.[0] = 'b' -> (int_of_string (String.sub m 1 (String.length m - 1)), f)
    | _ -> failwith ("bad object " ^ o) in
  let node n = if n = "none" then -1 else int_of_string (String.sub n 1 (String.length n - 1)) in
  let mismatch = ref None in
  let count = ref 0 in
  let last_kind = Hashtbl.create 64 in      (* (barrier, actor) -> kind of its previous event *)
  (* API-level counting monitors *)
  let bad = ref [] in
  let wb = Array.make (max nb 1) 0 and we = Array.make (max nb 1) 0 in
  let wn = Array.init (max nb 1) (fun i -> try Hashtbl.find n0 i with Not_found -> 1) in
  let wdis = Array.make (max nb 1) false in
  let nx = Hashtbl.length xn in
  let xb = Array.make (max nx 1) 0 and xe = Array.make (max nx 1) 0 in
  let pending_reinit = Hashtbl.create 8 in  (* actor -> (barrier, n) *)
  let api_monitor a k rest =
    match k, rest with
    | "BEGIN", ["0"; b; kc] when kc <> "2" -> let b = int_of_string b in wb.(b) <- wb.(b) + 1
    | "END", ["0"; b; r] when (try Hashtbl.find thrkind a <> "T" with Not_found -> true) ->
      let b = int_of_string b in
      if r <> "0" then bad := Printf.sprintf "b%d:wait-returned-%s" b r :: !bad
      else begin
        we.(b) <- we.(b) + 1;
        if not wdis.(b) && we.(b) > wn.(b) * (wb.(b) / wn.(b)) then
          bad := Printf.sprintf "b%d:early-release(api:returns=%d,calls=%d,n=%d)" b we.(b) wb.(b) wn.(b) :: !bad
      end
    | "END", ["0"; b; r] -> if r <> "46" then bad := Printf.sprintf "b%s:tasklet-wait-returned-%s" b r :: !bad
    | "BEGIN", ["1"; b; m] -> Hashtbl.replace pending_reinit a (int_of_string b, int_of_string m)
    | "END", ["1"; b; r] ->
      let (b, m) = Hashtbl.find pending_reinit a in
      if m = 0 then (if r <> "53" then bad := Printf.sprintf "b%d:reinit(0)-returned-%s" b r :: !bad)
      else if r <> "0" then bad := Printf.sprintf "b%d:reinit-returned-%s" b r :: !bad
      else begin
        (* scenario discipline: no wait is in progress; a new counting phase starts *)
        if wb.(b) <> we.(b) then wdis.(b) <- true;
        wb.(b) <- 0; we.(b) <- 0; wn.(b) <- m
      end
    | "BEGIN", ["2"; x; _] -> let x = int_of_string x in xb.(x) <- xb.(x) + 1
    | "END", ["2"; x; r] ->
      let x = int_of_string x in
      let n = Hashtbl.find xn x in
      if r <> "0" then bad := Printf.sprintf "x%d:wait-returned-%s" x r :: !bad;
      xe.(x) <- xe.(x) + 1;
      if xe.(x) > n * (xb.(x) / n) then
        bad := Printf.sprintf "x%d:early-release(api:returns=%d,calls=%d,n=%d)" x xe.(x) xb.(x) n :: !bad
    | _ -> () in
  List.iter (fun (_, a, k, rest) -> api_monitor a k rest) evs;
  (* replay through the LTS *)
  (try
    List.iter (fun (ln, a, k, rest) ->
      let reject b msg =
        mismatch := Some (Printf.sprintf "line=%d barrier=%d actor=%d event=%s %s : %s" ln b a k (String.concat " " rest) msg);
        raise Exit in
      let tr = (* (barrier, event) *)
        match k, rest with
        | "BEGIN", ["0"; b; kc] ->
          let kd = (match kc with "1" -> KU | "2" -> KT | _ -> KE) in
          Some (int_of_string b, EBegin (nat_of_int a, OWait kd))
        | "BEGIN", ["1"; b; m] -> Some (int_of_string b, EBegin (nat_of_int a, OReinit (nat_of_int (int_of_string m))))
        | "END", [("0" | "1"); b; r] -> Some (int_of_string b, EEnd (nat_of_int a, z_of_string r))
        | ("BEGIN" | "END"), ("2" :: _) -> None
        | "ACQ", [o; _; _] -> let (b, f) = obj_of o in
          if f = "lock" then Some (b, EAcq (nat_of_int a)) else reject b "spinlock event on a non-lock object"
        | "REL", [o; _; _] -> let (b, f) = obj_of o in
          if f = "lock" then Some (b, ERel) else reject b "spinlock event on a non-lock object"
        | "DATA", [o; f; v] -> let (b, _) = obj_of o in
          Some (b, EData (nat_of_int a, nat_of_int (int_of_string f), nat_of_int (int_of_string v)))
        | "ENQ", [o; nd; c] -> let (b, _) = obj_of o in
          if node nd <> a then reject b "node enqueued by another actor"
          else if c = "2" then reject b "timed wait on a barrier"
          else Some (b, EEnq (nat_of_int a, c = "1"))
        | "WAKE", [o; nd; _] -> let (b, _) = obj_of o in Some (b, EWake (nat_of_int a, nat_of_int (node nd)))
        | "BCAST", [o; _; _] -> let (b, _) = obj_of o in Some (b, EBcast (nat_of_int a))
        | _, (o :: _) when String.length o > 1 && o.[0] = 'b' && String.contains o '.' ->
          let (b, _) = obj_of o in reject b "not an action of ABT_barrier"
        | _ -> reject (-1) "unexpected record in a barrier history" in
      match tr with
      | None -> ()
      | Some (b, e) ->
        let needs_actor = (match e with ERel -> false | _ -> true) in
        if needs_actor && a < 0 then reject b "by an unregistered actor";
        (match step states.(b) e with
         | Some s' -> states.(b) <- s'; incr count; if a >= 0 then Hashtbl.replace last_kind (b, a) k
         | None ->
           let s = states.(b) in
           let pcs = if a >= 0 then pc_name (s.pc (nat_of_int a)) else "-" in
           let after = (try " after event=" ^ Hashtbl.find last_kind (b, a) ^ " of the same actor" with Not_found -> "") in
           reject b (Printf.sprintf "not enabled in the model (pc=%s lock=%s n=%d counter=%d bwl=[%s] round=%d)%s"
                       pcs
                       (match s.lock with Some h -> string_of_int (int_of_nat h) ^ ":" ^ pc_name (s.pc h) | None -> "free")
                       (int_of_nat s.n) (int_of_nat s.counter)
                       (String.concat "," (List.map (fun x -> string_of_int (int_of_nat x)) s.bwl))
                       (int_of_nat s.round) after))) evs
  with Exit -> ());
  (match !mismatch with
   | None -> Printf.printf "OK events=%d barriers=%d status=%s\n" !count nb !status
   | Some m -> Printf.printf "MISMATCH %s\n" m);
  (* monitors on the implementation's own observations *)
  if !status <> "DONE" then bad := ("status=" ^ !status) :: !bad;
  List.iter (fun (m, kv) ->
      List.iter (fun key ->
          let v = (try List.assoc key kv with Not_found -> 0) in
          if v <> 0 then bad := Printf.sprintf "%s:%s=%d" m
                (match key with "early" -> "released-before-the-nth-arrival" | "over" -> "more-than-n-arrivals-in-a-round"
                              | "badret" -> "wait-error-code" | _ -> "tasklet-wait-not-ABT_ERR_BARRIER") v :: !bad)
        ["early"; "over"; "badret"; "taskbad"]) !mons;
  List.iter (fun (t, d) -> if d <> 1 then bad := Printf.sprintf "thread%d-not-finished" t :: !bad) !thrdone;
  (* final model state: everything quiescent *)
  if !mismatch = None && !status = "DONE" then
    Array.iteri (fun i s ->
        if s.lock <> None || s.bwl <> [] || s.counter <> O then
          bad := Printf.sprintf "b%d:model-final-state-not-quiescent" i :: !bad;
        Hashtbl.iter (fun t _ -> if s.pc (nat_of_int t) <> Idle then
                         bad := Printf.sprintf "b%d:thread%d-final-pc-%s" i t (pc_name (s.pc (nat_of_int t))) :: !bad) thrkind) states;
  if !bad = [] then print_endline "MON ok" else print_endline ("MONFAIL " ^ String.concat " " (List.rev !bad))
