(* C18 driver: one case per input line "<scenario> <spec>", one canonical line
   per case "<scenario> <spec> => ok | A1 rc=.. acq=.. live=.. [h=..] ; A2 ..",
   computed by the extracted ladder model (coq/Fault).
   spec: attempts separated by '/', each a comma list of 1-based positions of
   the acquisition attempts that fail in that call ("0" = none).
   Special lines:  "#nops <scenario>"  -> number of attempts of the failure-free run
                   "#wf"               -> checker verdicts of all scenarios *)
let bit b n = if b then n else 0
let char_of_ascii = function
  | Ascii (b0, b1, b2, b3, b4, b5, b6, b7) ->
    Char.chr (bit b0 1 + bit b1 2 + bit b2 4 + bit b3 8 + bit b4 16 + bit b5 32 + bit b6 64 + bit b7 128)
let rec ostr = function
  | EmptyString -> ""
  | String (a, s) -> Stdlib.String.make 1 (char_of_ascii a) ^ ostr s
let ascii_of_char c =
  let n = Char.code c in
  let b k = (n lsr k) land 1 = 1 in
  Ascii (b 0, b 1, b 2, b 3, b 4, b 5, b 6, b 7)
let cstr (s : Stdlib.String.t) =
  let r = ref EmptyString in
  for i = Stdlib.String.length s - 1 downto 0 do r := String (ascii_of_char s.[i], !r) done;
  !r

let kind_name = function
  | KMalloc -> "malloc" | KRealloc -> "realloc" | KMemalign -> "memalign" | KMmap -> "mmap"
  | KThread -> "pthread" | KMutex -> "mutex" | KCond -> "cond" | KBarrier -> "barrier"

let lookup name =
  (* VERIF_C18_FIXED=1: predict with the fixed ladders where one exists *)
  let fixed = (try Sys.getenv "VERIF_C18_FIXED" = "1" with Not_found -> false) in
  let n = cstr name in
  let first l = find_scen n l in
  match (if fixed then first fixed_scenarios else None) with
  | Some c -> Some c
  | None -> (match first scenarios with Some c -> Some c | None -> first refuted_scenarios)

let parse_spec s =
  List.map (fun a ->
      List.filter (fun x -> x > 0) (List.map (fun t -> int_of_string (Stdlib.String.trim t))
                                      (Stdlib.String.split_on_char ',' a)))
    (Stdlib.String.split_on_char '/' s)

let pr_att has_handle i (a : att_res) =
  if a.ar_stuck then Printf.sprintf "A%d rc=STUCK" i
  else begin
    let tr = Stdlib.String.concat ","
        (List.map (fun ((k, sz), ok) -> Printf.sprintf "%s:%s:%s" (kind_name k) (ostr sz) (if ok then "S" else "F"))
           a.ar_trace) in
    let live = List.sort compare (List.map int_of_nat a.ar_live) in
    let base = Printf.sprintf "A%d rc=%s acq=%s live=%s" i (if a.ar_ok then "S" else "E") tr
        (Stdlib.String.concat "," (List.map string_of_int live)) in
    if a.ar_ok then base
    else if a.ar_pre_gone then base ^ " pre-released"
    else if has_handle then
      base ^ " h=" ^ (match a.ar_h with HUntouched -> "untouched" | HNull -> "null" | HSet -> "SET")
    else base
  end

let do_case name spec =
  match lookup name with
  | None -> Printf.sprintf "%s %s => ok | NO-MODEL" name spec
  | Some c ->
    let fs = List.map (fun l -> List.map nat_of_int l) (parse_spec spec) in
    let atts = run_case c fs in
    (* the harness stops a case at the first attempt that released a pre-existing resource *)
    let rec cut = function
      | [] -> []
      | a :: r -> if a.ar_pre_gone && not a.ar_ok then [a] else a :: cut r in
    let atts = cut atts in
    let parts = List.mapi (fun i a -> pr_att c.sc_handle (i + 1) a) atts in
    Printf.sprintf "%s %s => ok | %s" name spec (Stdlib.String.concat " ; " parts)

let () =
  let ic = if Array.length Sys.argv > 1 then open_in Sys.argv.(1) else stdin in
  List.iter (fun line ->
      let line = Stdlib.String.trim line in
      if line = "" then ()
      else if line = "#wf" then begin
        List.iter (fun c -> Printf.printf "wf %s %b\n" (ostr c.sc_name) (wf c.sc_spec)) scenarios;
        List.iter (fun c -> Printf.printf "wf-refuted %s %b\n" (ostr c.sc_name) (wf c.sc_spec)) refuted_scenarios;
        List.iter (fun c -> Printf.printf "wf-fixed %s %b\n" (ostr c.sc_name) (wf c.sc_spec)) fixed_scenarios
      end
      else match words line with
        | ["#nops"; name] ->
          (match lookup name with
           | Some c -> Printf.printf "nops %s %d\n" name (int_of_nat (n_ops c))
           | None -> Printf.printf "nops %s -1\n" name)
        | [name; spec] -> print_endline (do_case name spec)
        | _ -> failwith ("bad line: " ^ line))
    (read_lines ic)
