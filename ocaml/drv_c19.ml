(* C19 driver: replays the case file of harness/h_c19.c on the extracted models
   (DS/Waitlist.v: step / settle; Conc/PopWait.v: pw_step / wstep) and prints the
   same canonical lines.  See h_c19.c for the case and output formats. *)
let base = z_of_int 4000 (* virtual time 1000.0 s in quarter-second ticks *)
let zt t = Z.add base (z_of_int t)
let garbage = fun _ -> Some (nat_of_int 999)

let strip s = String.trim s

(* ------------------------------------------------------------------ WL *)
let do_wl line =
  let hd, acts = match String.split_on_char ';' line with
    | [h] -> h, "" | h :: a :: _ -> h, a | [] -> failwith "empty" in
  let ws = Array.of_list (List.tl (words hd)) in
  let n = Array.length ws in
  let is_timed k = ws.(k).[1] = 't' and is_ext k = ws.(k).[0] = 'e' in
  (* adversarial garbage in all node fields *)
  let s = ref (sys_init garbage garbage (fun _ -> true) (fun _ -> false) (fun _ -> true) base (fun _ -> Z0)) in
  let bad = ref "" in
  let apply a =
    if !bad = "" then
      match step !s a with
      | Next (s', _) -> s := s'
      | Disabled -> bad := "MODEL-DISABLED"
      | RFault -> bad := "MODEL-FAULT"
      | ROutOfFuel -> bad := "MODEL-FUEL" in
  let settle_now () =
    if !bad = "" then
      match settle (nat_of_int 400) (nat_of_int n) !s with
      | Next (s', _) -> s := s'
      | Disabled -> bad := "MODEL-DISABLED"
      | RFault -> bad := "MODEL-FAULT"
      | ROutOfFuel -> bad := "MODEL-FUEL" in
  let obs = Buffer.create 64 and dumps = Buffer.create 256 in
  let first = ref true in
  let id_str p = match p with
    | None -> "N"
    | Some x -> let i = int_of_nat x in if i < n then string_of_int i else "?" in
  List.iter (fun a ->
      (match words a with
       | ["E"; k; d] ->
         let k = int_of_string k and d = int_of_string d in
         (match !s.pc (nat_of_int k) with Ret _ -> apply (ARestart (nat_of_int k)) | _ -> ());
         if is_timed k then apply (AStartT (nat_of_int k, zt d))
         else apply (AStartU (nat_of_int k, is_ext k))
       | ["S"] -> apply ASignal
       | ["B"] -> apply ABroadcast
       | ["T"; t] ->
         let t = zt (int_of_string t) in
         if Z.ltb !s.now t then apply (ATick (Z.sub t !s.now))
       | ["X"; t] ->
         let t = zt (int_of_string t) in
         if Z.ltb !s.now t then apply (ATick (Z.sub t !s.now));
         apply ASignal
       | _ -> failwith ("bad WL action: " ^ a));
      settle_now ();
      if not !first then (Buffer.add_char obs ' '; Buffer.add_string dumps " ; ");
      first := false;
      if !bad <> "" then Buffer.add_string obs !bad
      else begin
        for k = 0 to n - 1 do
          Buffer.add_char obs
            (match !s.pc (nat_of_int k) with
             | Idle -> '-' | WaitU | WaitT | PastT -> 'w'
             | Ret SUCCESS -> '0' | Ret TIMEDOUT -> 'T')
        done;
        let w = !s.sw in
        let q = wl_walk (nat_of_int 40) w.next w.head in
        Buffer.add_string dumps ("q=" ^ String.concat "," (List.map (fun x -> id_str (Some x)) q));
        let pvs = match q with
          | [] -> []
          | _ :: r -> List.filter_map (fun x ->
              if w.timed x then Some (id_str (Some x) ^ ":" ^ id_str (w.prev x)) else None) r in
        Buffer.add_string dumps (" pv=" ^ String.concat "," pvs);
        Buffer.add_string dumps (" tl=" ^ id_str w.tail)
      end)
    (split_on ',' acts);
  "WL " ^ Buffer.contents obs ^ " | " ^ Buffer.contents dumps

(* ------------------------------------------------------------------ PW *)
let do_pw line =
  let hd, script = match String.split_on_char ';' line with
    | [h] -> h, "" | h :: a :: _ -> h, a | [] -> failwith "empty" in
  let pk, op, secs, tail = match words hd with
    | [_; pk; op; secs; tail] -> pk, op, int_of_string secs, tail = "1"
    | _ -> failwith "bad PW header" in
  let isw = (pk = "W") in
  let c = { kind = (if isw then VFifoWait else if op = "w" then VPopWait else VTimedWait);
            from_tail = (tail && pk = "R");   (* fifo.c ignores the context *)
            secs = (if isw then Z0 else if op = "w" then z_of_int secs else zt secs) } in
  let steps = List.map words (split_on ',' script) in
  let ninit, steps = match steps with
    | ["i"; n] :: r -> int_of_string n, r
    | r -> 0, r in
  let s = ref (pw_init c (List.init ninit nat_of_int) base) in
  let next_unit = ref ninit in
  let quiesce () = if not isw then s := wsteps c (nat_of_int 12) !s in
  let one_step () = match wstep c !s with Some s' -> s := s' | None -> () in
  let env a = match pw_step c !s a with Some s' -> s := s' | None -> () in
  (* the blocking pop starts *)
  if isw then one_step () else quiesce ();
  List.iter (fun st ->
      match st with
      | ["p"] ->
        env (PW_Push (nat_of_int !next_unit)); incr next_unit;
        if isw then (match !s.wloc with PCondWait -> one_step () | _ -> ()) else quiesce ()
      | ["o"] -> env PW_OtherPop; quiesce ()
      | ["a"; t] ->
        let t = zt (int_of_string t) in
        if Z.ltb !s.clock t then env (PW_Tick (Z.sub t !s.clock));
        quiesce ()
      | _ -> failwith "bad PW step")
    steps;
  (* fifo_wait.c: the real-time timeout ends the wait *)
  if isw then (match !s.wloc with PCondWait -> one_step () | _ -> ());
  let ids l = String.concat "," (List.map (fun x -> string_of_int (int_of_nat x)) l) in
  let r = match pw_result !s with
    | None -> "wait"
    | Some None -> "N"
    | Some (Some u) -> string_of_int (int_of_nat u) in
  "PW r=" ^ r ^ " pool=[" ^ ids !s.pool ^ "] others=[" ^ ids !s.others ^ "]"


(* ------------------------------------------------------------------ BW *)
(* src/sched/basic_wait.c: the scheduler calls pop_wait(0.1 s) again and again and
   runs what it gets; 0.1 s is less than one tick, so secs = 0 (elapsed > 0). *)
let do_bw line =
  let hd, script = match String.split_on_char ';' line with
    | [h] -> h, "" | h :: a :: _ -> h, a | [] -> failwith "empty" in
  let isw = (match words hd with [_; "W"] -> true | _ -> false) in
  let c = { kind = (if isw then VFifoWait else VPopWait); from_tail = false; secs = Z0 } in
  let ran = ref [] in
  let cur = ref (pw_init c [] base) in
  let rec sched fuel =
    if fuel > 0 then begin
      (if isw then (match !cur.wloc with PEnter -> (match wstep c !cur with Some s -> cur := s | None -> ()) | _ -> ())
       else cur := wsteps c (nat_of_int 12) !cur);
      match pw_result !cur with
      | Some r ->
        (match r with Some u -> ran := u :: !ran | None -> ());
        cur := pw_init c !cur.pool !cur.clock;
        (* pushed/others ghosts restart with the pool content; ids stay unique *)
        sched (fuel - 1)
      | None -> ()
    end in
  sched 50;
  let next_unit = ref 0 in
  List.iter (fun st ->
      match words st with
      | ["p"] ->
        (match pw_step c !cur (PW_Push (nat_of_int !next_unit)) with Some s -> cur := s | None -> failwith "push");
        incr next_unit;
        (if isw then match !cur.wloc with
            | PCondWait -> (match wstep c !cur with Some s -> cur := s | None -> ())
            | _ -> ());
        sched 50
      | ["a"; t] ->
        let t = zt (int_of_string t) in
        if Z.ltb !cur.clock t then
          (match pw_step c !cur (PW_Tick (Z.sub t !cur.clock)) with Some s -> cur := s | None -> ());
        sched 50
      | _ -> failwith "bad BW step")
    (split_on ',' script);
  "BW ran=[" ^ String.concat "," (List.rev_map (fun x -> string_of_int (int_of_nat x)) !ran) ^ "] joined"

(* ------------------------------------------------------------------ RC *)
(* Concurrency monitor, not a replay of the Coq model: the clock is frozen far before
   the deadline and exactly one signal is sent per round while the waiter is
   committed to its wait, so by the verdict rule (C19_timeout_verdict: TIMEDOUT only
   when not READY at the locked test with now >= deadline; the waiter that released
   the mutex is already queued -- the atomic release-and-wait step is C05's theorem)
   every round returns ABT_SUCCESS.  The expected line is that constant. *)
let do_rc line =
  match words line with
  | _ :: rounds :: _ ->
    let n = int_of_string rounds in
    Printf.sprintf "RC rounds=%d ok=%d lost=0 other=0" n n
  | _ -> failwith "bad RC line"

let () =
  let ic = if Array.length Sys.argv > 1 then open_in Sys.argv.(1) else stdin in
  List.iter (fun line ->
      let line = strip line in
      if line <> "" && line.[0] <> '#' then
        print_endline (if String.length line >= 2 && String.sub line 0 2 = "WL" then do_wl line
                       else if String.sub line 0 2 = "PW" then do_pw line
                       else if String.sub line 0 2 = "BW" then do_bw line
                       else if String.sub line 0 2 = "RC" then do_rc line
                       else failwith ("bad line: " ^ line)))
    (read_lines ic)
