(* C09 driver: replays a recorded history (harness/h_c09.c) through the extracted
   Eventual / Future LTSs, one LTS instance per object, and evaluates monitors that
   use only the harness' own BEGIN / END / value records (independent of the LTS).
   usage: drv_c09 <history>  ->  line 1: OK ... | MISMATCH ... ;  line 2: MON ok | MONFAIL ... *)
let vpc_name = function
  | VIdle -> "Idle" | VFin -> "Fin" | VS0 -> "S0" | VS1 -> "S1" | VS2 -> "S2" | VS2w -> "S2w" | VS2b -> "S2b"
  | VW0 -> "W0" | VW1 -> "W1" | VUQ -> "UQ" | VUS -> "US" | VEW -> "EW" | VEWr -> "EWr" | VES -> "ES" | VER -> "ER"
  | VWR -> "WR" | VT0 -> "T0" | VT1 -> "T1" | VTR -> "TR" | VR0 -> "R0" | VR1 -> "R1" | VR2 -> "R2"
let fpc_name = function
  | FIdle -> "Idle" | FFin -> "Fin" | FS0 -> "S0" | FS1 -> "S1" | FS2 -> "S2" | FS3 -> "S3" | FS3w -> "S3w" | FS3b -> "S3b"
  | FS4 -> "S4" | FW0 -> "W0" | FW1 -> "W1" | FUQ -> "UQ" | FUS -> "US" | FEW -> "EW" | FEWr -> "EWr" | FES -> "ES"
  | FER -> "ER" | FWF -> "WF" | FT0 -> "T0" | FTR -> "TR" | FR0 -> "R0" | FR1 -> "R1" | FR2 -> "R2"
let olock = function Some h -> string_of_int (int_of_nat h) | None -> "free"
let lst l = String.concat "," (List.map (fun x -> string_of_int (int_of_nat x)) l)
let zlst l = String.concat "," (List.map string_of_z l)

(* one finished or unfinished API call as the harness saw it *)
type opr = { actor : int; akind : char; op : int; oval : int; onb : int; b_idx : int;
             mutable e_idx : int; mutable oret : int; mutable rflag : int; mutable rval : int; mutable r_idx : int }

exception Mis of string

let () =
  let lines = read_lines (open_in Sys.argv.(1)) in
  let status = ref "" in
  let thrkind = Hashtbl.create 16 in
  let ecap = Hashtbl.create 8 and fdecl = Hashtbl.create 8 in
  let cbunknown = ref 0 in
  let thrdone = ref [] in
  let evs = ref [] in
  let kv rest = List.map (fun w -> match String.split_on_char '=' w with [k; v] -> (k, int_of_string v) | _ -> ("", 0)) rest in
  List.iteri (fun i l ->
      match words l with
      | "STATUS" :: s :: _ -> status := s
      | "THR" :: t :: k :: _ -> Hashtbl.replace thrkind (int_of_string t) k.[0]
      | "MON" :: m :: rest ->
        let k = kv rest in
        if m = "x" then cbunknown := List.assoc "cbunknown" k
        else begin
          let idx = int_of_string (String.sub m 1 (String.length m - 1)) in
          if m.[0] = 'e' then Hashtbl.replace ecap idx (List.assoc "cap" k)
          else Hashtbl.replace fdecl idx (List.assoc "n" k, List.assoc "cb" k, List.assoc "cbcount" k)
        end
      | "THRDONE" :: t :: d :: _ -> thrdone := (int_of_string t, int_of_string d) :: !thrdone
      | a :: k :: rest -> evs := (i, int_of_string a, k, rest) :: !evs
      | _ -> ()) lines;
  let evs = List.rev !evs in
  let ne = Hashtbl.length ecap and nf = Hashtbl.length fdecl in
  let es = Array.init ne (fun i -> vinit (nat_of_int (Hashtbl.find ecap i))) in
  let fs = Array.init nf (fun i -> let (n, cb, _) = Hashtbl.find fdecl i in finit (nat_of_int n) (cb <> 0)) in
  let ckind_of a = match (try Hashtbl.find thrkind a with Not_found -> 'U') with 'U' -> KUlt | 'E' -> KExt | _ -> KTask in
  let obj_of o = (* "e3.lock" -> ('e', 3, "lock") *)
    match String.split_on_char '.' o with
    | [m; f] when String.length m >= 2 && (m.[0] = 'e' || m.[0] = 'f') ->
      (m.[0], int_of_string (String.sub m 1 (String.length m - 1)), f)
    | _ -> raise (Mis ("record on an unregistered object " ^ o)) in
  let node n = if n = "none" then -1 else int_of_string (String.sub n 1 (String.length n - 1)) in
  let mismatch = ref None in
  let count = ref 0 in
  (* harness-side operation records for the monitors *)
  let eops = Array.make ne [] and fops = Array.make nf [] in
  let cbvals = Array.make nf [] in            (* (idx, actor, slot, value) *)
  let cur : (int, opr) Hashtbl.t = Hashtbl.create 16 in
  let describe_e i a =
    let s = es.(i) in
    Printf.sprintf "pc=%s lock=%s ready=%b value=%s wl=[%s] gen=%d"
      (if a >= 0 then vpc_name (s.epc (nat_of_int a)) else "-") (olock s.elock) s.eready (string_of_z s.evalue) (lst s.ewl)
      (int_of_nat s.egen) in
  let describe_f i a =
    let s = fs.(i) in
    Printf.sprintf "pc=%s lock=%s counter=%d n=%d cb=%b cb_calls=%d slots=[%s] wl=[%s] gen=%d"
      (if a >= 0 then fpc_name (s.fpc (nat_of_int a)) else "-") (olock s.flock) (int_of_nat s.fcounter) (int_of_nat s.fnc)
      s.fcb (int_of_nat s.fcbc) (zlst s.fslots) (lst s.fwl) (int_of_nat s.fgen) in
  (try
    List.iter (fun (ln, a, k, rest) ->
      let na = nat_of_int a in
      let bad msg = raise (Mis (Printf.sprintf "line=%d actor=%d event=%s %s : %s" ln a k (String.concat " " rest) msg)) in
      (* ---- monitors' bookkeeping (harness records only) ---- *)
      (match k, rest with
       | "BEGIN", [opc; o; v] ->
         let opc = int_of_string opc in
         let r = { actor = a; akind = (try Hashtbl.find thrkind a with Not_found -> '?'); op = opc mod 100; oval = int_of_string v;
                   onb = opc / 100; b_idx = ln; e_idx = -1; oret = -1; rflag = -1; rval = 0; r_idx = -1 } in
         Hashtbl.replace cur a r;
         let o = int_of_string o in
         if r.op < 10 then eops.(o) <- r :: eops.(o) else fops.(o) <- r :: fops.(o)
       | "END", [_; _; r] -> (match Hashtbl.find_opt cur a with
           | Some c -> c.e_idx <- ln; c.oret <- int_of_string r; Hashtbl.remove cur a
           | None -> ())
       | ("K1010" | "K1011"), [_; f; v] -> (match Hashtbl.find_opt cur a with
           | Some c -> c.rflag <- int_of_string f; c.rval <- int_of_string v; c.r_idx <- ln
           | None -> ())
       | "K1012", [o; sl; v] -> let o = int_of_string o in
         cbvals.(o) <- (ln, a, int_of_string sl, int_of_string v) :: cbvals.(o)
       | _ -> ());
      (* ---- replay ---- *)
      if !mismatch = None then begin
      try
        let tr =
          match k, rest with
          | "BEGIN", [opc; o; v] ->
            let opc = int_of_string opc in
            let op = opc mod 100 and nb = opc / 100 in
            let o = int_of_string o in
            if op < 10 then
              `E (o, VBegin (na, ckind_of a, (match op with 0 -> VOSet (z_of_string v, nat_of_int nb) | 1 -> VOWait | 2 -> VOTest | _ -> VOReset)))
            else
              `F (o, FBegin (na, ckind_of a, (match op with 10 -> FOSet (z_of_string v) | 11 -> FOWait | 12 -> FOTest | _ -> FOReset)))
          | "END", [opc; o; r] ->
            let o = int_of_string o in
            if int_of_string opc < 10 then `E (o, VEnd (na, z_of_string r)) else `F (o, FEnd (na, z_of_string r))
          | "ACQ", [o; _; _] -> (match obj_of o with
              | ('e', i, _) -> `E (i, VAcq na) | (_, i, _) -> `F (i, FAcq na))
          | "REL", [o; _; _] -> (match obj_of o with
              | ('e', i, _) -> `E (i, VRel) | (_, i, _) -> `F (i, FRel))
          | "ENQ", [o; n; c] ->
            if node n <> a then bad "node enqueued by another thread";
            if c <> "0" && c <> "1" then bad "timed enqueue on an eventual/future";
            (match obj_of o with
              | ('e', i, _) -> `E (i, VEnq (na, c = "1")) | (_, i, _) -> `F (i, FEnq (na, c = "1")))
          | "WAKE", [o; n; _] -> (match obj_of o with
              | ('e', i, _) -> `E (i, VWake (nat_of_int (node n))) | (_, i, _) -> `F (i, FWake (nat_of_int (node n))))
          | "BCAST", [o; _; _] -> (match obj_of o with
              | ('e', i, _) -> `E (i, VBcast) | (_, i, _) -> `F (i, FBcast))
          | "DATA", [o; fld; c] ->
            if fld <> "1" then bad "unknown field";
            (match obj_of o with
              | ('e', i, _) -> `E (i, VData (na, z_of_string c)) | (_, i, _) -> `F (i, FData (na, z_of_string c)))
          | "LOAD", [o; fld; c] ->
            if fld <> "1" then bad "unknown field";
            (match obj_of o with
              | ('f', i, _) -> `F (i, FLoad (na, z_of_string c)) | _ -> bad "LOAD on an eventual")
          | "CALLBACK", [o; _; _] -> (match obj_of o with
              | ('f', i, _) -> `F (i, FCallback na) | _ -> bad "CALLBACK on an eventual")
          | "K1010", [o; f; v] -> `E (int_of_string o, VRead (na, f <> "0", z_of_string v))
          | "K1011", [o; f; _] -> `F (int_of_string o, FNote (na, f <> "0"))
          | "K1012", [o; sl; v] -> `F (int_of_string o, FCbVal (na, nat_of_int (int_of_string sl), z_of_string v))
          | _ -> bad "a record the eventual/future code never produces" in
        let needs_actor = (match k with "REL" | "WAKE" | "BCAST" -> false | _ -> true) in
        if needs_actor && a < 0 then bad "by an unregistered actor";
        (match tr with
         | `E (i, e) ->
           if i < 0 || i >= ne then bad "no such eventual";
           (match vstep es.(i) e with
            | Some s' -> es.(i) <- s'; incr count
            | None -> bad (Printf.sprintf "not enabled in the model (e%d %s)" i (describe_e i a)))
         | `F (i, e) ->
           if i < 0 || i >= nf then bad "no such future";
           (match fstep fs.(i) e with
            | Some s' -> fs.(i) <- s'; incr count
            | None -> bad (Printf.sprintf "not enabled in the model (f%d %s)" i (describe_f i a))))
      with Mis m -> mismatch := Some m
      end) evs
  with Mis m -> mismatch := Some m);
  (match !mismatch with
   | None -> Printf.printf "OK events=%d eventuals=%d futures=%d status=%s\n" !count ne nf !status
   | Some m -> Printf.printf "MISMATCH %s\n" m);

  (* ------------------------------------------------------------------ monitors *)
  let bad = ref [] in
  let add fmt = Printf.ksprintf (fun s -> if not (List.mem s !bad) then bad := s :: !bad) fmt in
  if !status <> "DONE" then add "status=%s" !status;
  List.iter (fun (t, d) -> if d <> 1 then add "thread%d-not-finished" t) !thrdone;
  if !cbunknown <> 0 then add "callback-with-unknown-array";
  let done_ = !status = "DONE" in
  (* split an object's operations into generations at its resets *)
  let generations ops =
    let ops = List.rev ops in  (* in BEGIN order *)
    let gens = ref [] and curg = ref [] and bounds = ref [] and lo = ref 0 in
    List.iter (fun r ->
        if r.op mod 10 = 3 then begin
          gens := List.rev !curg :: !gens; bounds := (!lo, r.b_idx) :: !bounds; lo := r.b_idx; curg := [];
          if r.e_idx >= 0 && r.oret <> 0 then add "reset-returned-%d" r.oret
        end else curg := r :: !curg) ops;
    gens := List.rev !curg :: !gens; bounds := (!lo, max_int) :: !bounds;
    List.combine (List.rev !gens) (List.rev !bounds) in
  (* eventuals *)
  Array.iteri (fun i ops ->
      let cap = Hashtbl.find ecap i in
      let buf = ref 0 in
      List.iter (fun (g, _) ->
          let sets = List.filter (fun r -> r.op = 0 && r.e_idx >= 0) g in
          let succ = List.filter (fun r -> r.oret = 0) sets in
          if List.length succ > 1 then add "e%d:two-successful-sets-without-reset" i;
          List.iter (fun r ->
              if r.onb > cap then (if r.oret <> 24 then add "e%d:oversized-set-returned-%d" i r.oret)
              else if r.oret = 44 then begin
                if not (List.exists (fun s -> s.b_idx < r.e_idx) succ) then add "e%d:set-failed-on-an-unready-eventual" i
              end else if r.oret <> 0 then add "e%d:set-returned-%d" i r.oret) sets;
          let expected = match succ with s :: _ -> Some (if s.onb >= 1 then s.oval else !buf) | [] -> None in
          List.iter (fun r ->
              if r.op = 1 && r.e_idx >= 0 then begin
                if r.akind = 'T' then (if r.oret <> 44 then add "e%d:tasklet-wait-returned-%d" i r.oret)
                else if r.oret <> 0 then add "e%d:wait-returned-%d" i r.oret
                else begin
                  if not (List.exists (fun s -> s.b_idx < r.r_idx) succ) then add "e%d:wait-returned-before-any-set" i
                  else if Some r.rval <> expected then add "e%d:wait-read-%d-but-set-wrote-%d" i r.rval (match expected with Some v -> v | None -> 0)
                end
              end;
              if r.op = 2 && r.e_idx >= 0 then begin
                if r.oret <> 0 then add "e%d:test-returned-%d" i r.oret;
                if r.rflag = 1 then begin
                  if not (List.exists (fun s -> s.b_idx < r.r_idx) succ) then add "e%d:test-ready-before-any-set" i
                  else if Some r.rval <> expected then add "e%d:test-read-%d-but-set-wrote-%d" i r.rval (match expected with Some v -> v | None -> 0)
                end else begin
                  if List.exists (fun s -> s.e_idx >= 0 && s.e_idx < r.b_idx) succ then add "e%d:test-not-ready-after-a-completed-set" i;
                  if List.exists (fun w -> w.op = 1 && w.oret = 0 && w.e_idx >= 0 && w.e_idx < r.b_idx) g then
                    add "e%d:test-not-ready-after-a-wait-returned" i
                end
              end) g;
          (match expected with Some v -> buf := v | None -> ())) (generations ops)) eops;
  (* futures *)
  let exp_cb_total = Array.make nf 0 in
  Array.iteri (fun i ops ->
      let (n, cb, cbcount) = Hashtbl.find fdecl i in
      List.iter (fun (g, (lo, hi)) ->
          let sets = List.filter (fun r -> r.op = 10 && r.e_idx >= 0) g in
          let unfinished = List.exists (fun r -> r.op = 10 && r.e_idx < 0) g in
          let succ = List.filter (fun r -> r.oret = 0) sets in
          let nsucc_begun_before x = List.length (List.filter (fun s -> s.b_idx < x) succ) in
          let nsucc_ended_before x = List.length (List.filter (fun s -> s.e_idx < x) succ) in
          if List.length succ > n then add "f%d:%d-successful-sets-for-%d-compartments" i (List.length succ) n;
          if not unfinished && List.length succ < min n (List.length sets) then add "f%d:set-failed-before-the-future-was-full" i;
          List.iter (fun r ->
              if r.oret = 45 then (if nsucc_begun_before r.e_idx < n then add "f%d:set-failed-before-the-future-was-full" i)
              else if r.oret <> 0 then add "f%d:set-returned-%d" i r.oret) sets;
          (* callback: harness records inside this generation *)
          let cbs = List.filter (fun (ln, _, _, _) -> ln > lo && ln < hi) (List.rev cbvals.(i)) in
          let ncalls = List.length (List.filter (fun (_, _, sl, _) -> sl = 0) cbs) in
          let full = List.length succ = n in
          let expc = if cb <> 0 && n > 0 && full then 1 else 0 in
          exp_cb_total.(i) <- exp_cb_total.(i) + expc;
          if ncalls <> expc && (done_ || ncalls > expc) then add "f%d:callback-ran-%d-times-expected-%d" i ncalls expc;
          if ncalls = 1 && expc = 1 then begin
            let seen = List.sort compare (List.map (fun (_, _, _, v) -> v) cbs) in
            let setv = List.sort compare (List.map (fun s -> s.oval) succ) in
            if seen <> setv then add "f%d:callback-saw-[%s]-but-sets-wrote-[%s]" i
                (String.concat "," (List.map string_of_int seen)) (String.concat "," (List.map string_of_int setv));
            List.iter (fun (ln, a, _, _) ->
                if not (List.exists (fun s -> s.actor = a && s.b_idx < ln && ln < s.e_idx) succ) then
                  add "f%d:callback-outside-a-successful-set" i) cbs
          end;
          let cb_last = List.fold_left (fun m (ln, _, _, _) -> max m ln) (-1) cbs in
          List.iter (fun r ->
              if r.op = 11 && r.e_idx >= 0 then begin
                if r.akind = 'T' then (if r.oret <> 45 then add "f%d:tasklet-wait-returned-%d" i r.oret)
                else if r.oret <> 0 then add "f%d:wait-returned-%d" i r.oret
                else begin
                  if nsucc_begun_before r.e_idx < n then add "f%d:wait-returned-before-%d-sets" i n;
                  if cb <> 0 && n > 0 && not (cb_last >= 0 && cb_last < r.e_idx) then add "f%d:wait-returned-before-the-callback" i
                end
              end;
              if r.op = 12 && r.e_idx >= 0 then begin
                if r.oret <> 0 then add "f%d:test-returned-%d" i r.oret;
                if r.rflag = 1 then begin
                  if nsucc_begun_before r.r_idx < n then add "f%d:test-ready-before-%d-sets" i n;
                  if cb <> 0 && n > 0 && not (cb_last >= 0 && cb_last < r.r_idx) then add "f%d:test-ready-before-the-callback" i
                end else begin
                  if nsucc_ended_before r.b_idx >= n then add "f%d:test-not-ready-after-%d-completed-sets" i n;
                  if List.exists (fun w -> w.op = 11 && w.oret = 0 && w.e_idx >= 0 && w.e_idx < r.b_idx) g then
                    add "f%d:test-not-ready-after-a-wait-returned" i
                end
              end) g) (generations ops);
      if done_ && cbcount <> exp_cb_total.(i) then add "f%d:callback-count-%d-expected-%d" i cbcount exp_cb_total.(i)) fops;
  (* final model state: everything quiescent *)
  if !mismatch = None && done_ then begin
    Array.iteri (fun i s -> if s.elock <> None || s.ewl <> [] then add "e%d:model-final-state-not-quiescent" i) es;
    Array.iteri (fun i s -> if s.flock <> None || s.fwl <> [] then add "f%d:model-final-state-not-quiescent" i) fs
  end;
  if !bad = [] then print_endline "MON ok" else print_endline ("MONFAIL " ^ String.concat " " (List.rev !bad))
