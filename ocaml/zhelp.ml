(* Conversions between OCaml strings/ints and the extracted positive/z/nat
   datatypes.  Textually prepended to each driver after "open <Extracted>". *)
let rec pos_of_int n =
  if n <= 1 then XH
  else if n land 1 = 0 then XO (pos_of_int (n lsr 1)) else XI (pos_of_int (n lsr 1))
let z_of_int n = if n = 0 then Z0 else if n > 0 then Zpos (pos_of_int n) else Zneg (pos_of_int (-n))
let z10 = z_of_int 10
let z_of_string s =
  let s = String.trim s in
  let neg = String.length s > 0 && s.[0] = '-' in
  let start = if neg || (String.length s > 0 && s.[0] = '+') then 1 else 0 in
  let acc = ref Z0 in
  for i = start to String.length s - 1 do
    let d = Char.code s.[i] - 48 in
    if d < 0 || d > 9 then failwith ("z_of_string: " ^ s);
    acc := Z.add (Z.mul !acc z10) (z_of_int d)
  done;
  if neg then Z.opp !acc else !acc
let rec int_of_pos = function XH -> 1 | XO p -> 2 * int_of_pos p | XI p -> 2 * int_of_pos p + 1
(* only valid when the value fits an OCaml int *)
let int_of_z = function Z0 -> 0 | Zpos p -> int_of_pos p | Zneg p -> - (int_of_pos p)
let rec bits_of_pos = function XH -> 1 | XO p | XI p -> 1 + bits_of_pos p
let string_of_z z =
  let small = match z with Z0 -> true | Zpos p | Zneg p -> bits_of_pos p <= 60 in
  if small then string_of_int (int_of_z z)
  else begin
    let neg = (match z with Zneg _ -> true | _ -> false) in
    let a = ref (if neg then Z.opp z else z) in
    let buf = Buffer.create 32 in
    while !a <> Z0 do
      let d = Z.modulo !a z10 in
      Buffer.add_char buf (Char.chr (48 + int_of_z d));
      a := Z.div !a z10
    done;
    let s = Buffer.contents buf in
    let n = String.length s in
    let r = String.init n (fun i -> s.[n - 1 - i]) in
    (if neg then "-" else "") ^ r
  end
let rec nat_of_int n = if n <= 0 then O else S (nat_of_int (n - 1))
let rec int_of_nat = function O -> 0 | S n -> 1 + int_of_nat n
let split_on c s = List.filter (fun x -> String.trim x <> "") (String.split_on_char c s)
let words s = split_on ' ' s
let read_lines ic =
  let l = ref [] in
  (try while true do l := input_line ic :: !l done with End_of_file -> ());
  List.rev !l
