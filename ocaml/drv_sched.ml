(* Scheduler history replay: maps the records of harness/h_sched.c to the labels
   of the extracted LTS Conc/Sched.v and replays them.  usage: drv_sched <history> [verbose]
   line 1: OK ... | MISMATCH ...      line 2: MON ok | MONFAIL ... *)
let verbose = Array.length Sys.argv > 2
let nat_tbl : (int, nat) Hashtbl.t = Hashtbl.create 1024
let rec nat_of n = if n <= 0 then O else
    match Hashtbl.find_opt nat_tbl n with Some x -> x | None -> let x = S (nat_of (n - 1)) in Hashtbl.replace nat_tbl n x; x
let hex s = int_of_string ("0x" ^ s)
let ust_name = function
  | UNone -> "None" | UCreated -> "Created" | UQueued -> "Queued" | UPopped -> "Popped" | UChecked -> "Checked"
  | URunning -> "Running" | UFinished -> "Finished" | UCbS (_, n) -> "Cb." ^ string_of_int (int_of_nat n)
  | UBlocked -> "Blocked" | UHandoff -> "Handoff" | UResuming -> "Resuming" | UCancelling -> "Cancelling" | UTerm -> "Term" | UFreed -> "Freed"

(* ---- identity maps ---- *)
let unit_of_ptr : (int, int) Hashtbl.t = Hashtbl.create 64       (* pointer -> current model id *)
let next_uid = ref 1
let preinit : (int, bool) Hashtbl.t = Hashtbl.create 64          (* ids allocated by SETPOOL before UINIT *)
let pool_of_ptr : (int, int) Hashtbl.t = Hashtbl.create 16
let next_pid = ref 1000
let queue_pool : (int, int) Hashtbl.t = Hashtbl.create 16
let actor_id : (int, int) Hashtbl.t = Hashtbl.create 16
let next_aid = ref 1
let sched_unit : (int, int) Hashtbl.t = Hashtbl.create 8         (* sched ptr -> ythread ptr *)
let is_sched_unit : (int, bool) Hashtbl.t = Hashtbl.create 8     (* model ids of scheduler ULTs *)
let idx_ptr : (int, int) Hashtbl.t = Hashtbl.create 64           (* scenario unit index -> pointer (named units) *)
let idx_uid : (int, int) Hashtbl.t = Hashtbl.create 64
let dummy_target : (int, int) Hashtbl.t = Hashtbl.create 8       (* external joiner dummy id -> target id *)
let pending_nb : (int, (int * bool * z)) Hashtbl.t = Hashtbl.create 8
let primary_ptr = ref 0
let api_bad : string list ref = ref []
let last_ok_req : (int, int) Hashtbl.t = Hashtbl.create 8
let last_mig_req : (int * int, int * int) Hashtbl.t = Hashtbl.create 8
let cb_installed : (int, bool) Hashtbl.t = Hashtbl.create 8   (* scenario unit index -> a migration callback is installed *)
let mig_stored : (int, bool) Hashtbl.t = Hashtbl.create 8      (* actor -> a MIGST record since its migrate_to_pool call began *)
let ext_joiner : (int, int) Hashtbl.t = Hashtbl.create 8         (* actor pointer -> dummy id of its current join *)
let root_ptrs : (int, bool) Hashtbl.t = Hashtbl.create 8         (* root ULTs of the streams: outside the model *)

(* ---- state with O(1) maps: after every step the touched entries are copied into hash tables ---- *)
let un_tbl : (int, urec) Hashtbl.t = Hashtbl.create 256
let po_tbl : (int, prec) Hashtbl.t = Hashtbl.create 16
let seen_tbl : (int * int, bool) Hashtbl.t = Hashtbl.create 64
let cur = ref { un = (fun x -> match Hashtbl.find_opt un_tbl (int_of_nat x) with Some r -> r | None -> u0);
                po = (fun x -> match Hashtbl.find_opt po_tbl (int_of_nat x) with Some r -> r | None -> { q = []; nb = Z0; cu = [] });
                seen = (fun a u -> match Hashtbl.find_opt seen_tbl (int_of_nat a, int_of_nat u) with Some b -> b | None -> false) }
let base = !cur
let compact s units pools seens =
  List.iter (fun u -> Hashtbl.replace un_tbl u (s.un (nat_of u))) units;
  List.iter (fun p -> Hashtbl.replace po_tbl p (s.po (nat_of p))) pools;
  List.iter (fun (a, u) -> Hashtbl.replace seen_tbl (a, u) (s.seen (nat_of a) (nat_of u))) seens;
  cur := base

let pool_id ptr = match Hashtbl.find_opt pool_of_ptr ptr with
  | Some p -> p | None -> let p = !next_pid in incr next_pid; Hashtbl.replace pool_of_ptr ptr p; p
let aid ptr = match Hashtbl.find_opt actor_id ptr with
  | Some a -> a | None -> let a = !next_aid in incr next_aid; Hashtbl.replace actor_id ptr a; a
let fresh_uid ptr = let u = !next_uid in incr next_uid; Hashtbl.replace unit_of_ptr ptr u; u

exception Mismatch of string
let count = ref 0

(* ---- stop-decision monitor (coq/Conc/SchedStop.v, theorem C06_stop_sound) ----
   per actor: what it observed since it last did anything else (newest first) *)
let world = ref 0   (* number of records so far that are not idle reads: reads made in the same epoch observe one model state *)
let line_epoch : (int, int) Hashtbl.t = Hashtbl.create 64
type wrec = WObs of int * sobs * bool   (* line, observation, no unit of that pool in somebody's hands (zero reads only) *)
          | WNs of int * int * int      (* line, pool, num_scheds read *)
          | WCancel
let win : (int, wrec list) Hashtbl.t = Hashtbl.create 8
let last_uncalm : (int, int) Hashtbl.t = Hashtbl.create 16   (* pool -> last line of an arrival / pop *)
let stops = ref 0 and stops_hyp = ref 0 and stops_outside = ref 0 and stops_shared = ref 0 and stops_cancel = ref 0
let known_pools () = 99 :: Hashtbl.fold (fun _ p acc -> if List.mem p acc then acc else p :: acc) pool_of_ptr []
let no_hands p =
  let ok = ref true in
  for u = 1 to !next_uid - 1 do
    if unit_in_hands ((!cur).un (nat_of u)) (nat_of p) then ok := false
  done; !ok
let all_done p =
  let live = ref [] in
  for u = 1 to !next_uid - 1 do
    if not (unit_done ((!cur).un (nat_of u)) (nat_of p)) then live := u :: !live
  done; !live
let pending_empty : (int, int * int) Hashtbl.t = Hashtbl.create 8   (* actor -> (line, queue) of an "empty" read of an unknown queue *)
let wline = function WObs (l, _, _) -> l | WNs (l, _, _) -> l | WCancel -> -1
let win_len : (int, int) Hashtbl.t = Hashtbl.create 8
let rec take n = function [] -> [] | x :: r -> if n <= 0 then [] else x :: take (n - 1) r
let note_obs aptr r =
  if not (Hashtbl.mem line_epoch (wline r)) then Hashtbl.replace line_epoch (wline r) !world;
  let l = (match Hashtbl.find_opt win aptr with Some l -> l | None -> []) in
  let n = (match Hashtbl.find_opt win_len aptr with Some n -> n | None -> 0) in
  (* an idle scheduler reads for ever: only its latest observations can matter for its next stop decision *)
  if n >= 512 then begin Hashtbl.replace win aptr (r :: take 255 l); Hashtbl.replace win_len aptr 256 end
  else begin Hashtbl.replace win aptr (r :: l); Hashtbl.replace win_len aptr (n + 1) end
let learn_queue aptr p =
  match Hashtbl.find_opt pending_empty aptr with
  | Some (l, qp) ->
    Hashtbl.remove pending_empty aptr;
    if not (Hashtbl.mem queue_pool qp) then begin
      Hashtbl.replace queue_pool qp p;
      note_obs aptr (WObs (l, SEmpty (nat_of p, true), false))
    end
  | None -> ()
let sched_stop ln aptr =
  let w = List.rev (match Hashtbl.find_opt win aptr with Some l -> l | None -> []) in
  incr stops;
  if List.exists (function WCancel -> true | _ -> false) w then incr stops_cancel
  else begin
    let w = List.sort (fun a b -> compare (wline a) (wline b)) w in
    (* reads between which nothing but idle reads (of any actor) was recorded observe one and the same model state,
       so their order among themselves is immaterial: they form a group (the epoch of their lines) *)
    let gof l = try Hashtbl.find line_epoch l with Not_found -> -1 in
    (* within a group: counter reads before emptiness reads *)
    let key = function WObs (l, SNb _, _) -> (gof l, 0, l) | WObs (l, SEmpty _, _) -> (gof l, 1, l) | r -> (gof (wline r), 2, wline r) in
    let w = List.sort (fun a b -> compare (key a) (key b)) w in
    let obs = List.filter_map (function WObs (_, o, _) -> Some o | _ -> None) w in
    let pools = List.sort_uniq compare (List.map (function SEmpty (p, _) -> int_of_nat p | SNb (p, _) -> int_of_nat p) obs) in
    if pools = [] then
      api_bad := Printf.sprintf "line%d:scheduler-stopped-on-a-join-request-without-looking-at-any-of-its-pools" ln :: !api_bad;
    List.iter (fun p ->
        if List.exists (function WNs (_, p', v) -> p' = p && v <> 1 | _ -> false) w then incr stops_shared
        else if not (zero_then_empty (nat_of p) false obs) then
          api_bad := Printf.sprintf "line%d:scheduler-stopped-without-reading-num_blocked=0-and-then-an-empty-queue-for-pool%d" ln p :: !api_bad
        else begin
          (* the last "empty" read, and the last zero read that is not later than it (same group counts) *)
          let le = List.fold_left (fun acc r -> match r with
              | WObs (l, SEmpty (p', true), _) when int_of_nat p' = p -> max acc l | _ -> acc) (-1) w in
          let z = List.fold_left (fun acc r -> match r with
              | WObs (l, SNb (p', v), nh) when int_of_nat p' = p && v = Z0 && gof l <= gof le ->
                (match acc with Some (l', _) when l' > l -> acc | _ -> Some (l, nh))
              | _ -> acc) None w in
          (match z with
           | Some (l0, nh) when nh && (match Hashtbl.find_opt last_uncalm p with Some l -> l < l0 | None -> true) ->
             incr stops_hyp;
             (match all_done p with
              | [] -> ()
              | live -> api_bad := Printf.sprintf "line%d:stop-decision-for-pool%d-meets-the-hypotheses-of-C06_stop_sound-but-units-%s-are-not-done" ln p
                            (String.concat "," (List.map string_of_int live)) :: !api_bad)
           | _ -> incr stops_outside)
        end) pools
  end;
  Hashtbl.remove win aptr; Hashtbl.remove win_len aptr

let apply ln desc e units pools seens =
  match step !cur e with
  | Some s' -> incr count;
    List.iter (fun p -> if not (calm (nat_of p) e) then Hashtbl.replace last_uncalm p ln) (known_pools ());
    compact s' units pools seens
  | None ->
    let info = String.concat " " (List.map (fun u -> let r = (!cur).un (nat_of u) in
                                             Printf.sprintf "[u%d:%s ost=%s pool=%d req=%b%b%b migs=%d]" u (ust_name r.ust)
                                               (string_of_z r.ost) (int_of_nat r.upool) r.rjoin r.rcancel r.rmig (int_of_nat r.migs)) units) in
    raise (Mismatch (Printf.sprintf "line=%d event=%s : not enabled in the model %s" ln desc info))

(* a unit that is referred to but was never initialised inside the history existed before it *)
let unit_id ln ptr =
  match Hashtbl.find_opt unit_of_ptr ptr with
  | Some u -> u
  | None ->
    let u = fresh_uid ptr in
    let pool = if ptr = !primary_ptr then 99 else (let p = !next_pid in incr next_pid; p) in
    apply ln (Printf.sprintf "ADOPT %x" ptr) (EAdopt (nat_of u, nat_of pool, true)) [u] [] [];
    u

let cbk_of = function
  | 1 -> KYield | 2 -> KThreadYieldTo | 3 -> KResumeYieldTo | 4 -> KSuspend | 5 -> KResumeSuspendTo | 6 -> KExit
  | 7 -> KResumeExitTo | 8 -> KSuspend | 9 -> KSuspendJoin | 10 -> KSuspend | _ -> KOrphan
let bits v = (v land 1 <> 0, v land 2 <> 0, v land 4 <> 0)

let () =
  let lines = read_lines (open_in Sys.argv.(1)) in
  (* the effect of a num_blocked update takes place at its NBADD record; the unit it is made for is named
     by the next record of the same actor (NBWHO): look ahead *)
  let arr = Array.of_list lines in
  let who_of : (int, string * bool) Hashtbl.t = Hashtbl.create 64 in
  let pend : (string, int) Hashtbl.t = Hashtbl.create 8 in
  Array.iteri (fun i l -> match words l with
      | actor :: "NBADD" :: _ -> Hashtbl.replace pend actor i
      | actor :: "NBWHO" :: t :: _ :: c :: _ -> (match Hashtbl.find_opt pend actor with
          | Some j -> Hashtbl.replace who_of j (t, int_of_string ("0x" ^ c) land 0x100 <> 0); Hashtbl.remove pend actor | None -> ())
      | _ -> ()) arr;
  let status = ref "" and nohooks = ref false in
  let unitstat = ref [] and quiesce = ref [] and xjoin = ref [] in
  let mism = ref None in
  (* the harness's own per-unit counters are read first: they are judged even when the replay stops early *)
  List.iter (fun l ->
      match words l with
      | "STATUS" :: s :: rest -> status := s; if List.mem "nohooks=1" rest then nohooks := true
      | "UNITSTAT" :: i :: rest ->
        unitstat := (int_of_string i, List.map (fun w -> match String.split_on_char '=' w with [k; v] -> (k, v) | _ -> ("", "")) rest) :: !unitstat
      | _ -> ()) lines;
  (try
    List.iteri (fun ln l ->
      match words l with
      | "STATUS" :: _ -> ()
      | "THR" :: _ -> ()
      | "UNITSTAT" :: _ -> ()
      | _ :: kind :: f when !nohooks ->
        (* a run without hooks (the library's own locking only): no replay; the harness's own observations are judged *)
        (match kind, f with
         | "K1016", [k; sz; tot] -> quiesce := (int_of_string k, int_of_string sz, int_of_string tot) :: !quiesce
         | "K1014", [op; idx; c] ->
           let op = int_of_string op and idx = int_of_string idx in
           if op = Char.code 'x' then xjoin := (idx, int_of_string c) :: !xjoin
           else if op = Char.code 'j' then begin
             let v = int_of_string c in
             if v / 10000 <> 0 || (v / 1000) mod 10 <> 1 || v mod 1000 <> 0 then
               api_bad := Printf.sprintf "xstream_join(ES%d)-returned-rc=%d-state=%d-with-%d-unfinished-units" idx (v / 10000) ((v / 1000) mod 10) (v mod 1000) :: !api_bad
           end
           else if op = Char.code 'm' then begin
             if int_of_string c <> 0 then api_bad := Printf.sprintf "ABT_thread_migrate(unit%d)-returned-%s" idx c :: !api_bad
           end
         | _ -> ())
      | actor :: kind :: f ->
        let aptr = (match String.split_on_char '@' actor with [_; p] -> hex p | _ -> 0) in
        let desc = kind ^ " " ^ String.concat " " f in
        let a = aid aptr in
        (match kind, f with
         | ("QEMPTY" | "NSLOAD" | "NBLOAD" | "SREQLD"), _ -> ()
         | "QPOP", [_; t; _] when hex t = 0 -> ()
         | _ -> incr world);
        (* the stop-decision window of this actor ends with anything that is not an observation *)
        (match kind, f with
         | ("NBLOAD" | "NSLOAD"), _ -> ()
         | ("QEMPTY" | "SREQLD" | "SCHEDSTOP"), _ -> Hashtbl.remove pending_empty aptr
         | "QPOP", [_; t; _] when hex t = 0 -> Hashtbl.remove pending_empty aptr
         | "REQLOAD", [_; site; v] when hex site = 2 ->
           Hashtbl.remove pending_empty aptr; if hex v land 2 <> 0 then note_obs aptr WCancel
         | _ -> Hashtbl.remove win aptr; Hashtbl.remove win_len aptr; Hashtbl.remove pending_empty aptr);
        (match kind, f with
         (* ---- harness records ---- *)
         | "K1015", [idx; ptr; _] -> Hashtbl.replace pool_of_ptr (int_of_string ptr) (int_of_string idx)
         | "K1017", [_; sp; up] -> Hashtbl.replace sched_unit (int_of_string sp) (int_of_string up);
           if !primary_ptr = 0 then begin primary_ptr := aptr; ignore (unit_id ln aptr) end
         | "K1013", (op :: idx :: c :: _) ->
           if !primary_ptr = 0 then begin primary_ptr := aptr; ignore (unit_id ln aptr) end;
           if int_of_string op = Char.code 'M' then begin
             let idx = int_of_string idx in
             let cur_pool = (match Hashtbl.find_opt idx_uid idx with
                 | Some u -> int_of_nat ((!cur).un (nat_of u)).upool
                 | None -> (match Hashtbl.find_opt idx_ptr idx with
                     | Some p -> (match Hashtbl.find_opt unit_of_ptr p with Some u -> int_of_nat ((!cur).un (nat_of u)).upool | None -> -1)
                     | None -> -1)) in
             Hashtbl.replace last_mig_req (aptr, idx) (int_of_string c, cur_pool);
             Hashtbl.replace mig_stored aptr false
           end
         | "K1014", [op; idx; c] ->
           let op = int_of_string op and idx = int_of_string idx in
           if op = Char.code 'C' || op = Char.code 'c' then begin
             let h = int_of_string c in if h <> 0 then Hashtbl.replace idx_ptr idx h end
           else if op = Char.code 'J' || op = Char.code 'F' then begin
             (match Hashtbl.find_opt idx_ptr idx with
              | Some p -> let u = (match Hashtbl.find_opt idx_uid idx with Some u -> u | None -> unit_id ln p) in
                apply ln desc (EJoinRet (nat_of a, nat_of u)) [u] [] []
              | None -> raise (Mismatch (Printf.sprintf "line=%d join of an unknown unit index %d" ln idx)))
           end else if op = Char.code 'x' then xjoin := (idx, int_of_string c) :: !xjoin
           else if op = Char.code 'N' then begin
             let v = int_of_string c in
             if v <> 0 then api_bad := Printf.sprintf "thread_join_many/free_many(%d-entries)-returned-rc=%d-with-%d-listed-units-not-finished" idx (v / 1000) (v mod 1000) :: !api_bad
           end
           else if op = Char.code 'b' then Hashtbl.replace cb_installed idx true
           else if op = Char.code 'p' then begin
             (* final pool + callback count of a unit: the last acknowledged request must have been performed *)
             let v = int_of_string c in
             (match Hashtbl.find_opt last_ok_req idx with
              | Some want when want = v / 1000 && Hashtbl.mem cb_installed idx && v mod 1000 = 0 ->
                api_bad := Printf.sprintf "unit%d-was-migrated-to-pool%d-but-its-migration-callback-was-never-called" idx want :: !api_bad
              | _ -> ());
             (match Hashtbl.find_opt last_ok_req idx with
              | Some want when want <> v / 1000 ->
                api_bad := Printf.sprintf "F6:unit%d-last-acknowledged-migration-target-pool%d-but-unit-is-in-pool%d(callbacks=%d)" idx want (v / 1000) (v mod 1000) :: !api_bad
              | _ -> ())
           end
           else if op = Char.code 'j' then begin
             let v = int_of_string c in
             if v / 10000 <> 0 || (v / 1000) mod 10 <> 1 || v mod 1000 <> 0 then
               api_bad := Printf.sprintf "xstream_join(ES%d)-returned-rc=%d-state=%d-with-%d-unfinished-units" idx (v / 10000) ((v / 1000) mod 10) (v mod 1000) :: !api_bad
           end
           else if op = Char.code 'z' then begin
             if int_of_string c <> 0 then api_bad := Printf.sprintf "xstream_set_main_sched_basic(ES%d)-returned-%s" idx c :: !api_bad
           end
           else if op = Char.code 'm' then begin
             (* ABT_thread_migrate: the generator only issues it when another running stream exists *)
             if int_of_string c <> 0 then api_bad := Printf.sprintf "ABT_thread_migrate(unit%d)-returned-%s" idx c :: !api_bad
           end else if op = Char.code 'M' then begin
             (* migrate_to_pool: rejected iff the target is the unit's current pool (all harness units are migratable) *)
             (match Hashtbl.find_opt last_mig_req (aptr, idx), Hashtbl.find_opt idx_uid idx with
              | Some (p, cur_pool), _ ->
                let rc = int_of_string c in
                if rc = 0 then Hashtbl.replace last_ok_req idx p;
                (* an acknowledged request has stored its target and set the request bit inside the call *)
                if rc = 0 && Hashtbl.find_opt mig_stored aptr <> Some true then
                  api_bad := Printf.sprintf "migrate_to_pool(unit%d,pool%d)-returned-0-without-storing-the-request" idx p :: !api_bad;
                if (p = cur_pool) <> (rc <> 0) then
                  api_bad := Printf.sprintf "migrate_to_pool(unit%d,pool%d)-returned-%d-with-current-pool-%d" idx p rc cur_pool :: !api_bad
              | _ -> ())
           end
         | "K1010", [idx; _; _] -> let u = unit_id ln aptr in
           Hashtbl.replace idx_uid (int_of_string idx) u; Hashtbl.replace idx_ptr (int_of_string idx) aptr;
           apply ln desc (EStart (nat_of u)) [u] [] []
         | "K1011", [_; _; _] -> let u = unit_id ln aptr in apply ln desc (EFinish (nat_of u)) [u] [] []
         | "K1016", [k; sz; tot] -> quiesce := (int_of_string k, int_of_string sz, int_of_string tot) :: !quiesce
         | ("K1012" | "NOTE"), _ -> ()
         (* ---- hook records (hex fields) ---- *)
         | "UINIT", [t; ty; _] when hex ty land 2 <> 0 -> Hashtbl.replace root_ptrs (hex t) true
         | ("STATE" | "SETPOOL" | "UFREE"), (t :: _) when Hashtbl.mem root_ptrs (hex t) -> ()
         | "UINIT", [t; ty; p] ->
           let t = hex t and ty = hex ty and p = pool_id (hex p) in
           let u = (match Hashtbl.find_opt unit_of_ptr t with
               | Some u when Hashtbl.mem preinit u -> Hashtbl.remove preinit u; u
               | _ -> fresh_uid t) in
           if ty land 8 <> 0 then Hashtbl.replace is_sched_unit u true;
           apply ln desc (EInit (nat_of u, nat_of p, ty land 16 <> 0, ty land 32 <> 0)) [u] [] []
         | "UREVIVE", [t; _; p] -> let u = unit_id ln (hex t) and p = pool_id (hex p) in
           apply ln desc (ERevive (nat_of u, nat_of p)) [u] [] []
         | "SETPOOL", [t; p; _] ->
           let t = hex t and p = pool_id (hex p) in
           let u = (match Hashtbl.find_opt unit_of_ptr t with
               | Some u when (match ((!cur).un (nat_of u)).ust with UFreed -> false | _ -> true) -> u
               | _ -> let u = fresh_uid t in Hashtbl.replace preinit u true; u) in
           apply ln desc (ESetPool (nat_of u, nat_of p)) [u] [] []
         | "QPUSH", [qp; t; c] ->
           let u = unit_id ln (hex t) in
           let p = (match Hashtbl.find_opt queue_pool (hex qp) with
               | Some p -> p
               | None -> let p = int_of_nat ((!cur).un (nat_of u)).upool in Hashtbl.replace queue_pool (hex qp) p; p) in
           apply ln desc (EPush (nat_of p, nat_of u, c <> "0")) [u] [p] []
         | "QPOP", [qp; t; c] ->
           (match Hashtbl.find_opt queue_pool (hex qp) with
            | None -> if hex t <> 0 then raise (Mismatch (Printf.sprintf "line=%d pop from a queue nothing was pushed to" ln))
            | Some p ->
              if hex t = 0 then apply ln desc (EPop (nat_of p, None, c <> "0")) [] [p] []
              else let u = unit_id ln (hex t) in apply ln desc (EPop (nat_of p, Some (nat_of u), c <> "0")) [u] [p] [])
         | "QREMOVE", [qp; t; _] ->
           let u = unit_id ln (hex t) in
           (match Hashtbl.find_opt queue_pool (hex qp) with
            | Some p -> apply ln desc (ERemove (nat_of p, nat_of u)) [u] [p] []
            | None -> raise (Mismatch (Printf.sprintf "line=%d remove from an unknown queue" ln)))
         | "REQLOAD", [t; site; v] -> let u = unit_id ln (hex t) in let (j, c, m) = bits (hex v) in
           apply ln desc (EReqLoad (nat_of u, nat_of (hex site), j, c, m)) [u] [] []
         | "REQOR", [t; b; old] -> let u = unit_id ln (hex t) in let b = hex b in let (j, c, m) = bits (hex old) in
           let bit = if b land 1 <> 0 then 0 else if b land 2 <> 0 then 1 else 2 in
           (* the joiner: the calling ULT, or a dummy standing for an external thread / tasklet *)
           let who = if bit <> 0 || b land 0x100 <> 0 then 0
             else (match Hashtbl.find_opt unit_of_ptr aptr with
                 | Some x when ((!cur).un (nat_of x)).isult && (match ((!cur).un (nat_of x)).ust with URunning -> true | _ -> false) -> x
                 | _ -> let d = !next_uid in incr next_uid; Hashtbl.replace ext_joiner aptr d; d) in
           apply ln desc (EReqOr (nat_of u, nat_of bit, b land 0x100 <> 0, j, c, m, nat_of who)) [u] [] []
         | "REQAND", [t; b; _] -> let u = unit_id ln (hex t) in
           apply ln desc (EReqAnd (nat_of u, nat_of (if hex b = 4 then 2 else if hex b = 2 then 1 else 0))) [u] [] []
         | "STATE", [t; v; _] -> let u = unit_id ln (hex t) in
           let was_fresh_sched = Hashtbl.mem is_sched_unit u && ((!cur).un (nat_of u)).fresh in
           let up = int_of_nat ((!cur).un (nat_of u)).upool in
           let others = (match ((!cur).un (nat_of u)).cbother with Some o -> [int_of_nat o] | None -> []) in
           apply ln desc (EState (nat_of u, z_of_int (hex v))) (u :: others) [up] [];
           (* scheduler ULTs do not run a harness function: their start is the first RUNNING store *)
           if was_fresh_sched && hex v = 1 then apply ln "sched-start" (EStart (nat_of u)) [u] [] []
         | "STLOAD", [t; site; v] -> let u = unit_id ln (hex t) in
           apply ln desc (EStLoad (nat_of a, nat_of u, nat_of (hex site), z_of_int (hex v))) [u] [] [(a, u)]
         | "LINKST", [t; j; ext] ->
           let tgt = unit_id ln (hex t) in
           if hex ext <> 0 then begin
             let d = (match Hashtbl.find_opt ext_joiner aptr with
                 | Some d -> Hashtbl.replace unit_of_ptr (hex j) d; d
                 | None -> fresh_uid (hex j)) in
             Hashtbl.replace dummy_target d tgt;
             apply ln desc (ELinkSt (nat_of tgt, nat_of d, true)) [tgt; d] [] []
           end else let j = unit_id ln (hex j) in apply ln desc (ELinkSt (nat_of tgt, nat_of j, false)) [tgt; j] [] []
         | "LINKLD", [t; l; _] -> let u = unit_id ln (hex t) in
           let l = if hex l = 0 then None else Some (nat_of (unit_id ln (hex l))) in
           apply ln desc (ELinkLd (nat_of u, l)) [u] [] []
         | "CB", [t; k; o] -> let u = unit_id ln (hex t) in
           if hex o = 0 then apply ln desc (ECb (nat_of u, cbk_of (hex k), None)) [u] [] []
           else let ou = unit_id ln (hex o) in apply ln desc (ECb (nat_of u, cbk_of (hex k), Some (nat_of ou))) [u; ou] [] []
         | "FUTEXRES", [j; _; _] ->
           let d = unit_id ln (hex j) in
           (match Hashtbl.find_opt dummy_target d with
            | Some u -> apply ln desc (EFutexRes (nat_of u, nat_of d)) [u; d] [] []
            | None -> raise (Mismatch (Printf.sprintf "line=%d futex resume of an unknown joiner" ln)))
         | "NBADD", [p; d; old] ->
           let p' = pool_id (hex p) and inc = (hex d = 1) in
           let old = z_of_int (let v = hex old in if v >= 0x80000000 then v - 0x100000000 else v) in
           (match Hashtbl.find_opt who_of ln with
            | Some (t, ho) -> let u = unit_id ln (hex t) in apply ln desc (ENb (nat_of p', inc, old, nat_of u, ho)) [u] [p'] []
            | None -> if !status <> "STUCK" then raise (Mismatch (Printf.sprintf "line=%d NBADD without a following NBWHO by the same actor" ln)))
         | "NBWHO", _ -> ()
         | "UFREE", [t; _; _] -> let u = unit_id ln (hex t) in apply ln desc (EFree (nat_of u)) [u] [] []
         | "MIGST", [t; p; _] -> Hashtbl.replace mig_stored aptr true; let u = unit_id ln (hex t) in apply ln desc (EMigSt (nat_of u, nat_of (pool_id (hex p)))) [u] [] []
         | "MIGLD", [t; p; _] -> let u = unit_id ln (hex t) in apply ln desc (EMigLd (nat_of u, nat_of (pool_id (hex p)))) [u] [] []
         | "MIGCB", [t; _; _] -> let u = unit_id ln (hex t) in apply ln desc (EMigCb (nat_of u)) [u] [] []
         | "SCHEDSTOP", [sp; _; _] ->
           sched_stop ln aptr;
           (match Hashtbl.find_opt sched_unit (hex sp) with
            | Some up -> let u = unit_id ln up in apply ln desc (EFinish (nat_of u)) [u] [] []
            | None ->
              (* a scheduler installed by ABT_xstream_set_main_sched runs on the ULT of the one it replaced: the
                 actor of this record *)
              if Hashtbl.mem unit_of_ptr aptr then begin
                let u = unit_id ln aptr in apply ln desc (EFinish (nat_of u)) [u] [] [] end)
         | "QEMPTY", [qp; _; v] ->
           (match Hashtbl.find_opt queue_pool (hex qp) with
            | Some p -> apply ln desc (EEmptyLoad (nat_of p, hex v <> 0)) [] [p] [];
              note_obs aptr (WObs (ln, SEmpty (nat_of p, hex v <> 0), false))
            | None -> if hex v = 0 then raise (Mismatch (Printf.sprintf "line=%d a queue nothing was pushed to is reported non-empty" ln));
              (* which pool this queue belongs to is learnt from the next counter read of the same actor *)
              Hashtbl.replace line_epoch ln !world;
              Hashtbl.replace pending_empty aptr (ln, hex qp))
         | "NBLOAD", [p; _; v] -> let p = pool_id (hex p) in
           learn_queue aptr p;
           let v = z_of_int (let v = hex v in if v >= 0x80000000 then v - 0x100000000 else v) in
           apply ln desc (ENbLoad (nat_of p, v)) [] [p] [];
           note_obs aptr (WObs (ln, SNb (nat_of p, v), v = Z0 && no_hands p))
         | "NSLOAD", [p; _; v] -> let p = pool_id (hex p) in learn_queue aptr p; note_obs aptr (WNs (ln, p, hex v))
         | ("SREQOR" | "SREQLD" | "XSTATE" | "RUNTASK"), _ -> ()
         | _ -> raise (Mismatch (Printf.sprintf "line=%d unknown record %s" ln desc)))
      | _ -> ()) lines
  with Mismatch m -> mism := Some m);
  (match !mism with
   | None -> Printf.printf "OK events=%d units=%d status=%s%s\n" !count (!next_uid - 1) !status (if !nohooks then " nohooks" else "")
   | Some m -> Printf.printf "MISMATCH %s\n" m);
  (* ---- monitors on the implementation's own observations ---- *)
  let bad = ref [] in
  if !status <> "DONE" then bad := ("status=" ^ !status) :: !bad;
  List.iter (fun (i, kv) ->
      let g k = int_of_string (List.assoc k kv) in
      if g "created" = 1 then begin
        if g "entries" > 1 + g "revives" then bad := Printf.sprintf "unit%d:started-%d-times" i (g "entries") :: !bad;
        if g "finished" > g "entries" then bad := Printf.sprintf "unit%d:finished-more-than-started" i :: !bad;
        if g "lost" <> 0 then bad := Printf.sprintf "unit%d:%d-incarnation(s)-not-cancelled-yet-function-not-run-exactly-once" i (g "lost") :: !bad;
        if (try g "badstate" <> 0 with Not_found -> false) then bad := Printf.sprintf "unit%d:read-a-state-other-than-RUNNING-for-itself-while-executing" i :: !bad;
        if g "badarg" <> 0 then bad := Printf.sprintf "unit%d:wrong-argument" i :: !bad
      end) !unitstat;
  List.iter (fun (k, sz, tot) -> if k >= 1 && sz <> tot then
                bad := Printf.sprintf "pool%d:size=%d,total_size=%d-at-quiescence" (k - 1) sz tot :: !bad) !quiesce;
  List.iter (fun (i, c) -> if c <> 1 then bad := Printf.sprintf "xstream%d:join-rc*100+state=%d" i c :: !bad) !xjoin;
  (* model-side: every unit the harness created and that was not cancelled ran exactly once *)
  if !mism = None && !status = "DONE" then
    Hashtbl.iter (fun idx u ->
        let r = (!cur).un (nat_of u) in
        if int_of_nat r.starts > 1 then bad := Printf.sprintf "model:unit%d-starts=%d" idx (int_of_nat r.starts) :: !bad) idx_uid;
  bad := !bad @ !api_bad;
  if !bad = [] then print_endline "MON ok" else print_endline ("MONFAIL " ^ String.concat " " (List.rev !bad));
  Printf.printf "STOPS decisions=%d within_hypotheses=%d outside=%d shared_pool=%d cancelled=%d\n" !stops !stops_hyp !stops_outside !stops_shared !stops_cancel
