(* C20 driver: one case per input line, one canonical result line per case.
   HT <W|S|P> <n> ; idx ty v , ... ; op , op ...      ops: S k ty v | D k | G k | R n
   AT <kind> <codes...>                       kind: i | u32 | u64 | sz         *)
let pr_res = function
  | RCode c -> "c" ^ string_of_z c
  | RGot (ty, v) -> "g" ^ string_of_z ty ^ ":" ^ string_of_z v
  | RRead l ->
    (* the harness reads into 8-byte buffers pre-filled with 0xA5..A5; an INT
       element overwrites the low 4 bytes only *)
    let sent = z_of_string "11936128518282651045" and hi = z_of_string "11936128515503554560"
    and m32 = z_of_string "4294967296" in
    "r[" ^ String.concat ","
      (List.map (function None -> string_of_z sent
                        | Some (ty, v) -> if ty = Z0 then string_of_z (Z.add hi (Z.modulo v m32))
                          else string_of_z v) l) ^ "]"
let pr_bucket b =
  let ks = List.map (fun (k, _) -> string_of_z k) b.rest in
  match b.head with
  | Some (k, _) -> "[" ^ String.concat "," (string_of_z k :: ks) ^ "]"
  | None -> if ks = [] then "[]" else "[U," ^ String.concat "," ks ^ "]"
let parse_op s = match words s with
  | ["S"; k; ty; v] -> CSet (z_of_string k, z_of_string ty, z_of_string v)
  | ["D"; k] -> CDel (z_of_string k)
  | ["G"; k] -> CGet (z_of_string k)
  | ["R"; n] -> CRead (z_of_string n)
  | _ -> failwith ("bad op: " ^ s)
let parse_ent s = match words s with
  | [i; ty; v] -> ((z_of_string i, z_of_string ty), z_of_string v)
  | _ -> failwith ("bad entry: " ^ s)
let do_ht line =
  match String.split_on_char ';' line with
  | [hd; ents; ops] ->
    let n = (match words hd with [_; _; n] -> int_of_string n | _ -> failwith "bad HT") in
    let ents = List.map parse_ent (split_on ',' ents) in
    let ops = List.map parse_op (split_on ',' ops) in
    (match ccreate (nat_of_int n) ents with
     | None -> "HT createfail"
     | Some t ->
       let (t', rs) = crun t ops in
       "HT " ^ String.concat " " (List.map pr_res rs) ^ " | " ^
       String.concat "" (List.map pr_bucket t') ^ " heap=" ^ string_of_int (int_of_nat (ht_heap_elems t')))
  | _ -> failwith "bad HT line"
let do_at line =
  match words line with
  | _ :: kind :: codes ->
    let s = List.map z_of_string codes in
    let r = (match kind with
        | "i" -> atoi_int s | "u32" -> atoi_ui32 s | "u64" | "sz" -> atoi_ui64 s
        | _ -> failwith "bad kind") in
    (match r with
     | None -> "AT " ^ kind ^ " err"
     | Some (v, o) -> "AT " ^ kind ^ " " ^ string_of_z v ^ " " ^ (if o then "1" else "0"))
  | _ -> failwith "bad AT line"
let () =
  let ic = if Array.length Sys.argv > 1 then open_in Sys.argv.(1) else stdin in
  List.iter (fun line ->
      let line = String.trim line in
      if line <> "" && line.[0] <> '#' then
        print_endline (if String.length line >= 2 && String.sub line 0 2 = "HT" then do_ht line
                       else if String.sub line 0 2 = "AT" then do_at line
                       else failwith ("bad line: " ^ line)))
    (read_lines ic)
