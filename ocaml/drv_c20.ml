(* C20 driver: one case per input line, one canonical result line per case.
   HT <W|S|P> <n> ; idx ty v , ... ; op , op ...      ops: S k ty v | D k | G k | R n
   AT <kind> <codes...>                       kind: i | u32 | u64 | sz
   AF <codes...> | AF null                    affinity string (model with the F3 fix)
   ENV nc=<cores> pg=<pagesize> NAME=c.c.c ...                                 *)
let pr_res = function
  | RCode c -> "c" ^ string_of_z c
  | RGot (ty, v) -> "g" ^ string_of_z ty ^ ":" ^ string_of_z v
  | RRead l ->
    (* the harness reads into 8-byte buffers pre-filled with 0xA5..A5; an INT
       element overwrites the low 4 bytes only *)
    let sent = z_of_string "11936128518282651045" and hi = z_of_string "11936128515503554560"
    and m32 = z_of_string "4294967296" in
    "r[" ^ String.concat ","
      (List.map (function None -> string_of_z sent
                        | Some (ty, v) -> if ty = Z0 then string_of_z (Z.add hi (Z.modulo v m32))
                          else string_of_z v) l) ^ "]"
let pr_bucket b =
  let ks = List.map (fun (k, _) -> string_of_z k) b.rest in
  match b.head with
  | Some (k, _) -> "[" ^ String.concat "," (string_of_z k :: ks) ^ "]"
  | None -> if ks = [] then "[]" else "[U," ^ String.concat "," ks ^ "]"
let parse_op s = match words s with
  | ["S"; k; ty; v] -> CSet (z_of_string k, z_of_string ty, z_of_string v)
  | ["D"; k] -> CDel (z_of_string k)
  | ["G"; k] -> CGet (z_of_string k)
  | ["R"; n] -> CRead (z_of_string n)
  | _ -> failwith ("bad op: " ^ s)
let parse_ent s = match words s with
  | [i; ty; v] -> ((z_of_string i, z_of_string ty), z_of_string v)
  | _ -> failwith ("bad entry: " ^ s)
let do_ht line =
  match String.split_on_char ';' line with
  | [hd; ents; ops] ->
    let n = (match words hd with [_; _; n] -> int_of_string n | _ -> failwith "bad HT") in
    let ents = List.map parse_ent (split_on ',' ents) in
    let ops = List.map parse_op (split_on ',' ops) in
    (match ccreate (nat_of_int n) ents with
     | None -> "HT createfail"
     | Some t ->
       let (t', rs) = crun t ops in
       "HT " ^ String.concat " " (List.map pr_res rs) ^ " | " ^
       String.concat "" (List.map pr_bucket t') ^ " heap=" ^ string_of_int (int_of_nat (ht_heap_elems t')))
  | _ -> failwith "bad HT line"
let do_at line =
  match words line with
  | _ :: kind :: codes ->
    let s = List.map z_of_string codes in
    let r = (match kind with
        | "i" -> atoi_int s | "u32" -> atoi_ui32 s | "u64" | "sz" -> atoi_ui64 s
        | _ -> failwith "bad kind") in
    (match r with
     | None -> "AT " ^ kind ^ " err"
     | Some (v, o) -> "AT " ^ kind ^ " " ^ string_of_z v ^ " " ^ (if o then "1" else "0"))
  | _ -> failwith "bad AT line"
(* digest of the id lists, in native ints (same formula as h_c20.c) *)
let do_af line =
  let arg = (match words line with
      | _ :: "null" :: _ -> None
      | _ :: codes -> Some (List.map z_of_string codes)
      | [] -> failwith "bad AF line") in
  match affinity_list_create arg with
  | Fail -> "AF reject"
  | Oob -> "AF MODEL-OOB"
  | OutOfFuel -> "AF MODEL-OUT-OF-FUEL"
  | IntOvf -> "AF MODEL-INT-OVERFLOW"
  | Ok lists ->
    let m = 0xFFFFFFFF in
    let h = ref 0 and tot = ref 0 in
    List.iter (fun l ->
        h := (!h * 31 + 40503) land m;
        List.iter (fun id -> h := (!h * 31 + ((int_of_z id) land m) + 1) land m; incr tot) l) lists;
    let n = List.length lists in
    let b = Buffer.create 64 in
    Buffer.add_string b (Printf.sprintf "AF ok n=%d tot=%d h=%d" n !tot !h);
    if !tot <= 48 && n <= 48 then begin
      Buffer.add_char b ' ';
      List.iter (fun l -> Buffer.add_string b ("{" ^ String.concat "," (List.map string_of_z l) ^ "}")) lists
    end;
    Buffer.contents b
let evar_of_name = function
  | "MAX_NUM_XSTREAMS" -> MAX_NUM_XSTREAMS | "KEY_TABLE_SIZE" -> KEY_TABLE_SIZE
  | "STACK_OVERFLOW_CHECK" -> STACK_OVERFLOW_CHECK | "SYS_PAGE_SIZE" -> SYS_PAGE_SIZE
  | "THREAD_STACKSIZE" -> THREAD_STACKSIZE | "SCHED_STACKSIZE" -> SCHED_STACKSIZE
  | "SCHED_EVENT_FREQ" -> SCHED_EVENT_FREQ | "SCHED_SLEEP_NSEC" -> SCHED_SLEEP_NSEC
  | "MUTEX_MAX_HANDOVERS" -> MUTEX_MAX_HANDOVERS | "MUTEX_MAX_WAKEUPS" -> MUTEX_MAX_WAKEUPS
  | "HUGE_PAGE_SIZE" -> HUGE_PAGE_SIZE | "MEM_PAGE_SIZE" -> MEM_PAGE_SIZE
  | "MEM_STACK_PAGE_SIZE" -> MEM_STACK_PAGE_SIZE | "MEM_MAX_NUM_STACKS" -> MEM_MAX_NUM_STACKS
  | "MEM_MAX_NUM_DESCS" -> MEM_MAX_NUM_DESCS | "USE_LOG" -> USE_LOG | "USE_DEBUG" -> USE_DEBUG
  | "PRINT_RAW_STACK" -> PRINT_RAW_STACK | "PRINT_CONFIG" -> PRINT_CONFIG
  | s -> failwith ("unknown variable " ^ s)
let starts_with p s = String.length s >= String.length p && String.sub s 0 (String.length p) = p
let do_env line =
  let nc = ref Z0 and pg = ref Z0 and env = ref [] in
  List.iter (fun tok ->
      if tok <> "ENV" then
        match String.index_opt tok '=' with
        | None -> failwith ("bad ENV token " ^ tok)
        | Some k ->
          let name = String.sub tok 0 k and v = String.sub tok (k + 1) (String.length tok - k - 1) in
          if name = "nc" then nc := z_of_string v
          else if name = "pg" then pg := z_of_string v
          else begin
            let codes = List.map z_of_string (split_on '.' v) in
            let (long, suffix) =
              if starts_with "ABT_ENV_" name then (true, String.sub name 8 (String.length name - 8))
              else if starts_with "ABT_" name then (false, String.sub name 4 (String.length name - 4))
              else failwith ("bad variable " ^ name) in
            (* setenv overwrites: the last assignment of a name wins *)
            let key = (long, evar_of_name suffix) in
            env := (key, codes) :: List.filter (fun (k', _) -> k' <> key) !env
          end)
    (words line);
  let s = c_env_init !nc !pg !env in
  let b x = if x then "1" else "0" and z = string_of_z in
  let base = Printf.sprintf
      "ENV mx=%s log=%s dbg=%s kts=%s sg=%s sps=%s ts=%s ss=%s ef=%s sn=%s mh=%s mw=%s prs=%s hps=%s mps=%s msp=%s mms=%s mmd=%s pc=%s"
      (z s.max_xstreams) (b s.use_logging) (b s.use_debug) (z s.key_table_size) (z s.stack_guard_kind)
      (z s.sys_page_size) (z s.thread_stacksize) (z s.sched_stacksize) (z s.sched_event_freq)
      (z s.sched_sleep_nsec) (z s.mutex_max_handovers) (z s.mutex_max_wakeups) (b s.print_raw_stack)
      (z s.huge_page_size) (z s.mem_page_size) (z s.mem_sp_size) (z s.mem_max_stacks) (z s.mem_max_descs)
      (b s.print_config) in
  if sane !pg s then base ^ " sane=1 init=0 same=1 q=0 smoke=0" else base ^ " sane=0"
let () =
  let ic = if Array.length Sys.argv > 1 then open_in Sys.argv.(1) else stdin in
  List.iter (fun line ->
      let line = String.trim line in
      if line <> "" && line.[0] <> '#' then
        print_endline (if String.length line >= 2 && String.sub line 0 2 = "HT" then do_ht line
                       else if String.sub line 0 2 = "AT" then do_at line
                       else if String.sub line 0 2 = "AF" then do_af line
                       else if String.sub line 0 3 = "ENV" then do_env line
                       else failwith ("bad line: " ^ line)))
    (read_lines ic)
