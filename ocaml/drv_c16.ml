(* C16 driver: replays the case file of harness/h_c16.c on the extracted model
   (DS/Ktable.v) and prints the same canonical lines.  See h_c16.c for the
   case grammar. *)
let cfg = cfg64
let zs = string_of_z
let zi = z_of_int
let buf_obs = Buffer.create 256 and buf_int = Buffer.create 1024
let obs s = Buffer.add_string buf_obs s
let intl s = Buffer.add_string buf_int s

let kind_of (l : ledger) (b : z) : bkind option =
  let rec f = function [] -> None | (b', k) :: r -> if b' = b then Some k else f r in
  f l.l_all

(* per-table block index: position from the tail of the p_used_mem chain *)
let blk_index (used : (z * bool) list) (b : z) : int =
  let n = List.length used in
  let rec f i = function [] -> -1 | (b', _) :: r -> if b' = b then n - 1 - i else f (i + 1) r in
  f 0 used

let dump_table tag u (l : ledger) (ot : ktable option) =
  match ot with
  | None -> intl (Printf.sprintf " %s%d:null" tag u)
  | Some t ->
    intl (Printf.sprintf " %s%d:sz=%s;" tag u (zs t.t_size));
    List.iteri (fun i c ->
        if c <> [] then begin
          intl (Printf.sprintf "%d[" i);
          intl (String.concat " "
                  (List.map (fun e ->
                       let (b, off) = e.e_loc in
                       Printf.sprintf "%s:%s:%s@%d+%s" (zs e.e_key) (zs e.e_val) (zs e.e_dtor)
                         (blk_index t.t_used b) (zs off)) c));
          intl "]"
        end) t.t_elems;
    intl ";used=";
    List.iter (fun (b, mp) ->
        intl (if not mp then "M"
              else match kind_of l b with
                | Some (BDesc true) -> "X" | Some (BDesc false) -> "P" | _ -> "?")) t.t_used;
    let (eb, eoff) = t.t_extra in
    if t.t_extra = nULLLOC then intl (Printf.sprintf ";extra=-/%s" (zs t.t_extra_size))
    else intl (Printf.sprintf ";extra=%d+%s/%s" (blk_index t.t_used eb) (zs eoff) (zs t.t_extra_size))

let rec drop n l = if n <= 0 then l else match l with [] -> [] | _ :: r -> drop (n - 1) r

let dump_rel (l0 : ledger) (l1 : ledger) (ot : ktable option) =
  let used = match ot with Some t -> t.t_used | None -> [] in
  let news = drop (List.length l0.l_rel) l1.l_rel in
  let bads = drop (List.length l0.l_bad) l1.l_bad in
  intl ";rel=";
  intl (String.concat ","
          (List.map (fun (b, r) ->
               (match r with
                | RFree -> "F"
                | RDesc -> (match kind_of l1 b with Some (BDesc true) -> "X" | _ -> "P"))
               ^ string_of_int (blk_index used b)) news
           @ List.map (fun (b, _) -> "!" ^ zs b) bads))

let dump_dtors u (calls : (z * z) list) =
  let calls = List.filter (fun (d, _) -> d <> zi 99) calls in
  let pr (d, v) = zs d ^ ":" ^ zs v in
  intl (";dt=" ^ String.concat "," (List.map pr calls));
  let sorted = List.sort (fun (d1, v1) (d2, v2) ->
      let c = compare (int_of_z d1) (int_of_z d2) in
      if c <> 0 then c else compare (int_of_z v1) (int_of_z v2)) calls in
  obs (Printf.sprintf " F%d{%s}" u (String.concat "," (List.map pr sorted)))

(* unset ("-") or not a number: load_env_uint32 falls back to the default *)
let parse_env s =
  if s <> "" && String.for_all (fun c -> c >= '0' && c <= '9') s then Some (z_of_string s) else None

(* ---------------------------------------------------------------- KT *)
let do_kt line =
  match String.index_opt line ';' with
  | None -> failwith "bad KT line"
  | Some p ->
    let hd = String.sub line 0 p and ops = String.sub line (p + 1) (String.length line - p - 1) in
    let env = (match words hd with [_; e] -> parse_env e | _ -> failwith "bad KT header") in
    let w = ref (world0 env) in
    obs (Printf.sprintf "KT n=%s" (zs !w.w_gsize));
    let step o = let (w', r) = wstep cfg !w o in w := w'; r in
    ignore (step (OUnitCreate (Z0, false, false)));
    let named : (int, bool) Hashtbl.t = Hashtbl.create 16 in
    Hashtbl.replace named 0 true;
    let pr_rc = function
      | RRc c -> obs (" c" ^ zs c)
      | RVal v -> obs (" v" ^ zs v)
      | RKey _ -> obs " k"
      | RInvalid -> obs " INVALID"
      | RFreed _ -> obs " FREED" in
    let free_unit u =
      let ot = (match find_unit !w.w_units (zi u) with Some ot -> ot | None -> failwith "free of unknown unit") in
      let l0 = !w.w_led in
      dump_table "T" u l0 ot;
      (match step (OFree (zi u)) with
       | RFreed calls -> dump_rel l0 !w.w_led ot; dump_dtors u calls
       | _ -> failwith "free failed");
      Hashtbl.remove named u in
    let is_ext a = (a = "x") in
    List.iter (fun o ->
        match words o with
        | ["kc"; d] ->
          (match step (OKeyCreate (zi ((int_of_string d) land 7))) with
           | RKey id -> obs " k"; intl (" id" ^ zs id)
           | _ -> failwith "kc")
        | ["kf"; h] -> pr_rc (step (OKeyFree (nat_of_int (int_of_string h))))
        | ["kj"; n] -> pr_rc (step (OKeyJump (z_of_string n)))
        | ["uc"; u; ty; m] ->
          let u = int_of_string u in
          Hashtbl.replace named u (ty = "t" || ty = "T" || ty = "k");
          pr_rc (step (OUnitCreate (zi u, false, m = "1")))
        | ["s"; a; api; u; h; v] ->
          let h = nat_of_int (int_of_string h) in
          if is_ext a && api <> "t" then pr_rc (step (OSelfExt h))
          else pr_rc (step (OSet (is_ext a, z_of_string u, h, z_of_string v, false, false)))
        | ["g"; a; api; u; h] ->
          let h = nat_of_int (int_of_string h) in
          if is_ext a && api <> "t" then pr_rc (step (OSelfExt h))
          else pr_rc (step (OGet (z_of_string u, h)))
        | ["m"; a; u] -> pr_rc (step (OMigData (is_ext a, z_of_string u)))
        | ["uj"; u] ->
          let u = int_of_string u in
          if not (Hashtbl.find named u) then free_unit u
        | ["ur"; u] -> pr_rc (step (ORevive (z_of_string u)))
        | ["uf"; u] -> free_unit (int_of_string u)
        | _ -> failwith ("bad op: " ^ o))
      (split_on ',' ops);
    let rest = List.sort compare (Hashtbl.fold (fun u n acc -> if u <> 0 then u :: acc else acc) named []) in
    List.iter free_unit rest;
    free_unit 0

(* ---------------------------------------------------------------- WB *)
let do_wb line =
  match String.index_opt line ';' with
  | None -> failwith "bad WB line"
  | Some p ->
    let hd = String.sub line 0 p and ops = String.sub line (p + 1) (String.length line - p - 1) in
    let env = (match words hd with [_; e] -> parse_env e | _ -> failwith "bad WB header") in
    let gsize = env_key_table_size env in
    obs (Printf.sprintf "WB n=%s" (zs gsize));
    let l = ref ledger0 and tab = ref None in
    let m32 = z_of_string "4294967296" in
    List.iter (fun o ->
        match words o with
        | ["s"; id; d; v] ->
          let k = { k_dtor = zi ((int_of_string d) land 7); k_id = Z.modulo (z_of_string id) m32 } in
          let ((l', t'), rc) = ktable_set_unsafe cfg gsize !tab k (z_of_string v) false false false !l in
          l := l'; tab := t'; obs (" c" ^ zs rc)
        | ["g"; id] ->
          let k = { k_dtor = Z0; k_id = Z.modulo (z_of_string id) m32 } in
          obs (" v" ^ zs (ktable_get !tab k))
        | ["a"; sz] ->
          (match !tab with
           | None -> obs " anull"
           | Some t ->
             let ((l', t'), r) = ktable_alloc_elem cfg t (z_of_string sz) false false !l in
             l := l'; tab := Some t';
             obs (match r with Some _ -> " c0" | None -> " c2"))
        | _ -> failwith ("bad WB op: " ^ o))
      (split_on ',' ops);
    dump_table "W" 0 !l !tab;
    (match !tab with
     | Some t ->
       let (calls, l') = ktable_free t !l in
       dump_rel !l l' !tab; dump_dtors 0 calls
     | None -> dump_rel !l !l None; dump_dtors 0 [])

(* ---------------------------------------------------------------- CC *)
(* the final state of the concurrent case does not depend on the interleaving
   (distinct keys per stream): it is the sequential model's *)
let do_cc line =
  match String.index_opt line ';' with
  | None -> failwith "bad CC line"
  | Some p ->
    let hd = String.sub line 0 p and rest = String.sub line (p + 1) (String.length line - p - 1) in
    let env = (match words hd with [_; e] -> parse_env e | _ -> failwith "bad CC header") in
    let (e, k, r) = (match words rest with [e; k; r; _] -> (int_of_string e, int_of_string k, int_of_string r)
                                          | _ -> failwith "bad CC args") in
    let w = ref (world0 env) in
    obs (Printf.sprintf "CC n=%s" (zs !w.w_gsize));
    let step o = let (w', r) = wstep cfg !w o in w := w'; r in
    ignore (step (OUnitCreate (zi 1, false, false)));
    for h = 0 to e * k - 1 do ignore (step (OKeyCreate (zi (1 + h mod 7)))) done;
    for rr = 0 to r - 1 do
      for h = 0 to e * k - 1 do
        ignore (step (OSet (false, zi 1, nat_of_int h, zi ((h + 1) * 1000 + rr), false, false)))
      done
    done;
    let missing = ref 0 in
    for h = 0 to e * k - 1 do
      match step (OGet (zi 1, nat_of_int h)) with
      | RVal v when v = zi ((h + 1) * 1000 + r - 1) -> ()
      | _ -> incr missing
    done;
    let bad = (match step (OFree (zi 1)) with
        | RFreed calls when List.length calls = e * k -> 0
        | _ -> 1) in
    obs (Printf.sprintf " err=0 missing=%d dups=0 wrongslot=0 bad=%d" !missing bad)

(* ---------------------------------------------------------------- RC *)
(* the creation race with a failing creator, replayed on the LTS (Conc/KtableConc.v) with the
   spin loop as it is now (fixed = true): thread 0 = creator, thread 1 = the setter that loses *)
let do_rc line =
  match String.index_opt line ';' with
  | None -> failwith "bad RC line"
  | Some p ->
    let hd = String.sub line 0 p in
    let env = (match words hd with [_; e] -> parse_env e | _ -> failwith "bad RC header") in
    let gsize = env_key_table_size env in
    obs (Printf.sprintf "RC n=%s" (zs gsize));
    let slot id = get_idx id gsize in
    let t0 = nat_of_int 0 and t1 = nat_of_int 1 in
    let st = ref init in
    let stp t a = match step slot true !st t a with Some s -> st := s | None -> failwith "RC: disabled step" in
    let rec finish t fuel =
      if fuel = 0 then failwith "RC: no progress" else
      match !st.pc t with
      | SRet rc -> stp t (AStep true); "c" ^ zs rc
      | GRet v -> stp t (AStep true); zs v
      | Crash -> "crash"
      | _ -> stp t (AStep true); finish t (fuel - 1) in
    let c1 = { c_key = zi 2; c_val = zi 11; c_dtor = zi 1 } and c2 = { c_key = zi 3; c_val = zi 22; c_dtor = zi 2 } in
    (* thread 0 wins the CAS; thread 1 fails its CAS and spins; thread 0's create fails *)
    stp t0 (ACallSet c1); stp t0 (AStep true); stp t0 (AStep true);
    stp t1 (ACallSet c2); stp t1 (AStep true); stp t1 (AStep true); stp t1 (AStep true);
    stp t0 (AStep false);
    let injected = (match !st.pc t0 with SFailStore _ -> 1 | _ -> 0) in
    stp t0 (AStep true);                       (* NULL stored back *)
    let r1 = finish t1 1000 in
    let r0 = finish t0 1000 in
    stp t0 (ACallSet { c1 with c_val = zi 12 });
    let r0' = finish t0 1000 in
    stp t0 (ACallGet (zi 2)); let g1 = finish t0 1000 in
    stp t0 (ACallGet (zi 3)); let g2 = finish t0 1000 in
    let nd = ref 0 in
    for i = 0 to int_of_z gsize - 1 do
      List.iter (fun e -> if e.edtor <> Z0 && e.eval_ <> Z0 then incr nd) (!st.chains (nat_of_int 0) (nat_of_int i))
    done;
    obs (Printf.sprintf " injected=%d creator=%s loser=%s retry=%s get1=%s get2=%s dtors=%d" injected r0 r1 r0' g1 g2 !nd)

let () =
  let ic = if Array.length Sys.argv > 1 then open_in Sys.argv.(1) else stdin in
  List.iter (fun line ->
      let line = String.trim line in
      if line <> "" && line.[0] <> '#' then begin
        Buffer.clear buf_obs; Buffer.clear buf_int;
        if String.length line >= 3 && String.sub line 0 3 = "CFG" then
          Printf.printf "CFG desc=%s hdr=%s off=%s ptr=%s align=%s elem=%s idend=%s\n"
            (zs cfg.c_desc) (zs cfg.c_hdr) (zs cfg.c_off) (zs cfg.c_ptr) (zs cfg.c_align) (zs cfg.c_elem)
            (zs kEY_ID_END)
        else begin
          (match String.sub line 0 2 with
           | "KT" -> do_kt line
           | "WB" -> do_wb line
           | "CC" -> do_cc line
           | "RC" -> do_rc line
           | _ -> failwith ("bad line: " ^ line));
          Printf.printf "%s |%s\n" (Buffer.contents buf_obs) (Buffer.contents buf_int)
        end
      end)
    (read_lines ic)
