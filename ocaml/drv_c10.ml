(* C10 driver: replays a recorded history (harness/h_c10.c) through the extracted RWLock
   LTS (which carries the C05 CondMutex LTS and the C04 Mutex LTS inside), one instance
   per rwlock, and evaluates model-independent monitors on the raw history.
   usage: drv_c10 <history>  ->  line 1: OK ... | MISMATCH ... ; line 2: MON ok | MONFAIL ... *)
let cpc_name = function
  | CIdle -> "CIdle" | CW0 -> "CW0" | CW1 -> "CW1" | CWU -> "CWU" | CF0 -> "CF0" | CF1 -> "CF1"
  | CUQ -> "CUQ" | CUS -> "CUS" | CEW -> "CEW" | CES -> "CES" | CER -> "CER" | CEWr -> "CEWr"
  | CTQ -> "CTQ" | CTP -> "CTP" | CTPr -> "CTPr" | CTS -> "CTS" | CTSr -> "CTSr" | CTQr -> "CTQr"
  | CTT -> "CTT" | CTTr -> "CTTr" | CTX -> "CTX" | CTXr -> "CTXr" | CRdy -> "CRdy" | CTO -> "CTO"
  | CWLs -> "CWLs" | CWLt -> "CWLt" | CS0 -> "CS0" | CS1 -> "CS1" | CS2 -> "CS2"
  | CB0 -> "CB0" | CB1 -> "CB1" | CB1w -> "CB1w" | CB2 -> "CB2"
let pc_name = function
  | Idle -> "Idle" | L0 -> "L0" | L1 -> "L1" | L2 -> "L2" | L2ok -> "L2ok" | L3 -> "L3"
  | UQ -> "UQ" | US -> "US" | EW -> "EW" | EWr -> "EWr" | ES -> "ES" | ER -> "ER"
  | Holding -> "Holding" | T0 -> "T0" | S0 -> "S0" | U1 -> "U1" | U2 -> "U2" | U3 -> "U3"
let rpc_name = function
  | RIdle -> "RIdle" | RdL -> "RdL" | RdW -> "RdW" | RdU -> "RdU" | WrL -> "WrL" | WrW -> "WrW" | WrU -> "WrU"
  | UnL -> "UnL" | UnB -> "UnB" | UnU -> "UnU"
let ostr = function Some h -> string_of_int (int_of_nat h) | None -> "free"
let () =
  let lines = read_lines (open_in Sys.argv.(1)) in
  let status = ref "" in
  let thrkind = Hashtbl.create 16 in
  let mons = ref [] in
  let thrdone = ref [] in
  let evs = ref [] in
  let kvs rest = List.map (fun w -> match String.split_on_char '=' w with [k; v] -> (k, int_of_string v) | _ -> ("", 0)) rest in
  List.iteri (fun i l ->
      match words l with
      | "STATUS" :: s :: _ -> status := s
      | "THR" :: t :: k :: _ -> Hashtbl.replace thrkind (int_of_string t) k
      | "MON" :: m :: rest -> mons := (int_of_string (String.sub m 1 (String.length m - 1)), kvs rest) :: !mons
      | "THRDONE" :: t :: d :: rest -> thrdone := (int_of_string t, int_of_string d, kvs rest) :: !thrdone
      | a :: k :: rest -> evs := (i, int_of_string a, k, rest) :: !evs
      | _ -> ()) lines;
  let evs = List.rev !evs in
  let nr = List.length !mons in
  let states = Array.init nr (fun i -> rinit (nat_of_int i) (z_of_int 1000)) in
  let obj o = (* "r3.mlock" -> (3, "mlock") *)
    match String.split_on_char '.' o with
    | [m; f] when m.[0] = 'r' -> (int_of_string (String.sub m 1 (String.length m - 1)), f)
    | _ -> failwith ("bad object " ^ o) in
  let node n = if n = "none" then -1 else int_of_string (String.sub n 1 (String.length n - 1)) in
  let kind_of a = match (try Hashtbl.find thrkind a with Not_found -> "E") with "U" -> KUlt | "T" -> KTask | _ -> KExt in
  (* ---- model-independent monitors on the raw history ---- *)
  let bad = ref [] in
  let addbad s = if not (List.mem s !bad) then bad := s :: !bad in
  let n1 = max nr 1 in
  let rc = Array.make n1 0 and wf = Array.make n1 0 in          (* last values stored by the DATA records *)
  let lockword = Array.make n1 (-1) in                          (* raw owner of rw->mutex.lock *)
  let wlockword = Array.make n1 (-1) in                         (* raw owner of rw->mutex.waiter_lock *)
  let cqueue = Array.make n1 [] and mqueue = Array.make n1 [] in (* raw wait lists of rw->cond / rw->mutex *)
  let rheld = Hashtbl.create 16 and wheld = Array.make n1 (-1) in (* holders by completed API calls *)
  let cur = Hashtbl.create 16 in                                (* thread -> (op, rwlock) of the call in progress *)
  let get h k = try Hashtbl.find h k with Not_found -> 0 in
  let nreaders i = Hashtbl.fold (fun (j, _) c acc -> if j = i then acc + c else acc) rheld 0 in
  let maxshare = Array.make n1 0 in
  let monitor (ln, a, k, rest) =
    match k, rest with
    | "TRY", [o; f; _] -> let (i, fld) = obj o in if fld = "mlock" && f = "0" then lockword.(i) <- a
    | "REL", [o; _; _] -> let (i, fld) = obj o in
      if fld = "mlock" then lockword.(i) <- (-1) else if fld = "mwlock" then wlockword.(i) <- (-1)
    | "ENQ", [o; n; _] -> let (i, fld) = obj o in
      if fld = "cwl" then cqueue.(i) <- cqueue.(i) @ [node n] else mqueue.(i) <- mqueue.(i) @ [node n]
    | ("WAKE" | "SIGNAL"), [o; n; _] -> let (i, fld) = obj o in
      if fld = "cwl" then cqueue.(i) <- List.filter (fun y -> y <> node n) cqueue.(i)
      else mqueue.(i) <- List.filter (fun y -> y <> node n) mqueue.(i)
    | "DATA", [o; f; v] ->
      let (i, fld) = obj o in
      if fld = "self" then begin
        if lockword.(i) <> a then addbad (Printf.sprintf "line%d:rwlock-data-written-without-the-mutex(owner=%d,writer=%d)" ln lockword.(i) a);
        let v = int_of_string v in
        if f = "1" then rc.(i) <- v else wf.(i) <- v;
        if wf.(i) = 1 && rc.(i) <> 0 then addbad (Printf.sprintf "line%d:write_flag-set-with-reader_count=%d" ln rc.(i));
        if rc.(i) < 0 || rc.(i) > 1000000 then addbad (Printf.sprintf "line%d:reader_count-underflow" ln)
      end
    | "ACQ", [o; _; _] when (let (_, fld) = obj o in fld = "mwlock") -> let (i, _) = obj o in wlockword.(i) <- a
    | "ACQ", [o; _; _] ->
      let (i, fld) = obj o in
      (* ACQ(cond lock) by a thread inside rdlock / wrlock = its loop test was true *)
      if fld = "clock" then
        (match (try Some (Hashtbl.find cur a) with Not_found -> None) with
         | Some (20, j) when j = i && lockword.(i) = a ->
           if wf.(i) = 0 then addbad (Printf.sprintf "line%d:reader-%d-waits-although-no-writer-holds(reader_count=%d)" ln a rc.(i))
         | Some (21, j) when j = i && lockword.(i) = a ->
           if wf.(i) = 0 && rc.(i) = 0 then addbad (Printf.sprintf "line%d:writer-%d-waits-although-the-lock-is-free" ln a)
         | _ -> ())
    | "BEGIN", [op; i; _] -> Hashtbl.replace cur a (int_of_string op, int_of_string i)
    | "END", [op; i; r] ->
      let op = int_of_string op and i = int_of_string i and r = int_of_string r in
      Hashtbl.remove cur a;
      if r = 0 then begin
        if op = 20 then begin
          if wheld.(i) >= 0 then addbad (Printf.sprintf "line%d:reader-%d-acquired-while-writer-%d-holds" ln a wheld.(i));
          Hashtbl.replace rheld (i, a) (get rheld (i, a) + 1);
          if nreaders i > maxshare.(i) then maxshare.(i) <- nreaders i
        end else if op = 21 then begin
          if wheld.(i) >= 0 then addbad (Printf.sprintf "line%d:writer-%d-acquired-while-writer-%d-holds" ln a wheld.(i));
          if nreaders i > 0 then addbad (Printf.sprintf "line%d:writer-%d-acquired-while-%d-readers-hold" ln a (nreaders i));
          wheld.(i) <- a
        end
      end
    | _ -> () in
  (* holders are released at the BEGIN of their unlock call (the harness leaves the section before calling) *)
  let monitor ((ln, a, k, rest) as ev) =
    (match k, rest with
     | "BEGIN", ["22"; i; _] ->
       let i = int_of_string i in
       if wheld.(i) = a then wheld.(i) <- (-1)
       else if get rheld (i, a) > 0 then Hashtbl.replace rheld (i, a) (get rheld (i, a) - 1)
       else addbad (Printf.sprintf "line%d:unlock-by-non-holder-%d" ln a)
     | _ -> ());
    monitor ev in
  (try List.iter monitor evs with Failure m -> addbad ("monitor-parse:" ^ m) | Not_found -> addbad "monitor-parse");
  (* ---- replay ---- *)
  let mismatch = ref None in
  let count = ref 0 in
  let visited = Hashtbl.create 40 in
  (try
    List.iter (fun (ln, a, k, rest) ->
      let na = nat_of_int a in
      let tr =
        match k, rest with
        | "BEGIN", [op; i; _] ->
          let o = (match op with "20" -> ORd | "21" -> OWr | "22" -> OUn | _ -> failwith "bad opcode") in
          Some (int_of_string i, RBegin (na, kind_of a, o))
        | "END", [_; i; r] -> Some (int_of_string i, REnd (na, z_of_string r))
        | "TRY", [o; f; _] -> let (i, fld) = obj o in
          if fld = "mlock" then Some (i, RC (CM (ETry (na, f <> "0")))) else failwith "TRY on an unexpected lock"
        | "ACQ", [o; _; _] -> let (i, fld) = obj o in
          Some (i, RC (match fld with "clock" -> CAcq na | "mlock" -> CM (EAcqL na) | "mwlock" -> CM (EAcqW na) | _ -> failwith "ACQ?"))
        | "REL", [o; _; _] -> let (i, fld) = obj o in
          Some (i, RC (match fld with "clock" -> CRel | "mlock" -> CM ERelL | "mwlock" -> CM ERelW | _ -> failwith "REL?"))
        | "ENQ", [o; n; c] -> let (i, fld) = obj o in
          if node n <> a then failwith "ENQ of a node by another thread";
          Some (i, RC (if fld = "cwl" then CEnq (na, nat_of_int (int_of_string c)) else CM (EEnq (na, c = "1"))))
        | "SIGNAL", [o; n; _] -> let (i, _) = obj o in
          Some (i, RC (CSignal (if node n < 0 then None else Some (nat_of_int (node n)))))
        | "WAKE", [o; n; _] -> let (i, fld) = obj o in
          Some (i, RC (if fld = "cwl" then CWake (nat_of_int (node n)) else CM (EWake (nat_of_int (node n)))))
        | "BCAST", [o; _; _] -> let (i, fld) = obj o in Some (i, RC (if fld = "cwl" then CBcast else CM EBcast))
        | "TIMEOUT", [o; n; v] -> let (i, _) = obj o in Some (i, RC (CTimeout (nat_of_int (node n), v <> "0")))
        | "DATA", [o; f; v] -> let (i, fld) = obj o in
          if fld = "self" then Some (i, RData (na, nat_of_int (int_of_string f), nat_of_int (int_of_string v)))
          else if fld = "clock" && f = "1" then begin
            (* the cond's p_waiter_mutex binding: must be this rwlock's own mutex (== the rwlock address) *)
            if v <> Printf.sprintf "r%d.self" i then failwith ("rwlock cond bound to " ^ v);
            Some (i, RC (CBind (na, nat_of_int i)))
          end else failwith "unexpected DATA record"
        | "NOTE", _ -> None
        | _ -> failwith ("unexpected event in a rwlock history: " ^ k) in
      match tr with
      | None -> ()
      | Some (i, e) ->
        let needs_actor = (match e with
            | RC CRel | RC (CSignal _) | RC (CWake _) | RC CBcast | RC (CM ERelL) | RC (CM ERelW) | RC (CM (EWake _)) | RC (CM EBcast) -> false
            | _ -> true) in
        if needs_actor && a < 0 then begin
          mismatch := Some (Printf.sprintf "line=%d rwlock=%d event=%s by an unregistered actor" ln i k); raise Exit end;
        (match e with
         | RC (CSignal _) | RC (CWake _) | RC CBcast ->
           if states.(i).cs.clock <> Some na && a >= 0 then begin
             mismatch := Some (Printf.sprintf "line=%d rwlock=%d actor=%d event=%s %s : actor does not hold the cond lock (clock=%s)"
                                 ln i a k (String.concat " " rest) (ostr states.(i).cs.clock)); raise Exit end
         | _ -> ());
        match rstep states.(i) e with
        | Some s' -> states.(i) <- s'; incr count;
          Hashtbl.iter (fun t _ -> Hashtbl.replace visited (rpc_name (s'.rpc (nat_of_int t)) ^ "/" ^ cpc_name (s'.cs.cpc (nat_of_int t))) ()) thrkind
        | None ->
          let s = states.(i) in
          let who = (match e with RC CRel -> (match s.cs.clock with Some h -> int_of_nat h | None -> a)
                                | RC (CM ERelW) -> (match s.cs.ms.wlock with Some h -> int_of_nat h | None -> a)
                                | _ -> a) in
          let w = nat_of_int who in
          mismatch := Some (Printf.sprintf
            "line=%d rwlock=%d actor=%d event=%s %s : not enabled in the model (thread %d: rpc=%s cpc=%s mutex-pc=%s; reader_count=%d write_flag=%b | clock=%s cwl=[%s] | lock=%s wlock=%s wl=[%s])"
            ln i a k (String.concat " " rest) who
            (if who >= 0 then rpc_name (s.rpc w) else "-") (if who >= 0 then cpc_name (s.cs.cpc w) else "-")
            (if who >= 0 then pc_name (s.cs.ms.pc w) else "-")
            (int_of_nat s.rcount) s.wflag (ostr s.cs.clock)
            (String.concat "," (List.map (fun (x, _) -> string_of_int (int_of_nat x)) s.cs.cwl))
            (ostr s.cs.ms.holder) (ostr s.cs.ms.wlock)
            (String.concat "," (List.map (fun x -> string_of_int (int_of_nat x)) s.cs.ms.wl)));
          raise Exit) evs
  with Exit -> ()
     | Failure m -> mismatch := Some ("line=0 event=PARSE " ^ m));
  (match !mismatch with
   | None -> Printf.printf "OK events=%d rwlocks=%d status=%s\n" !count nr !status
   | Some m -> Printf.printf "MISMATCH %s\n" m);
  (* ---- end-of-run monitors ---- *)
  (* a watchdog stop is a failure of THIS property only if an unfinished caller is blocked on the rwlock with nothing
     left that could wake it: queued in rw->cond while nobody holds the lock (last stored reader_count = 0 and
     write_flag = 0) and nobody is inside an unlock call, or queued in rw->mutex whose lock word and waiter_lock are
     free.  Otherwise every unfinished caller is runnable or never started (scheduler starvation on a loaded
     machine): reported, not a failure. *)
  let unfinished = List.filter_map (fun (t, d, _) -> if d <> 1 then Some t else None) !thrdone in
  let unlocking i = Hashtbl.fold (fun _ (op, j) acc -> acc || (op = 22 && j = i)) cur false in
  let blocked = List.filter (fun t ->
      let r = ref false in
      Array.iteri (fun i q -> if List.mem t q && rc.(i) = 0 && wf.(i) = 0 && not (unlocking i) then r := true) cqueue;
      Array.iteri (fun i q -> if List.mem t q && lockword.(i) < 0 && wlockword.(i) < 0 then r := true) mqueue;
      !r) unfinished in
  let starved = (!status = "STUCK" && blocked = []) in
  if !status <> "DONE" && not starved then
    addbad (Printf.sprintf "status=%s blocked=[%s]" !status (String.concat "," (List.map string_of_int blocked)));
  let shares = ref 0 in
  List.iter (fun (i, kv) ->
      let g k = List.assoc k kv in
      if g "bad_rw" <> 0 then addbad (Printf.sprintf "r%d:reader-inside-with-a-writer" i);
      if g "bad_ww" <> 0 then addbad (Printf.sprintf "r%d:two-writers-inside" i);
      if g "shared" <> g "expect" then addbad (Printf.sprintf "r%d:lost-update(shared=%d,expect=%d)" i (g "shared") (g "expect"));
      if !status = "DONE" && (g "readers_in" <> 0 || g "writers_in" <> 0) then addbad (Printf.sprintf "r%d:holders-left" i);
      shares := max !shares (g "max_readers")) !mons;
  List.iter (fun (t, d, kv) ->
      if d <> 1 && not starved then addbad (Printf.sprintf "thread%d-not-finished" t);
      if List.assoc "badret" kv <> 0 then addbad (Printf.sprintf "thread%d-unexpected-return-code" t)) !thrdone;
  if !mismatch = None && !status = "DONE" then
    Array.iteri (fun i s ->
        if s.cs.clock <> None || s.cs.cwl <> [] || s.cs.ms.holder <> None || s.cs.ms.wlock <> None || s.cs.ms.wl <> []
           || s.wflag || s.rcount <> O || s.readers <> [] || s.writer <> None then
          addbad (Printf.sprintf "r%d:model-final-state-not-quiescent" i)) states;
  if !bad = [] then print_endline (if starved then "MON ok starved(unfinished=" ^ String.concat "," (List.map string_of_int unfinished) ^ ")" else "MON ok") else print_endline ("MONFAIL " ^ String.concat " " (List.rev !bad));
  Printf.printf "COV maxshare=%d %s\n" (max !shares (Array.fold_left max 0 maxshare))
    (String.concat " " (List.sort compare (Hashtbl.fold (fun k _ acc -> k :: acc) visited [])))
