(* C07 driver: one case per input line, one canonical line per case.
   Q <F|W|R> <P|SS|MS|SM|MM> <nunits> <g> ; op , op , ...
     g: initial value of the (for PRIV never initialised) spinlock word: 0 | 1;
        "0x" = 0 and the sequence may break the push contract (double pushes):
        the model is then run as is, outside the scope of the theorems, to
        compare its pointer-level behaviour with the C code
   ops: pt u | px u ctx | pm u.. | pmx ctx u.. | ot | ox ctx | om len | omx ctx len
        ow | owx ctx | lp u | lo | lw | lt | lr u | gs | gt | ie        (u = index or N)
   output:  r1 r2 .. [HANG|FAULT] | d1 / d2 / ..     (d_i = state after op i)
   A second argument "spec" makes the driver print what the deque
   specification (DS/PoolSpec.v spec_run, extracted) says instead (results
   only); used by the finding stage. *)
let n_of_int i = if i <= 0 then N0 else Npos (pos_of_int i)
let pr_ptr = function None -> "N" | Some x -> string_of_int (int_of_nat x)
let pr_ids l = "[" ^ String.concat "," (List.map (fun x -> string_of_int (int_of_nat x)) l) ^ "]"
let pr_res = function
  | RCode c -> "c" ^ string_of_int (int_of_nat c)
  | RUnit (c, t) -> "u" ^ string_of_int (int_of_nat c) ^ ":" ^ pr_ptr t
  | RUnits (num, l) ->
    "m" ^ (match num with None -> "-" | Some k -> string_of_int (int_of_nat k)) ^ ":" ^ pr_ids l
  | RSize k -> "s" ^ string_of_int (int_of_nat k)
  | RBool b -> "b" ^ (if b then "1" else "0")
let b01 b = if b then "1" else "0"
let dump nu p h =
  let q = p.p_queue in
  let units = List.init nu (fun i ->
      let x = nat_of_int i in
      pr_ptr (h.h_prev x) ^ "." ^ pr_ptr (h.h_next x) ^ "." ^ b01 (h.h_inpool x)) in
  "n" ^ string_of_int (int_of_nat q.q_num) ^ ",h" ^ pr_ptr q.q_head ^ ",t" ^ pr_ptr q.q_tail ^
  ",e" ^ b01 q.q_is_empty ^ ",l" ^ b01 p.p_lock ^
  ",f" ^ pr_ids (tq_abs q h) ^ ",b" ^ pr_ids (tq_abs_rev q h) ^ "," ^ String.concat ";" units
let parse_ptr s = if s = "N" then None else Some (nat_of_int (int_of_string s))
let parse_ctx s = n_of_int (int_of_string s)
let parse_op s = match words s with
  | ["pt"; u] -> OPushThread (parse_ptr u, N0)
  | ["px"; u; c] -> OPushThread (parse_ptr u, parse_ctx c)
  | "pm" :: us -> OPushThreads (List.map parse_ptr us, N0)
  | "pmx" :: c :: us -> OPushThreads (List.map parse_ptr us, parse_ctx c)
  | ["ot"] -> OPopThread N0
  | ["ox"; c] -> OPopThread (parse_ctx c)
  | ["om"; l] -> OPopThreads (nat_of_int (int_of_string l), N0)
  | ["omx"; c; l] -> OPopThreads (nat_of_int (int_of_string l), parse_ctx c)
  | ["ow"] -> OPopWaitThread N0
  | ["owx"; c] -> OPopWaitThread (parse_ctx c)
  | ["lp"; u] -> OLPush (parse_ptr u)
  | ["lo"] -> OLPop
  | ["lw"] -> OLPopWait
  | ["lt"] -> OLPopTimedwait
  | ["lr"; u] -> OLRemove (nat_of_int (int_of_string u))
  | ["gs"] -> OGetSize
  | ["gt"] -> OGetTotalSize
  | ["ie"] -> OIsEmpty
  | _ -> failwith ("bad op: " ^ s)
let parse_kind = function "F" -> FIFO | "W" -> FIFO_WAIT | "R" -> RANDWS | s -> failwith ("bad kind " ^ s)
let parse_access = function
  | "P" -> PRIV | "SS" -> SPSC | "MS" -> MPSC | "SM" -> SPMC | "MM" -> MPMC | s -> failwith ("bad access " ^ s)

let do_case spec line =
  match String.split_on_char ';' line with
  | [hd; ops] ->
    (match words hd with
     | [_; k; a; nu; g] ->
       let nu = int_of_string nu in
       let kind = parse_kind k in
       let ops = List.map parse_op (split_on ',' ops) in
       if spec then String.concat " " (List.map pr_res (snd (spec_run kind [] ops)))
       else if g <> "0x" && not (ops_legal kind [] ops) then "ILLEGAL (a pushed unit is already in the pool)"
       else begin
         let p = pool_init kind (parse_access a) (g = "1") in
         let (tr, st) = pool_run O p heap_init ops in
         let rs = List.map (fun ((r, _), _) -> pr_res r) tr in
         let rs = rs @ (match st with Finished -> [] | Faulted -> ["FAULT"] | Hung -> ["HANG"]) in
         let ds = List.map (fun ((_, p), h) -> dump nu p h) tr in
         String.concat " " rs ^ " | " ^ String.concat " / " ds
       end
     | _ -> failwith "bad Q header")
  | _ -> failwith "bad Q line"
let () =
  let ic = if Array.length Sys.argv > 1 then open_in Sys.argv.(1) else stdin in
  let spec = Array.length Sys.argv > 2 && Sys.argv.(2) = "spec" in
  List.iter (fun line ->
      let line = String.trim line in
      if line <> "" && line.[0] <> '#' then print_endline (do_case spec line))
    (read_lines ic)
