(* C05 driver: replays a recorded history (harness/h_c05.c) through the extracted
   CondMutex LTS, one LTS instance per (condition variable i, mutex i) pair, and
   evaluates model-independent monitors on the raw history.
   usage: drv_c05 <history>  ->  line 1: OK ... | MISMATCH ... ; line 2: MON ok | MONFAIL ... *)
let cpc_name = function
  | CIdle -> "CIdle" | CW0 -> "CW0" | CW1 -> "CW1" | CWU -> "CWU" | CF0 -> "CF0" | CF1 -> "CF1"
  | CUQ -> "CUQ" | CUS -> "CUS" | CEW -> "CEW" | CES -> "CES" | CER -> "CER" | CEWr -> "CEWr"
  | CTQ -> "CTQ" | CTP -> "CTP" | CTPr -> "CTPr" | CTS -> "CTS" | CTSr -> "CTSr" | CTQr -> "CTQr"
  | CTT -> "CTT" | CTTr -> "CTTr" | CTX -> "CTX" | CTXr -> "CTXr" | CRdy -> "CRdy" | CTO -> "CTO"
  | CWLs -> "CWLs" | CWLt -> "CWLt" | CS0 -> "CS0" | CS1 -> "CS1" | CS2 -> "CS2"
  | CB0 -> "CB0" | CB1 -> "CB1" | CB1w -> "CB1w" | CB2 -> "CB2"
let pc_name = function
  | Idle -> "Idle" | L0 -> "L0" | L1 -> "L1" | L2 -> "L2" | L2ok -> "L2ok" | L3 -> "L3"
  | UQ -> "UQ" | US -> "US" | EW -> "EW" | EWr -> "EWr" | ES -> "ES" | ER -> "ER"
  | Holding -> "Holding" | T0 -> "T0" | S0 -> "S0" | U1 -> "U1" | U2 -> "U2" | U3 -> "U3"
let ostr = function Some h -> string_of_int (int_of_nat h) | None -> "free"
let () =
  let lines = read_lines (open_in Sys.argv.(1)) in
  let status = ref "" in
  let mkinds = Hashtbl.create 8 in
  let thrkind = Hashtbl.create 16 in
  let mons = ref [] in
  let thrdone = ref [] in
  let evs = ref [] in
  let kvs rest = List.map (fun w -> match String.split_on_char '=' w with [k; v] -> (k, int_of_string v) | _ -> ("", 0)) rest in
  List.iteri (fun i l ->
      match words l with
      | "STATUS" :: s :: _ -> status := s
      | "THR" :: t :: k :: _ -> Hashtbl.replace thrkind (int_of_string t) k
      | "MON" :: m :: rest ->
        let idx = int_of_string (String.sub m 1 (String.length m - 1)) in
        let kv = kvs rest in
        Hashtbl.replace mkinds idx (List.assoc "mkind" kv);
        mons := (idx, kv) :: !mons
      | "THRDONE" :: t :: d :: rest -> thrdone := (int_of_string t, int_of_string d, kvs rest) :: !thrdone
      | a :: k :: rest -> evs := (i, int_of_string a, k, rest) :: !evs
      | _ -> ()) lines;
  let evs = List.rev !evs in
  let np = Hashtbl.length mkinds in
  let states = Array.init np (fun i ->
      let k = (try Hashtbl.find mkinds i with Not_found -> 0) in
      cinit (k = 1 || k = 3) (nat_of_int i) (z_of_int 1000)) in
  let obj o = (* "m3.lock" -> ('m', 3, "lock") *)
    match String.split_on_char '.' o with
    | [m; f] -> (m.[0], int_of_string (String.sub m 1 (String.length m - 1)), f)
    | _ -> failwith ("bad object " ^ o) in
  let node n = if n = "none" then -1 else int_of_string (String.sub n 1 (String.length n - 1)) in
  let kind_of a = match (try Hashtbl.find thrkind a with Not_found -> "E") with "U" -> KUlt | "T" -> KTask | _ -> KExt in
  let mismatch = ref None in
  let count = ref 0 in
  let visited = Hashtbl.create 40 in
  (* ---- model-independent monitors on the raw history ---- *)
  let bad = ref [] in
  let addbad s = if not (List.mem s !bad) then bad := s :: !bad in
  let credits = Hashtbl.create 16 and returns = Hashtbl.create 16 in      (* (pair, thread) -> count *)
  let get h k = try Hashtbl.find h k with Not_found -> 0 in
  let lockword = Array.make (max np 1) (-1) in                            (* raw owner of m<i>.lock *)
  let queue = Array.make (max np 1) [] in                                 (* raw cond wait list *)
  let mqueue = Array.make (max np 1) [] in                                (* raw mutex wait list *)
  let wlockword = Array.make (max np 1) (-1) in                           (* raw owner of m<i>.wlock *)
  let clk = ref 1000 in
  let pending = Hashtbl.create 16 in                                      (* thread -> (op, pair, mutex, deadline) *)
  let monitor (ln, a, k, rest) =
    match k, rest with
    | "NOTE", ["1"; v; _] -> clk := int_of_string v
    | "TRY", [o; f; _] -> let (c, i, fld) = obj o in if c = 'm' && fld = "lock" && f = "0" then lockword.(i) <- a
    | "ACQ", [o; _; _] -> let (c, i, fld) = obj o in
      if c = 'm' && fld = "lock" then lockword.(i) <- a else if c = 'm' && fld = "wlock" then wlockword.(i) <- a
    | "REL", [o; _; _] -> let (c, i, fld) = obj o in
      if c = 'm' && fld = "lock" then lockword.(i) <- (-1) else if c = 'm' && fld = "wlock" then wlockword.(i) <- (-1)
    | "ENQ", [o; n; _] -> let (c, i, _) = obj o in
      if c = 'c' then queue.(i) <- queue.(i) @ [node n] else mqueue.(i) <- mqueue.(i) @ [node n]
    | "SIGNAL", [o; n; _] -> let (c, i, _) = obj o in
      if c = 'c' then begin
        (match queue.(i), node n with
         | [], -1 -> ()
         | h :: r, x when x = h -> queue.(i) <- r; Hashtbl.replace credits (i, x) (get credits (i, x) + 1)
         | [], x -> addbad (Printf.sprintf "line%d:signal-woke-%d-but-nobody-waits" ln x)
         | h :: _, x -> addbad (Printf.sprintf "line%d:signal-woke-%d-head-is-%d" ln x h))
      end
    | "WAKE", [o; n; _] when (let (c, _, _) = obj o in c = 'm') -> let (_, i, _) = obj o in
      mqueue.(i) <- List.filter (fun y -> y <> node n) mqueue.(i)
    | "WAKE", [o; n; _] -> let (c, i, _) = obj o in
      if c = 'c' then begin
        (match queue.(i), node n with
         | h :: r, x when x = h -> queue.(i) <- r; Hashtbl.replace credits (i, x) (get credits (i, x) + 1)
         | _, x -> addbad (Printf.sprintf "line%d:broadcast-woke-%d-not-the-head" ln x))
      end
    | "BCAST", [o; _; _] -> let (c, i, _) = obj o in
      if c = 'c' && queue.(i) <> [] then addbad (Printf.sprintf "line%d:broadcast-left-waiters" ln)
    | "TIMEOUT", [o; n; v] -> let (c, i, _) = obj o in
      if c = 'c' then begin
        let x = node n in
        if v = "1" then begin
          if not (List.mem x queue.(i)) then addbad (Printf.sprintf "line%d:timed-out-but-not-queued-%d" ln x);
          queue.(i) <- List.filter (fun y -> y <> x) queue.(i)
        end else if List.mem x queue.(i) then addbad (Printf.sprintf "line%d:verdict-signalled-but-still-queued-%d" ln x)
      end
    | "BEGIN", [op; i; c] ->
      let op = int_of_string op and i = int_of_string i and c = int_of_string c in
      if op = 10 then Hashtbl.replace pending a (op, i, c, 0)
      else if op = 11 then Hashtbl.replace pending a (op, i, c mod 64, c / 64)
    | "END", [op; i; r] ->
      let op = int_of_string op and i = int_of_string i and r = int_of_string r in
      if op = 10 || op = 11 then begin
        let (_, _, m, d) = (try Hashtbl.find pending a with Not_found -> (op, i, i, 0)) in
        if r = 0 then begin
          Hashtbl.replace returns (i, a) (get returns (i, a) + 1);
          if get returns (i, a) > get credits (i, a) then
            addbad (Printf.sprintf "line%d:thread%d-returned-from-wait-without-signal(returns=%d,credits=%d)" ln a (get returns (i, a)) (get credits (i, a)))
        end;
        if r <> 41 && lockword.(m) <> a then
          addbad (Printf.sprintf "line%d:thread%d-returned-from-wait-not-holding-m%d(lock-word-owner=%d)" ln a m lockword.(m));
        if r = 42 && !clk < d then addbad (Printf.sprintf "line%d:thread%d-timed-out-at-%d-before-deadline-%d" ln a !clk d);
        if r = 42 && op = 10 then addbad (Printf.sprintf "line%d:untimed-wait-timed-out" ln)
      end
    | _ -> () in
  (try List.iter monitor evs with Failure m -> addbad ("monitor-parse:" ^ m) | Not_found -> addbad "monitor-parse");
  (* ---- replay ---- *)
  (try
    List.iter (fun ((ln, a, k, rest) as ev) ->
      let na = nat_of_int a in
      let tr = (* list of (pair, event) *)
        match k, rest with
        | "NOTE", ["1"; v; _] -> List.init np (fun i -> (i, CTick (z_of_string v)))
        | "NOTE", _ -> []
        | "BEGIN", [op; i; c] ->
          let op = int_of_string op and i = int_of_string i and c = int_of_string c in
          (match op with
           | 0 -> [(i, CM (EBegin (na, OLock)))] | 1 -> [(i, CM (EBegin (na, OTry)))]
           | 2 -> [(i, CM (EBegin (na, OSpin)))] | 3 -> [(i, CM (EBegin (na, OUnlock)))]
           | 10 -> [(i, CBegin (na, kind_of a, OWait (nat_of_int c)))]
           | 11 -> [(i, CBegin (na, kind_of a, OTimed (nat_of_int (c mod 64), z_of_int (c / 64))))]
           | 12 -> [(i, CBegin (na, kind_of a, OSignal))]
           | 13 -> [(i, CBegin (na, kind_of a, OBcast))]
           | _ -> failwith "bad opcode")
        | "END", [op; i; r] ->
          let op = int_of_string op and i = int_of_string i in
          if op < 10 then [(i, CM (EEnd (na, z_of_string r)))] else [(i, CEnd (na, z_of_string r))]
        | "TRY", [o; f; _] -> let (c, i, fld) = obj o in
          if c = 'm' && fld = "lock" then [(i, CM (ETry (na, f <> "0")))] else failwith "TRY on an unexpected lock"
        | "ACQ", [o; _; _] -> let (c, i, fld) = obj o in
          if c = 'c' then [(i, CAcq na)] else [(i, CM (if fld = "lock" then EAcqL na else EAcqW na))]
        | "REL", [o; _; _] -> let (c, i, fld) = obj o in
          if c = 'c' then [(i, CRel)] else [(i, CM (if fld = "lock" then ERelL else ERelW))]
        | "ENQ", [o; n; c] -> let (oc, i, _) = obj o in
          if node n <> a then failwith "ENQ of a node by another thread";
          if oc = 'c' then [(i, CEnq (na, nat_of_int (int_of_string c)))] else [(i, CM (EEnq (na, c = "1")))]
        | "SIGNAL", [o; n; _] -> let (_, i, _) = obj o in
          [(i, CSignal (if node n < 0 then None else Some (nat_of_int (node n))))]
        | "WAKE", [o; n; _] -> let (oc, i, _) = obj o in
          if oc = 'c' then [(i, CWake (nat_of_int (node n)))] else [(i, CM (EWake (nat_of_int (node n))))]
        | "BCAST", [o; _; _] -> let (oc, i, _) = obj o in if oc = 'c' then [(i, CBcast)] else [(i, CM EBcast)]
        | "TIMEOUT", [o; n; v] -> let (_, i, _) = obj o in
          if node n <> a then failwith "TIMEOUT test of a node by another thread";
          [(i, CTimeout (na, v <> "0"))]
        | "DATA", [o; "1"; m] -> let (_, i, _) = obj o in
          let (mc, j, fld) = (try obj m with _ -> ('?', -1, "")) in
          if mc <> 'm' || fld <> "self" then failwith ("cond bound to an unregistered mutex: " ^ m);
          [(i, CBind (na, nat_of_int j))]
        | _ -> failwith ("unexpected event in a cond history: " ^ k) in
      List.iter (fun (i, e) ->
        let needs_actor = (match e with
            | CRel | CSignal _ | CWake _ | CBcast | CTick _ | CM ERelL | CM ERelW | CM (EWake _) | CM EBcast -> false
            | _ -> true) in
        if needs_actor && a < 0 then begin
          mismatch := Some (Printf.sprintf "line=%d pair=%d event=%s by an unregistered actor" ln i k); raise Exit end;
        (* SIGNAL / WAKE / BCAST / TIMEOUT are performed by the holder of the cond lock *)
        (match e with
         | CSignal _ | CWake _ | CBcast ->
           if states.(i).clock <> Some na && a >= 0 then begin
             mismatch := Some (Printf.sprintf "line=%d pair=%d actor=%d event=%s %s : actor does not hold the cond lock (clock=%s)"
                                 ln i a k (String.concat " " rest) (ostr states.(i).clock)); raise Exit end
         | _ -> ());
        match cstep states.(i) e with
        | Some s' -> states.(i) <- s'; (match e with CTick _ -> () | _ -> incr count);
          Hashtbl.iter (fun t _ -> Hashtbl.replace visited (cpc_name (s'.cpc (nat_of_int t))) ()) thrkind
        | None ->
          let s = states.(i) in
          let who = (match e with CRel -> (match s.clock with Some h -> int_of_nat h | None -> a)
                                | CM ERelW -> (match s.ms.wlock with Some h -> int_of_nat h | None -> a)
                                | _ -> a) in
          let cp = if who >= 0 then cpc_name (s.cpc (nat_of_int who)) else "-" in
          let mp = if who >= 0 then pc_name (s.ms.pc (nat_of_int who)) else "-" in
          mismatch := Some (Printf.sprintf
            "line=%d pair=%d actor=%d event=%s %s : not enabled in the model (thread %d: cpc=%s mutex-pc=%s; clock=%s cwl=[%s] bound=%s now=%s | lock=%s wlock=%s wl=[%s])"
            ln i a k (String.concat " " rest) who cp mp (ostr s.clock)
            (String.concat "," (List.map (fun (x, t) -> string_of_int (int_of_nat x) ^ (if t then "t" else "")) s.cwl))
            (ostr s.wmx) (string_of_z s.now) (ostr s.ms.holder) (ostr s.ms.wlock)
            (String.concat "," (List.map (fun x -> string_of_int (int_of_nat x)) s.ms.wl)));
          raise Exit) tr) evs
  with Exit -> ()
     | Failure m -> mismatch := Some ("line=0 event=PARSE " ^ m));
  (match !mismatch with
   | None -> Printf.printf "OK events=%d pairs=%d status=%s\n" !count np !status
   | Some m -> Printf.printf "MISMATCH %s\n" m);
  (* ---- end-of-run monitors ---- *)
  (* a watchdog stop is a failure of THIS property only if an unfinished caller is blocked on the objects under test
     with nothing left that could wake it: queued in a cond after the closing thread (highest index) has finished, or
     queued in a mutex whose lock word and waiter_lock are free.  Otherwise the run was cut short with every
     unfinished caller runnable or never started (scheduler starvation on a loaded machine): reported, not a failure. *)
  let unfinished = List.filter_map (fun (t, d, _) -> if d <> 1 then Some t else None) !thrdone in
  let closer_done = (match List.sort (fun (a, _, _) (b, _, _) -> compare b a) !thrdone with (_, d, _) :: _ -> d = 1 | [] -> true) in
  let blocked = List.filter (fun t ->
      let r = ref false in
      Array.iteri (fun i q -> if List.mem t q && closer_done then r := true) queue;
      Array.iteri (fun i q -> if List.mem t q && lockword.(i) < 0 && wlockword.(i) < 0 then r := true) mqueue;
      !r) unfinished in
  let starved = (!status = "STUCK" && blocked = []) in
  if !status <> "DONE" && not starved then
    addbad (Printf.sprintf "status=%s blocked=[%s]" !status (String.concat "," (List.map string_of_int blocked)));
  List.iter (fun (i, kv) ->
      let g k = List.assoc k kv in
      if g "produced" <> g "consumed" + g "tokens" then addbad (Printf.sprintf "p%d:lost-update(produced=%d,consumed=%d,tokens=%d)" i (g "produced") (g "consumed") (g "tokens"));
      if g "overlap" <> 0 then addbad (Printf.sprintf "p%d:two-holders" i);
      if g "inside" <> 0 then addbad (Printf.sprintf "p%d:inside=%d" i (g "inside"))) !mons;
  List.iter (fun (t, d, kv) ->
      if d <> 1 && not starved then addbad (Printf.sprintf "thread%d-not-finished" t);
      if List.assoc "badtimeout" kv <> 0 then addbad (Printf.sprintf "thread%d-timed-out-before-its-deadline" t);
      if List.assoc "badret" kv <> 0 then addbad (Printf.sprintf "thread%d-unexpected-return-code" t)) !thrdone;
  if !status = "DONE" then begin
    Hashtbl.iter (fun (i, x) c -> if get returns (i, x) <> c then
                     addbad (Printf.sprintf "p%d:thread%d-credits=%d-returns=%d" i x c (get returns (i, x)))) credits;
    Array.iteri (fun i q -> if q <> [] then addbad (Printf.sprintf "p%d:waiters-left-in-the-queue" i)) queue
  end;
  (* final model state: everything quiescent, every credit consumed *)
  if !mismatch = None && !status = "DONE" then
    Array.iteri (fun i s ->
        if s.clock <> None || s.cwl <> [] || s.ms.holder <> None || s.ms.wlock <> None || s.ms.wl <> [] then
          addbad (Printf.sprintf "p%d:model-final-state-not-quiescent" i);
        Hashtbl.iter (fun t _ -> if s.credit (nat_of_int t) || s.given (nat_of_int t) <> s.taken (nat_of_int t) then
                         addbad (Printf.sprintf "p%d:model-credit-of-thread%d-not-consumed" i t)) thrkind) states;
  if !bad = [] then print_endline (if starved then "MON ok starved(unfinished=" ^ String.concat "," (List.map string_of_int unfinished) ^ ")" else "MON ok") else print_endline ("MONFAIL " ^ String.concat " " (List.rev !bad));
  (* coverage of the model's program points by this history (informational) *)
  print_endline ("COV " ^ String.concat " " (List.sort compare (Hashtbl.fold (fun k _ acc -> k :: acc) visited [])))
