(* C15 driver: one case per input line, one canonical result line per case
   (same formats as harness/h_c15_wb.c and harness/h_c15_api.c).
   Options before the file name:
     --f5-buggy   run the memory-pool model with the unpatched remaining-count expression
     --f1-buggy   run the stack-geometry model with the unpatched free-size expression   *)
let f5_buggy = ref false
let f1_buggy = ref false
let zi = z_of_int
let si z = string_of_z z
let ids l = String.concat " " (List.map si l)

(* ---------------- MP *)
let mp_step s o = if !f5_buggy then step_buggy s o else step s o

let pr_pages g link top =
  let fuel = nat_of_int (int_of_z g.g_npages + 1) in
  let l = walk_pages link top fuel in
  "[" ^ String.concat " " (List.map (fun p -> si p ^ ":" ^ si (g.g_pages p).pg_carved) l) ^ "]"

let mp_dump (s : state) np =
  let g = s.st_g in
  let n = int_of_z g.g_N in
  let chain b fuel = "[" ^ ids (take_chain g.g_hp b (nat_of_int fuel)) ^ "]" in
  let buf = Buffer.create 256 in
  List.iteri (fun i ol ->
      match ol with
      | None -> Buffer.add_string buf (Printf.sprintf " L%d:-" i)
      | Some l ->
        Buffer.add_string buf (Printf.sprintf " L%d:i=%s" i (si l.l_idx));
        for j = 0 to int_of_z l.l_idx do
          let b = lget l (zi j) in
          Buffer.add_string buf ("," ^ chain b (2 * n + 2) ^ "#" ^ si (g.g_hp b).h_info)
        done) s.st_l;
  Buffer.add_string buf (" G:bt=" ^ si g.g_btag ^ ",");
  let heads = lifo_heads g (nat_of_int (int_of_z (total_blocks g) + 1)) in
  List.iter (fun b -> Buffer.add_string buf (chain b (2 * n + 2))) heads;
  Buffer.add_string buf (";pt=" ^ si g.g_ptag ^ ",pl=" ^
                         pr_pages g (fun p -> (g.g_pages p).pg_lnext) g.g_ptop);
  Buffer.add_string buf (",pe=" ^ pr_pages g (fun p -> (g.g_pages p).pg_enext) g.g_empty);
  Buffer.add_string buf ";pp=";
  if g.g_partial = Z0 then Buffer.add_string buf "-"
  else Buffer.add_string buf ("#" ^ si (g.g_hp g.g_partial).h_info ^ chain g.g_partial (4 * n + 4));
  Buffer.add_string buf (" np=" ^ si g.g_npages);
  ignore np;
  Buffer.contents buf

let do_mp line =
  match String.split_on_char ';' line with
  | hd :: rest ->
    let ops = match rest with o :: _ -> o | [] -> "" in
    let (n, s_, np) = (match words hd with
        | [_; n; s; np; _; _; _] -> (int_of_string n, int_of_string s, int_of_string np)
        | _ -> failwith "bad MP header") in
    let st = ref (init_state (zi n) (zi s_) (zi (-1)) (nat_of_int np)) in
    let destroyed = ref None in
    let out = Buffer.create 256 in
    let live i = i >= 0 && i < np && (match List.nth !st.st_l i with Some _ -> true | None -> false) in
    let apply o ok =
      match mp_step !st o with
      | Some (s', r) -> st := s'; Buffer.add_string out (ok r)
      | None -> failwith ("model step refused a screened op in: " ^ line) in
    List.iter (fun o ->
        match words o with
        | [] -> ()
        | _ when !destroyed <> None -> Buffer.add_string out " x"
        | ["I"; i] -> let i = int_of_string i in
          if i < 0 || i >= np || live i then Buffer.add_string out " x"
          else apply (OInit (nat_of_int i)) (function RNoMem -> " E" | _ -> " u")
        | ["A"; i] -> let i = int_of_string i in
          if not (live i) then Buffer.add_string out " x"
          else apply (OAlloc (nat_of_int i)) (function RBlk b -> " " ^ si b | RNoMem -> " E" | RUnit -> " ?")
        | ["F"; i; k] -> let i = int_of_string i and k = int_of_string k in
          let held = !st.st_alloc in
          if not (live i) || held = [] then Buffer.add_string out " x"
          else apply (OFree (nat_of_int i, List.nth held (k mod List.length held))) (fun _ -> " u")
        | ["D"; i] -> let i = int_of_string i in
          if not (live i) then Buffer.add_string out " x"
          else apply (ODestroy (nat_of_int i)) (fun _ -> " u")
        | ["B"; k] -> apply (OBudget (z_of_string k)) (fun _ -> " u")
        | ["Z"] ->
          if List.exists (fun x -> x <> None) !st.st_l then Buffer.add_string out " x"
          else begin
            let l = destroy_global !st.st_g in
            destroyed := Some l;
            Buffer.add_string out (" Z[" ^ ids l ^ "]")
          end
        | _ -> failwith ("bad MP op: " ^ o)) (String.split_on_char ',' ops);
    "MP" ^ Buffer.contents out ^ " |" ^
    (match !destroyed with
     | None -> mp_dump !st np
     | Some _ -> " gone np=" ^ si !st.st_g.g_npages)
  | _ -> failwith "bad MP line"

(* ---------------- LF *)
let do_lf line =
  let ops = (match String.split_on_char ';' line with _ :: o :: _ -> o | _ -> "") in
  let l = ref sl_init in
  let inl = Array.make 17 false in
  let out = Buffer.create 64 in
  List.iter (fun o ->
      match words o with
      | [] -> ()
      | [("P" | "p"); e] -> let e = int_of_string e in
        if e < 1 || e > 16 || inl.(e) then Buffer.add_string out " x"
        else begin l := sl_push !l (zi e); inl.(e) <- true; Buffer.add_string out " u" end
      | [("O" | "o")] ->
        let (l', p) = sl_pop !l in
        l := l';
        let p = int_of_z p in
        if p > 0 then inl.(p) <- false;
        Buffer.add_string out (" " ^ string_of_int p)
      | _ -> failwith ("bad LF op: " ^ o)) (String.split_on_char ',' ops);
  "LF" ^ Buffer.contents out ^ " | tag=" ^ si !l.sl_tag ^ " [" ^ ids (sl_chain !l (nat_of_int 17)) ^ "]"

(* ---------------- API: see below *)
let kv hd key =
  let r = ref None in
  List.iter (fun w ->
      let k = key ^ "=" in
      let n = String.length k in
      if String.length w > n && String.sub w 0 n = k then r := Some (String.sub w n (String.length w - n)))
    (words hd);
  !r
let do_apis line =
  match String.split_on_char ';' line with
  | _ :: par :: _ ->
    let g k d = match kv par k with Some v -> int_of_string v | None -> d in
    let k = min (g "K" 8) 64 in
    Printf.sprintf "APIS created=%d ; ov=0 leak=0 inv=0" ((min (g "W" 2) 64 + min (g "X" 1) 64) * g "R" 10 * k)
  | _ -> failwith "bad APIS line"
let do_api line =
  if String.length line >= 4 && String.sub line 0 4 = "APIS" then do_apis line else
  match String.split_on_char ';' line with
  | hd :: rest ->
    let specs = (match rest with s :: _ -> s | [] -> "") in
    let getz k d = match kv hd k with Some v -> z_of_string v | None -> zi d in
    let d = getz "D" 16384 and sy = getz "SY" 0 in
    let ub = Z.mul (zi 1048576) (zi 1048576) in        (* fake base of the user buffer *)
    let ptr = Z.mul (zi 1048576) (zi 1024) in          (* fake allocator answer, 64-aligned *)
    let hs = stack_header_size sy d and dhs = desc_elem sy in
    let buf = Buffer.create 256 in
    Buffer.add_string buf ("API hs=" ^ si hs ^ " dhs=" ^ si dhs);
    let inv = ref 0 in
    List.iteri (fun i sp ->
        match words sp with
        | [] -> ()
        | cr :: rest ->
          let on_es = cr <> "X" in
          let (attr, user) = (match rest with
              | ["N"; _] -> (AttrNull, false)
              | ["A"; sz; _] -> (Attr (Z0, z_of_string sz), false)
              | ["U"; off; sz; _] -> (Attr (Z.add ub (z_of_string off), z_of_string sz), true)
              | _ -> failwith ("bad API spec: " ^ sp)) in
          let req = ythread_create_req sy d on_es attr in
          let y = ythread_create_mem d on_es attr ptr in
          let ty = (match y.ym_type with
              | MempoolDescStack -> "pds" | MallocDescStack -> "mds"
              | MempoolDesc -> "pd" | MallocDesc -> "md") in
          let (ga_stack, ga_size) = get_attr y in
          Buffer.add_string buf (Printf.sprintf " T%d:%s d=%s ss=%s gs=%s" i ty
                                   (si (Z.sub y.ym_desc ptr)) (si y.ym_stacksize) (si y.ym_stacksize));
          if user then
            Buffer.add_string buf (" utop=" ^ si (Z.sub y.ym_stacktop ub) ^ " ga=" ^ si ga_size ^
                                   ":U" ^ si (Z.sub ga_stack ub))
          else
            Buffer.add_string buf (" top=" ^ si (Z.sub y.ym_stacktop ptr) ^ " ga=" ^ si ga_size ^
                                   ":" ^ si (Z.sub ga_stack ptr));
          (match req with
           | ReqPoolStack -> Buffer.add_string buf (" slotoff=" ^ si (Z.modulo d hs))
           | ReqPoolDesc -> Buffer.add_string buf " slotoff=0"
           | ReqMalloc size -> Buffer.add_string buf (" req=" ^ si (roundup size (zi 64))));
          let (lo, hi) = usable y in
          let rsp = entry_rsp hi in
          let loc = (Z.leb lo rsp) && (Z.ltb rsp hi) in
          let f16 = Z.eqb (Z.modulo (Z.add rsp (zi 8)) (zi 16)) Z0 in
          let rel = (if !f1_buggy then free_thread_buggy y else free_thread y) in
          let rels = (match rel with
              | RelPoolStack p -> "pool-stack:" ^ si (Z.sub p ptr)
              | RelPoolDesc p -> "pool-desc:" ^ si (Z.sub p ptr)
              | RelFree p -> if p <> ptr then incr inv; "free:" ^ si (Z.sub p ptr)) in
          Buffer.add_string buf (Printf.sprintf " al=%s loc=%d f16=%d rel=%s"
                                   (si (Z.modulo y.ym_desc (zi 64)))
                                   (if loc then 1 else 0) (if f16 then 1 else 0) rels))
      (String.split_on_char ',' specs);
    Buffer.add_string buf (Printf.sprintf " ; ov=0 leak=0 inv=%d ugp=0" !inv);
    Buffer.contents buf
  | _ -> failwith "bad API line"


let () =
  let file = ref None in
  Array.iteri (fun i a -> if i > 0 then
                  match a with
                  | "--f5-buggy" -> f5_buggy := true
                  | "--f1-buggy" -> f1_buggy := true
                  | f -> file := Some f) Sys.argv;
  let ic = match !file with Some f -> open_in f | None -> stdin in
  List.iter (fun line ->
      let line = String.trim line in
      if line <> "" && line.[0] <> '#' then
        print_endline (if String.length line >= 2 && String.sub line 0 2 = "MP" then do_mp line
                       else if String.sub line 0 2 = "LF" then do_lf line
                       else if String.length line >= 3 && String.sub line 0 3 = "API" then do_api line
                       else failwith ("bad line: " ^ line)))
    (read_lines ic)
