/* Common helpers for /verif harnesses. */
#ifndef VH_COMMON_H
#define VH_COMMON_H
#include <stdio.h>
#include <stdlib.h>
#include <string.h>
#include <stdint.h>
#include <inttypes.h>

static inline uint64_t vh_rand(uint64_t *s)
{ /* splitmix64 */
    uint64_t z = (*s += 0x9e3779b97f4a7c15ULL);
    z = (z ^ (z >> 30)) * 0xbf58476d1ce4e5b9ULL;
    z = (z ^ (z >> 27)) * 0x94d049bb133111ebULL;
    return z ^ (z >> 31);
}

/* read one line (without newline) into a malloc'ed buffer; NULL at EOF */
static inline char *vh_getline(FILE *f)
{
    char *line = NULL;
    size_t cap = 0;
    ssize_t n = getline(&line, &cap, f);
    if (n < 0) {
        free(line);
        return NULL;
    }
    while (n > 0 && (line[n - 1] == '\n' || line[n - 1] == '\r'))
        line[--n] = 0;
    return line;
}

#define VH_DIE(...)                                                            \
    do {                                                                       \
        fprintf(stderr, "harness error: " __VA_ARGS__);                        \
        fprintf(stderr, "\n");                                                 \
        exit(3);                                                               \
    } while (0)
#endif
