/* C07 harness (concurrent part, no hooks): external pthreads push and pop
 * units of one built-in pool through the public API, within what the access
 * mode permits, and a monitor checks what can be checked without a global
 * order:
 *   - conservation: multiset pushed = multiset handed out  U  remaining,
 *     no unit handed out twice in a round, size/emptiness exact at quiescence;
 *   - honest emptiness (lower bound): a pop that returns nothing although
 *     (#units whose push had returned before the pop was called) exceeds
 *     (#units claimed by all takers up to the pop's return) is a violation;
 *   - FIFO kinds (and RANDWS with default contexts): each consumer sees the
 *     units of one producer in the order that producer pushed them.
 * One scenario per input line:
 *   S <F|W|R> <P|SS|MS|SM|MM> <nprod> <ncons> <units/prod> <rounds> <leave> <mode> <seed>
 *     mode bit 0: producers use push_threads batches too; bit 1: consumers use
 *     pop_threads / pop_wait / legacy pop too; bit 2: producers also try
 *     ABT_pool_remove of their own units (MM / SM only); bit 3 (RANDWS):
 *     non-default contexts (push-head producers, pop-tail consumers); bit 4: batch atomicity - producers push
 *     only aligned batches of 4 with ABT_pool_push_threads, consumers pop only with ABT_pool_pop_threads(8):
 *     push_many / pop_many are single queue operations, so every pop returns whole batches, each contiguous
 *     and in order (units/prod must be a multiple of 4, leave = 0).
 * Output: one line per scenario: "OK ..." or "VIOL ...". */
#include <abt.h>
#include "vh_common.h"
#include <pthread.h>
#include <unistd.h>
#include <signal.h>
#include <stdatomic.h>

#define MAXT 8
#define MAXU 4096

static ABT_thread g_units[MAXU];
static int g_nunits;
static ABT_pool g_pool;
static int g_nprod, g_ncons, g_upp, g_rounds, g_leave, g_mode, g_fifo_order;
static char g_kind;
static uint64_t g_seed;

static pthread_barrier_t g_bar;
static atomic_long g_pushed_done, g_claims, g_taken;
static atomic_int g_viol;
static char g_violmsg[256];
static long g_target;

/* per consumer log of one round */
static int *g_log[2 * MAXT];
static int g_logn[2 * MAXT];

static void unit_fn(void *arg)
{
    (void)arg;
}

static void viol(const char *fmt, long a, long b, long c)
{
    int exp = 0;
    if (atomic_compare_exchange_strong(&g_viol, &exp, 1))
        snprintf(g_violmsg, sizeof(g_violmsg), fmt, a, b, c);
}

static int id_of(ABT_thread t)
{
    int i;
    for (i = 0; i < g_nunits; i++)
        if (g_units[i] == t)
            return i;
    return -1;
}

static void record(int slot, ABT_thread t)
{
    int id = id_of(t);
    if (id < 0) {
        viol("pop returned a handle that is not one of the units (slot %ld)", slot, 0, 0);
        return;
    }
    g_log[slot][g_logn[slot]++] = id;
}

static void *producer(void *arg)
{
    int p = (int)(intptr_t)arg, r;
    uint64_t rs = g_seed * 7919 + p;
    for (r = 0; r < g_rounds; r++) {
        pthread_barrier_wait(&g_bar);
        int base = p * g_upp, i = 0;
        ABT_pool_context ctx = (g_mode & 8) ? ABT_POOL_CONTEXT_OP_THREAD_CREATE : ABT_POOL_CONTEXT_OP_POOL_OTHER;
        while (i < g_upp) {
            int k = 1;
            if (g_mode & 16) {
                k = 4;
                ABT_pool_push_threads(g_pool, &g_units[base + i], k);
            } else if ((g_mode & 1) && (vh_rand(&rs) & 1)) {
                k = 1 + (int)(vh_rand(&rs) % 4);
                if (k > g_upp - i)
                    k = g_upp - i;
                if (g_mode & 8)
                    ABT_pool_push_threads_ex(g_pool, &g_units[base + i], k, ctx);
                else
                    ABT_pool_push_threads(g_pool, &g_units[base + i], k);
            } else if (g_mode & 8) {
                ABT_pool_push_thread_ex(g_pool, g_units[base + i], ctx);
            } else if ((g_mode & 1) && (vh_rand(&rs) % 3 == 0)) {
                ABT_unit u;
                ABT_thread_get_unit(g_units[base + i], &u);
                ABT_pool_push(g_pool, u);
            } else {
                ABT_pool_push_thread(g_pool, g_units[base + i]);
            }
            atomic_fetch_add(&g_pushed_done, k);
            i += k;
            if ((g_mode & 4) && (vh_rand(&rs) % 4 == 0)) {
                /* try to take one of my own earlier units back */
                int j = base + (int)(vh_rand(&rs) % i);
                ABT_unit u;
                ABT_thread_get_unit(g_units[j], &u);
                atomic_fetch_add(&g_claims, 1);
                int ret = ABT_pool_remove(g_pool, u);
                if (ret == ABT_SUCCESS) {
                    g_log[MAXT + p][g_logn[MAXT + p]++] = j;
                    atomic_fetch_add(&g_taken, 1);
                } else {
                    atomic_fetch_sub(&g_claims, 1);
                }
            }
            if (vh_rand(&rs) % 8 == 0)
                sched_yield();
        }
        pthread_barrier_wait(&g_bar);
    }
    return NULL;
}

static void *consumer(void *arg)
{
    int c = (int)(intptr_t)arg, r;
    uint64_t rs = g_seed * 104729 + 1000 + c;
    for (r = 0; r < g_rounds; r++) {
        pthread_barrier_wait(&g_bar);
        ABT_pool_context ctx = (g_mode & 8) ? ABT_POOL_CONTEXT_OWNER_SECONDARY : ABT_POOL_CONTEXT_OP_POOL_OTHER;
        while (atomic_load(&g_taken) < g_target && !atomic_load(&g_viol)) {
            int how = (g_mode & 16) ? 5 : (g_mode & 2) ? (int)(vh_rand(&rs) % 5) : 0;
            long claim = (how == 1) ? 3 : (how == 5) ? 8 : 1;
            long before = atomic_load(&g_pushed_done);
            atomic_fetch_add(&g_claims, claim);
            long got = 0;
            if (how == 5) {
                ABT_thread ts[8];
                size_t num = 0, i;
                ABT_pool_pop_threads(g_pool, ts, 8, &num);
                if (num % 4)
                    viol("pop_threads(8) returned %ld units while only whole batches of 4 are ever pushed and popped: "
                         "a batch was visible half-way (pushes completed before the call: %ld, round %ld)", (long)num, before,
                         (long)r);
                for (i = 0; i < num && i < 8; i++) {
                    int id = id_of(ts[i]);
                    if (i % 4 == 0 ? id % 4 != 0 : id != id_of(ts[i - 1]) + 1)
                        viol("pop_threads(8): unit %ld at position %ld does not continue its batch (previous unit %ld): "
                             "batches interleaved", (long)id, (long)i, (long)(i ? id_of(ts[i - 1]) : -1));
                    record(c, ts[i]);
                }
                got = (long)num;
            } else if (how == 1) {
                ABT_thread ts[3];
                size_t num = 0;
                if (g_mode & 8)
                    ABT_pool_pop_threads_ex(g_pool, ts, 3, &num, ctx);
                else
                    ABT_pool_pop_threads(g_pool, ts, 3, &num);
                size_t i;
                for (i = 0; i < num && i < 3; i++)
                    record(c, ts[i]);
                got = (long)num;
            } else if (how == 2) {
                ABT_thread t = ABT_THREAD_NULL;
                if (g_mode & 8)
                    ABT_pool_pop_wait_thread_ex(g_pool, &t, 2e-5, ctx);
                else
                    ABT_pool_pop_wait_thread(g_pool, &t, 2e-5);
                if (t != ABT_THREAD_NULL) {
                    record(c, t);
                    got = 1;
                }
            } else if (how == 3 && !(g_mode & 8)) {
                ABT_unit u = ABT_UNIT_NULL;
                ABT_pool_pop(g_pool, &u);
                if (u != ABT_UNIT_NULL) {
                    ABT_thread t;
                    ABT_unit_get_thread(u, &t);
                    record(c, t);
                    got = 1;
                }
            } else if (how == 4 && !(g_mode & 8)) {
                ABT_unit u = ABT_UNIT_NULL;
                ABT_pool_pop_timedwait(g_pool, &u, ABT_get_wtime() + 2e-5);
                if (u != ABT_UNIT_NULL) {
                    ABT_thread t;
                    ABT_unit_get_thread(u, &t);
                    record(c, t);
                    got = 1;
                }
            } else {
                ABT_thread t = ABT_THREAD_NULL;
                if (g_mode & 8)
                    ABT_pool_pop_thread_ex(g_pool, &t, ctx);
                else
                    ABT_pool_pop_thread(g_pool, &t);
                if (t != ABT_THREAD_NULL) {
                    record(c, t);
                    got = 1;
                }
            }
            long claims_after = atomic_load(&g_claims);
            if (got == 0 && before - claims_after > 0)
                viol("a pop returned nothing although at least %ld units were in the pool during the whole call "
                     "(pushes completed before the call: %ld, units claimed by all takers until its return: %ld)",
                     before - claims_after, before, claims_after);
            atomic_fetch_sub(&g_claims, claim - got);
            atomic_fetch_add(&g_taken, got);
            if (got == 0 && vh_rand(&rs) % 4 == 0)
                sched_yield();
        }
        pthread_barrier_wait(&g_bar);
    }
    return NULL;
}

static void on_alarm(int sig)
{
    (void)sig;
    long t = atomic_load(&g_taken), p = atomic_load(&g_pushed_done);
    size_t sz = 0;
    ABT_pool_get_size(g_pool, &sz);
    printf("VIOL stuck: no progress within the time limit (pushed %ld, taken %ld, target %ld, get_size %zu)\n", p, t,
           g_target, sz);
    fflush(stdout);
    _exit(0);
}

static void run_scenario(char *line)
{
    char k[8], a[8];
    unsigned long long seed;
    if (sscanf(line, "S %7s %7s %d %d %d %d %d %d %llu", k, a, &g_nprod, &g_ncons, &g_upp, &g_rounds, &g_leave, &g_mode,
               &seed) != 9)
        VH_DIE("bad scenario '%s'", line);
    if (g_nprod > MAXT || g_ncons > MAXT || g_nprod * g_upp > MAXU)
        VH_DIE("scenario too large");
    g_seed = seed;
    g_kind = k[0];
    ABT_pool_kind kind = k[0] == 'F' ? ABT_POOL_FIFO : (k[0] == 'W' ? ABT_POOL_FIFO_WAIT : ABT_POOL_RANDWS);
    ABT_pool_access acc = !strcmp(a, "P")    ? ABT_POOL_ACCESS_PRIV
                          : !strcmp(a, "SS") ? ABT_POOL_ACCESS_SPSC
                          : !strcmp(a, "MS") ? ABT_POOL_ACCESS_MPSC
                          : !strcmp(a, "SM") ? ABT_POOL_ACCESS_SPMC
                                             : ABT_POOL_ACCESS_MPMC;
    g_fifo_order = 1; /* mode 8 on RANDWS: push head + pop tail is FIFO again */
    g_nunits = g_nprod * g_upp;
    if (ABT_pool_create_basic(kind, acc, ABT_FALSE, &g_pool) != ABT_SUCCESS)
        VH_DIE("pool create");
    int i, r;
    for (i = 0; i < 2 * MAXT; i++)
        g_log[i] = malloc(sizeof(int) * (g_nunits + 8) * 1);
    atomic_store(&g_viol, 0);
    pthread_barrier_init(&g_bar, NULL, g_nprod + g_ncons + 1);
    pthread_t th[2 * MAXT];
    for (i = 0; i < g_nprod; i++)
        pthread_create(&th[i], NULL, producer, (void *)(intptr_t)i);
    for (i = 0; i < g_ncons; i++)
        pthread_create(&th[g_nprod + i], NULL, consumer, (void *)(intptr_t)i);
    long tot_taken = 0, tot_left = 0;
    char *seen = malloc(g_nunits);
    for (r = 0; r < g_rounds; r++) {
        atomic_store(&g_pushed_done, 0);
        atomic_store(&g_claims, 0);
        atomic_store(&g_taken, 0);
        g_target = g_nunits - g_leave;
        if (g_target < 0)
            g_target = 0;
        for (i = 0; i < 2 * MAXT; i++)
            g_logn[i] = 0;
        alarm(20);
        pthread_barrier_wait(&g_bar); /* start of round */
        pthread_barrier_wait(&g_bar); /* everybody is done: quiescent */
        alarm(0);
        if (atomic_load(&g_viol))
            break;
        /* ---- monitor at quiescence */
        memset(seen, 0, g_nunits);
        long taken = 0;
        int s, j;
        for (s = 0; s < 2 * MAXT && !atomic_load(&g_viol); s++) {
            for (j = 0; j < g_logn[s]; j++) {
                int id = g_log[s][j];
                if (seen[id])
                    viol("unit %ld handed out twice in one round (second time to %s %ld)", id, 0, s % MAXT);
                seen[id] = 1;
                taken++;
            }
            if (g_fifo_order && s < MAXT) {
                /* per producer, this consumer's units must come in push order */
                int last[MAXT];
                int p;
                for (p = 0; p < MAXT; p++)
                    last[p] = -1;
                for (j = 0; j < g_logn[s]; j++) {
                    int id = g_log[s][j];
                    p = id / g_upp;
                    if (id <= last[p])
                        viol("FIFO order broken: consumer %ld received unit %ld after unit %ld of the same producer", s,
                             id, last[p]);
                    last[p] = id;
                }
            }
        }
        size_t sz = 0, tsz = 0;
        ABT_bool emp = ABT_FALSE;
        ABT_pool_get_size(g_pool, &sz);
        ABT_pool_get_total_size(g_pool, &tsz);
        ABT_pool_is_empty(g_pool, &emp);
        long expect_left = g_nunits - taken;
        if ((long)sz != expect_left || (long)tsz != expect_left)
            viol("size at quiescence is %ld but %ld units were pushed and not handed out (total_size %ld)", (long)sz,
                 expect_left, (long)tsz);
        if ((emp == ABT_TRUE) != (expect_left == 0))
            viol("is_empty at quiescence is %ld with %ld units in the pool", emp == ABT_TRUE, expect_left, 0);
        /* drain the remainder: must be exactly the units not handed out, each once */
        long left = 0;
        int prev_of[MAXT];
        for (i = 0; i < MAXT; i++)
            prev_of[i] = -1;
        while (!atomic_load(&g_viol) && left <= g_nunits) {
            ABT_thread t = ABT_THREAD_NULL;
            ABT_pool_pop_thread(g_pool, &t);
            if (t == ABT_THREAD_NULL)
                break;
            int id = id_of(t);
            if (id < 0) {
                viol("drain returned an unknown handle", 0, 0, 0);
                break;
            }
            if (seen[id])
                viol("unit %ld is still in the pool although it was already handed out", id, 0, 0);
            seen[id] = 1;
            if (g_fifo_order && !(g_mode & 8)) {
                int p = id / g_upp;
                if (id <= prev_of[p])
                    viol("FIFO order broken in the remainder: unit %ld after unit %ld", id, prev_of[p], 0);
                prev_of[p] = id;
            }
            left++;
        }
        if (!atomic_load(&g_viol) && left != expect_left)
            viol("%ld units remained in the pool, expected %ld (pushed %ld)", left, expect_left, g_nunits);
        for (i = 0; i < g_nunits && !atomic_load(&g_viol); i++)
            if (!seen[i])
                viol("unit %ld was pushed but neither handed out nor left in the pool (lost)", i, 0, 0);
        tot_taken += taken;
        tot_left += left;
        if (atomic_load(&g_viol))
            break;
    }
    if (atomic_load(&g_viol)) {
        printf("VIOL %s\n", g_violmsg);
        fflush(stdout);
        _exit(0); /* worker threads may be anywhere */
    }
    for (i = 0; i < g_nprod + g_ncons; i++)
        pthread_join(th[i], NULL);
    pthread_barrier_destroy(&g_bar);
    printf("OK pushed=%ld handed_out=%ld remaining=%ld\n", (long)g_nunits * g_rounds, tot_taken, tot_left);
    free(seen);
    for (i = 0; i < 2 * MAXT; i++)
        free(g_log[i]);
    ABT_pool_free(&g_pool);
}

int main(int argc, char **argv)
{
    FILE *f = argc > 1 ? fopen(argv[1], "r") : stdin;
    if (!f)
        VH_DIE("cannot open scenario file");
    setvbuf(stdout, NULL, _IOLBF, 0);
    signal(SIGALRM, on_alarm);
    if (ABT_init(0, NULL) != ABT_SUCCESS)
        VH_DIE("ABT_init");
    ABT_pool park;
    ABT_pool_create_basic(ABT_POOL_FIFO, ABT_POOL_ACCESS_MPMC, ABT_FALSE, &park);
    int i;
    for (i = 0; i < MAXU; i++)
        g_units[i] = ABT_THREAD_NULL;
    int created = 0;
    char *line;
    while ((line = vh_getline(f)) != NULL) {
        if (line[0] == 'S') {
            int np, nc, upp;
            char k[8], a[8];
            if (sscanf(line, "S %7s %7s %d %d %d", k, a, &np, &nc, &upp) == 5) {
                while (created < np * upp && created < MAXU) {
                    ABT_thread t;
                    if (ABT_thread_create(park, unit_fn, NULL, ABT_THREAD_ATTR_NULL, &g_units[created]) != ABT_SUCCESS)
                        VH_DIE("thread_create");
                    ABT_pool_pop_thread(park, &t);
                    created++;
                }
            }
            run_scenario(line);
        }
        free(line);
    }
    ABT_xstream xs;
    ABT_pool mainpool;
    ABT_xstream_self(&xs);
    ABT_xstream_get_main_pools(xs, 1, &mainpool);
    for (i = 0; i < created; i++)
        ABT_pool_push_thread(mainpool, g_units[i]);
    for (i = 0; i < created; i++)
        ABT_thread_free(&g_units[i]);
    ABT_pool_free(&park);
    ABT_finalize();
    return 0;
}
