/* C18 harness: fault enumeration on the implementation with the repo's own
 * allocation-failure injector (test/leakcheck/rtrace.c of the CURRENT tree,
 * included white-box so that the failure path can be chosen directly and the
 * resource ledger can be read).
 *
 *   h_c18 list                      names of all scenarios
 *   h_c18 sizes                     "name=bytes" table for the model's resource names
 *   h_c18 run <scenario> <depth> [jobs]
 *        depth 1: no-failure run + every single failure position of the call
 *        depth 2: additionally every second failure after each first one
 *   h_c18 one <scenario> <spec>     one case, spec like "0", "3", "3,5", "3/2"
 *
 * One forked child per case (a crash or a hang is attributed to exactly that
 * case).  Output: one line per case
 *   <scenario> <spec> => <observable oracles> | <internal: trace, rc class, ledger>
 * which tools/props/c18.py compares with the line the extracted Coq model
 * (ocaml/drv_c18.ml) prints for the same "<scenario> <spec>".
 *
 * A case runs:  rtrace on (no failures) -> scenario setup (ABT_init + populate)
 *   -> attempt loop { snapshot; [failures enabled] rc = call(); [disabled];
 *        trace/ledger/handle/snapshot oracles; on error: follow-up workload, retry }
 *   -> use and free the created object -> teardown -> ABT_finalize -> ledger empty.
 */
#include "rtrace.c" /* -I<scratch>/rtrace : the tree's injector, unchanged */
#include "abti.h"
#include <unistd.h>
#include <sys/wait.h>
#include <signal.h>
#include <stdarg.h>
#include <time.h>
#include <poll.h>

#ifndef ABT_RT_ENABLED
#error "rtrace is disabled: compile with the ABT_RT_* flags of test/leakcheck/Makefile"
#endif

/* ------------------------------------------------------------------ output */
static int g_out_fd = 1;
static char g_obuf[1 << 16];
static size_t g_olen;
static void oflush(void)
{
    size_t off = 0;
    while (off < g_olen) {
        ssize_t w = write(g_out_fd, g_obuf + off, g_olen - off);
        if (w <= 0)
            break;
        off += (size_t)w;
    }
    g_olen = 0;
}
static void oprintf(const char *fmt, ...)
{
    va_list ap;
    va_start(ap, fmt);
    int n = vsnprintf(g_obuf + g_olen, sizeof(g_obuf) - g_olen, fmt, ap);
    va_end(ap);
    if (n > 0)
        g_olen += (size_t)n;
    if (g_olen > sizeof(g_obuf) / 2)
        oflush();
}
#define DIE(...)                                                               \
    do {                                                                       \
        oprintf("HARNESS-ERROR %s:%d ", __FILE__, __LINE__);                   \
        oprintf(__VA_ARGS__);                                                  \
        oprintf("\n");                                                         \
        oflush();                                                              \
        _exit(3);                                                              \
    } while (0)
#define CK(x)                                                                  \
    do {                                                                       \
        int ck_ = (x);                                                         \
        if (ck_ != ABT_SUCCESS)                                                \
            DIE("setup call failed rc=%d: %s", ck_, #x);                       \
    } while (0)

/* ------------------------------------------------------------ rtrace glue */
#define MAXH 4096
typedef struct {
    int kind;
    size_t val;
    int st; /* RTRACE_SUCCESS.. */
} hent;

static int hist_len(void)
{
    int n = 0;
    for (rtrace_op_chain_t *p = g_rtrace_global.p_history; p; p = p->p_next)
        n++;
    return n;
}
static rtrace_op_chain_t *hist_at(int i)
{
    rtrace_op_chain_t *p = g_rtrace_global.p_history;
    while (p && i-- > 0)
        p = p->p_next;
    return p;
}
static const char *kind_name(int k, size_t val)
{
    (void)val;
    switch (k) {
        case RTRACE_OP_KIND_MALLOC:
        case RTRACE_OP_KIND_CALLOC: /* rtrace logs malloc() as calloc */
            return "malloc";
        case RTRACE_OP_KIND_REALLOC:
            return "realloc";
        case RTRACE_OP_KIND_POSIX_MEMALIGN:
            return "memalign";
        case RTRACE_OP_KIND_MMAP:
            return "mmap";
        case RTRACE_OP_KIND_PTHREAD_CREATE:
            return "pthread";
        case RTRACE_OP_KIND_PTHREAD_MUTEX_INIT:
            return "mutex";
        case RTRACE_OP_KIND_PTHREAD_COND_INIT:
            return "cond";
        case RTRACE_OP_KIND_PTHREAD_BARRIER_INIT:
            return "barrier";
    }
    return "unknown";
}

/* ledger = rtrace's resource table */
#define MAXLIVE 8192
typedef struct {
    int n;
    int ids[MAXLIVE]; /* ids of the trace thread's live resources, sorted */
    int n_other;      /* live resources of other threads (id == -1) */
} ledger_t;
static int cmp_int(const void *a, const void *b)
{
    return *(const int *)a - *(const int *)b;
}
static void ledger_read(ledger_t *L)
{
    L->n = 0;
    L->n_other = 0;
    pthread_spin_lock(&g_rtrace_global.res_table.spinlock);
    for (int i = 0; i < RTRACE_RES_HTABLE_SIZE; i++)
        for (rtrace_res_elem *e = g_rtrace_global.res_table.elems[i]; e;
             e = e->p_next) {
            if (e->id < 0)
                L->n_other++;
            else if (L->n < MAXLIVE)
                L->ids[L->n++] = e->id;
        }
    pthread_spin_unlock(&g_rtrace_global.res_table.spinlock);
    qsort(L->ids, L->n, sizeof(int), cmp_int);
}

/* the failure path of this case */
static hent g_path[MAXH];
static int g_path_len;
static void install_path(void)
{
    rtrace_op_chain_t *head = NULL, *tail = NULL;
    for (int i = 0; i < g_path_len; i++) {
        rtrace_op_chain_t *p =
            (rtrace_op_chain_t *)g_rtrace_global.real_malloc(sizeof(*p));
        p->op_kind = (RTRACE_OP_KIND)g_path[i].kind;
        p->val = g_path[i].val;
        p->success = g_path[i].st;
        p->p_next = NULL;
        if (tail)
            tail->p_next = p;
        else
            head = p;
        tail = p;
    }
    g_rtrace_global.p_path = head;
    g_rtrace_global.p_path_cur = head;
}

/* ------------------------------------------------------- object registry */
#define MAXR 24
static ABT_xstream R_xs[MAXR];
static int n_xs;
static ABT_pool R_pool[MAXR];
static int n_pool;
static ABT_sched R_sched[MAXR];
static int n_sched;
static ABT_thread R_thr[MAXR];
static int n_thr;
static ABT_key R_key[MAXR];
static int n_key;
static ABT_mutex R_mutex[MAXR];
static int n_mutex;
#define REG(arr, cnt, h) ((arr)[(cnt)++] = (h))

/* snapshot of every pre-existing object through API getters (observable part)
 * plus a few white-box fields that no getter exposes */
static char g_snapA[1 << 15], g_snapB[1 << 15];
static size_t snap_add(char *b, size_t n, const char *fmt, ...)
{
    va_list ap;
    va_start(ap, fmt);
    int w = vsnprintf(b + n, (1 << 15) - n, fmt, ap);
    va_end(ap);
    return n + (w > 0 ? (size_t)w : 0);
}
static void snapshot(char *b)
{
    size_t n = 0;
    int init = (ABT_initialized() == ABT_SUCCESS);
    n = snap_add(b, n, "init=%d\n", init);
    if (!init) {
        n = snap_add(b, n, "global=%p\n", (void *)gp_ABTI_global);
        return;
    }
    int nx = -1;
    ABT_xstream_get_num(&nx);
    n = snap_add(b, n, "num_xstreams=%d wb=%d\n", nx, gp_ABTI_global->num_xstreams);
    {
        /* the rank list as the runtime sees it (white box) */
        n = snap_add(b, n, "ranklist=");
        for (ABTI_xstream *p = gp_ABTI_global->p_xstream_head; p; p = p->p_next)
            n = snap_add(b, n, "%d:%p,", p->rank, (void *)p);
        n = snap_add(b, n, "\n");
    }
    ABT_xstream self_x = ABT_XSTREAM_NULL;
    ABT_thread self_t = ABT_THREAD_NULL;
    ABT_pool self_p = ABT_POOL_NULL;
    ABT_self_get_xstream(&self_x);
    ABT_self_get_thread(&self_t);
    ABT_self_get_last_pool(&self_p);
    n = snap_add(b, n, "self=%p %p %p\n", (void *)self_x, (void *)self_t, (void *)self_p);
    for (int i = 0; i < n_xs; i++) {
        int rank = -1;
        ABT_xstream_state st = 99;
        ABT_bool prim = 9;
        ABT_sched ms = ABT_SCHED_NULL;
        ABT_pool mp = ABT_POOL_NULL;
        ABT_xstream_get_rank(R_xs[i], &rank);
        ABT_xstream_get_state(R_xs[i], &st);
        ABT_xstream_is_primary(R_xs[i], &prim);
        ABT_xstream_get_main_sched(R_xs[i], &ms);
        ABT_xstream_get_main_pools(R_xs[i], 1, &mp);
        n = snap_add(b, n, "xs%d rank=%d st=%d prim=%d sched=%p pool0=%p\n", i, rank,
                     (int)st, (int)prim, (void *)ms, (void *)mp);
    }
    for (int i = 0; i < n_pool; i++) {
        ABT_pool_access acc = 99;
        size_t sz = 999, tsz = 999;
        int id = -1;
        ABT_bool emp = 9;
        void *data = NULL;
        ABT_pool_get_access(R_pool[i], &acc);
        ABT_pool_get_size(R_pool[i], &sz);
        ABT_pool_get_total_size(R_pool[i], &tsz);
        ABT_pool_get_id(R_pool[i], &id);
        ABT_pool_is_empty(R_pool[i], &emp);
        ABT_pool_get_data(R_pool[i], &data);
        ABTI_pool *pp = ABTI_pool_get_ptr(R_pool[i]);
        n = snap_add(b, n, "pool%d acc=%d size=%zu total=%zu id=%d empty=%d data=%p nsched=%d nblk=%d\n",
                     i, (int)acc, sz, tsz, id, (int)emp, data,
                     (int)ABTD_atomic_acquire_load_int32(&pp->num_scheds),
                     (int)ABTD_atomic_acquire_load_int32(&pp->num_blocked));
    }
    for (int i = 0; i < n_sched; i++) {
        int np = -1;
        size_t sz = 999, tsz = 999;
        void *data = NULL;
        ABT_pool p0 = ABT_POOL_NULL;
        ABT_sched_get_num_pools(R_sched[i], &np);
        ABT_sched_get_size(R_sched[i], &sz);
        ABT_sched_get_total_size(R_sched[i], &tsz);
        ABT_sched_get_data(R_sched[i], &data);
        if (np > 0)
            ABT_sched_get_pools(R_sched[i], 1, 0, &p0);
        ABTI_sched *ps = ABTI_sched_get_ptr(R_sched[i]);
        n = snap_add(b, n, "sched%d np=%d size=%zu total=%zu data=%p pool0=%p used=%d auto=%d yt=%p repl=%p\n",
                     i, np, sz, tsz, data, (void *)p0, (int)ps->used, (int)ps->automatic,
                     (void *)ps->p_ythread, (void *)ps->p_replace_sched);
    }
    for (int i = 0; i < n_thr; i++) {
        ABT_thread_state st = 99;
        ABT_pool lp = ABT_POOL_NULL;
        int lpid = -1;
        ABT_unit unit = ABT_UNIT_NULL;
        size_t ss = 0;
        void *arg = NULL;
        void (*fn)(void *) = NULL;
        ABT_unit_id id = 0;
        ABT_bool mig = 9, prim = 9, unn = 9;
        ABT_thread_get_state(R_thr[i], &st);
        ABT_thread_get_last_pool(R_thr[i], &lp);
        ABT_thread_get_last_pool_id(R_thr[i], &lpid);
        ABT_thread_get_unit(R_thr[i], &unit);
        ABT_thread_get_stacksize(R_thr[i], &ss);
        ABT_thread_get_arg(R_thr[i], &arg);
        ABT_thread_get_thread_func(R_thr[i], &fn);
        ABT_thread_get_id(R_thr[i], &id);
        ABT_thread_is_migratable(R_thr[i], &mig);
        ABT_thread_is_primary(R_thr[i], &prim);
        ABT_thread_is_unnamed(R_thr[i], &unn);
        ABTI_thread *pt = ABTI_thread_get_ptr(R_thr[i]);
        n = snap_add(b, n, "thr%d st=%d pool=%p pid=%d unit=%p ss=%zu arg=%p fn=%p id=%llu mig=%d prim=%d unn=%d req=%u type=%x",
                     i, (int)st, (void *)lp, lpid, (void *)unit, ss, arg, (void *)(uintptr_t)fn,
                     (unsigned long long)id, (int)mig, (int)prim, (int)unn,
                     (unsigned)ABTD_atomic_acquire_load_uint32(&pt->request), (unsigned)pt->type);
        for (int k = 0; k < n_key; k++) {
            void *v = (void *)-1;
            ABT_thread_get_specific(R_thr[i], R_key[k], &v);
            n = snap_add(b, n, " k%d=%p", k, v);
        }
        n = snap_add(b, n, "\n");
    }
    for (int i = 0; i < n_mutex; i++) {
        ABTI_mutex *pm = ABTI_mutex_get_ptr(R_mutex[i]);
        n = snap_add(b, n, "mutex%d attr=%x nest=%d\n", i, (unsigned)pm->attrs, (int)pm->nesting_cnt);
    }
}
/* soft part: high-water marks that are allowed to grow (reported separately) */
static int soft_state(void)
{
    return gp_ABTI_global ? gp_ABTI_global->max_xstreams : -1;
}

/* ---------------------------------------------------------- small helpers */
static volatile int g_ran; /* bumped by work units of the follow-up workload */
static void wu_count(void *arg)
{
    (void)arg;
    __atomic_fetch_add(&g_ran, 1, __ATOMIC_SEQ_CST);
}
static void wu_yield(void *arg)
{
    (void)arg;
    ABT_thread_yield();
    __atomic_fetch_add(&g_ran, 1, __ATOMIC_SEQ_CST);
}
static ABT_pool primary_pool(void)
{
    ABT_xstream x;
    ABT_pool p;
    CK(ABT_xstream_self(&x));
    CK(ABT_xstream_get_main_pools(x, 1, &p));
    return p;
}

/* ------------------------------------------- a user-defined pool (fallible) */
typedef struct uunit {
    ABT_thread thread;
} uunit;
typedef struct {
    int n;
    ABT_unit units[64];
} updata;
static int g_unit_static; /* 1: units come from a static arena (no allocation) */
static uunit g_unit_arena[64];
static int g_unit_arena_used[64];
static ABT_unit up_create_unit(ABT_pool pool, ABT_thread thread)
{
    (void)pool;
    uunit *u = NULL;
    if (g_unit_static) {
        for (int i = 0; i < 64; i++)
            if (!g_unit_arena_used[i]) {
                g_unit_arena_used[i] = 1;
                u = &g_unit_arena[i];
                break;
            }
    } else {
        u = (uunit *)malloc(sizeof(uunit));
    }
    if (!u)
        return ABT_UNIT_NULL;
    u->thread = thread;
    return (ABT_unit)u;
}
static void up_free_unit(ABT_pool pool, ABT_unit unit)
{
    (void)pool;
    uunit *u = (uunit *)unit;
    if (u >= g_unit_arena && u < g_unit_arena + 64)
        g_unit_arena_used[u - g_unit_arena] = 0;
    else
        free(u);
}
static ABT_unit up_create_old(ABT_thread thread)
{
    return up_create_unit(ABT_POOL_NULL, thread);
}
static void up_free_old(ABT_unit *unit)
{
    up_free_unit(ABT_POOL_NULL, *unit);
}
static int up_init(ABT_pool pool, ABT_pool_config config)
{
    (void)config;
    updata *d = (updata *)malloc(sizeof(updata));
    if (!d)
        return ABT_ERR_MEM;
    d->n = 0;
    int r = ABT_pool_set_data(pool, d);
    if (r != ABT_SUCCESS) {
        free(d);
        return r;
    }
    return ABT_SUCCESS;
}
static updata *up_data(ABT_pool pool)
{
    void *d = NULL;
    ABT_pool_get_data(pool, &d);
    return (updata *)d;
}
static void up_free(ABT_pool pool)
{
    free(up_data(pool));
}
static int up_free_old_pool(ABT_pool pool)
{
    free(up_data(pool));
    return ABT_SUCCESS;
}
static ABT_bool up_is_empty(ABT_pool pool)
{
    return up_data(pool)->n == 0 ? ABT_TRUE : ABT_FALSE;
}
static size_t up_get_size(ABT_pool pool)
{
    return (size_t)up_data(pool)->n;
}
static void up_push(ABT_pool pool, ABT_unit unit, ABT_pool_context c)
{
    (void)c;
    updata *d = up_data(pool);
    d->units[d->n++] = unit;
}
static void up_push_old(ABT_pool pool, ABT_unit unit)
{
    up_push(pool, unit, 0);
}
static ABT_unit up_pop_old(ABT_pool pool)
{
    updata *d = up_data(pool);
    if (d->n == 0)
        return ABT_UNIT_NULL;
    ABT_unit u = d->units[0];
    for (int i = 1; i < d->n; i++)
        d->units[i - 1] = d->units[i];
    d->n--;
    return u;
}
static ABT_thread up_pop(ABT_pool pool, ABT_pool_context c)
{
    (void)c;
    ABT_unit u = up_pop_old(pool);
    return u == ABT_UNIT_NULL ? ABT_THREAD_NULL : ((uunit *)u)->thread;
}
static void up_push_many(ABT_pool pool, const ABT_unit *units, size_t num, ABT_pool_context c)
{
    for (size_t i = 0; i < num; i++)
        up_push(pool, units[i], c);
}
static ABT_pool_user_def g_updef = ABT_POOL_USER_DEF_NULL;
static ABT_pool_user_def userpool_def(void)
{
    if (g_updef == ABT_POOL_USER_DEF_NULL) {
        CK(ABT_pool_user_def_create(up_create_unit, up_free_unit, up_is_empty, up_pop, up_push, &g_updef));
        CK(ABT_pool_user_def_set_init(g_updef, up_init));
        CK(ABT_pool_user_def_set_free(g_updef, up_free));
        CK(ABT_pool_user_def_set_get_size(g_updef, up_get_size));
        CK(ABT_pool_user_def_set_push_many(g_updef, up_push_many));
    }
    return g_updef;
}
static void userpool_def_release(void)
{
    if (g_updef != ABT_POOL_USER_DEF_NULL)
        CK(ABT_pool_user_def_free(&g_updef));
}
static ABT_pool make_userpool(void)
{
    ABT_pool p;
    CK(ABT_pool_create(userpool_def(), ABT_POOL_CONFIG_NULL, &p));
    return p;
}
static void fill_old_def(ABT_pool_def *d)
{
    memset(d, 0, sizeof(*d));
    d->access = ABT_POOL_ACCESS_MPMC;
    d->u_create_from_thread = up_create_old;
    d->u_free = up_free_old;
    d->p_init = up_init;
    d->p_get_size = up_get_size;
    d->p_push = up_push_old;
    d->p_pop = up_pop_old;
    d->p_free = up_free_old_pool;
}
/* run every unit queued in a user pool on the calling ES */
static void drain_userpool(ABT_pool p)
{
    for (int guard = 0; guard < 1000; guard++) {
        ABT_thread t = ABT_THREAD_NULL;
        CK(ABT_pool_pop_thread(p, &t));
        if (t == ABT_THREAD_NULL)
            break;
        CK(ABT_self_schedule(t, ABT_POOL_NULL));
    }
}

/* --------------------------------------------------------------- scenarios */
#define SENT_PTR ((void *)(uintptr_t)0x5e5e5e5e5e5e5e50ull)
typedef struct {
    const char *name;
    int flags;
    void *nullh; /* the documented NULL handle of the output type */
    void (*setup)(void);
    int (*call)(void);
    int (*handle_state)(void); /* 0 NULL handle, 1 untouched (sentinel), 2 set */
    void (*use_free)(void);
    void (*teardown)(void);
} scen_t;
#define F_NOINIT 1    /* the call is ABT_init itself */
#define F_LPMALLOC 2  /* ABT_MEM_LP_ALLOC=malloc */
#define F_KTBIG 4     /* ABT_KEY_TABLE_SIZE=1024 (malloc'ed key tables) */
#define F_MAXXS1 8    /* ABT_MAX_NUM_XSTREAMS=1 */
#define F_NOHANDLE 16 /* the call has no output handle */
#define F_SMALLPAGES 32 /* 64 KB stack pages / 4 KB descriptor pages: refills reachable */
#define F_LATEFU 64     /* follow-up workload after the last attempt only (it would
                         * itself refill the memory pool the call is about) */

static void *g_h = NULL; /* generic output handle of the call under test */
static void *g_h2[8];
static const void *g_nullh;
static int hs_generic(void)
{
    if (g_h == g_nullh)
        return 0;
    if (g_h == SENT_PTR)
        return 1;
    return 2;
}

static const char *followup(int flags);
#include "h_c18_scen.h"

/* ----------------------------------------------------- follow-up workload */
static const char *followup(int flags)
{
    if (flags & F_NOINIT)
        return ABT_initialized() == ABT_ERR_UNINITIALIZED && gp_ABTI_global == NULL ? NULL : "still-initialized";
    int before = g_ran;
    ABT_pool p = primary_pool();
    ABT_thread t = ABT_THREAD_NULL;
    ABT_task k = ABT_TASK_NULL;
    if (ABT_thread_create(p, wu_yield, NULL, ABT_THREAD_ATTR_NULL, &t) != ABT_SUCCESS)
        return "followup-thread-create";
    if (ABT_task_create(p, wu_count, NULL, &k) != ABT_SUCCESS)
        return "followup-task-create";
    if (ABT_thread_free(&t) != ABT_SUCCESS)
        return "followup-thread-free";
    if (ABT_task_free(&k) != ABT_SUCCESS)
        return "followup-task-free";
    int expect = 2;
    {
        /* a burst of simultaneously live ULTs: drains the local buckets and takes buckets from the global pools, so
         * that a bucket which the failed call left short or mislabelled is used up to its end */
        ABT_thread tb[24];
        int nb;
        for (nb = 0; nb < 24; nb++)
            if (ABT_thread_create(p, wu_count, NULL, ABT_THREAD_ATTR_NULL, &tb[nb]) != ABT_SUCCESS)
                return "followup-burst-create";
        for (nb = 0; nb < 24; nb++)
            if (ABT_thread_free(&tb[nb]) != ABT_SUCCESS)
                return "followup-burst-free";
        expect += 24;
    }
    for (int i = 0; i < n_xs; i++) {
        ABT_xstream_state st;
        ABT_bool prim;
        if (ABT_xstream_get_state(R_xs[i], &st) != ABT_SUCCESS)
            return "followup-xstream-state";
        ABT_xstream_is_primary(R_xs[i], &prim);
        if (st != ABT_XSTREAM_STATE_RUNNING || prim)
            continue;
        ABT_thread tx = ABT_THREAD_NULL;
        if (ABT_thread_create_on_xstream(R_xs[i], wu_count, NULL, ABT_THREAD_ATTR_NULL, &tx) != ABT_SUCCESS)
            return "followup-create-on-xstream";
        if (ABT_thread_free(&tx) != ABT_SUCCESS)
            return "followup-free-on-xstream";
        expect++;
    }
    for (int i = 0; i < n_mutex; i++) {
        if (ABT_mutex_lock(R_mutex[i]) != ABT_SUCCESS || ABT_mutex_unlock(R_mutex[i]) != ABT_SUCCESS)
            return "followup-mutex";
    }
    if (g_ran - before != expect)
        return "followup-count";
    return NULL;
}

/* ------------------------------------------------------------ one case */
#define MAXATT 6
static void set_env(int flags)
{
    /* small memory pools: ABT_init is fast and bucket refills are reachable */
    setenv("ABT_MEM_MAX_NUM_DESCS", "4", 1);
    setenv("ABT_MEM_MAX_NUM_STACKS", "4", 1);
    if (flags & F_LPMALLOC)
        setenv("ABT_MEM_LP_ALLOC", "malloc", 1);
    if (flags & F_KTBIG)
        setenv("ABT_KEY_TABLE_SIZE", "1024", 1);
    if (flags & F_MAXXS1)
        setenv("ABT_MAX_NUM_XSTREAMS", "1", 1);
    if (flags & F_SMALLPAGES) {
        setenv("ABT_MEM_STACK_PAGE_SIZE", "65536", 1);
        setenv("ABT_MEM_PAGE_SIZE", "4096", 1);
    }
}

static void run_case(const scen_t *sc)
{
    char viol[512];
    size_t vn = 0;
    viol[0] = 0;
#define VIOL(...)                                                              \
    do {                                                                       \
        vn += (size_t)snprintf(viol + vn, sizeof(viol) - vn, "%s", vn ? "," : ""); \
        vn += (size_t)snprintf(viol + vn, sizeof(viol) - vn, __VA_ARGS__);      \
    } while (0)
    set_env(sc->flags);
    g_nullh = sc->nullh;
    rtrace_init();
    install_path();
    rtrace_start();
    rtrace_set_enabled(0);
    if (!(sc->flags & F_NOINIT))
        CK(ABT_init(0, NULL));
    if (sc->setup)
        sc->setup();
    oprintf("STAGE setup-done\n");
    oflush();

    static ledger_t L0, L1;
    char internal[8192];
    size_t in = 0;
    char spec[256];
    size_t sn = 0;
    int rc = -1, att;
    int soft0 = soft_state();
    for (att = 1; att <= MAXATT; att++) {
        snapshot(g_snapA);
        ledger_read(&L0);
        int h0 = hist_len();
        int a0 = g_rtrace_global.allocid;
        g_h = SENT_PTR;
        for (int i = 0; i < 8; i++)
            g_h2[i] = SENT_PTR;
        oprintf("WIN %d %d\n", att, h0);
        oflush();
        rtrace_set_enabled(1);
        rc = sc->call();
        rtrace_set_enabled(0);
        oprintf("STAGE call-%d-returned rc=%d\n", att, rc);
        oflush();
        /* trace of this attempt's window */
        in += (size_t)snprintf(internal + in, sizeof(internal) - in, "%sA%d rc=%s acq=", att > 1 ? " ; " : "", att,
                       rc == ABT_SUCCESS ? "S" : "E");
        int pos = 0, nf = 0;
        if (att > 1)
            sn += (size_t)snprintf(spec + sn, sizeof(spec) - sn, "/");
        for (rtrace_op_chain_t *p = hist_at(h0); p; p = p->p_next) {
            pos++;
            char stc = p->success == RTRACE_FAILURE ? 'F' : (p->success == RTRACE_REAL_FAILURE ? 'R' : 'S');
            in += (size_t)snprintf(internal + in, sizeof(internal) - in, "%s%s:%zu:%c", pos > 1 ? "," : "",
                           kind_name(p->op_kind, p->val), p->val, stc);
            if (stc == 'F') {
                sn += (size_t)snprintf(spec + sn, sizeof(spec) - sn, "%s%d", nf ? "," : "", pos);
                nf++;
            }
        }
        if (nf == 0)
            sn += (size_t)snprintf(spec + sn, sizeof(spec) - sn, "0");
        /* ledger: what this attempt left live (relative allocation indices),
         * and whether anything that existed before has gone */
        ledger_read(&L1);
        in += (size_t)snprintf(internal + in, sizeof(internal) - in, " live=");
        int first = 1, i0 = 0, gone = 0;
        for (int i = 0; i < L1.n; i++)
            if (L1.ids[i] >= a0) {
                in += (size_t)snprintf(internal + in, sizeof(internal) - in, "%s%d", first ? "" : ",", L1.ids[i] - a0);
                first = 0;
            }
        for (int i = 0; i < L0.n; i++) {
            while (i0 < L1.n && L1.ids[i0] < L0.ids[i])
                i0++;
            if (i0 >= L1.n || L1.ids[i0] != L0.ids[i])
                gone++;
        }
        int other_delta = L1.n_other - L0.n_other;
        if (rc == ABT_SUCCESS) {
            if (sc->handle_state && sc->handle_state() != 2 && !(sc->flags & F_NOHANDLE))
                VIOL("A%d:success-without-handle", att);
            break;
        }
        /* ---- direct oracles of a failed call ---- */
        if (gone) {
            /* objects that existed before the call are gone: nothing can be
             * inspected or retried safely any more; the case ends here */
            VIOL("A%d:preexisting-resource-released(%d)", att, gone);
            in += (size_t)snprintf(internal + in, sizeof(internal) - in, " pre-released");
            oprintf("RESULT %s %s => %s | %s\n", sc->name, spec, viol, internal);
            oprintf("HIST\n");
            oflush();
            _exit(0);
        }
        if (other_delta)
            in += (size_t)snprintf(internal + in, sizeof(internal) - in, " other=%d", other_delta);
        if (sc->handle_state && !(sc->flags & F_NOHANDLE)) {
            int hs = sc->handle_state();
            in += (size_t)snprintf(internal + in, sizeof(internal) - in, " h=%s", hs == 0 ? "null" : hs == 1 ? "untouched" : "SET");
            if (hs == 2)
                VIOL("A%d:dangling-handle", att);
        }
        snapshot(g_snapB);
        if (strcmp(g_snapA, g_snapB) != 0) {
            /* first differing line */
            const char *a = g_snapA, *b = g_snapB;
            while (*a && *a == *b)
                a++, b++;
            while (a > g_snapA && a[-1] != '\n')
                a--, b--;
            char la[160], lb[160];
            snprintf(la, sizeof(la), "%.*s", (int)strcspn(a, "\n"), a);
            snprintf(lb, sizeof(lb), "%.*s", (int)strcspn(b, "\n"), b);
            for (char *c = la; *c; c++) if (*c == ' ' || *c == ',') *c = '_';
            for (char *c = lb; *c; c++) if (*c == ' ' || *c == ',') *c = '_';
            VIOL("A%d:snapshot-changed[%s->%s]", att, la, lb);
        }
        oprintf("STAGE followup-%d\n", att);
        oflush();
        if (!(sc->flags & F_LATEFU)) {
            const char *fu = followup(sc->flags);
            if (fu)
                VIOL("A%d:%s", att, fu);
        }
    }

    if (rc != ABT_SUCCESS)
        VIOL("retry-never-succeeded(rc=%d)", rc);
    int soft1 = soft_state();
    oprintf("STAGE use-free\n");
    oflush();
    if (rc == ABT_SUCCESS && sc->use_free)
        sc->use_free();
    if ((sc->flags & F_LATEFU) && att > 1 && rc == ABT_SUCCESS) {
        const char *fu = followup(sc->flags);
        if (fu)
            VIOL("A%d:%s", att, fu);
    }
    oprintf("STAGE teardown\n");
    oflush();
    if (sc->teardown)
        sc->teardown();
    userpool_def_release();
    if (ABT_initialized() == ABT_SUCCESS) {
        int r = ABT_finalize();
        if (r != ABT_SUCCESS)
            VIOL("finalize-rc=%d", r);
    }
    ledger_read(&L1);
    if (L1.n + L1.n_other != 0)
        VIOL("leak-after-finalize(%d)", L1.n + L1.n_other);
    /* high-water marks that a failed call may leave raised (max_xstreams):
     * reported, not part of the comparison */
    if (soft0 != soft1 && !(sc->flags & F_NOINIT))
        oprintf("NOTE %s soft-state max_xstreams %d->%d\n", sc->name, soft0, soft1);
    oprintf("RESULT %s %s => %s | %s\n", sc->name, spec, vn ? viol : "ok", internal);
    /* full history for the parent (to derive the next failure paths) */
    oprintf("HIST");
    for (rtrace_op_chain_t *p = g_rtrace_global.p_history; p; p = p->p_next)
        oprintf(" %d:%zu:%d", (int)p->op_kind, p->val, p->success);
    oprintf("\n");
    oflush();
}

/* ---------------------------------------------------------------- parent */
typedef struct {
    pid_t pid;
    int fd;
    char *buf;
    size_t len, cap;
    double t0;
    int depth;
    int fail[16], nfail; /* global op indices of the failures of this case */
} job_t;

static double now(void)
{
    struct timespec ts;
    clock_gettime(CLOCK_MONOTONIC, &ts);
    return ts.tv_sec + ts.tv_nsec * 1e-9;
}

typedef struct pnode {
    hent *path;
    int len;
    int depth;
    struct pnode *next;
} pnode;
static pnode *q_head, *q_tail;
static void q_push(hent *src, int len, int depth)
{
    pnode *n = (pnode *)calloc(1, sizeof(pnode));
    n->path = (hent *)calloc((size_t)len + 1, sizeof(hent));
    memcpy(n->path, src, sizeof(hent) * (size_t)len);
    n->len = len;
    n->depth = depth;
    if (q_tail)
        q_tail->next = n;
    else
        q_head = n;
    q_tail = n;
}

static const scen_t *find_scen(const char *name)
{
    for (size_t i = 0; i < sizeof(g_scens) / sizeof(g_scens[0]); i++)
        if (strcmp(g_scens[i].name, name) == 0)
            return &g_scens[i];
    return NULL;
}

static void spawn(job_t *j, const scen_t *sc, pnode *n)
{
    int pfd[2];
    if (pipe(pfd) != 0) {
        perror("pipe");
        exit(3);
    }
    pid_t pid = fork();
    if (pid == 0) {
        close(pfd[0]);
        g_out_fd = pfd[1];
        alarm(60);
        memcpy(g_path, n->path, sizeof(hent) * (size_t)n->len);
        g_path_len = n->len;
        run_case(sc);
        _exit(0);
    }
    close(pfd[1]);
    j->pid = pid;
    j->fd = pfd[0];
    j->len = 0;
    j->cap = 1 << 16;
    j->buf = (char *)malloc(j->cap);
    j->t0 = now();
    j->depth = n->depth;
    j->nfail = 0;
    for (int i = 0; i < n->len; i++)
        if (n->path[i].st == RTRACE_FAILURE && j->nfail < 16)
            j->fail[j->nfail++] = i;
}

/* parse child's output; enqueue follow-up paths */
static void finish(job_t *j, const scen_t *sc, int status, int maxdepth, int timed_out)
{
    j->buf[j->len] = 0;
    char *res = strstr(j->buf, "RESULT ");
    char *hist = strstr(j->buf, "\nHIST");
    if (res && hist && WIFEXITED(status) && WEXITSTATUS(status) == 0) {
        char *e = strchr(res, '\n');
        printf("%.*s\n", (int)(e - res - 7), res + 7);
        for (char *nt = j->buf; (nt = strstr(nt, "NOTE ")) != NULL; nt += 5)
            if (nt == j->buf || nt[-1] == '\n')
                printf("%.*s\n", (int)strcspn(nt, "\n"), nt);
        /* next paths: flip every not-fixed success after the last failure */
        if (j->depth < maxdepth) {
            static hent h[MAXH];
            int n = 0, lastF = -1;
            char *p = hist + 5;
            while (*p == ' ' && n < MAXH) {
                int k, st;
                size_t v;
                int used = 0;
                if (sscanf(p, " %d:%zu:%d%n", &k, &v, &st, &used) != 3)
                    break;
                h[n].kind = k;
                h[n].val = v;
                h[n].st = st;
                if (st == RTRACE_FAILURE)
                    lastF = n;
                n++;
                p += used;
            }
            for (int i = lastF + 1; i < n; i++)
                if (h[i].st == RTRACE_SUCCESS) {
                    int save = h[i].st;
                    h[i].st = RTRACE_FAILURE;
                    q_push(h, i + 1, j->depth + 1);
                    h[i].st = save;
                }
        }
    } else {
        /* crash, hang or harness error: report the last stage reached */
        const char *stage = "start";
        char *s = j->buf, *last = NULL;
        while ((s = strstr(s, "STAGE ")) != NULL) {
            last = s + 6;
            s += 6;
        }
        char stg[64] = "start";
        if (last)
            snprintf(stg, sizeof(stg), "%.*s", (int)strcspn(last, "\n"), last);
        for (char *c = stg; *c; c++) if (*c == ' ') *c = '_';
        { char *rc_ = strstr(stg, "_rc="); if (rc_) *rc_ = 0; }
        stage = stg;
        /* spec of this case from the path's failure indices and the windows
         * the child announced before it died */
        int wh[MAXATT + 2], nw = 0;
        for (char *w = j->buf; (w = strstr(w, "WIN ")) != NULL; w += 4) {
            int a, h;
            if ((w == j->buf || w[-1] == '\n') && sscanf(w, "WIN %d %d", &a, &h) == 2 && nw < MAXATT + 1)
                wh[nw++] = h;
        }
        char spec[128];
        size_t sl = 0;
        spec[0] = 0;
        for (int a = 0; a < nw; a++) {
            int nf = 0;
            if (a)
                sl += (size_t)snprintf(spec + sl, sizeof(spec) - sl, "/");
            for (int i = 0; i < j->nfail; i++) {
                int f = j->fail[i];
                if (f >= wh[a] && (a + 1 >= nw || f < wh[a + 1])) {
                    sl += (size_t)snprintf(spec + sl, sizeof(spec) - sl, "%s%d", nf ? "," : "", f - wh[a] + 1);
                    nf++;
                }
            }
            if (!nf)
                sl += (size_t)snprintf(spec + sl, sizeof(spec) - sl, "0");
        }
        if (!nw)
            snprintf(spec, sizeof(spec), "setup");
        char *he = strstr(j->buf, "HARNESS-ERROR");
        if (he) {
            printf("%s %s => HARNESS-ERROR[%.*s] | -\n", sc->name, spec, (int)strcspn(he, "\n"), he);
        } else if (timed_out) {
            printf("%s %s => HANG[after=%s] | -\n", sc->name, spec, stage);
        } else if (WIFSIGNALED(status)) {
            printf("%s %s => CRASH[signal=%d,after=%s] | -\n", sc->name, spec, WTERMSIG(status), stage);
        } else {
            printf("%s %s => CRASH[exit=%d,after=%s] | -\n", sc->name, spec,
                   WIFEXITED(status) ? WEXITSTATUS(status) : -1, stage);
        }
    }
    fflush(stdout);
    free(j->buf);
    close(j->fd);
    j->pid = 0;
}

static int run_all(const scen_t *sc, int maxdepth, int jobs, pnode *only)
{
    job_t J[64];
    memset(J, 0, sizeof(J));
    if (jobs > 64)
        jobs = 64;
    if (only) {
        q_head = q_tail = NULL;
        only->next = NULL;
        q_head = q_tail = only;
    } else {
        q_push(NULL, 0, 0);
    }
    int active = 0;
    while (q_head || active) {
        while (q_head && active < jobs) {
            int s;
            for (s = 0; s < jobs; s++)
                if (!J[s].pid)
                    break;
            pnode *n = q_head;
            q_head = n->next;
            if (!q_head)
                q_tail = NULL;
            spawn(&J[s], sc, n);
            active++;
        }
        struct pollfd pf[64];
        int idx[64], np = 0;
        for (int s = 0; s < jobs; s++)
            if (J[s].pid) {
                pf[np].fd = J[s].fd;
                pf[np].events = POLLIN;
                idx[np++] = s;
            }
        poll(pf, (nfds_t)np, 200);
        for (int i = 0; i < np; i++) {
            job_t *j = &J[idx[i]];
            int done = 0, timed_out = 0;
            if (pf[i].revents & (POLLIN | POLLHUP)) {
                if (j->len + 4096 > j->cap) {
                    j->cap *= 2;
                    j->buf = (char *)realloc(j->buf, j->cap);
                }
                ssize_t r = read(j->fd, j->buf + j->len, j->cap - j->len - 1);
                if (r > 0)
                    j->len += (size_t)r;
                else
                    done = 1;
            }
            if (!done && now() - j->t0 > 30.0) {
                kill(j->pid, SIGKILL);
                done = 1;
                timed_out = 1;
            }
            if (done) {
                int status = 0;
                waitpid(j->pid, &status, 0);
                finish(j, sc, status, maxdepth, timed_out);
                active--;
            }
        }
    }
    return 0;
}

int main(int argc, char **argv)
{
    if (argc >= 2 && strcmp(argv[1], "list") == 0) {
        for (size_t i = 0; i < sizeof(g_scens) / sizeof(g_scens[0]); i++)
            printf("%s\n", g_scens[i].name);
        return 0;
    }
    if (argc >= 2 && strcmp(argv[1], "sizes") == 0) {
        print_sizes();
        return 0;
    }
    if (argc >= 4 && strcmp(argv[1], "run") == 0) {
        const scen_t *sc = find_scen(argv[2]);
        if (!sc) {
            fprintf(stderr, "unknown scenario %s\n", argv[2]);
            return 2;
        }
        return run_all(sc, atoi(argv[3]), argc >= 5 ? atoi(argv[4]) : 4, NULL);
    }
    fprintf(stderr, "usage: h_c18 list | sizes | run <scenario> <depth> [jobs]\n");
    return 2;
}
