/* Scenario interpreter shared by the history-conformance harnesses.
 * The including file defines, before including this header:
 *   static int  vh_parse_decl(char *line);            object declarations (return 1 if consumed)
 *   static void vh_setup_objects(void);               create + register objects (after ABT_init)
 *   static void vh_do_op(struct vh_tctx *c, const char *tok);   execute one op token
 *   static void vh_teardown_objects(void);
 *   static void vh_extra_dump(FILE *f);               property-specific trailer lines
 * Scenario file:
 *   SEED <n> | NES <n> | WATCHDOG <seconds> | PERTURB <0|1> | VCLOCK <0|1>
 *   THREAD <idx> <U|E|T> <es> : tok tok tok ...
 * usage: harness <scenario-file> <history-out>
 */
#ifndef VH_SCN_H
#define VH_SCN_H
#include "vh_trace.h"
#include <time.h>

#define VH_MAX_STHR 64
#define VH_MAX_TOKS 4096
typedef struct vh_tctx {
    int index;
    char kind; /* U ULT, E external pthread, T tasklet */
    int es;
    int ntoks;
    char *toks[VH_MAX_TOKS];
    /* per-thread scratch for the property harness */
    int held[64];
    long counter;
    volatile int done;
    pthread_t pth;
    ABT_thread abt;
} vh_tctx;

static vh_tctx vh_sthr[VH_MAX_STHR];
static int vh_nsthr;
static int vh_nes = 1;
static int vh_watchdog_s = 20;
static int vh_cfg_perturb = 1, vh_cfg_vclock = 0, vh_cfg_shared = 0;
static uint64_t vh_cfg_seed = 1;
static ABT_xstream vh_xs[16];
static ABT_pool vh_pools[16];
static const char *vh_out_path;
static volatile int vh_finished;

static int vh_parse_decl(char *line);
static void vh_setup_objects(void);
static void vh_do_op(vh_tctx *c, const char *tok);
static void vh_teardown_objects(void);
static void vh_extra_dump(FILE *f);

static void vh_write_history(const char *status)
{
    FILE *f = fopen(vh_out_path, "w");
    if (!f)
        VH_DIE("cannot write %s", vh_out_path);
    vh_dump(f, status);
    vh_extra_dump(f);
    fclose(f);
}

static void *vh_watchdog(void *arg)
{
    (void)arg;
    int ms = 0;
    while (!vh_finished && ms < vh_watchdog_s * 1000) {
        struct timespec ts = { 0, 5 * 1000 * 1000 };
        nanosleep(&ts, NULL);
        ms += 5;
    }
    if (!vh_finished) {
        /* freeze the log, dump it, leave */
        vh_trace_lock();
        vh_write_history("STUCK");
        fprintf(stderr, "watchdog: scenario did not finish in %d s\n", vh_watchdog_s);
        _exit(4);
    }
    return NULL;
}

static void vh_thread_body(void *arg)
{
    vh_tctx *c = (vh_tctx *)arg;
    vh_register_self(c->index, c->kind);
    int i;
    for (i = 0; i < c->ntoks; i++)
        vh_do_op(c, c->toks[i]);
    c->done = 1;
}
static void *vh_pthread_body(void *arg)
{
    vh_thread_body(arg);
    return NULL;
}

static void vh_load_scenario(const char *path)
{
    FILE *f = fopen(path, "r");
    if (!f)
        VH_DIE("cannot open scenario %s", path);
    char *line;
    while ((line = vh_getline(f))) {
        if (line[0] == '#' || line[0] == 0) {
            free(line);
            continue;
        }
        unsigned long long u;
        int v;
        if (sscanf(line, "SEED %llu", &u) == 1)
            vh_cfg_seed = u;
        else if (sscanf(line, "NES %d", &v) == 1)
            vh_nes = v + 1;
        else if (sscanf(line, "WATCHDOG %d", &v) == 1)
            vh_watchdog_s = v;
        else if (sscanf(line, "PERTURB %d", &v) == 1)
            vh_cfg_perturb = v;
        else if (sscanf(line, "VCLOCK %d", &v) == 1)
            vh_cfg_vclock = v;
        else if (sscanf(line, "SHARED %d", &v) == 1)
            vh_cfg_shared = v;
        else if (!strncmp(line, "THREAD ", 7)) {
            vh_tctx *c = &vh_sthr[vh_nsthr];
            memset(c, 0, sizeof(*c));
            char kind;
            int off = 0;
            if (sscanf(line, "THREAD %d %c %d :%n", &c->index, &kind, &c->es, &off) < 3 || off == 0)
                VH_DIE("bad THREAD line: %s", line);
            c->kind = kind;
            char *save, *tok = strtok_r(line + off, " ", &save);
            while (tok && c->ntoks < VH_MAX_TOKS) {
                c->toks[c->ntoks++] = strdup(tok);
                tok = strtok_r(NULL, " ", &save);
            }
            if (c->es >= vh_nes)
                VH_DIE("THREAD %d uses ES %d but NES is %d", c->index, c->es, vh_nes - 1);
            vh_nsthr++;
        } else if (!vh_parse_decl(line))
            VH_DIE("bad scenario line: %s", line);
        free(line);
    }
    fclose(f);
}

static int vh_scenario_main(int argc, char **argv)
{
    if (argc < 3)
        VH_DIE("usage: %s <scenario> <history-out>", argv[0]);
    vh_out_path = argv[2];
    vh_load_scenario(argv[1]);
    int i, ret;
    ret = ABT_init(0, NULL);
    if (ret != ABT_SUCCESS)
        VH_DIE("ABT_init failed");
    ABT_xstream_self(&vh_xs[0]);
    ABT_xstream_get_main_pools(vh_xs[0], 1, &vh_pools[0]);
    ABT_pool shared_pool = ABT_POOL_NULL;
    if (vh_cfg_shared && vh_nes > 2) {
        /* SHARED 1: the secondary streams all serve one MPMC pool, so a ULT that blocks is usually resumed on
         * another stream than the one it blocked on (the primary stream keeps its own pool) */
        ret = ABT_pool_create_basic(ABT_POOL_FIFO, ABT_POOL_ACCESS_MPMC, ABT_TRUE, &shared_pool);
        if (ret != ABT_SUCCESS)
            VH_DIE("pool_create_basic failed");
    }
    for (i = 1; i < vh_nes; i++) {
        if (shared_pool != ABT_POOL_NULL) {
            ret = ABT_xstream_create_basic(ABT_SCHED_BASIC, 1, &shared_pool, ABT_SCHED_CONFIG_NULL, &vh_xs[i]);
            vh_pools[i] = shared_pool;
        } else {
            ret = ABT_xstream_create(ABT_SCHED_NULL, &vh_xs[i]);
            if (ret == ABT_SUCCESS)
                ABT_xstream_get_main_pools(vh_xs[i], 1, &vh_pools[i]);
        }
        if (ret != ABT_SUCCESS)
            VH_DIE("xstream_create failed");
    }
    vh_setup_objects();
    vh_trace_init(vh_cfg_seed, vh_cfg_perturb, vh_cfg_vclock);
    pthread_t wd;
    pthread_create(&wd, NULL, vh_watchdog, NULL);
    for (i = 0; i < vh_nsthr; i++) {
        vh_tctx *c = &vh_sthr[i];
        if (c->kind == 'U')
            ret = ABT_thread_create(vh_pools[c->es], vh_thread_body, c, ABT_THREAD_ATTR_NULL, &c->abt);
        else if (c->kind == 'T')
            ret = ABT_task_create(vh_pools[c->es], vh_thread_body, c, &c->abt);
        else
            ret = pthread_create(&c->pth, NULL, vh_pthread_body, c);
        if (ret != 0)
            VH_DIE("thread creation failed");
    }
    for (i = 0; i < vh_nsthr; i++) {
        vh_tctx *c = &vh_sthr[i];
        if (c->kind == 'E') {
            /* never block the primary stream's OS thread: ULTs of ES0 must keep running */
            while (!c->done)
                ABT_thread_yield();
            pthread_join(c->pth, NULL);
        } else
            ABT_thread_free(&c->abt);
    }
    vh_finished = 1;
    pthread_join(wd, NULL);
    vh_trace_lock();
    vh_write_history("DONE");
    vh_nobjs = 0;
    vh_log_all = 0;
    vh_trace_unlock();
    vh_teardown_objects();
    for (i = 1; i < vh_nes; i++) {
        ABT_xstream_join(vh_xs[i]);
        ABT_xstream_free(&vh_xs[i]);
    }
    ABT_finalize();
    return 0;
}
#endif
