/* C15 API-level harness: ULTs of every provenance created and freed on the real
 * runtime, one forked process per case (= one memory-pool configuration).
 * Prints one canonical line per case (same format as ocaml/drv_c15.ml).
 *
 *   API D=<default stacksize> G=<0|1|2> LP=<malloc|mmap_rp|mmap_hp_rp|mmap_hp_thp|thp>
 *       MS=<max stacks> MD=<max descs> SP=<stack page size> PG=<mem page size> SY=<sizeof ythread>
 *       ; spec , spec , ...
 *   spec = <creator> <kind> [args] <freer>
 *     creator: M (primary ES) | S (secondary ES) | X (external pthread)
 *     kind:    N (ABT_THREAD_ATTR_NULL) | A <size> (attr stacksize) | U <off> <size> (user stack at
 *              64-aligned buffer + off)
 *     freer:   m | s | x
 *
 *   --consts prints "SY=<sizeof(ABTI_ythread)>".
 *
 * Built with -Wl,--wrap=malloc,--wrap=calloc,--wrap=realloc,--wrap=posix_memalign,
 * --wrap=free,--wrap=mmap,--wrap=munmap : every allocation of the library goes
 * through the ledger below; a free() of a pointer that is inside a live
 * allocation but is not its base is recorded as invalid and not executed. */
#include "abti.h"
#include "vh_common.h"
#include <pthread.h>
#include <unistd.h>
#include <sys/mman.h>
#include <sys/wait.h>

/* ------------------------------------------------------------ ledger */
void *__real_malloc(size_t);
void *__real_calloc(size_t, size_t);
void *__real_realloc(void *, size_t);
int __real_posix_memalign(void **, size_t, size_t);
void __real_free(void *);
void *__real_mmap(void *, size_t, int, int, int, off_t);
int __real_munmap(void *, size_t);

#define LMAX 65536
typedef struct {
    char *base;
    size_t size;
    int live;
    int is_map;
} lent_t;
static lent_t g_led[LMAX];
static int g_nled;
typedef struct {
    char *ptr;
    int valid;  /* 1 = base of a live allocation, 0 = inside one (invalid), 2 = unknown */
    int ent;    /* ledger entry concerned or -1 */
} fev_t;
static fev_t g_fev[LMAX];
static int g_nfev;
static volatile int g_lock;
static int g_ledger_on;
static long g_invalid_frees;

static void llock(void)
{
    while (__atomic_exchange_n(&g_lock, 1, __ATOMIC_ACQUIRE))
        ;
}
static void lunlock(void)
{
    __atomic_store_n(&g_lock, 0, __ATOMIC_RELEASE);
}

static void led_add(void *p, size_t size, int is_map)
{
    if (!g_ledger_on || !p)
        return;
    llock();
    int slot = -1;
    if (g_nled < LMAX) {
        slot = g_nled++;
    } else {
        /* table full: reuse the entry of a freed allocation */
        static int rot;
        int k;
        for (k = 0; k < LMAX && slot < 0; k++) {
            rot = (rot + 1) % LMAX;
            if (!g_led[rot].live)
                slot = rot;
        }
    }
    if (slot >= 0) {
        g_led[slot].base = (char *)p;
        g_led[slot].size = size;
        g_led[slot].live = 1;
        g_led[slot].is_map = is_map;
    }
    lunlock();
}

/* returns entry index containing p (live), or -1 */
static int led_find(void *p)
{
    int i;
    for (i = g_nled - 1; i >= 0; i--)
        if (g_led[i].live && (char *)p >= g_led[i].base &&
            (char *)p < g_led[i].base + (g_led[i].size ? g_led[i].size : 1))
            return i;
    return -1;
}

/* 1 = go ahead with the real free, 0 = swallow it */
static int led_free(void *p, int is_map)
{
    if (!g_ledger_on || !p)
        return 1;
    int go = 1;
    llock();
    int e = led_find(p);
    fev_t ev = { (char *)p, 2, e };
    if (e >= 0) {
        if (g_led[e].base == (char *)p && g_led[e].is_map == is_map) {
            g_led[e].live = 0;
            ev.valid = 1;
        } else {
            ev.valid = 0;
            g_invalid_frees++;
            go = 0;
        }
    }
    if (g_nfev < LMAX)
        g_fev[g_nfev++] = ev;
    lunlock();
    return go;
}

void *__wrap_malloc(size_t n)
{
    void *p = __real_malloc(n);
    led_add(p, n, 0);
    return p;
}
void *__wrap_calloc(size_t a, size_t b)
{
    void *p = __real_calloc(a, b);
    led_add(p, a * b, 0);
    return p;
}
void *__wrap_realloc(void *q, size_t n)
{
    if (q && !led_free(q, 0))
        return NULL;
    void *p = __real_realloc(q, n);
    led_add(p, n, 0);
    return p;
}
int __wrap_posix_memalign(void **pp, size_t al, size_t n)
{
    int r = __real_posix_memalign(pp, al, n);
    if (r == 0)
        led_add(*pp, n, 0);
    return r;
}
void __wrap_free(void *p)
{
    if (led_free(p, 0))
        __real_free(p);
}
void *__wrap_mmap(void *a, size_t n, int pr, int fl, int fd, off_t off)
{
    void *p = __real_mmap(a, n, pr, fl, fd, off);
    if (p != MAP_FAILED)
        led_add(p, n, 1);
    return p;
}
int __wrap_munmap(void *p, size_t n)
{
    if (!led_free(p, 1))
        return -1;
    return __real_munmap(p, n);
}

/* ------------------------------------------------------------ test threads */
#define MAXT 256
typedef struct {
    char creator, kind, freer;
    size_t size, off;
    ABT_thread th;
    ABTI_ythread *py;
    char *ubase; /* user stack buffer (64-aligned) */
    /* filled by the ULT */
    volatile uintptr_t local_addr, frame_addr;
    volatile int ran;
    /* observations */
    uintptr_t desc, top;
    size_t ss, gs, ga_size;
    uintptr_t ga_stack;
    unsigned type;
    int ent;       /* ledger entry containing the descriptor */
    char rel[64];
} tinfo_t;

static tinfo_t g_t[MAXT];
static int g_nt;
static ABT_pool g_main_pool;
static ABT_xstream g_es1;
static ABT_pool g_es1_pool;
static ABTI_xstream *g_px0, *g_px1;
static size_t c_D, c_SY;

static void ult_body(void *arg)
{
    tinfo_t *t = (tinfo_t *)arg;
    volatile char local = 1;
    t->local_addr = (uintptr_t)&local;
    t->frame_addr = (uintptr_t)__builtin_frame_address(0);
    t->ran = 1;
    (void)local;
}

static void do_create(tinfo_t *t)
{
    ABT_thread_attr attr = ABT_THREAD_ATTR_NULL;
    int r;
    if (t->kind == 'A') {
        ABT_thread_attr_create(&attr);
        r = ABT_thread_attr_set_stacksize(attr, t->size);
        if (r != ABT_SUCCESS)
            VH_DIE("set_stacksize %d", r);
    } else if (t->kind == 'U') {
        ABT_thread_attr_create(&attr);
        r = ABT_thread_attr_set_stack(attr, t->ubase + t->off, t->size);
        if (r != ABT_SUCCESS)
            VH_DIE("set_stack %d", r);
    }
    r = ABT_thread_create(g_main_pool, ult_body, t, attr, &t->th);
    if (r != ABT_SUCCESS)
        VH_DIE("thread_create %d", r);
    if (attr != ABT_THREAD_ATTR_NULL)
        ABT_thread_attr_free(&attr);
}

static void do_free(tinfo_t *t)
{
    int r = ABT_thread_free(&t->th);
    if (r != ABT_SUCCESS)
        VH_DIE("thread_free %d", r);
}

typedef struct {
    void (*f)(tinfo_t *);
    tinfo_t *t;
} call_t;
static void call_ult(void *arg)
{
    call_t *c = (call_t *)arg;
    c->f(c->t);
}
static void *call_pthread(void *arg)
{
    call_t *c = (call_t *)arg;
    c->f(c->t);
    return NULL;
}

static void run_as(char who, void (*f)(tinfo_t *), tinfo_t *t)
{
    call_t c = { f, t };
    if (who == 'M' || who == 'm') {
        f(t);
    } else if (who == 'S' || who == 's') {
        ABT_thread h;
        if (ABT_thread_create(g_es1_pool, call_ult, &c, ABT_THREAD_ATTR_NULL,
                              &h) != ABT_SUCCESS)
            VH_DIE("helper create");
        ABT_thread_free(&h);
    } else {
        pthread_t p;
        pthread_create(&p, NULL, call_pthread, &c);
        pthread_join(p, NULL);
    }
}

static const char *type_name(unsigned ty)
{
    if (ty & ABTI_THREAD_TYPE_MEM_MEMPOOL_DESC_STACK)
        return "pds";
    if (ty & ABTI_THREAD_TYPE_MEM_MALLOC_DESC_STACK)
        return "mds";
    if (ty & ABTI_THREAD_TYPE_MEM_MEMPOOL_DESC)
        return "pd";
    if (ty & ABTI_THREAD_TYPE_MEM_MALLOC_DESC)
        return "md";
    return "??";
}

static ABTI_mem_pool_local_pool *pool_of(char freer, int stack)
{
    ABTI_global *pg = ABTI_global_get_global();
    if (freer == 'm')
        return stack ? &g_px0->mem_pool_stack : &g_px0->mem_pool_desc;
    if (freer == 's')
        return stack ? &g_px1->mem_pool_stack : &g_px1->mem_pool_desc;
    return stack ? &pg->mem_pool_stack_ext : &pg->mem_pool_desc_ext;
}

static int ranges_overlap(uintptr_t a0, uintptr_t a1, uintptr_t b0, uintptr_t b1)
{
    return a0 < a1 && b0 < b1 && a0 < b1 && b0 < a1;
}

#include <setjmp.h>
static sigjmp_buf g_touch_jmp;
static void touch_segv(int sig)
{
    (void)sig;
    siglongjmp(g_touch_jmp, 1);
}
/* number of pages of [p, p+n) that cannot be written */
static int touch_faults(char *p, size_t n)
{
    struct sigaction sa, old_segv, old_bus;
    int faults = 0;
    size_t o;
    memset(&sa, 0, sizeof sa);
    sa.sa_handler = touch_segv;
    sigaction(SIGSEGV, &sa, &old_segv);
    sigaction(SIGBUS, &sa, &old_bus);
    for (o = 0; o < n; o += 4096) {
        if (sigsetjmp(g_touch_jmp, 1) == 0) {
            volatile char *q = p + o;
            *q = (char)0x5a;
        } else
            faults++;
    }
    sigaction(SIGSEGV, &old_segv, NULL);
    sigaction(SIGBUS, &old_bus, NULL);
    return faults;
}

static void child_case(char *line, FILE *out)
{
    char lp[32] = "malloc";
    unsigned long D = 16384, G = 0, MS = 0, MD = 0, SP = 0, PG = 0, SY = 0;
    char *save1;
    char *hd = strtok_r(line, ";", &save1);
    char *specs = strtok_r(NULL, ";", &save1);
    {
        char *save0, *tok = strtok_r(hd, " ", &save0);
        for (; tok; tok = strtok_r(NULL, " ", &save0)) {
            if (sscanf(tok, "D=%lu", &D) == 1 || sscanf(tok, "G=%lu", &G) == 1 ||
                sscanf(tok, "MS=%lu", &MS) == 1 ||
                sscanf(tok, "MD=%lu", &MD) == 1 ||
                sscanf(tok, "SP=%lu", &SP) == 1 ||
                sscanf(tok, "PG=%lu", &PG) == 1 ||
                sscanf(tok, "SY=%lu", &SY) == 1 || sscanf(tok, "LP=%31s", lp) == 1)
                continue;
        }
    }
    char buf[64];
    sprintf(buf, "%lu", D);
    setenv("ABT_THREAD_STACKSIZE", buf, 1);
    setenv("ABT_STACK_OVERFLOW_CHECK",
           G == 0 ? "none" : (G == 1 ? "mprotect" : "mprotect_strict"), 1);
    setenv("ABT_MEM_LP_ALLOC", lp, 1);
    if (MS) {
        sprintf(buf, "%lu", MS);
        setenv("ABT_MEM_MAX_NUM_STACKS", buf, 1);
    }
    if (MD) {
        sprintf(buf, "%lu", MD);
        setenv("ABT_MEM_MAX_NUM_DESCS", buf, 1);
    }
    if (SP) {
        sprintf(buf, "%lu", SP);
        setenv("ABT_MEM_STACK_PAGE_SIZE", buf, 1);
    }
    if (PG) {
        sprintf(buf, "%lu", PG);
        setenv("ABT_MEM_PAGE_SIZE", buf, 1);
    }
    c_D = D;
    c_SY = sizeof(ABTI_ythread);
    if (SY && SY != c_SY)
        VH_DIE("case was generated for sizeof(ABTI_ythread)=%lu, it is %zu", SY,
               c_SY);

    /* parse specs */
    g_nt = 0;
    int need_es1 = 0;
    char *save2;
    char *sp = specs ? strtok_r(specs, ",", &save2) : NULL;
    for (; sp && g_nt < MAXT; sp = strtok_r(NULL, ",", &save2)) {
        tinfo_t *t = &g_t[g_nt];
        memset(t, 0, sizeof(*t));
        char c1, k, fr;
        unsigned long a = 0, b = 0;
        if (sscanf(sp, " %c N %c", &c1, &fr) == 2 && strstr(sp, " N ")) {
            k = 'N';
        } else if (sscanf(sp, " %c A %lu %c", &c1, &a, &fr) == 3) {
            k = 'A';
        } else if (sscanf(sp, " %c U %lu %lu %c", &c1, &a, &b, &fr) == 4) {
            k = 'U';
        } else
            continue;
        t->creator = c1, t->kind = k, t->freer = fr;
        if (k == 'A')
            t->size = a;
        if (k == 'U') {
            t->off = a, t->size = b;
            if (__real_posix_memalign((void **)&t->ubase, 4096, b + 4096 + 64) != 0)
                VH_DIE("user stack alloc");
            memset(t->ubase, 0, b + 4096 + 64);
        }
        if (c1 == 'S' || fr == 's')
            need_es1 = 1;
        g_nt++;
    }

    g_ledger_on = 1;
    if (ABT_init(0, NULL) != ABT_SUCCESS)
        VH_DIE("ABT_init");
    ABT_xstream self;
    ABT_xstream_self(&self);
    g_px0 = ABTI_xstream_get_ptr(self);
    ABT_xstream_get_main_pools(self, 1, &g_main_pool);
    if (need_es1) {
        if (ABT_xstream_create(ABT_SCHED_NULL, &g_es1) != ABT_SUCCESS)
            VH_DIE("xstream_create");
        g_px1 = ABTI_xstream_get_ptr(g_es1);
        ABT_xstream_get_main_pools(g_es1, 1, &g_es1_pool);
    }
    ABTI_global *pg = ABTI_global_get_global();
    size_t hs = pg->mem_pool_stack.header_size;
    size_t dhs = pg->mem_pool_desc.header_size;
    int guard = (pg->stack_guard_kind != ABTI_STACK_GUARD_NONE);
    size_t syspg = pg->sys_page_size;
    int i, j;

    /* create all */
    for (i = 0; i < g_nt; i++)
        run_as(g_t[i].creator, do_create, &g_t[i]);
    /* observe (white box + API) and touch the stack ends before the ULTs run */
    for (i = 0; i < g_nt; i++) {
        tinfo_t *t = &g_t[i];
        t->py = ABTI_thread_get_ythread(ABTI_thread_get_ptr(t->th));
        t->desc = (uintptr_t)t->py;
        t->top = (uintptr_t)t->py->ctx.p_stacktop;
        t->ss = t->py->ctx.stacksize;
        t->type = t->py->thread.type;
        ABT_thread_get_stacksize(t->th, &t->gs);
        ABT_thread_attr at;
        ABT_thread_get_attr(t->th, &at);
        void *sa = NULL;
        ABT_thread_attr_get_stack(at, &sa, &t->ga_size);
        t->ga_stack = (uintptr_t)sa;
        ABT_thread_attr_free(&at);
        llock();
        t->ent = led_find((void *)t->desc);
        lunlock();
        /* the whole reported range must be writable memory (above the guard page, if any) */
        volatile char *lo = (volatile char *)(t->top - t->ss);
        if (guard)
            lo = (volatile char *)((((uintptr_t)lo + syspg - 1) & ~(syspg - 1)) +
                                   syspg);
        *lo = 0x11;
        *(volatile char *)(t->top - 1) = 0x22;
    }
    /* run */
    for (i = 0; i < g_nt; i++)
        ABT_thread_join(g_t[i].th);
    /* overlap of all live (descriptor, stack) ranges */
    int overlaps = 0;
    for (i = 0; i < g_nt; i++)
        for (j = 0; j < g_nt; j++) {
            tinfo_t *a = &g_t[i], *b = &g_t[j];
            uintptr_t ad0 = a->desc, ad1 = a->desc + c_SY;
            uintptr_t as0 = a->top - a->ss, as1 = a->top;
            uintptr_t bd0 = b->desc, bd1 = b->desc + c_SY;
            uintptr_t bs0 = b->top - b->ss, bs1 = b->top;
            if (i < j) {
                overlaps += ranges_overlap(ad0, ad1, bd0, bd1);
                overlaps += ranges_overlap(as0, as1, bs0, bs1);
            }
            overlaps += ranges_overlap(ad0, ad1, bs0, bs1);
        }
    /* free, observing the release */
    for (i = 0; i < g_nt; i++) {
        tinfo_t *t = &g_t[i];
        int ev0 = g_nfev;
        int is_pool_stack = (t->type & ABTI_THREAD_TYPE_MEM_MEMPOOL_DESC_STACK) != 0;
        int is_pool_desc = !is_pool_stack &&
                           (t->type & ABTI_THREAD_TYPE_MEM_MEMPOOL_DESC) != 0;
        lent_t ent = { 0 };
        if (t->ent >= 0)
            ent = g_led[t->ent];
        run_as(t->freer, do_free, t);
        if (is_pool_stack || is_pool_desc) {
            ABTI_mem_pool_local_pool *lp2 = pool_of(t->freer, is_pool_stack);
            void *head = lp2->buckets[lp2->bucket_index];
            if ((uintptr_t)head == t->desc)
                sprintf(t->rel, "%s:0", is_pool_stack ? "pool-stack" : "pool-desc");
            else
                sprintf(t->rel, "%s:?", is_pool_stack ? "pool-stack" : "pool-desc");
        } else {
            /* the free() aimed at this thread's allocation */
            strcpy(t->rel, "free:none");
            int e;
            for (e = ev0; e < g_nfev; e++)
                if (g_fev[e].ent == t->ent && t->ent >= 0) {
                    sprintf(t->rel, "free:%ld", (long)(g_fev[e].ptr - ent.base));
                    if (!g_fev[e].valid) {
                        /* finish the job so that the ledger stays meaningful */
                        llock();
                        g_led[t->ent].live = 0;
                        lunlock();
                        __real_free(ent.base);
                    }
                    break;
                }
        }
    }
    if (need_es1) {
        ABT_xstream_join(g_es1);
        ABT_xstream_free(&g_es1);
    }
    ABT_finalize();
    g_ledger_on = 0;
    /* a user-supplied stack is handed back as it was given: every byte writable again (no guard page left) */
    int ugp = 0;
    for (i = 0; i < g_nt; i++)
        if (g_t[i].kind == 'U')
            ugp += touch_faults(g_t[i].ubase, g_t[i].size + 4096 + 64);
    int leaks = 0;
    for (i = 0; i < g_nled; i++)
        leaks += g_led[i].live;

    /* print */
    fprintf(out, "API hs=%zu dhs=%zu", hs, dhs);
    for (i = 0; i < g_nt; i++) {
        tinfo_t *t = &g_t[i];
        const char *ty = type_name(t->type);
        int pool = (ty[0] == 'p');
        uintptr_t ptr; /* what the allocator answered */
        if (pool)
            ptr = t->desc;
        else
            ptr = t->ent >= 0 ? (uintptr_t)g_led[t->ent].base : 0;
        fprintf(out, " T%d:%s d=%ld ss=%zu gs=%zu", i, ty, (long)(t->desc - ptr),
                t->ss, t->gs);
        if (t->kind == 'U')
            fprintf(out, " utop=%ld ga=%zu:U%ld", (long)(t->top - (uintptr_t)t->ubase),
                    t->ga_size, (long)(t->ga_stack - (uintptr_t)t->ubase));
        else
            fprintf(out, " top=%ld ga=%zu:%ld", (long)(t->top - ptr), t->ga_size,
                    (long)(t->ga_stack - ptr));
        if (pool) {
            size_t h = (ty[1] == 'd' && ty[2] == 's') ? hs : dhs;
            long so = -1;
            if (t->ent >= 0)
                so = (long)((t->desc - (uintptr_t)g_led[t->ent].base) % h);
            fprintf(out, " slotoff=%ld", so);
        } else {
            fprintf(out, " req=%zu", t->ent >= 0 ? g_led[t->ent].size : 0);
        }
        int loc = t->ran && t->local_addr >= t->top - t->ss && t->local_addr < t->top;
        fprintf(out, " al=%d loc=%d f16=%d rel=%s", (int)(t->desc % 64), loc,
                t->ran && (t->frame_addr % 16 == 0), t->rel);
    }
    fprintf(out, " ; ov=%d leak=%d inv=%ld ugp=%d\n", overlaps, leaks, g_invalid_frees, ugp);
    fflush(out);
}


/* ------------------------------------------------------------ concurrent stress
 *   APIS <env as for API> ; W=<worker ULTs, alternating on ES0/ES1> X=<external pthreads> R=<rounds> K=<ULTs per round>
 * every worker repeatedly creates K ULTs (default and sized stacks) and joins/frees them while the
 * others do the same; a registry of all live (descriptor, stack) ranges is checked for overlap at
 * every creation; the ledger is checked at finalize. */
#define REGMAX 4096
typedef struct {
    uintptr_t d0, d1, s0, s1;
    int live;
} reg_t;
static reg_t g_reg[REGMAX];
static volatile int g_reglock;
static long g_overlap, g_created;
static int s_R, s_K;
static ABT_pool s_pools[2];
static volatile int s_ext_done;

static void reglock(void)
{
    while (__atomic_exchange_n(&g_reglock, 1, __ATOMIC_ACQUIRE))
        ;
}
static void regunlock(void)
{
    __atomic_store_n(&g_reglock, 0, __ATOMIC_RELEASE);
}

static int reg_add(ABT_thread th)
{
    ABTI_ythread *py = ABTI_thread_get_ythread(ABTI_thread_get_ptr(th));
    reg_t r;
    r.d0 = (uintptr_t)py, r.d1 = r.d0 + sizeof(ABTI_ythread);
    r.s1 = (uintptr_t)py->ctx.p_stacktop, r.s0 = r.s1 - py->ctx.stacksize;
    r.live = 1;
    int i, slot = -1;
    reglock();
    for (i = 0; i < REGMAX; i++) {
        if (!g_reg[i].live) {
            if (slot < 0)
                slot = i;
            continue;
        }
        if (ranges_overlap(r.d0, r.d1, g_reg[i].d0, g_reg[i].d1) ||
            ranges_overlap(r.s0, r.s1, g_reg[i].s0, g_reg[i].s1) ||
            ranges_overlap(r.d0, r.d1, g_reg[i].s0, g_reg[i].s1) ||
            ranges_overlap(r.s0, r.s1, g_reg[i].d0, g_reg[i].d1))
            g_overlap++;
    }
    if (ranges_overlap(r.d0, r.d1, r.s0, r.s1))
        g_overlap++;
    if (slot >= 0)
        g_reg[slot] = r;
    g_created++;
    regunlock();
    return slot;
}
static void reg_del(int slot)
{
    if (slot < 0)
        return;
    reglock();
    g_reg[slot].live = 0;
    regunlock();
}

static void stress_leaf(void *arg)
{
    volatile char pad[256];
    pad[0] = 1;
    pad[255] = (char)(uintptr_t)arg;
    (void)pad;
}

static void stress_rounds(int me, ABT_pool pool)
{
    uint64_t s = 0x1234567ULL * (me + 1);
    ABT_thread th[64];
    int slot[64];
    int r, k;
    for (r = 0; r < s_R; r++) {
        for (k = 0; k < s_K; k++) {
            uint64_t x = vh_rand(&s);
            ABT_thread_attr attr = ABT_THREAD_ATTR_NULL;
            if (x & 1) {
                ABT_thread_attr_create(&attr);
                ABT_thread_attr_set_stacksize(attr, 16384 + 64 * ((x >> 8) % 512));
            }
            if (ABT_thread_create(pool, stress_leaf, NULL, attr, &th[k]) != ABT_SUCCESS)
                VH_DIE("stress create");
            if (attr != ABT_THREAD_ATTR_NULL)
                ABT_thread_attr_free(&attr);
            slot[k] = reg_add(th[k]);
        }
        for (k = 0; k < s_K; k++) {
            int kk = (int)((k + (r & 3)) % s_K);
            ABT_thread_join(th[kk]);
            reg_del(slot[kk]);
            ABT_thread_free(&th[kk]);
        }
    }
}
static void stress_worker_ult(void *arg)
{
    int me = (int)(intptr_t)arg;
    stress_rounds(me, s_pools[me & 1]);
}
static void *stress_worker_pthread(void *arg)
{
    int me = (int)(intptr_t)arg;
    stress_rounds(1000 + me, s_pools[0]);
    __atomic_fetch_add(&s_ext_done, 1, __ATOMIC_ACQ_REL);
    return NULL;
}

/* T=<n>: before the storm, n tasklets created on a stream are freed by an external thread (their descriptors go
 * back through the external descriptor pool, which then hands full buckets to the global descriptor pool) */
static ABT_task s_tasks[8192];
static int s_T;
static volatile int s_tfree_done;
static void stress_task_body(void *arg)
{
    (void)arg;
}
static void *stress_task_freer(void *arg)
{
    (void)arg;
    int i;
    for (i = 0; i < s_T; i++)
        if (ABT_task_free(&s_tasks[i]) != ABT_SUCCESS)
            VH_DIE("stress task free");
    __atomic_store_n(&s_tfree_done, 1, __ATOMIC_RELEASE);
    return NULL;
}

/* J=<n>: "migrating joiner".  Two extra streams share one pool with six ULTs; each ULT does n x { create a tasklet in
 * the private pool of another stream, free it at once }.  The tasklet has not run yet, so the free polls it with
 * yields, and the caller comes back on whichever stream of the shared pool picks it up: the descriptor has to be
 * returned to the pool of the stream the caller is on THEN.  Checked: no tasklet is handed a descriptor that another
 * ULT still holds (registry), a final drain of distinct descriptors, no crash, the ledger at finalize. */
static int s_J;
static uintptr_t s_jlive[64];
static long s_jdup;
static void mj_task(void *arg)
{
    volatile int k;
    (void)arg;
    for (k = 0; k < 400; k++)
        ;
}
static void mj_worker(void *arg)
{
    int me = (int)(intptr_t)arg, r, q;
    for (r = 0; r < s_J; r++) {
        ABT_task t;
        if (ABT_task_create(s_pools[1], mj_task, NULL, &t) != ABT_SUCCESS)
            VH_DIE("mj task create");
        uintptr_t d = (uintptr_t)ABTI_thread_get_ptr(t);
        reglock();
        for (q = 0; q < 64; q++)
            if (s_jlive[q] == d)
                s_jdup++;
        s_jlive[me] = d;
        regunlock();
        if ((r & 7) == 0)
            ABT_thread_yield();
        reglock();
        s_jlive[me] = 0;
        regunlock();
        if (ABT_task_free(&t) != ABT_SUCCESS)
            VH_DIE("mj task free");
    }
}
static int cmp_uptr(const void *a, const void *b)
{
    uintptr_t x = *(const uintptr_t *)a, y = *(const uintptr_t *)b;
    return x < y ? -1 : x > y;
}
static void mj_phase(void)
{
    ABT_pool shared;
    ABT_xstream xs[2];
    ABT_thread wk[6];
    int i;
    if (ABT_pool_create_basic(ABT_POOL_FIFO, ABT_POOL_ACCESS_MPMC, ABT_TRUE, &shared) != ABT_SUCCESS)
        VH_DIE("mj pool");
    for (i = 0; i < 2; i++)
        if (ABT_xstream_create_basic(ABT_SCHED_BASIC, 1, &shared, ABT_SCHED_CONFIG_NULL, &xs[i]) != ABT_SUCCESS)
            VH_DIE("mj xstream");
    for (i = 0; i < 6; i++)
        if (ABT_thread_create(shared, mj_worker, (void *)(intptr_t)i, ABT_THREAD_ATTR_NULL, &wk[i]) != ABT_SUCCESS)
            VH_DIE("mj ult");
    for (i = 0; i < 6; i++)
        ABT_thread_free(&wk[i]);
    /* drain: descriptors handed out now must be pairwise distinct */
    {
        enum { ND = 3000 };
        static ABT_task ts[ND];
        static uintptr_t ds[ND];
        for (i = 0; i < ND; i++) {
            if (ABT_task_create(s_pools[1], stress_task_body, NULL, &ts[i]) != ABT_SUCCESS)
                VH_DIE("mj drain create");
            ds[i] = (uintptr_t)ABTI_thread_get_ptr(ts[i]);
        }
        qsort(ds, ND, sizeof(ds[0]), cmp_uptr);
        for (i = 1; i < ND; i++)
            if (ds[i] == ds[i - 1])
                s_jdup++;
        for (i = 0; i < ND; i++)
            ABT_task_free(&ts[i]);
    }
    for (i = 0; i < 2; i++) {
        ABT_xstream_join(xs[i]);
        ABT_xstream_free(&xs[i]);
    }
}

static void child_stress(char *line, FILE *out)
{
    char *save1;
    char *hd = strtok_r(line, ";", &save1);
    char *par = strtok_r(NULL, ";", &save1);
    unsigned long W = 2, X = 1, R = 10, K = 8, T = 0, J = 0;
    {
        char *save0, *tok = strtok_r(par, " ", &save0);
        for (; tok; tok = strtok_r(NULL, " ", &save0)) {
            if (sscanf(tok, "W=%lu", &W) == 1 || sscanf(tok, "X=%lu", &X) == 1 ||
                sscanf(tok, "R=%lu", &R) == 1 || sscanf(tok, "K=%lu", &K) == 1 || sscanf(tok, "T=%lu", &T) == 1 ||
                sscanf(tok, "J=%lu", &J) == 1)
                continue;
        }
    }
    if (K > 64)
        K = 64;
    s_R = (int)R, s_K = (int)K;
    /* environment: reuse the API header parser by running an empty case set-up */
    {
        char lp[32] = "malloc";
        unsigned long D = 16384, G = 0, MS = 0, MD = 0, SP = 0, PG = 0, SY = 0;
        char *save0, *tok = strtok_r(hd, " ", &save0);
        char buf[64];
        for (; tok; tok = strtok_r(NULL, " ", &save0)) {
            if (sscanf(tok, "D=%lu", &D) == 1 || sscanf(tok, "G=%lu", &G) == 1 ||
                sscanf(tok, "MS=%lu", &MS) == 1 || sscanf(tok, "MD=%lu", &MD) == 1 ||
                sscanf(tok, "SP=%lu", &SP) == 1 || sscanf(tok, "PG=%lu", &PG) == 1 ||
                sscanf(tok, "SY=%lu", &SY) == 1 || sscanf(tok, "LP=%31s", lp) == 1)
                continue;
        }
        sprintf(buf, "%lu", D);
        setenv("ABT_THREAD_STACKSIZE", buf, 1);
        setenv("ABT_STACK_OVERFLOW_CHECK",
               G == 0 ? "none" : (G == 1 ? "mprotect" : "mprotect_strict"), 1);
        setenv("ABT_MEM_LP_ALLOC", lp, 1);
        if (MS) {
            sprintf(buf, "%lu", MS);
            setenv("ABT_MEM_MAX_NUM_STACKS", buf, 1);
        }
        if (MD) {
            sprintf(buf, "%lu", MD);
            setenv("ABT_MEM_MAX_NUM_DESCS", buf, 1);
        }
    }
    g_ledger_on = 1;
    if (ABT_init(0, NULL) != ABT_SUCCESS)
        VH_DIE("ABT_init");
    ABT_xstream self;
    ABT_xstream_self(&self);
    ABT_xstream_get_main_pools(self, 1, &s_pools[0]);
    if (ABT_xstream_create(ABT_SCHED_NULL, &g_es1) != ABT_SUCCESS)
        VH_DIE("xstream_create");
    ABT_xstream_get_main_pools(g_es1, 1, &s_pools[1]);
    ABT_thread wk[64];
    pthread_t px[64];
    unsigned long i;
    if (T > 8192)
        T = 8192;
    s_T = (int)T;
    if (T) {
        pthread_t fr;
        for (i = 0; i < T; i++)
            if (ABT_task_create(s_pools[1], stress_task_body, NULL, &s_tasks[i]) != ABT_SUCCESS)
                VH_DIE("stress task create");
        pthread_create(&fr, NULL, stress_task_freer, NULL);
        while (!__atomic_load_n(&s_tfree_done, __ATOMIC_ACQUIRE))
            ABT_thread_yield();
        pthread_join(fr, NULL);
    }
    if (W > 64)
        W = 64;
    if (X > 64)
        X = 64;
    for (i = 0; i < X; i++)
        pthread_create(&px[i], NULL, stress_worker_pthread, (void *)(intptr_t)i);
    for (i = 0; i < W; i++)
        ABT_thread_create(s_pools[i & 1], stress_worker_ult, (void *)(intptr_t)i,
                          ABT_THREAD_ATTR_NULL, &wk[i]);
    for (i = 0; i < W; i++)
        ABT_thread_free(&wk[i]);
    while (__atomic_load_n(&s_ext_done, __ATOMIC_ACQUIRE) < (int)X)
        ABT_thread_yield();
    for (i = 0; i < X; i++)
        pthread_join(px[i], NULL);
    s_J = (int)J;
    if (J)
        mj_phase();
    ABT_xstream_join(g_es1);
    ABT_xstream_free(&g_es1);
    ABT_finalize();
    g_ledger_on = 0;
    int leaks = 0, k;
    for (k = 0; k < g_nled; k++)
        leaks += g_led[k].live;
    fprintf(out, "APIS created=%ld ; ov=%ld leak=%d inv=%ld\n", g_created, g_overlap + s_jdup,
            leaks, g_invalid_frees);
    fflush(out);
}

int main(int argc, char **argv)
{
    if (argc > 1 && strcmp(argv[1], "--consts") == 0) {
        printf("SY=%zu\n", sizeof(ABTI_ythread));
        return 0;
    }
    FILE *f = argc > 1 ? fopen(argv[1], "r") : stdin;
    if (!f)
        VH_DIE("cannot open case file");
    char *line;
    while ((line = vh_getline(f))) {
        if (line[0] == 0 || line[0] == '#') {
            __real_free(line);
            continue;
        }
        if (strncmp(line, "API", 3) != 0)
            VH_DIE("bad line: %s", line);
        fflush(stdout);
        int pfd[2];
        if (pipe(pfd) != 0)
            VH_DIE("pipe");
        pid_t pid = fork();
        if (pid == 0) {
            close(pfd[0]);
            FILE *out = fdopen(pfd[1], "w");
            alarm(120);
            if (strncmp(line, "APIS", 4) == 0)
                child_stress(line + 4, out);
            else
                child_case(line + 3, out);
            fclose(out);
            _exit(0);
        }
        close(pfd[1]);
        char obuf[1 << 16];
        size_t n = 0;
        ssize_t r;
        while ((r = read(pfd[0], obuf + n, sizeof(obuf) - 1 - n)) > 0)
            n += (size_t)r;
        obuf[n] = 0;
        close(pfd[0]);
        int st = 0;
        waitpid(pid, &st, 0);
        if (WIFEXITED(st) && WEXITSTATUS(st) == 0 && n > 0 && obuf[n - 1] == '\n')
            fputs(obuf, stdout);
        else if (WIFSIGNALED(st))
            printf("API CRASH signal=%d\n", WTERMSIG(st));
        else
            printf("API CRASH exit=%d\n", WIFEXITED(st) ? WEXITSTATUS(st) : -1);
        fflush(stdout);
        __real_free(line);
    }
    return 0;
}
