/* Event log for history conformance (H1), perturbation (H2), virtual clock (H3).
 * Include after "abti.h".  One translation unit per harness. */
#ifndef VH_TRACE_H
#define VH_TRACE_H
#include "vh_common.h"
#include <pthread.h>
#include <sched.h>
#include <stdatomic.h>
#include <unistd.h>

#ifndef ABT_VERIF
#error "harness must be compiled with -DABT_VERIF"
#endif

/* harness-defined event kinds */
enum {
    VH_EV_OP_BEGIN = 1000, /* a = opcode, b = object index */
    VH_EV_OP_END = 1001,   /* a = opcode, b = object index, c = return code */
    VH_EV_NOTE = 1002      /* free-form: a, b, c */
};

typedef struct {
    uintptr_t actor;
    int kind;
    uintptr_t a, b, c;
    uint32_t rep, last; /* idle-loop compression: repetitions, position of the latest one */
} vh_event;

#define VH_MAX_EVENTS (1u << 21)
static vh_event *vh_events;
static volatile uint32_t vh_nevents;
static int vh_overflow;
static atomic_flag vh_tlock = ATOMIC_FLAG_INIT; /* guards thread registration only */
static atomic_flag vh_tl = ATOMIC_FLAG_INIT; /* the trace lock */
static atomic_int vh_waiters;
static int vh_perturb = 1; /* H2 on/off */
static int vh_target_kind = -1;     /* search mode: delay after every event of this kind */
static int vh_target_us = 200;
static __thread int vh_tl_delay_pending;
static int vh_target_pre_kind = -1; /* search mode: delay just before the NEXT hooked action of a thread whose latest
                                     * record was of this kind (holds open the unhooked code between the two) */
static __thread int vh_tl_pre_pending;
static uint64_t vh_seed = 1;
static __thread uint64_t vh_tl_rng;
static __thread int vh_tl_rng_init;

/* ---- filter: addresses of registered objects (lock words, wait lists, ...) ---- */
#define VH_MAX_OBJ 512
typedef struct {
    uintptr_t addr;
    char name[40];
} vh_obj;
static vh_obj vh_objs[VH_MAX_OBJ];
static int vh_nobjs;
static int vh_log_all; /* 1: do not filter */

static void vh_register_obj(const void *addr, const char *fmt, int i, const char *field)
{
    if (vh_nobjs >= VH_MAX_OBJ)
        VH_DIE("too many objects");
    vh_objs[vh_nobjs].addr = (uintptr_t)addr;
    snprintf(vh_objs[vh_nobjs].name, sizeof(vh_objs[0].name), fmt, i, field);
    vh_nobjs++;
}
static int vh_find_obj(uintptr_t a)
{
    int i;
    for (i = 0; i < vh_nobjs; i++)
        if (vh_objs[i].addr == a)
            return i;
    return -1;
}

/* ---- actors: logical thread identity = what ABTI_self_get_thread_id() uses ---- */
static inline uintptr_t vh_actor(void)
{
    ABTI_local *p_local = ABTI_local_get_local();
    ABTI_xstream *p_xs = ABTI_local_get_xstream_or_null(p_local);
    if (p_xs == NULL)
        return (uintptr_t)ABTI_local_get_local_ptr();
    return (uintptr_t)p_xs->p_thread;
}
#define VH_MAX_THR 256
typedef struct {
    uintptr_t actor;
    int index;
    char kind;
} vh_thr;
static vh_thr vh_thrs[VH_MAX_THR];
static volatile int vh_nthrs;
static void vh_trace_lock(void);
static void vh_trace_unlock(void);
/* called by every scenario thread when it starts */
static void vh_register_self(int index, char kind)
{
    while (atomic_flag_test_and_set_explicit(&vh_tlock, memory_order_acquire))
        ;
    int n = vh_nthrs;
    if (n >= VH_MAX_THR)
        VH_DIE("too many threads");
    vh_thrs[n].actor = vh_actor();
    vh_thrs[n].index = index;
    vh_thrs[n].kind = kind;
    vh_nthrs = n + 1;
    atomic_flag_clear_explicit(&vh_tlock, memory_order_release);
}
static int vh_actor_index(uintptr_t actor)
{
    int i;
    for (i = vh_nthrs - 1; i >= 0; i--) /* latest registration wins (addresses are recycled) */
        if (vh_thrs[i].actor == actor)
            return vh_thrs[i].index;
    return -1;
}

/* ---- hooks ---- */
static void vh_trace_lock(void)
{
    if (vh_tl_pre_pending) {
        vh_tl_pre_pending = 0;
        if (!vh_tl_rng_init) {
            vh_tl_rng = vh_seed * 0x9e3779b97f4a7c15ULL ^ (uint64_t)(uintptr_t)&vh_tl_rng;
            vh_tl_rng_init = 1;
        }
        uint64_t r0 = vh_rand(&vh_tl_rng);
        usleep((useconds_t)(1 + (r0 >> 8) % (unsigned)vh_target_us));
    }
    if (vh_perturb) {
        if (!vh_tl_rng_init) {
            vh_tl_rng = vh_seed * 0x9e3779b97f4a7c15ULL ^ (uint64_t)(uintptr_t)&vh_tl_rng;
            vh_tl_rng_init = 1;
        }
        uint64_t r = vh_rand(&vh_tl_rng);
        if ((r & 15) == 0)
            sched_yield();
        else if ((r & 31) == 1) {
            volatile int k, n = (int)((r >> 8) & 2047);
            for (k = 0; k < n; k++)
                ;
        }
    }
    if (atomic_flag_test_and_set_explicit(&vh_tl, memory_order_acquire)) {
        /* contended: announce ourselves so that the holder yields after releasing (a thread that logs in
         * a tight loop must not starve the others), spin briefly, then yield the processor */
        atomic_fetch_add_explicit(&vh_waiters, 1, memory_order_relaxed);
        int spins = 0;
        while (atomic_flag_test_and_set_explicit(&vh_tl, memory_order_acquire)) {
            if (++spins > 50) {
                sched_yield();
                spins = 0;
            }
        }
        atomic_fetch_sub_explicit(&vh_waiters, 1, memory_order_relaxed);
    }
}
static void vh_trace_unlock(void)
{
    atomic_flag_clear_explicit(&vh_tl, memory_order_release);
    if (atomic_load_explicit(&vh_waiters, memory_order_relaxed) > 0)
        sched_yield(); /* hand the lock over instead of re-taking it at once */
    if (vh_tl_delay_pending) {
        /* targeted perturbation (failing-input search): widen the window right
         * after the action at which model and implementation disagreed */
        vh_tl_delay_pending = 0;
        uint64_t r = vh_rand(&vh_tl_rng);
        if (r & 1)
            usleep((useconds_t)(1 + (r >> 8) % (unsigned)vh_target_us));
    }
}
/* idle-loop compression: a scheduler that spins on empty pools repeats the same few
 * lock-free reads (QEMPTY = 1, num_scheds, num_blocked, empty pops); a read that is
 * identical (kind, object, value) to one of the actor's last VH_IDLE_RING idle records,
 * with no record of ANY actor other than such reads stored in between (the recorded world has
 * not changed, so the read observes the same state as the stored one), is not stored again (its repeat count
 * and the global position of its latest repetition are kept in the stored record). */
#define VH_IDLE_RING 8
static __thread uint32_t vh_tl_idle[VH_IDLE_RING];
static __thread int vh_tl_nidle;
static uint32_t vh_world;               /* number of stored records that are not idle reads (reads change nothing) */
static __thread uint32_t vh_tl_world;   /* vh_world when this thread made its last idle read */
static int vh_is_idle_kind(int kind, uintptr_t b, uintptr_t c)
{
    return (kind == ABTI_VEV_Q_EMPTY && c == 1) || kind == ABTI_VEV_NSCHED_LOAD || kind == ABTI_VEV_NB_LOAD ||
           (kind == ABTI_VEV_Q_POP && b == 0) || kind == ABTI_VEV_SREQ_LOAD;
}
static void vh_trace_ev(int kind, uintptr_t a, uintptr_t b, uintptr_t c)
{
    /* called with the trace lock held */
    if (kind < ABTI_VEV_USER && vh_find_obj(a) < 0) {
        /* unregistered object: spinlock/wait-list/data records are dropped; scheduler-level
         * records (kinds >= 30) are kept when the harness asked for all of them */
        if (!(vh_log_all && kind >= ABTI_VEV_Q_PUSH))
            return;
    }
    uint32_t n = vh_nevents;
    if (n >= VH_MAX_EVENTS) {
        vh_overflow = 1;
        return;
    }
    if (vh_is_idle_kind(kind, b, c)) {
        int k;
        if (vh_tl_world != vh_world) {
            vh_tl_nidle = 0; /* somebody recorded an action since: read again on the record */
            vh_tl_world = vh_world;
        }
        for (k = 0; k < vh_tl_nidle; k++) {
            vh_event *o = &vh_events[vh_tl_idle[k]];
            if (o->kind == kind && o->a == a && o->b == b && o->c == c) {
                o->rep++;
                o->last = n;
                return;
            }
        }
        if (vh_tl_nidle < VH_IDLE_RING)
            vh_tl_idle[vh_tl_nidle++] = n;
        else {
            memmove(vh_tl_idle, vh_tl_idle + 1, sizeof(uint32_t) * (VH_IDLE_RING - 1));
            vh_tl_idle[VH_IDLE_RING - 1] = n;
        }
    } else {
        vh_tl_nidle = 0;
        vh_world++;
    }
    vh_events[n].rep = 0;
    vh_events[n].last = n;
    vh_events[n].actor = vh_actor();
    vh_events[n].kind = kind;
    vh_events[n].a = a;
    vh_events[n].b = b;
    vh_events[n].c = c;
    vh_nevents = n + 1;
    if (kind == vh_target_kind)
        vh_tl_delay_pending = 1;
    vh_tl_pre_pending = (kind == vh_target_pre_kind);
}
/* harness-side record (takes the trace lock itself) */
static void vh_note(int kind, uintptr_t a, uintptr_t b, uintptr_t c)
{
    vh_trace_lock();
    vh_trace_ev(kind, a, b, c);
    vh_trace_unlock();
}

/* ---- virtual clock ---- */
static volatile double vh_vclock = 1000.0;
static double vh_clock_fn(void)
{
    return vh_vclock;
}

static int vh_nohooks;
static void vh_trace_init(uint64_t seed, int perturb, int use_vclock)
{
    vh_events = (vh_event *)calloc(VH_MAX_EVENTS, sizeof(vh_event));
    if (!vh_events)
        VH_DIE("no memory for the event log");
    vh_seed = seed;
    vh_perturb = perturb;
    if (getenv("VH_TARGET_KIND"))
        vh_target_kind = atoi(getenv("VH_TARGET_KIND"));
    if (getenv("VH_TARGET_PRE_KIND"))
        vh_target_pre_kind = atoi(getenv("VH_TARGET_PRE_KIND"));
    if (getenv("VH_TARGET_US"))
        vh_target_us = atoi(getenv("VH_TARGET_US"));
    if (getenv("VH_NOHOOKS")) {
        /* the library runs exactly as it does in production (its own locks, no trace lock around the hooked
         * sections, which otherwise hides a missing lock); only the harness's own notes are recorded */
        vh_nohooks = 1;
        return;
    }
    ABTI_verif_hooks.lock = vh_trace_lock;
    ABTI_verif_hooks.unlock = vh_trace_unlock;
    if (use_vclock)
        ABTI_verif_hooks.clock = vh_clock_fn;
    __atomic_thread_fence(__ATOMIC_SEQ_CST);
    ABTI_verif_hooks.ev = vh_trace_ev; /* last: switches the hooks on */
}
static void vh_trace_stop(void)
{
    /* stop recording (the hooks stay installed: lock/unlock must stay balanced) */
    vh_trace_lock();
    vh_log_all = 0;
    vh_nobjs = 0;
    vh_trace_unlock();
}

static const char *vh_kind_name(int k)
{
    switch (k) {
        case ABTI_VEV_SPIN_ACQ: return "ACQ";
        case ABTI_VEV_SPIN_TRY: return "TRY";
        case ABTI_VEV_SPIN_REL: return "REL";
        case ABTI_VEV_WL_ENQ: return "ENQ";
        case ABTI_VEV_WL_SIGNAL: return "SIGNAL";
        case ABTI_VEV_WL_WAKE: return "WAKE";
        case ABTI_VEV_WL_BCAST: return "BCAST";
        case ABTI_VEV_WL_TIMEOUT: return "TIMEOUT";
        case ABTI_VEV_WL_RETURN: return "RETURN";
        case ABTI_VEV_DATA: return "DATA";
        case ABTI_VEV_LOAD: return "LOAD";
        case ABTI_VEV_CALLBACK: return "CALLBACK";
        case ABTI_VEV_Q_PUSH: return "QPUSH";
        case ABTI_VEV_Q_POP: return "QPOP";
        case ABTI_VEV_Q_REMOVE: return "QREMOVE";
        case ABTI_VEV_Q_EMPTY: return "QEMPTY";
        case ABTI_VEV_NB_ADD: return "NBADD";
        case ABTI_VEV_NB_LOAD: return "NBLOAD";
        case ABTI_VEV_NSCHED_LOAD: return "NSLOAD";
        case ABTI_VEV_REQ_OR: return "REQOR";
        case ABTI_VEV_REQ_AND: return "REQAND";
        case ABTI_VEV_REQ_LOAD: return "REQLOAD";
        case ABTI_VEV_STATE: return "STATE";
        case ABTI_VEV_STATE_LOAD: return "STLOAD";
        case ABTI_VEV_LINK_STORE: return "LINKST";
        case ABTI_VEV_LINK_LOAD: return "LINKLD";
        case ABTI_VEV_CB: return "CB";
        case ABTI_VEV_FUTEX_RESUME: return "FUTEXRES";
        case ABTI_VEV_SET_POOL: return "SETPOOL";
        case ABTI_VEV_MIG_STORE: return "MIGST";
        case ABTI_VEV_MIG_LOAD: return "MIGLD";
        case ABTI_VEV_MIG_CB: return "MIGCB";
        case ABTI_VEV_UNIT_INIT: return "UINIT";
        case ABTI_VEV_UNIT_REVIVE: return "UREVIVE";
        case ABTI_VEV_UNIT_FREE: return "UFREE";
        case ABTI_VEV_SREQ_OR: return "SREQOR";
        case ABTI_VEV_SREQ_LOAD: return "SREQLD";
        case ABTI_VEV_XSTATE: return "XSTATE";
        case ABTI_VEV_SCHED_STOP: return "SCHEDSTOP";
        case ABTI_VEV_RUN_TASK: return "RUNTASK";
        case ABTI_VEV_NB_WHO: return "NBWHO";
        case VH_EV_OP_BEGIN: return "BEGIN";
        case VH_EV_OP_END: return "END";
        case VH_EV_NOTE: return "NOTE";
        default: return NULL;
    }
}

/* Dump: one line per event, addresses resolved to names:
 *   <actor-index> <KIND> <a> <b> <c>
 * a: object name if registered else hex; b: for wait-list events the node is
 * resolved to the index of the thread that enqueued it ("n<idx>"). */
#define VH_MAX_NODES 4096
static void vh_dump(FILE *f, const char *status)
{
    static uintptr_t node_addr[VH_MAX_NODES];
    static int node_thr[VH_MAX_NODES];
    int nnodes = 0;
    uint32_t i, n = vh_nevents;
    fprintf(f, "STATUS %s events=%u overflow=%d%s\n", status, n, vh_overflow, vh_nohooks ? " nohooks=1" : "");
    int t;
    for (t = 0; t < vh_nthrs; t++)
        fprintf(f, "THR %d %c\n", vh_thrs[t].index, vh_thrs[t].kind);
    for (i = 0; i < n; i++) {
        vh_event *e = &vh_events[i];
        int ai = vh_actor_index(e->actor);
        const char *kn = vh_kind_name(e->kind);
        char kbuf[16];
        if (!kn) {
            snprintf(kbuf, sizeof kbuf, "K%d", e->kind);
            kn = kbuf;
        }
        if (vh_log_all)
            fprintf(f, "%d@%" PRIxPTR " %s", ai, e->actor, kn);
        else
            fprintf(f, "%d %s", ai, kn);
        if (e->kind >= ABTI_VEV_Q_PUSH && e->kind < ABTI_VEV_USER) {
            fprintf(f, " %" PRIxPTR " %" PRIxPTR " %" PRIxPTR "\n", e->a, e->b, e->c);
            continue;
        }
        if (e->kind < ABTI_VEV_USER) {
            int oi = vh_find_obj(e->a);
            if (oi >= 0)
                fprintf(f, " %s", vh_objs[oi].name);
            else
                fprintf(f, " 0x%" PRIxPTR, e->a);
            if (e->kind >= ABTI_VEV_WL_ENQ && e->kind <= ABTI_VEV_WL_RETURN) {
                /* node resolution */
                int k, who = -1;
                if (e->kind == ABTI_VEV_WL_ENQ) {
                    if (nnodes < VH_MAX_NODES) {
                        node_addr[nnodes] = e->b;
                        node_thr[nnodes] = ai;
                        nnodes++;
                    }
                    who = ai;
                } else if (e->b) {
                    for (k = nnodes - 1; k >= 0; k--)
                        if (node_addr[k] == e->b) {
                            who = node_thr[k];
                            break;
                        }
                }
                if (e->b == 0)
                    fprintf(f, " none");
                else
                    fprintf(f, " n%d", who);
                fprintf(f, " %" PRIuPTR, e->c);
            } else {
                /* c may be the address of a registered object (e.g. the mutex bound to a cond) */
                int ci = e->c ? vh_find_obj(e->c) : -1;
                if (ci >= 0)
                    fprintf(f, " %" PRIuPTR " %s", e->b, vh_objs[ci].name);
                else
                    fprintf(f, " %" PRIuPTR " %" PRIuPTR, e->b, e->c);
            }
        } else {
            fprintf(f, " %" PRIdPTR " %" PRIdPTR " %" PRIdPTR, (intptr_t)e->a, (intptr_t)e->b, (intptr_t)e->c);
        }
        fprintf(f, "\n");
    }
}
#endif
