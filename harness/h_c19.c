/* C19 harness: timed waits on one ABT_cond under the virtual clock, and blocking
 * pool pops (pop_wait / pop_timedwait) against pushers.  Same case file and
 * same canonical output as ocaml/drv_c19.ml.
 *
 *   WL <w0> <w1> ... ; <action> , <action> ...
 *        waiter spec: <k><m>   k = e (external pthread) | 1|2|3 (ULT on that
 *                              extra execution stream), m = t (timed) | u (untimed)
 *        action: E <k> <d>  start waiter k (ABT_cond_timedwait with absolute
 *                           deadline d ticks / ABT_cond_wait); a returned
 *                           waiter may be started again
 *                S          ABT_cond_signal
 *                B          ABT_cond_broadcast
 *                T <t>      advance the virtual clock to t ticks (never back)
 *                X <t>      while holding the cond's spinlock: advance the clock to
 *                           t, let the pollers read it and queue up on the lock,
 *                           then do what ABT_cond_signal does and unlock — the
 *                           head is signalled between its clock read and its
 *                           locked test (the `timeout:` path with state READY)
 *      1 tick = 0.25 s; virtual time = 1000.0 s + ticks / 4.
 *      output:  WL <obs> <obs> ... | <dump> ; <dump> ...   (one per action)
 *        obs  = one character per waiter: - not started, w inside the wait,
 *               0 returned ABT_SUCCESS, T returned ABT_ERR_COND_TIMEDOUT, ? other
 *        dump = q=<ids from p_head> pv=<id:prev,...> tl=<id|N>   (locked walk;
 *               pv lists timed non-head nodes only)
 *
 *   PW <F|W|R> <w|t> <secs> <tail> ; <step> , <step> ...
 *        pool FIFO / FIFO_WAIT / RANDWS; w = pop_wait(secs), t = pop_timedwait(secs)
 *        (F, R: ticks on the virtual clock, absolute for t; W: real milliseconds)
 *        tail = 1: ABT_POOL_CONTEXT_OWNER_SECONDARY (randws pops the tail)
 *        step: i <n> (n units in the pool before the call; first step only),
 *              p (push next unit), o (another consumer pops), a <t> (clock to t)
 *      output:  PW r=<id|N|wait> pool=[..] others=[..]
 *
 *   BW <F|W> ; <step> , ...      an execution stream with the ABT_SCHED_BASIC_WAIT
 *        scheduler (src/sched/basic_wait.c, which blocks in pop_wait(0.1 s)) on a
 *        FIFO / FIFO_WAIT pool; step: p (create a ULT in the pool), a <t> (clock)
 *      output:  BW ran=[ids in the order they ran] joined
 *
 *   RC <rounds> <k> <nspin> <nblock>     concurrency monitor (not replayed on the Coq
 *        model): a signal racing the waiter's "release the mutex and become a
 *        waiter" step.  Frozen virtual clock, deadline 10^6 s in the virtual future,
 *        so a wait can end only by a signal.  Per round:
 *          waiter (k = e external pthread | 1|2|3 ULT on that execution stream):
 *              lock(m); flag = 0; armed = r; rc = ABT_cond_timedwait(c, m, deadline);
 *              unlock(m)
 *          nspin signaller pthreads spin on ABT_mutex_trylock(m); the one that finds
 *              armed == r (only possible after the waiter gave m up inside
 *              ABT_cond_timedwait) does armed = 0; flag = 1; ABT_cond_signal(c);
 *              unlock(m): exactly one signal per round, sent while the waiter is
 *              committed to the wait and (virtual) ages before its deadline
 *          nblock pthreads do ABT_mutex_lock(m); ABT_mutex_unlock(m) (they sleep on
 *              the mutex, so the waiter's unlock has wake-up work to do)
 *        The driver thread waits for the round to complete.  Only if the signal has
 *        been issued and the waiter is nevertheless seen queued on the cond (locked
 *        walk, for >= 2 ms), or has not returned within the stuck bound, it advances
 *        the virtual clock past the deadline to get the waiter back.  Verdict by
 *        the waiter's return code alone: ABT_ERR_COND_TIMEDOUT in a round whose
 *        ABT_cond_signal had returned before the clock moved = lost.  A round in
 *        which no signaller obtained the mutex within 60 s (starved machine) is not
 *        judged and is run again.
 *      output:  RC rounds=<judged> ok=<SUCCESS> lost=<n> other=<n>
 */
#include "abti.h"
#include "vh_common.h"
#include <pthread.h>
#include <signal.h>
#include <time.h>
#include <unistd.h>
#include <sched.h>
#include <sys/syscall.h>

#define MAXW 12
#define NES 3

/* ------------------------------------------------------------ virtual clock */
static union {
    double d;
    uint64_t u;
} g_clock_store;
static long g_clock_calls;

static double my_clock(void)
{
    union {
        double d;
        uint64_t u;
    } v;
    v.u = __atomic_load_n(&g_clock_store.u, __ATOMIC_ACQUIRE);
    __atomic_add_fetch(&g_clock_calls, 1, __ATOMIC_ACQ_REL);
    return v.d;
}

static void set_clock_ticks(long t)
{
    union {
        double d;
        uint64_t u;
    } v;
    v.d = 1000.0 + 0.25 * (double)t;
    __atomic_store_n(&g_clock_store.u, v.u, __ATOMIC_RELEASE);
}

static double real_now(void)
{
    struct timespec ts;
    clock_gettime(CLOCK_MONOTONIC, &ts);
    return ts.tv_sec + 1e-9 * ts.tv_nsec;
}

static void nap_us(int us)
{
    struct timespec ts = { 0, us * 1000L };
    nanosleep(&ts, NULL);
}

static int g_stuck_seen = 0; /* after the first stuck wait, later bounds shrink */
static char g_stuck_marker[4096];
static double bound_secs(void)
{
    return g_stuck_seen ? 0.25 : 20.0;
}
static void note_stuck(void)
{
    if (!g_stuck_seen && g_stuck_marker[0]) {
        /* remembered across restarts of the harness within one check run (the
         * marker lives next to the case file in the scratch directory) */
        FILE *m = fopen(g_stuck_marker, "w");
        if (m)
            fclose(m);
    }
    g_stuck_seen = 1;
}

/* ------------------------------------------------------------ WL: cond waiters */
static ABT_xstream g_es[NES];
static ABT_pool g_espool[NES];
static ABT_cond g_cond;
static ABT_mutex g_mutex;
static volatile int g_case_over;
static long g_now_ticks;

typedef struct {
    int id, kind, timed;
    volatile int status; /* 0 not started, 1 inside the wait, 2 SUCCESS, 3 TIMEDOUT, 4 other */
    long deadline;
    void *node; /* address of its list node, learned from the list */
    /* every incarnation is kept alive until the end of the case */
    int nth, npt;
    ABT_thread th[48];
    pthread_t pt[48];
} waiter_t;
static waiter_t g_w[MAXW];
static int g_nw;

/* kernel thread ids of the extra execution streams (diagnostics only) */
static int g_es_tid[NES];
static void record_tid(void *arg)
{
    *(int *)arg = (int)syscall(SYS_gettid);
}

static long task_runtime_ns(int tid)
{
    char path[64];
    long run = -1, wait = 0;
    sprintf(path, "/proc/self/task/%d/schedstat", tid);
    FILE *f = fopen(path, "r");
    if (f) {
        if (fscanf(f, "%ld %ld", &run, &wait) < 1)
            run = -1;
        fclose(f);
    }
    return run;
}

/* why did an execution stream not run a waiter?  distinguishes an execution
 * stream that got no CPU from the OS from one that is running but not popping */
static void diag_streams(void)
{
    int i;
    long r0[NES], r1[NES];
    for (i = 0; i < NES; i++)
        r0[i] = task_runtime_ns(g_es_tid[i]);
    struct timespec ts = { 0, 200 * 1000 * 1000L };
    nanosleep(&ts, NULL);
    for (i = 0; i < NES; i++)
        r1[i] = task_runtime_ns(g_es_tid[i]);
    for (i = 0; i < NES; i++) {
        ABTI_xstream *x = ABTI_xstream_get_ptr(g_es[i]);
        ABTI_pool *p = ABTI_pool_get_ptr(g_espool[i]);
        size_t sz = 0;
        ABT_pool_get_size(g_espool[i], &sz);
        fprintf(stderr,
                "c19 harness:   ES%d tid=%d cpu-time in 200ms: %ld us; xstream state=%d, main sched "
                "pool[0] %s g_espool, pool size=%zu num_blocked=%d\n",
                i + 1, g_es_tid[i], (r1[i] - r0[i]) / 1000,
                (int)ABTD_atomic_acquire_load_int(&x->state),
                (x->p_main_sched && x->p_main_sched->pools[0] == g_espool[i]) ? "==" : "!=", sz,
                (int)ABTD_atomic_acquire_load_int32(&p->num_blocked));
    }
}

static void waiter_body(void *arg)
{
    waiter_t *w = (waiter_t *)arg;
    int rc;
    ABT_mutex_lock(g_mutex);
    if (w->timed) {
        struct timespec ts;
        ts.tv_sec = 1000 + w->deadline / 4;
        ts.tv_nsec = (w->deadline % 4) * 250000000L;
        rc = ABT_cond_timedwait(g_cond, g_mutex, &ts);
    } else {
        rc = ABT_cond_wait(g_cond, g_mutex);
    }
    ABT_mutex_unlock(g_mutex);
    __atomic_store_n(&w->status,
                     rc == ABT_SUCCESS ? 2 : (rc == ABT_ERR_COND_TIMEDOUT ? 3 : 4),
                     __ATOMIC_RELEASE);
}

static void *waiter_pthread(void *arg)
{
    waiter_body(arg);
    /* keep the stack (which held the list node) mapped until the case ends */
    while (!g_case_over)
        nap_us(200);
    return NULL;
}

static int id_of_node(void *p)
{
    int k;
    for (k = 0; k < g_nw; k++)
        if (g_w[k].node == p && p)
            return k;
    return -1;
}

/* locked white-box walk.  ids[] receives the waiter ids in list order (-1 =
 * unknown node); if learn >= 0 an unknown node is attributed to that waiter. */
static int locked_walk(int *ids, char *out, int learn)
{
    ABTI_cond *p_cond = ABTI_cond_get_ptr(g_cond);
    ABTI_waitlist *wl = &p_cond->waitlist;
    int n = 0;
    char *o = out;
    ABTD_spinlock_acquire(&p_cond->lock);
    ABTI_thread *p = wl->p_head;
    void *nodes[40];
    while (p && n < 40) {
        int k = id_of_node(p);
        if (k < 0 && learn >= 0 && g_w[learn].node == NULL) {
            g_w[learn].node = p;
            k = learn;
        }
        nodes[n] = p;
        ids[n++] = k;
        p = p->p_next;
    }
    if (out) {
        int i;
        o += sprintf(o, "q=");
        for (i = 0; i < n; i++) {
            if (ids[i] >= 0)
                o += sprintf(o, "%s%d", i ? "," : "", ids[i]);
            else
                o += sprintf(o, "%s?", i ? "," : "");
        }
        if (n >= 40)
            o += sprintf(o, ",LOOP");
        o += sprintf(o, " pv=");
        int first = 1;
        for (i = 1; i < n && i < 40; i++) {
            if (ids[i] >= 0 && g_w[ids[i]].timed) {
                ABTI_thread *pv = ((ABTI_thread *)nodes[i])->p_prev;
                int pk = id_of_node(pv);
                o += sprintf(o, "%s%d:", first ? "" : ",", ids[i]);
                if (!pv)
                    o += sprintf(o, "N");
                else if (pk >= 0)
                    o += sprintf(o, "%d", pk);
                else
                    o += sprintf(o, "?");
                first = 0;
            }
        }
        o += sprintf(o, " tl=");
        if (!wl->p_tail)
            o += sprintf(o, "N");
        else {
            int tk = id_of_node(wl->p_tail);
            if (tk >= 0)
                o += sprintf(o, "%d", tk);
            else
                o += sprintf(o, "?");
        }
    }
    ABTD_spinlock_release(&p_cond->lock);
    return n;
}

static int in_list(int k)
{
    int ids[40], n = locked_walk(ids, NULL, -1), i;
    for (i = 0; i < n; i++)
        if (ids[i] == k)
            return 1;
    return 0;
}

static void diag_stuck(int k, const char *why)
{
    waiter_t *w = &g_w[k];
    ABT_thread_state st = -1;
    ABT_bool mlocked = ABT_FALSE;
    if (w->kind && w->nth)
        ABT_thread_get_state(w->th[w->nth - 1], &st);
    mlocked = ABTI_mutex_is_locked(ABTI_mutex_get_ptr(g_mutex));
    fprintf(stderr,
            "c19 harness: waiter %d (%s, %s, deadline %ld, now %ld) %s: in_list=%d ult_state=%d "
            "mutex_locked=%d bound=%.2f\n",
            k, w->kind ? "ULT" : "pthread", w->timed ? "timed" : "untimed", w->deadline,
            g_now_ticks, why, in_list(k), (int)st, (int)mlocked, bound_secs());
    if (!g_stuck_seen)
        diag_streams();
}

/* wait until waiter k has returned; 0 if it did not within the bound */
static int wait_returned(int k)
{
    double t0 = real_now();
    while (__atomic_load_n(&g_w[k].status, __ATOMIC_ACQUIRE) < 2) {
        if (real_now() - t0 > bound_secs()) {
            diag_stuck(k, "did not return in time");
            note_stuck();
            return 0;
        }
        nap_us(30);
    }
    return 1;
}

static void start_waiter(int k, long d)
{
    waiter_t *w = &g_w[k];
    w->deadline = d;
    w->node = NULL;
    __atomic_store_n(&w->status, 1, __ATOMIC_RELEASE);
    if (w->kind == 0) {
        if (w->npt >= 48)
            VH_DIE("too many restarts");
        if (pthread_create(&w->pt[w->npt++], NULL, waiter_pthread, w))
            VH_DIE("pthread_create");
    } else {
        if (w->nth >= 48)
            VH_DIE("too many restarts");
        if (ABT_thread_create(g_espool[w->kind - 1], waiter_body, w, ABT_THREAD_ATTR_NULL,
                              &w->th[w->nth++]) != ABT_SUCCESS)
            VH_DIE("ABT_thread_create");
    }
    /* serialize: queued (node learned from the list) or already returned */
    double t0 = real_now();
    while (1) {
        int ids[40];
        locked_walk(ids, NULL, k);
        if (w->node || __atomic_load_n(&w->status, __ATOMIC_ACQUIRE) >= 2)
            break;
        if (real_now() - t0 > bound_secs()) {
            note_stuck();
            break;
        }
        nap_us(20);
    }
}

static void do_wl(char *line)
{
    char *save1, *save2;
    char *hd = strtok_r(line, ";", &save1);
    char *acts = strtok_r(NULL, ";", &save1);
    static char obs[8192], dumps[16384];
    char *po = obs, *pd = dumps;
    int k, nact = 0;
    g_nw = 0;
    memset(g_w, 0, sizeof(g_w));
    char *tok = strtok_r(hd, " ", &save2); /* "WL" */
    while ((tok = strtok_r(NULL, " ", &save2)) != NULL) {
        if (g_nw >= MAXW)
            VH_DIE("too many waiters");
        waiter_t *w = &g_w[g_nw];
        w->id = g_nw;
        w->kind = tok[0] == 'e' ? 0 : tok[0] - '0';
        if (w->kind < 0 || w->kind > NES)
            VH_DIE("bad waiter kind");
        w->timed = tok[1] == 't';
        g_nw++;
    }
    g_now_ticks = 0;
    set_clock_ticks(0);
    g_case_over = 0;
    if (ABT_cond_create(&g_cond) != ABT_SUCCESS || ABT_mutex_create(&g_mutex) != ABT_SUCCESS)
        VH_DIE("create");
    obs[0] = dumps[0] = 0;
    char *a = acts ? strtok_r(acts, ",", &save2) : NULL;
    for (; a; a = strtok_r(NULL, ",", &save2)) {
        char op = 0;
        long x = 0, y = 0;
        int nf = sscanf(a, " %c %ld %ld", &op, &x, &y);
        if (nf < 1)
            continue;
        if (op == 'E') {
            if (x < 0 || x >= g_nw)
                VH_DIE("bad E");
            if (g_w[x].status == 1) {
                /* the case file never restarts a waiter that is still waiting
                 * according to the model: the implementation is behind */
                diag_stuck((int)x, "is still inside its previous wait at its next E");
                if (!wait_returned((int)x)) {
                    printf("WL %s STUCK%ld | %s\n", obs, x, dumps);
                    fflush(stdout);
                    _exit(4);
                }
            }
            start_waiter((int)x, y);
            if (g_w[x].timed && y <= g_now_ticks)
                wait_returned((int)x);
        } else if (op == 'S') {
            int ids[40], n = locked_walk(ids, NULL, -1);
            ABT_cond_signal(g_cond);
            if (n > 0 && ids[0] >= 0)
                wait_returned(ids[0]);
        } else if (op == 'B') {
            int ids[40], n = locked_walk(ids, NULL, -1), i;
            ABT_cond_broadcast(g_cond);
            for (i = 0; i < n; i++)
                if (ids[i] >= 0)
                    wait_returned(ids[i]);
        } else if (op == 'T') {
            /* who is queued is sampled BEFORE the clock moves: afterwards a
             * fast waiter has already unlinked itself but not yet returned */
            int ids[40], n = locked_walk(ids, NULL, -1), i;
            if (x > g_now_ticks)
                g_now_ticks = x;
            set_clock_ticks(g_now_ticks);
            for (i = 0; i < n; i++)
                if (ids[i] >= 0 && g_w[ids[i]].timed && g_w[ids[i]].deadline <= g_now_ticks)
                    wait_returned(ids[i]);
        } else if (op == 'X') {
            ABTI_cond *p_cond = ABTI_cond_get_ptr(g_cond);
            int ids[40], n = locked_walk(ids, NULL, -1);
            ABTD_spinlock_acquire(&p_cond->lock);
            if (x > g_now_ticks)
                g_now_ticks = x;
            set_clock_ticks(g_now_ticks);
            nap_us(2500);
            ABTI_waitlist_signal(ABTI_local_get_local(), &p_cond->waitlist);
            ABTD_spinlock_release(&p_cond->lock);
            int i;
            if (n > 0 && ids[0] >= 0)
                wait_returned(ids[0]);
            for (i = 1; i < n; i++)
                if (ids[i] >= 0 && g_w[ids[i]].timed && g_w[ids[i]].deadline <= g_now_ticks)
                    wait_returned(ids[i]);
        } else {
            VH_DIE("bad action '%s'", a);
        }
        /* grace period: anything that moves although it should not shows up */
        nap_us(1200);
        if (nact++) {
            *po++ = ' ';
            pd += sprintf(pd, " ; ");
        }
        for (k = 0; k < g_nw; k++)
            *po++ = "-w0T?"[__atomic_load_n(&g_w[k].status, __ATOMIC_ACQUIRE)];
        *po = 0;
        int ids[40];
        locked_walk(ids, pd, -1);
        pd += strlen(pd);
    }
    /* drain: let every waiter that is still inside a wait return */
    int pending = 0;
    double t0 = real_now();
    set_clock_ticks(1L << 40);
    do {
        pending = 0;
        ABT_cond_broadcast(g_cond);
        for (k = 0; k < g_nw; k++)
            if (g_w[k].status == 1)
                pending++;
        if (pending)
            nap_us(200);
    } while (pending && real_now() - t0 < (g_stuck_seen ? 0.6 : 20.0));
    printf("WL %s | %s\n", obs, dumps);
    fflush(stdout);
    if (pending) {
        fprintf(stderr, "c19 harness: %d waiter(s) never returned; giving up on this process\n", pending);
        _exit(4);
    }
    g_case_over = 1;
    for (k = 0; k < g_nw; k++) {
        int i;
        for (i = 0; i < g_w[k].npt; i++)
            pthread_join(g_w[k].pt[i], NULL);
        for (i = 0; i < g_w[k].nth; i++)
            ABT_thread_free(&g_w[k].th[i]);
    }
    ABT_cond_free(&g_cond);
    ABT_mutex_free(&g_mutex);
}

/* ------------------------------------------------------------ PW: blocking pops */
#define MAXU 16
static ABT_pool g_P;
static ABT_thread g_units[MAXU];
static int g_nunits;
static struct {
    int op, tail, poolkind;
    double secs;
    volatile int done;
    volatile int tid; /* kernel thread id of the popper, set when it starts */
    ABT_thread got_thread;
    ABT_unit got_unit;
} g_pw;

static void unit_fn(void *arg)
{
    (void)arg;
}

static void *popper_pthread(void *arg)
{
    (void)arg;
    __atomic_store_n(&g_pw.tid, (int)syscall(SYS_gettid), __ATOMIC_RELEASE);
    if (g_pw.op == 'w') {
        ABT_thread th = ABT_THREAD_NULL;
        ABT_pool_pop_wait_thread_ex(g_P, &th, g_pw.secs,
                                    g_pw.tail ? ABT_POOL_CONTEXT_OWNER_SECONDARY
                                              : ABT_POOL_CONTEXT_OP_POOL_OTHER);
        g_pw.got_thread = th;
    } else {
        ABT_unit u = ABT_UNIT_NULL;
        ABT_pool_pop_timedwait(g_P, &u, g_pw.secs);
        g_pw.got_thread = ABT_THREAD_NULL;
        if (u != ABT_UNIT_NULL)
            ABT_unit_get_thread(u, &g_pw.got_thread);
    }
    __atomic_store_n(&g_pw.done, 1, __ATOMIC_RELEASE);
    return NULL;
}

static int unit_id(ABT_thread th)
{
    int i;
    for (i = 0; i < g_nunits; i++)
        if (g_units[i] == th)
            return i;
    return -1;
}

/* 1 if the kernel thread is sleeping (blocked in a futex), from /proc */
static int thread_sleeping(int tid)
{
    char path[64], buf[512];
    sprintf(path, "/proc/self/task/%d/stat", tid);
    FILE *f = fopen(path, "r");
    if (!f)
        return 0;
    size_t n = fread(buf, 1, sizeof(buf) - 1, f);
    fclose(f);
    buf[n] = 0;
    char *p = strrchr(buf, ')');
    return p && p[1] == ' ' && p[2] == 'S';
}

/* let the popper run at least one full iteration that sees the current state */
static void pw_settle(void)
{
    double t0 = real_now();
    if (g_pw.poolkind == 'W') {
        /* fifo_wait.c has no clock calls to count: wait until the popper has
         * returned or is blocked inside pthread_cond_timedwait */
        while (!__atomic_load_n(&g_pw.done, __ATOMIC_ACQUIRE)) {
            int tid = __atomic_load_n(&g_pw.tid, __ATOMIC_ACQUIRE);
            if (tid && thread_sleeping(tid)) {
                nap_us(300);
                if (thread_sleeping(tid))
                    break;
            }
            if (real_now() - t0 > bound_secs())
                break;
            nap_us(50);
        }
        return;
    }
    long c0 = __atomic_load_n(&g_clock_calls, __ATOMIC_ACQUIRE);
    while (!__atomic_load_n(&g_pw.done, __ATOMIC_ACQUIRE) &&
           __atomic_load_n(&g_clock_calls, __ATOMIC_ACQUIRE) < c0 + 3) {
        if (real_now() - t0 > bound_secs()) {
            note_stuck();
            break;
        }
        nap_us(20);
    }
}

static void do_pw(char *line)
{
    char *save1, *save2;
    char *hd = strtok_r(line, ";", &save1);
    char *script = strtok_r(NULL, ";", &save1);
    char pk, op;
    long secs;
    int tail, i;
    if (sscanf(hd, "PW %c %c %ld %d", &pk, &op, &secs, &tail) != 4)
        VH_DIE("bad PW header");
    ABT_pool_kind kind = pk == 'F' ? ABT_POOL_FIFO : (pk == 'W' ? ABT_POOL_FIFO_WAIT : ABT_POOL_RANDWS);
    ABT_pool stage;
    if (ABT_pool_create_basic(kind, ABT_POOL_ACCESS_MPMC, ABT_FALSE, &g_P) != ABT_SUCCESS ||
        ABT_pool_create_basic(ABT_POOL_FIFO, ABT_POOL_ACCESS_MPMC, ABT_FALSE, &stage) != ABT_SUCCESS)
        VH_DIE("pool create");
    /* units: unstarted ULTs, taken out of a staging pool */
    g_nunits = MAXU;
    for (i = 0; i < g_nunits; i++) {
        ABT_thread t2;
        if (ABT_thread_create(stage, unit_fn, NULL, ABT_THREAD_ATTR_NULL, &g_units[i]) != ABT_SUCCESS)
            VH_DIE("unit create");
        if (ABT_pool_pop_thread(stage, &t2) != ABT_SUCCESS || t2 != g_units[i])
            VH_DIE("stage pop");
    }
    int next_unit = 0, nothers = 0, others[MAXU];
    set_clock_ticks(0);
    g_now_ticks = 0;
    memset(&g_pw, 0, sizeof(g_pw));
    g_pw.op = op;
    g_pw.tail = tail;
    g_pw.poolkind = pk;
    int started = 0;
    pthread_t pt;
    char *a = script ? strtok_r(script, ",", &save2) : NULL;
    while (1) {
        char sop = 0;
        long x = 0;
        int have = a && sscanf(a, " %c %ld", &sop, &x) >= 1;
        if (!started && !(have && sop == 'i')) {
            /* start the blocking pop now */
            if (pk == 'W') {
                if (op == 'w')
                    g_pw.secs = secs / 1000.0;
                else {
                    struct timespec ts;
                    clock_gettime(CLOCK_REALTIME, &ts);
                    g_pw.secs = ts.tv_sec + 1e-9 * ts.tv_nsec + secs / 1000.0;
                }
            } else {
                g_pw.secs = op == 'w' ? 0.25 * secs : 1000.0 + 0.25 * secs;
            }
            if (pthread_create(&pt, NULL, popper_pthread, NULL))
                VH_DIE("pthread_create");
            started = 1;
            pw_settle();
        }
        if (!a)
            break;
        if (have) {
            if (sop == 'i') {
                for (i = 0; i < x && next_unit < MAXU; i++)
                    ABT_pool_push_thread(g_P, g_units[next_unit++]);
            } else if (sop == 'p') {
                if (next_unit < MAXU)
                    ABT_pool_push_thread(g_P, g_units[next_unit++]);
                pw_settle();
            } else if (sop == 'o') {
                ABT_thread th = ABT_THREAD_NULL;
                ABT_pool_pop_thread(g_P, &th);
                if (th != ABT_THREAD_NULL)
                    others[nothers++] = unit_id(th);
                pw_settle();
            } else if (sop == 'a') {
                if (x > g_now_ticks)
                    g_now_ticks = x;
                set_clock_ticks(g_now_ticks);
                pw_settle();
            } else {
                VH_DIE("bad PW step '%s'", a);
            }
        }
        a = strtok_r(NULL, ",", &save2);
    }
    char res[32];
    if (pk == 'W') {
        /* real-time wait: it must return by itself */
        double t0 = real_now();
        while (!g_pw.done && real_now() - t0 < 8.0)
            nap_us(100);
    }
    int was_done = g_pw.done;
    if (!was_done) {
        /* still blocked (legal when the deadline has not passed): flush it */
        set_clock_ticks(1L << 40);
        double t0 = real_now();
        while (!g_pw.done && real_now() - t0 < 8.0)
            nap_us(100);
        if (!g_pw.done) {
            fprintf(stderr, "c19 harness: blocking pop never returned\n");
            _exit(4);
        }
        /* a flushed popper may have taken a unit only if the pool was not
         * empty, which a quiescent waiting popper excludes; report what it took */
        if (g_pw.got_thread != ABT_THREAD_NULL)
            sprintf(res, "wait+%d", unit_id(g_pw.got_thread));
        else
            sprintf(res, "wait");
    } else if (g_pw.got_thread == ABT_THREAD_NULL) {
        sprintf(res, "N");
    } else {
        sprintf(res, "%d", unit_id(g_pw.got_thread));
    }
    pthread_join(pt, NULL);
    printf("PW r=%s pool=[", res);
    int first = 1;
    while (1) {
        ABT_thread th = ABT_THREAD_NULL;
        ABT_pool_pop_thread(g_P, &th);
        if (th == ABT_THREAD_NULL)
            break;
        printf("%s%d", first ? "" : ",", unit_id(th));
        first = 0;
    }
    printf("] others=[");
    for (i = 0; i < nothers; i++)
        printf("%s%d", i ? "," : "", others[i]);
    printf("]\n");
    fflush(stdout);
    /* run and free all units on the primary execution stream */
    ABT_xstream self;
    ABT_pool mainpool;
    ABT_self_get_xstream(&self);
    ABT_xstream_get_main_pools(self, 1, &mainpool);
    for (i = 0; i < g_nunits; i++)
        ABT_pool_push_thread(mainpool, g_units[i]);
    for (i = 0; i < g_nunits; i++)
        ABT_thread_free(&g_units[i]);
    ABT_pool_free(&g_P);
    ABT_pool_free(&stage);
}


/* ------------------------------------------------------------ BW: basic_wait scheduler */
static int g_bw_log[64];
static volatile int g_bw_n;

static void bw_fn(void *arg)
{
    int n = __atomic_load_n(&g_bw_n, __ATOMIC_ACQUIRE);
    g_bw_log[n] = (int)(intptr_t)arg;
    __atomic_store_n(&g_bw_n, n + 1, __ATOMIC_RELEASE);
}

/* While the main thread is blocked in ABT_xstream_join the virtual clock must
 * keep moving: each pop_wait(0.1) of the scheduler reads its own time_start, so
 * one big jump that happens before that read would never make it overdue. */
static volatile int g_bw_ticking;
static void *bw_ticker(void *arg)
{
    long t = g_now_ticks;
    (void)arg;
    while (g_bw_ticking) {
        set_clock_ticks(++t);
        nap_us(100);
    }
    return NULL;
}

static void do_bw(char *line)
{
    char *save1, *save2;
    char *hd = strtok_r(line, ";", &save1);
    char *script = strtok_r(NULL, ";", &save1);
    char pk;
    if (sscanf(hd, "BW %c", &pk) != 1)
        VH_DIE("bad BW header");
    ABT_pool pool;
    ABT_xstream es;
    ABT_thread ths[64];
    int nth = 0, i;
    set_clock_ticks(0);
    g_now_ticks = 0;
    g_bw_n = 0;
    if (ABT_pool_create_basic(pk == 'W' ? ABT_POOL_FIFO_WAIT : ABT_POOL_FIFO, ABT_POOL_ACCESS_MPMC,
                              ABT_TRUE, &pool) != ABT_SUCCESS)
        VH_DIE("pool create");
    if (ABT_xstream_create_basic(ABT_SCHED_BASIC_WAIT, 1, &pool, ABT_SCHED_CONFIG_NULL, &es) !=
        ABT_SUCCESS)
        VH_DIE("xstream create");
    nap_us(1000);
    char *a = script ? strtok_r(script, ",", &save2) : NULL;
    for (; a; a = strtok_r(NULL, ",", &save2)) {
        char sop = 0;
        long x = 0;
        if (sscanf(a, " %c %ld", &sop, &x) < 1)
            continue;
        if (sop == 'p' && nth < 64) {
            ABT_thread_create(pool, bw_fn, (void *)(intptr_t)nth, ABT_THREAD_ATTR_NULL, &ths[nth]);
            nth++;
            double t0 = real_now();
            while (__atomic_load_n(&g_bw_n, __ATOMIC_ACQUIRE) < nth && real_now() - t0 < bound_secs())
                nap_us(30);
        } else if (sop == 'a') {
            if (x > g_now_ticks)
                g_now_ticks = x;
            set_clock_ticks(g_now_ticks);
            nap_us(500);
        }
    }
    printf("BW ran=[");
    int n = g_bw_n;
    for (i = 0; i < n; i++)
        printf("%s%d", i ? "," : "", g_bw_log[i]);
    printf("]");
    fflush(stdout);
    /* the scheduler sits in pop_wait(0.1): it must come back (virtual clock
     * advanced / real 0.1 s) to see the join request */
    for (i = 0; i < nth; i++)
        if (i < n)
            ABT_thread_free(&ths[i]);
    pthread_t ticker;
    g_bw_ticking = 1;
    if (pthread_create(&ticker, NULL, bw_ticker, NULL))
        VH_DIE("pthread_create");
    ABT_xstream_join(es);
    g_bw_ticking = 0;
    pthread_join(ticker, NULL);
    ABT_xstream_free(&es);
    printf(" joined\n");
    fflush(stdout);
}

/* ------------------------------------------------------------ RC: signal vs. mutex release */
#define RC_MAXH 4
#define RC_FAR 4000000L /* ticks = 10^6 virtual seconds */
static struct {
    int kind, nspin, nblock;
    volatile int stop;
    volatile int round;   /* published by the driver: rounds <= round may run */
    volatile int started; /* waiter: holds the mutex of this round, helpers may contend */
    volatile int armed;   /* protected by g_mutex: round whose waiter is committed and not yet signalled */
    volatile int flag;    /* protected by g_mutex: the predicate */
    volatile int sig_done;       /* round whose ABT_cond_signal has returned */
    volatile uint64_t sig_clock; /* virtual clock (raw double bits) read after that return */
    volatile long deadline;      /* ticks, of the current round */
    volatile int rc, flag_seen;  /* of the round `done` */
    volatile int done;           /* last round the waiter has completed */
    volatile int sdone[RC_MAXH], bdone[RC_MAXH];
} g_rc;

#define RC_LD(x) __atomic_load_n(&(x), __ATOMIC_ACQUIRE)
#define RC_ST(x, v) __atomic_store_n(&(x), (v), __ATOMIC_RELEASE)

static void rc_spin_real(double secs)
{
    double t0 = real_now();
    while (real_now() - t0 < secs)
        ;
}

/* wait (hot, then politely) until *p >= r; 0 when the case is being stopped */
static int rc_await(volatile int *p, int r, int is_ult)
{
    long spins = 0;
    while (__atomic_load_n(p, __ATOMIC_ACQUIRE) < r) {
        if (RC_LD(g_rc.stop))
            return 0;
        if (is_ult)
            ABT_thread_yield();
        else if (++spins > 20000)
            sched_yield();
    }
    return 1;
}

static void rc_waiter_body(void *arg)
{
    int r = 0;
    (void)arg;
    for (;;) {
        r++;
        if (!rc_await(&g_rc.round, r, g_rc.kind != 0))
            return;
        ABT_mutex_lock(g_mutex);
        g_rc.flag = 0;
        g_rc.armed = r;
        RC_ST(g_rc.started, r);
        /* let the blockers fall asleep on the mutex and the spinners start spinning */
        rc_spin_real(30e-6);
        long d = g_rc.deadline;
        struct timespec ts;
        ts.tv_sec = 1000 + d / 4;
        ts.tv_nsec = (d % 4) * 250000000L;
        int rc = ABT_cond_timedwait(g_cond, g_mutex, &ts);
        g_rc.flag_seen = g_rc.flag;
        g_rc.armed = 0; /* a round given up by the driver must not be signalled later */
        ABT_mutex_unlock(g_mutex);
        g_rc.rc = rc;
        RC_ST(g_rc.done, r);
    }
}

static void *rc_waiter_pthread(void *arg)
{
    rc_waiter_body(arg);
    return NULL;
}

static void *rc_spinner(void *arg)
{
    int me = (int)(intptr_t)arg, r = 0;
    for (;;) {
        r++;
        if (!rc_await(&g_rc.started, r, 0))
            return NULL;
        long spins = 0;
        while (RC_LD(g_rc.sig_done) < r && RC_LD(g_rc.done) < r && !RC_LD(g_rc.stop)) {
            if (ABT_mutex_trylock(g_mutex) == ABT_SUCCESS) {
                /* the waiter holds the mutex from before `armed = r` until it gives it up
                 * inside ABT_cond_timedwait: armed == r here means it is inside that call */
                if (g_rc.armed == r) {
                    g_rc.armed = 0;
                    g_rc.flag = 1;
                    ABT_cond_signal(g_cond);
                    g_rc.sig_clock = __atomic_load_n(&g_clock_store.u, __ATOMIC_ACQUIRE);
                    RC_ST(g_rc.sig_done, r);
                }
                ABT_mutex_unlock(g_mutex);
            } else if (++spins > 2000000) {
                sched_yield(); /* the waiter has not reached its wait for a long time */
            }
        }
        RC_ST(g_rc.sdone[me], r);
    }
}

static void *rc_blocker(void *arg)
{
    int me = (int)(intptr_t)arg, r = 0;
    for (;;) {
        r++;
        if (!rc_await(&g_rc.started, r, 0))
            return NULL;
        ABT_mutex_lock(g_mutex);
        ABT_mutex_unlock(g_mutex);
        RC_ST(g_rc.bdone[me], r);
    }
}

static int rc_cond_queued(void)
{
    ABTI_cond *p_cond = ABTI_cond_get_ptr(g_cond);
    ABTD_spinlock_acquire(&p_cond->lock);
    int q = p_cond->waitlist.p_head != NULL;
    ABTD_spinlock_release(&p_cond->lock);
    return q;
}

static void do_rc(char *line)
{
    int rounds = 0, nspin = 1, nblock = 0, i;
    char kc = 'e';
    if (sscanf(line, "RC %d %c %d %d", &rounds, &kc, &nspin, &nblock) != 4)
        VH_DIE("bad RC line");
    if (rounds < 0 || nspin < 1 || nspin > RC_MAXH || nblock < 0 || nblock > RC_MAXH ||
        !(kc == 'e' || (kc >= '1' && kc < '1' + NES)))
        VH_DIE("bad RC parameters");
    memset(&g_rc, 0, sizeof(g_rc));
    g_rc.kind = kc == 'e' ? 0 : kc - '0';
    g_rc.nspin = nspin;
    g_rc.nblock = nblock;
    g_now_ticks = 0;
    set_clock_ticks(0);
    if (ABT_cond_create(&g_cond) != ABT_SUCCESS || ABT_mutex_create(&g_mutex) != ABT_SUCCESS)
        VH_DIE("create");
    pthread_t wpt, spt[RC_MAXH], bpt[RC_MAXH];
    ABT_thread wth = ABT_THREAD_NULL;
    if (g_rc.kind == 0) {
        if (pthread_create(&wpt, NULL, rc_waiter_pthread, NULL))
            VH_DIE("pthread_create");
    } else if (ABT_thread_create(g_espool[g_rc.kind - 1], rc_waiter_body, NULL, ABT_THREAD_ATTR_NULL,
                                 &wth) != ABT_SUCCESS)
        VH_DIE("ABT_thread_create");
    for (i = 0; i < nspin; i++)
        if (pthread_create(&spt[i], NULL, rc_spinner, (void *)(intptr_t)i))
            VH_DIE("pthread_create");
    for (i = 0; i < nblock; i++)
        if (pthread_create(&bpt[i], NULL, rc_blocker, (void *)(intptr_t)i))
            VH_DIE("pthread_create");

    int r = 0, judged = 0, ok = 0, lost = 0, other = 0, unjudged = 0, hung = 0;
    while (judged < rounds && unjudged <= 20) {
        r++;
        g_rc.deadline = g_now_ticks + RC_FAR;
        double t0 = real_now(), t_sig = 0, t_q = 0;
        int sig_before_clock = 0;
        RC_ST(g_rc.round, r);
        while (RC_LD(g_rc.done) < r) {
            double now = real_now();
            if (RC_LD(g_rc.sig_done) >= r) {
                if (t_sig == 0)
                    t_sig = now;
                /* the signal has returned.  Unchanged code: the waiter was queued before it
                 * gave the mutex up, so the signal has dequeued it and the list stays empty. */
                if (rc_cond_queued() && RC_LD(g_rc.done) < r) {
                    if (t_q == 0)
                        t_q = now;
                    else if (now - t_q > 0.002)
                        break; /* signalled, yet queued and waiting: only the clock gets it back */
                } else {
                    t_q = 0;
                }
                if (now - t_sig > bound_secs()) {
                    fprintf(stderr, "c19 harness: RC round %d: signalled waiter neither returned nor queued "
                                    "within %.2f s\n", r, bound_secs());
                    note_stuck();
                    break;
                }
            } else if (now - t0 > 60.0) {
                fprintf(stderr, "c19 harness: RC round %d: no signaller obtained the mutex within 60 s; "
                                "round not judged\n", r);
                break;
            }
            nap_us(20);
        }
        if (RC_LD(g_rc.done) < r) {
            /* signal issued (its return observed) strictly before the clock moves? */
            sig_before_clock = RC_LD(g_rc.sig_done) >= r;
            g_now_ticks = g_rc.deadline + 1;
            set_clock_ticks(g_now_ticks);
            double t1 = real_now();
            while (RC_LD(g_rc.done) < r && real_now() - t1 < 20.0)
                nap_us(50);
            if (RC_LD(g_rc.done) < r) {
                hung = 1;
                other++;
                judged++;
                break;
            }
        } else {
            sig_before_clock = RC_LD(g_rc.sig_done) >= r;
        }
        int rc = g_rc.rc;
        int clock_moved = g_now_ticks > g_rc.deadline;
        if (sig_before_clock) {
            /* belt and braces: the clock value the signaller read after ABT_cond_signal
             * returned must be before the deadline */
            union {
                double d;
                uint64_t u;
            } v;
            v.u = g_rc.sig_clock;
            if (!(v.d < 1000.0 + 0.25 * (double)g_rc.deadline))
                sig_before_clock = 0;
        }
        if (rc == ABT_SUCCESS && g_rc.flag_seen == 1) {
            ok++;
            judged++;
        } else if (rc == ABT_ERR_COND_TIMEDOUT && !clock_moved) {
            other++; /* timed out although the clock never reached the deadline */
            judged++;
        } else if (rc == ABT_ERR_COND_TIMEDOUT && sig_before_clock) {
            if (!lost)
                fprintf(stderr, "c19 harness: RC round %d: ABT_cond_timedwait returned ABT_ERR_COND_TIMEDOUT "
                                "although ABT_cond_signal had returned before the clock reached the deadline "
                                "(flag=%d)\n", r, g_rc.flag_seen);
            lost++;
            judged++;
        } else if (rc == ABT_ERR_COND_TIMEDOUT) {
            unjudged++; /* the driver gave the round up before any signal: says nothing */
        } else {
            other++; /* another error code, or SUCCESS without a signal */
            judged++;
        }
        /* helpers finish the round */
        double t2 = real_now();
        for (i = 0; i < nspin; i++)
            while (RC_LD(g_rc.sdone[i]) < r && real_now() - t2 < 60.0)
                nap_us(20);
        for (i = 0; i < nblock; i++)
            while (RC_LD(g_rc.bdone[i]) < r && real_now() - t2 < 60.0)
                nap_us(20);
    }
    printf("RC rounds=%d ok=%d lost=%d other=%d\n", judged, ok, lost, other);
    fflush(stdout);
    if (hung) {
        fprintf(stderr, "c19 harness: RC waiter never returned; giving up on this process\n");
        _exit(4);
    }
    RC_ST(g_rc.stop, 1);
    if (g_rc.kind == 0)
        pthread_join(wpt, NULL);
    else
        ABT_thread_free(&wth);
    for (i = 0; i < nspin; i++)
        pthread_join(spt[i], NULL);
    for (i = 0; i < nblock; i++)
        pthread_join(bpt[i], NULL);
    ABT_cond_free(&g_cond);
    ABT_mutex_free(&g_mutex);
}

/* watchdog: a case whose driver spins (a lock that is never released) would otherwise run until the check's timeout */
static char vh_cur_case[256];
static void vh_on_alarm(int sig)
{
    static const char m1[] = "harness watchdog: case did not finish (hang): ";
    (void)sig;
    if (write(2, m1, sizeof(m1) - 1) < 0 || write(2, vh_cur_case, strlen(vh_cur_case)) < 0 ||
        write(2, "\n", 1) < 0)
        _exit(9);
    _exit(9);
}

int main(int argc, char **argv)
{
    FILE *f = argc > 1 ? fopen(argv[1], "r") : stdin;
    if (!f)
        VH_DIE("cannot open %s", argv[1]);
    int i;
    signal(SIGALRM, vh_on_alarm);
    if (argc > 1 && strlen(argv[1]) < sizeof(g_stuck_marker) - 16) {
        char *slash;
        strcpy(g_stuck_marker, argv[1]);
        slash = strrchr(g_stuck_marker, '/');
        strcpy(slash ? slash + 1 : g_stuck_marker, "c19.stuck");
        if (access(g_stuck_marker, F_OK) == 0)
            g_stuck_seen = 1;
    }
    set_clock_ticks(0);
    if (ABT_init(0, NULL) != ABT_SUCCESS)
        VH_DIE("ABT_init");
    ABTI_verif_hooks.clock = my_clock;
    for (i = 0; i < NES; i++) {
        if (ABT_xstream_create(ABT_SCHED_NULL, &g_es[i]) != ABT_SUCCESS)
            VH_DIE("xstream create");
        ABT_xstream_get_main_pools(g_es[i], 1, &g_espool[i]);
        ABT_thread t;
        ABT_thread_create(g_espool[i], record_tid, &g_es_tid[i], ABT_THREAD_ATTR_NULL, &t);
        ABT_thread_free(&t);
    }
    if (getenv("C19_DIAG"))
        diag_streams();
    char *line;
    while ((line = vh_getline(f)) != NULL) {
        strncpy(vh_cur_case, line, sizeof(vh_cur_case) - 1);
        alarm(getenv("VH_WATCHDOG") ? (unsigned)atoi(getenv("VH_WATCHDOG")) : 30);
        if (line[0] == 'W' && line[1] == 'L')
            do_wl(line);
        else if (line[0] == 'P' && line[1] == 'W')
            do_pw(line);
        else if (line[0] == 'B' && line[1] == 'W')
            do_bw(line);
        else if (line[0] == 'R' && line[1] == 'C')
            do_rc(line);
        else if (line[0] && line[0] != '#')
            VH_DIE("bad line '%s'", line);
        free(line);
    }
    for (i = 0; i < NES; i++) {
        ABT_xstream_join(g_es[i]);
        ABT_xstream_free(&g_es[i]);
    }
    ABTI_verif_hooks.clock = NULL;
    ABT_finalize();
    return 0;
}
