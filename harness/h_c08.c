/* C08 harness: runs a barrier scenario on the real runtime with the event hooks
 * on and dumps the totally ordered history of atomic actions.
 *   BARRIER <i> <n>      ABT_barrier with n waiters
 *   XBARRIER <i> <n>     ABT_xstream_barrier with n waiters (pthread barrier in this configuration)
 *   GATE <n>             number of threads that take part in the harness gate G
 *   ops: W<b>      ABT_barrier_wait(b)
 *        R<b>:<n>  ABT_barrier_reinit(b, n)   (issued by one coordinator between two G's,
 *                                              i.e. when no round of b is in progress)
 *        X<xb>     ABT_xstream_barrier_wait(xb)   (API-level monitor only: no hooks inside libc)
 *        G         harness rendezvous (own atomic sense-reversing gate, not the code under test)
 *        Y yield   K short work
 * Independent monitor (not the LTS): per-round arrival counters.  The k-th wait of a
 * caller in the current phase (phase = interval between two reinits) adds one to
 * arr[b][phase][k] right before the call and reads it right after the return: a value
 * below n means the caller was released before the n-th arrival of its round. */
#include "abti.h"
#include "vh_scn.h"

#define MAXB 8
#define MAXPH 16
#define MAXR 128
static ABT_barrier g_b[MAXB];
static int g_n0[MAXB];
static int g_nb;
static ABT_xstream_barrier g_xb[MAXB];
static int g_xn[MAXB];
static int g_nxb;

static atomic_long g_arr[MAXB][MAXPH][MAXR];
static volatile int g_phase[MAXB];
static volatile long g_curn[MAXB];
static atomic_long g_xarr[MAXB][MAXR * 4];
static atomic_int g_early[MAXB], g_over[MAXB], g_badret[MAXB], g_taskbad[MAXB];
static atomic_int g_xearly[MAXB], g_xbadret[MAXB];
static atomic_long g_waits[MAXB], g_xwaits[MAXB], g_reinits[MAXB];

static int g_gate_n;
static atomic_int g_gate_cnt;
static atomic_int g_gate_sense;

/* per-thread scratch (vh_tctx.held): [b] waits done in the phase, [8+b] phase seen,
 * [16+xb] xstream-barrier waits done, [32] gate sense */
#define H_K(b) (b)
#define H_PH(b) (8 + (b))
#define H_XK(b) (16 + (b))
#define H_SENSE 32

static int vh_parse_decl(char *line)
{
    int i, n;
    if (sscanf(line, "BARRIER %d %d", &i, &n) == 2) {
        if (i != g_nb || i >= MAXB || n < 1)
            VH_DIE("BARRIER indices must be 0,1,2,... and n >= 1");
        g_n0[i] = n;
        g_nb++;
        return 1;
    }
    if (sscanf(line, "XBARRIER %d %d", &i, &n) == 2) {
        if (i != g_nxb || i >= MAXB || n < 1)
            VH_DIE("XBARRIER indices must be 0,1,2,... and n >= 1");
        g_xn[i] = n;
        g_nxb++;
        return 1;
    }
    if (sscanf(line, "GATE %d", &n) == 1) {
        g_gate_n = n;
        return 1;
    }
    return 0;
}

static void vh_setup_objects(void)
{
    int i;
    for (i = 0; i < g_nb; i++) {
        if (ABT_barrier_create((uint32_t)g_n0[i], &g_b[i]) != ABT_SUCCESS)
            VH_DIE("barrier_create");
        g_curn[i] = g_n0[i];
        ABTI_barrier *p = ABTI_barrier_get_ptr(g_b[i]);
        vh_register_obj(&p->lock, "b%d.%s", i, "lock");
        vh_register_obj(&p->waitlist, "b%d.%s", i, "wl");
        vh_register_obj(p, "b%d.%s", i, "obj");
    }
    for (i = 0; i < g_nxb; i++)
        if (ABT_xstream_barrier_create((uint32_t)g_xn[i], &g_xb[i]) != ABT_SUCCESS)
            VH_DIE("xstream_barrier_create");
}

static void vh_teardown_objects(void)
{
    int i;
    for (i = 0; i < g_nb; i++)
        ABT_barrier_free(&g_b[i]);
    for (i = 0; i < g_nxb; i++)
        ABT_xstream_barrier_free(&g_xb[i]);
}

static void do_yield(vh_tctx *c)
{
    if (c->kind == 'U')
        ABT_thread_yield();
    else
        sched_yield();
}

static void vh_do_op(vh_tctx *c, const char *tok)
{
    int b = (tok[0] == 'W' || tok[0] == 'L' || tok[0] == 'R' || tok[0] == 'X') ? atoi(tok + 1) : 0;
    int ret;
    switch (tok[0]) {
        case 'L':   /* as W, but the caller makes sure it is the last arrival of its round: it enters only when the
                     * n-1 other callers are counted (they are queued then); when its wait returns the round is
                     * complete and its critical section is over, so that it may reinitialise the barrier at once */
        case 'W': {
            if (b >= g_nb)
                VH_DIE("no barrier %d", b);
            if (tok[0] == 'L' && c->kind != 'T') {
                ABTI_barrier *pb = ABTI_barrier_get_ptr(g_b[b]);
                while (*(volatile size_t *)&pb->counter != (size_t)(g_curn[b] - 1)) {
                    if (c->kind == 'U')
                        ABT_thread_yield();
                    else
                        sched_yield();
                }
            }
            int kindc = c->kind == 'U' ? 1 : c->kind == 'T' ? 2 : 0;
            if (c->kind == 'T') {
                /* 1.x API: a tasklet gets ABT_ERR_BARRIER and the barrier is not touched */
                vh_note(VH_EV_OP_BEGIN, 0, b, kindc);
                ret = ABT_barrier_wait(g_b[b]);
                if (ret != ABT_ERR_BARRIER)
                    atomic_fetch_add(&g_taskbad[b], 1);
                vh_note(VH_EV_OP_END, 0, b, ret);
                break;
            }
            if (c->held[H_PH(b)] != g_phase[b]) {
                c->held[H_PH(b)] = g_phase[b];
                c->held[H_K(b)] = 0;
            }
            int ph = c->held[H_PH(b)], k = c->held[H_K(b)]++;
            if (ph >= MAXPH || k >= MAXR)
                VH_DIE("too many phases/rounds");
            long n = g_curn[b];
            vh_note(VH_EV_OP_BEGIN, 0, b, kindc);
            atomic_fetch_add(&g_arr[b][ph][k], 1);
            ret = ABT_barrier_wait(g_b[b]);
            long seen = atomic_load(&g_arr[b][ph][k]);
            if (seen < n)
                atomic_fetch_add(&g_early[b], 1);
            if (seen > n)
                atomic_fetch_add(&g_over[b], 1);
            if (ret != ABT_SUCCESS)
                atomic_fetch_add(&g_badret[b], 1);
            atomic_fetch_add(&g_waits[b], 1);
            vh_note(VH_EV_OP_END, 0, b, ret);
            break;
        }
        case 'R': {
            const char *p = strchr(tok, ':');
            if (!p || b >= g_nb)
                VH_DIE("bad reinit token %s", tok);
            int n = atoi(p + 1);
            vh_note(VH_EV_OP_BEGIN, 1, b, n);
            ret = ABT_barrier_reinit(g_b[b], (uint32_t)n);
            if (ret == ABT_SUCCESS) {
                g_curn[b] = n;
                g_phase[b]++;
            }
            atomic_fetch_add(&g_reinits[b], 1);
            vh_note(VH_EV_OP_END, 1, b, ret);
            break;
        }
        case 'X': {
            if (b >= g_nxb)
                VH_DIE("no xstream barrier %d", b);
            int k = c->held[H_XK(b)]++;
            if (k >= MAXR * 4)
                VH_DIE("too many xstream-barrier rounds");
            vh_note(VH_EV_OP_BEGIN, 2, b, 0);
            atomic_fetch_add(&g_xarr[b][k], 1);
            ret = ABT_xstream_barrier_wait(g_xb[b]);
            long seen = atomic_load(&g_xarr[b][k]);
            if (seen < g_xn[b])
                atomic_fetch_add(&g_xearly[b], 1);
            if (ret != ABT_SUCCESS)
                atomic_fetch_add(&g_xbadret[b], 1);
            atomic_fetch_add(&g_xwaits[b], 1);
            vh_note(VH_EV_OP_END, 2, b, ret);
            break;
        }
        case 'G': {
            if (c->kind == 'T' || g_gate_n <= 0)
                VH_DIE("G needs GATE <n> and a caller that can yield");
            int sense = (c->held[H_SENSE] ^= 1);
            if (atomic_fetch_add(&g_gate_cnt, 1) == g_gate_n - 1) {
                atomic_store(&g_gate_cnt, 0);
                atomic_store(&g_gate_sense, sense);
            } else {
                while (atomic_load(&g_gate_sense) != sense)
                    do_yield(c);
            }
            break;
        }
        case 'Y':
            if (c->kind != 'T')
                do_yield(c);
            break;
        case 'K': {
            volatile int k;
            for (k = 0; k < 200; k++)
                ;
            break;
        }
        default:
            VH_DIE("bad op token %s", tok);
    }
}

static void vh_extra_dump(FILE *f)
{
    int i, t;
    for (i = 0; i < g_nb; i++)
        fprintf(f, "BAR %d n0=%d\n", i, g_n0[i]);
    for (i = 0; i < g_nxb; i++)
        fprintf(f, "XBAR %d n=%d\n", i, g_xn[i]);
    for (i = 0; i < g_nb; i++)
        fprintf(f, "MON b%d early=%d over=%d badret=%d taskbad=%d waits=%ld reinits=%ld\n", i, (int)g_early[i],
                (int)g_over[i], (int)g_badret[i], (int)g_taskbad[i], (long)g_waits[i], (long)g_reinits[i]);
    for (i = 0; i < g_nxb; i++)
        fprintf(f, "MON x%d early=%d over=0 badret=%d taskbad=0 waits=%ld reinits=0\n", i, (int)g_xearly[i],
                (int)g_xbadret[i], (long)g_xwaits[i]);
    for (t = 0; t < vh_nsthr; t++)
        fprintf(f, "THRDONE %d %d\n", vh_sthr[t].index, vh_sthr[t].done);
}

int main(int argc, char **argv)
{
    return vh_scenario_main(argc, argv);
}
