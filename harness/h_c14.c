/* C14 harness: runs the case file on the implementation and prints one
 * canonical line per case (same format as ocaml/drv_c14.ml).
 *   T ; ...   raw table operations on an instrumented copy of src/unit.c (white box)
 *   W k ; ... the association functions of abti_unit.h compiled into this file,
 *             on fake descriptors / pools, own ABTI_global (white box)
 *   A k ; ... the public API of the library built from the tree under test
 *   S nes depth n seed   multi-stream create / migrate / free storm with a
 *             lookup-checker thread (monitor only); about half of the user ->
 *             user migrations keep the handle (same-handle moves)
 * Unit handles are carved from an arena aligned to 2^27 bytes and never
 * dereferenced (the arena is PROT_NONE): handle = base + offset, and
 * hash_index(base + offset) = hash_index(offset) (Coq: hash_index_arena). */
#include <stdio.h>
#include <stdlib.h>
#include <string.h>
#include <stdint.h>
#include <errno.h>
#include <stdarg.h>
#include <unistd.h>
#include <pthread.h>
#include <time.h>
#include <sys/mman.h>

/* allocation-failure injection for the white-box copies (ABTU_malloc ->
 * ABTU_memalign -> posix_memalign) */
static int vh_fail_alloc = 0;
static int vh_posix_memalign(void **p, size_t a, size_t s)
{
    if (vh_fail_alloc)
        return ENOMEM;
    return posix_memalign(p, a, s);
}
#define posix_memalign vh_posix_memalign

/* private, renamed copy of unit.c; the inline functions of abti_unit.h that
 * are compiled into THIS translation unit call the renamed copy, the library
 * keeps using its own. */
#define ABTI_unit_init_hash_table vhx_unit_init_hash_table
#define ABTI_unit_finalize_hash_table vhx_unit_finalize_hash_table
#define ABTI_unit_map_thread vhx_unit_map_thread
#define ABTI_unit_unmap_thread vhx_unit_unmap_thread
#define ABTI_unit_get_thread_from_user_defined_unit vhx_unit_get_thread_from_user_defined_unit
#include "abti.h"
#include "vh_common.h"
#define ABT_unit_set_associated_pool vhx_ABT_unit_set_associated_pool
#define ABT_unit_get_thread vhx_ABT_unit_get_thread
#include "unit.c"
#undef ABT_unit_set_associated_pool
#undef ABT_unit_get_thread

/* ------------------------------------------------------------------ */
static uintptr_t arena_base;
static void arena_init(void)
{
    size_t sz = (size_t)1 << 28;
    void *m = mmap(NULL, sz, PROT_NONE, MAP_PRIVATE | MAP_ANONYMOUS | MAP_NORESERVE, -1, 0);
    if (m == MAP_FAILED)
        VH_DIE("mmap");
    arena_base = ((uintptr_t)m + (((uintptr_t)1 << 27) - 1)) & ~(((uintptr_t)1 << 27) - 1);
}
static ABT_unit unit_of_off(long off)
{
    return off == 0 ? ABT_UNIT_NULL : (ABT_unit)(arena_base + (uintptr_t)off);
}

/* output buffers */
static char *ob;
static size_t ob_n, ob_cap;
static void oprintf(const char *fmt, ...)
{
    va_list ap;
    for (;;) {
        va_start(ap, fmt);
        int n = vsnprintf(ob + ob_n, ob_cap - ob_n, fmt, ap);
        va_end(ap);
        if (n >= 0 && (size_t)n < ob_cap - ob_n) {
            ob_n += n;
            return;
        }
        ob_cap = ob_cap ? ob_cap * 2 : 4096;
        ob = realloc(ob, ob_cap);
    }
}
static char *lb;
static size_t lb_n, lb_cap;
static void lprintf(const char *fmt, ...)
{
    va_list ap;
    for (;;) {
        va_start(ap, fmt);
        int n = vsnprintf(lb + lb_n, lb_cap - lb_n, fmt, ap);
        va_end(ap);
        if (n >= 0 && (size_t)n < lb_cap - lb_n) {
            lb_n += n;
            return;
        }
        lb_cap = lb_cap ? lb_cap * 2 : 4096;
        lb = realloc(lb, lb_cap);
    }
}

#define MAXT 64
#define MAXP 10
#define MAXC 256

/* thread-pointer -> index; mode dependent tables */
static void *tptr[MAXT]; /* ABTI_thread* (== ABT_thread handle) per index */
static int find_thread(void *p)
{
    int i;
    if (!p)
        return 0;
    for (i = 1; i < MAXT; i++)
        if (tptr[i] == p)
            return i;
    return -1;
}

static void fmt_unit(char *out, ABT_unit u)
{
    uintptr_t v = (uintptr_t)u;
    if (u == ABT_UNIT_NULL)
        sprintf(out, "0");
    else if (v & 1)
        sprintf(out, "b%d", find_thread((void *)(v & ~(uintptr_t)1)));
    else if (v >= arena_base && v < arena_base + ((uintptr_t)1 << 27))
        sprintf(out, "u%lu", (unsigned long)(v - arena_base));
    else
        sprintf(out, "?%lx", (unsigned long)v);
}

/* dump the buckets of a table; stale = print p_thread of tombstones too;
 * fake = p_thread values are 16*th numbers (T mode) */
static void dump_buckets(ABTI_global *g, int stale, int fake)
{
    int i;
    for (i = 0; i < (int)ABTI_UNIT_HASH_TABLE_SIZE; i++) {
        unit_to_thread *c = atomic_relaxed_load_unit_to_thread(&g->unit_to_thread_entires[i].list);
        if (!c)
            continue;
        oprintf("%d:[", i);
        int first = 1;
        while (c) {
            ABT_unit u = atomic_relaxed_load_unit(&c->unit);
            char ub[48];
            fmt_unit(ub, u);
            if (u == ABT_UNIT_NULL && !stale)
                oprintf("%s0:_", first ? "" : ",");
            else if (fake)
                oprintf("%s%s:t%lu", first ? "" : ",", ub, (unsigned long)((uintptr_t)c->p_thread / 16));
            else
                oprintf("%s%s:t%d", first ? "" : ",", ub, find_thread(c->p_thread));
            first = 0;
            c = c->p_next;
        }
        oprintf("]");
    }
}

static void wb_cleanup_table(ABTI_global *g)
{
    int i;
    for (i = 0; i < (int)ABTI_UNIT_HASH_TABLE_SIZE; i++) {
        unit_to_thread *c = atomic_relaxed_load_unit_to_thread(&g->unit_to_thread_entires[i].list);
        while (c) {
            atomic_relaxed_store_unit(&c->unit, ABT_UNIT_NULL);
            c = c->p_next;
        }
    }
    vhx_unit_finalize_hash_table(g);
}

/* ------------------------------------------------------------------ */
/* T : raw table operations                                             */
/* ------------------------------------------------------------------ */
static void do_t(char *ops)
{
    ABTI_global *g = calloc(1, sizeof(ABTI_global));
    vhx_unit_init_hash_table(g);
    oprintf("T");
    char *save;
    char *op = strtok_r(ops, ",", &save);
    while (op) {
        char k;
        long a = 0, b = 0, c = 0;
        int n = sscanf(op, " %c %ld %ld %ld", &k, &a, &b, &c);
        if (n < 2)
            VH_DIE("bad T op '%s'", op);
        if (k == 'M') {
            vh_fail_alloc = !c;
            int rc = vhx_unit_map_thread(g, unit_of_off(a), (ABTI_thread *)(uintptr_t)(16 * b));
            vh_fail_alloc = 0;
            oprintf(" m%d", rc == ABT_SUCCESS ? 1 : 0);
        } else if (k == 'U') {
            vhx_unit_unmap_thread(g, unit_of_off(a));
            oprintf(" u");
        } else if (k == 'G') {
            ABTI_thread *t = vhx_unit_get_thread_from_user_defined_unit(g, unit_of_off(a));
            oprintf(" g%lu", (unsigned long)((uintptr_t)t / 16));
        } else
            VH_DIE("bad T op '%s'", op);
        op = strtok_r(NULL, ",", &save);
    }
    oprintf(" | ");
    dump_buckets(g, 1, 1);
    wb_cleanup_table(g);
    free(g);
}

/* ------------------------------------------------------------------ */
/* W : association functions on fake descriptors                        */
/* ------------------------------------------------------------------ */
static ABTI_pool *wpool[MAXP];
static int wnp;
static long w_cu;
static int w_alive[MAXT];

static int w_pool_idx(ABT_pool pool)
{
    int i;
    for (i = 0; i < wnp; i++)
        if ((void *)wpool[i] == (void *)pool)
            return i;
    return -1;
}
static ABT_unit w_create_unit(ABT_pool pool, ABT_thread thread)
{
    char ub[48];
    ABT_unit u = unit_of_off(w_cu);
    fmt_unit(ub, u);
    lprintf("%sC%d.t%d=%s", lb_n ? " " : "", w_pool_idx(pool), find_thread((void *)thread), ub);
    return u;
}
static void w_free_unit(ABT_pool pool, ABT_unit unit)
{
    char ub[48];
    fmt_unit(ub, unit);
    lprintf("%sF%d.%s", lb_n ? " " : "", w_pool_idx(pool), ub);
}

static void do_w(const char *kinds, char *ops)
{
    int i;
    ABTI_global *g = calloc(1, sizeof(ABTI_global));
    vhx_unit_init_hash_table(g);
    wnp = (int)strlen(kinds);
    for (i = 0; i < wnp; i++) {
        wpool[i] = calloc(1, sizeof(ABTI_pool));
        wpool[i]->is_builtin = kinds[i] == 'B' ? ABT_TRUE : ABT_FALSE;
        wpool[i]->required_def.p_create_unit = w_create_unit;
        wpool[i]->required_def.p_free_unit = w_free_unit;
    }
    memset(tptr, 0, sizeof(tptr));
    memset(w_alive, 0, sizeof(w_alive));
    oprintf("W");
    char *save;
    char *op = strtok_r(ops, ",", &save);
    while (op) {
        char k;
        long th = 0, p = 0, cu = 0, ok = 1;
        int n = sscanf(op, " %c %ld %ld %ld %ld", &k, &th, &p, &cu, &ok);
        if (n < 2 || th <= 0 || th >= MAXT)
            VH_DIE("bad W op '%s'", op);
        w_cu = cu;
        vh_fail_alloc = !ok;
        if (k == 'I') {
            tptr[th] = calloc(1, sizeof(ABTI_thread));
            int rc = ABTI_thread_init_pool(g, (ABTI_thread *)tptr[th], wpool[p]);
            w_alive[th] = rc == ABT_SUCCESS;
            oprintf(" c%d", rc);
        } else if (k == 'S') {
            int rc = ABTI_thread_set_associated_pool(g, (ABTI_thread *)tptr[th], wpool[p]);
            oprintf(" c%d", rc);
        } else if (k == 'X') {
            ABTI_thread *pt = NULL;
            int rc = ABTI_unit_set_associated_pool(g, ((ABTI_thread *)tptr[th])->unit, wpool[p], &pt);
            oprintf(" c%d:t%d", rc, rc == ABT_SUCCESS ? find_thread(pt) : 0);
        } else if (k == 'D') {
            ABTI_thread_unset_associated_pool(g, (ABTI_thread *)tptr[th]);
            w_alive[th] = 0;
            oprintf(" -");
        } else if (k == 'G') {
            ABTI_thread *r = ABTI_unit_get_thread(g, ((ABTI_thread *)tptr[th])->unit);
            oprintf(" t%d", find_thread(r));
        } else
            VH_DIE("bad W op '%s'", op);
        vh_fail_alloc = 0;
        op = strtok_r(NULL, ",", &save);
    }
    oprintf(" ; %s | ", lb_n ? lb : "");
    int first = 1;
    for (i = 1; i < MAXT; i++)
        if (w_alive[i]) {
            char ub[48];
            ABTI_thread *t = (ABTI_thread *)tptr[i];
            fmt_unit(ub, t->unit);
            oprintf("%st%d=(%s,%d)", first ? "" : " ", i, ub, w_pool_idx((ABT_pool)t->p_pool));
            first = 0;
        }
    oprintf(" ; ");
    dump_buckets(g, 1, 0);
    wb_cleanup_table(g);
    for (i = 1; i < MAXT; i++)
        free(tptr[i]);
    for (i = 0; i < wnp; i++)
        free(wpool[i]);
    free(g);
}

/* ------------------------------------------------------------------ */
/* A : public API                                                       */
/* ------------------------------------------------------------------ */
typedef struct {
    ABT_thread h;
    int named, alive, pos, done;
    char script[32];
} athr;
typedef struct {
    ABT_pool h;
    char kind;
    ABT_unit c[MAXC];
    int n;
} apool;
static athr AT[MAXT];
static apool AP[MAXP];
static int anp;
static int a_creating = -1, a_popk, a_quiet, a_ran;
static long a_or[8], a_spare;
static int a_nor, a_ior;
static int a_runs[MAXT];

static int a_pool_idx(ABT_pool pool)
{
    int i;
    for (i = 0; i < anp; i++)
        if (AP[i].h == pool)
            return i;
    return -1;
}

static ABT_unit a_create_unit_common(int p, ABT_thread thread)
{
    int th = find_thread((void *)thread);
    if (th <= 0) {
        th = a_creating;
        if (th > 0) {
            AT[th].h = thread;
            tptr[th] = (void *)thread;
        }
    }
    long off;
    if (a_quiet) {
        off = a_spare;
        a_spare += 64;
    } else
        off = a_ior < a_nor ? a_or[a_ior++] : 0;
    ABT_unit u = unit_of_off(off);
    if (!a_quiet) {
        char ub[48];
        fmt_unit(ub, u);
        lprintf("%sC%d.t%d=%s", lb_n ? " " : "", p, th, ub);
    }
    return u;
}
static void a_free_unit_common(int p, ABT_unit unit)
{
    if (!a_quiet) {
        char ub[48];
        fmt_unit(ub, unit);
        lprintf("%sF%d.%s", lb_n ? " " : "", p, ub);
    }
}
static void a_push_common(int p, ABT_unit unit)
{
    if (AP[p].n >= MAXC)
        VH_DIE("pool overflow");
    AP[p].c[AP[p].n++] = unit;
    if (!a_quiet) {
        char ub[48];
        fmt_unit(ub, unit);
        lprintf("%sP%d.%s", lb_n ? " " : "", p, ub);
    }
}
/* seeded pop policy: hand out the element at index a_popk mod size */
static ABT_unit a_pop_common(int p)
{
    if (AP[p].n == 0)
        return ABT_UNIT_NULL;
    int i = a_popk % AP[p].n;
    ABT_unit u = AP[p].c[i];
    memmove(&AP[p].c[i], &AP[p].c[i + 1], sizeof(ABT_unit) * (AP[p].n - i - 1));
    AP[p].n--;
    if (!a_quiet) {
        char ub[48];
        fmt_unit(ub, u);
        lprintf("%sO%d.%s", lb_n ? " " : "", p, ub);
    }
    return u;
}

/* new interface (ABT_pool_user_def) */
static ABT_unit u_create_unit(ABT_pool pool, ABT_thread thread)
{
    return a_create_unit_common(a_pool_idx(pool), thread);
}
static void u_free_unit(ABT_pool pool, ABT_unit unit)
{
    a_free_unit_common(a_pool_idx(pool), unit);
}
static ABT_bool u_is_empty(ABT_pool pool)
{
    return AP[a_pool_idx(pool)].n == 0 ? ABT_TRUE : ABT_FALSE;
}
static ABT_thread u_pop(ABT_pool pool, ABT_pool_context ctx)
{
    (void)ctx;
    ABT_unit u = a_pop_common(a_pool_idx(pool));
    if (u == ABT_UNIT_NULL)
        return ABT_THREAD_NULL;
    ABT_thread t = ABT_THREAD_NULL;
    ABT_unit_get_thread(u, &t);
    return t;
}
static void u_push(ABT_pool pool, ABT_unit unit, ABT_pool_context ctx)
{
    (void)ctx;
    a_push_common(a_pool_idx(pool), unit);
}

/* legacy interface (ABT_pool_def): u_create_from_thread / u_free get no pool
 * argument, so one function set per pool slot */
#define LEGACY(N)                                                              \
    static ABT_unit l_create_##N(ABT_thread t) { return a_create_unit_common(N, t); } \
    static void l_free_##N(ABT_unit *u) { a_free_unit_common(N, *u); *u = ABT_UNIT_NULL; } \
    static size_t l_size_##N(ABT_pool p) { (void)p; return (size_t)AP[N].n; }  \
    static void l_push_##N(ABT_pool p, ABT_unit u) { (void)p; a_push_common(N, u); } \
    static ABT_unit l_pop_##N(ABT_pool p) { (void)p; return a_pop_common(N); }
LEGACY(0) LEGACY(1) LEGACY(2) LEGACY(3) LEGACY(4) LEGACY(5) LEGACY(6) LEGACY(7)
#define LEGACY_FILL(N)                                                         \
    case N:                                                                    \
        d->u_create_from_thread = l_create_##N;                                \
        d->u_free = l_free_##N;                                                \
        d->p_get_size = l_size_##N;                                            \
        d->p_push = l_push_##N;                                                \
        d->p_pop = l_pop_##N;                                                  \
        break;
static void legacy_def(int n, ABT_pool_def *d)
{
    memset(d, 0, sizeof(*d));
    d->access = ABT_POOL_ACCESS_MPMC;
    switch (n) {
        LEGACY_FILL(0) LEGACY_FILL(1) LEGACY_FILL(2) LEGACY_FILL(3)
        LEGACY_FILL(4) LEGACY_FILL(5) LEGACY_FILL(6) LEGACY_FILL(7)
        default: VH_DIE("too many legacy pools");
    }
}

static void a_body(void *arg)
{
    int th = (int)(intptr_t)arg;
    athr *t = &AT[th];
    a_ran = 1;
    while (!a_quiet && t->script[t->pos]) {
        char c = t->script[t->pos];
        if (c == 'y') {
            t->pos++;
            ABT_self_yield();
            a_ran = 1;
        } else if (c == 'm') {
            int q = t->script[t->pos + 1] - '0';
            t->pos += 2;
            ABT_thread self;
            ABT_self_get_thread(&self);
            ABT_thread_migrate_to_pool(self, AP[q].h);
        } else
            VH_DIE("bad script");
    }
    t->done++;
    if (!a_quiet)
        a_runs[th]++;
}

static void parse_oracles(char *s)
{
    a_nor = a_ior = 0;
    if (!s)
        return;
    char *save;
    char *w = strtok_r(s, " ", &save);
    while (w && a_nor < 8) {
        a_or[a_nor++] = strtol(w, NULL, 10);
        w = strtok_r(NULL, " ", &save);
    }
}
static void set_script(athr *t, const char *sc)
{
    if (strcmp(sc, "-") == 0)
        t->script[0] = 0;
    else {
        strncpy(t->script, sc, sizeof(t->script) - 1);
        t->script[sizeof(t->script) - 1] = 0;
    }
    t->pos = 0;
}

/* after a schedule call: what happened to thread th */
static int after_schedule(int th, int done_before)
{
    athr *t = &AT[th];
    if (t->done != done_before) {
        if (!t->named) {
            t->alive = 0;
            tptr[th] = NULL;
        }
        return 2;
    }
    return a_ran ? 1 : 0;
}

static void do_a(const char *kinds, char *ops)
{
    int i, rc;
    rc = ABT_init(0, NULL);
    if (rc != ABT_SUCCESS)
        VH_DIE("ABT_init");
    anp = (int)strlen(kinds);
    memset(AT, 0, sizeof(AT));
    memset(tptr, 0, sizeof(tptr));
    memset(a_runs, 0, sizeof(a_runs));
    a_quiet = 0;
    a_spare = (1L << 26) + 64;
    for (i = 0; i < anp; i++) {
        AP[i].kind = kinds[i];
        AP[i].n = 0;
        if (kinds[i] == 'B') {
            rc = ABT_pool_create_basic(ABT_POOL_FIFO, ABT_POOL_ACCESS_MPMC, ABT_FALSE, &AP[i].h);
        } else if (kinds[i] == 'U') {
            ABT_pool_user_def def;
            rc = ABT_pool_user_def_create(u_create_unit, u_free_unit, u_is_empty, u_pop, u_push, &def);
            if (rc == ABT_SUCCESS)
                rc = ABT_pool_create(def, ABT_POOL_CONFIG_NULL, &AP[i].h);
            ABT_pool_user_def_free(&def);
        } else {
            ABT_pool_def d;
            legacy_def(i, &d);
            rc = ABT_pool_create(&d, ABT_POOL_CONFIG_NULL, &AP[i].h);
        }
        if (rc != ABT_SUCCESS)
            VH_DIE("pool create %d", rc);
    }
    oprintf("A");
    char *save;
    char *op = strtok_r(ops, ",", &save);
    while (op) {
        char *colon = strchr(op, ':');
        if (colon)
            *colon = 0;
        parse_oracles(colon ? colon + 1 : NULL);
        char k[8], sc[32];
        long a = 0, b = 0, c = 0;
        sc[0] = 0;
        if (sscanf(op, " %7s", k) != 1)
            VH_DIE("bad A op");
        const char *rest = strstr(op, k) + strlen(k);
        if (strcmp(k, "c") == 0) {
            if (sscanf(rest, "%ld %ld %ld %31s", &a, &b, &c, sc) != 4)
                VH_DIE("bad c");
            athr *t = &AT[a];
            t->named = (int)c;
            t->done = 0;
            set_script(t, sc);
            a_creating = (int)a;
            t->h = ABT_THREAD_NULL;
            rc = ABT_thread_create(AP[b].h, a_body, (void *)(intptr_t)a, ABT_THREAD_ATTR_NULL,
                                   c ? &t->h : NULL);
            a_creating = -1;
            if (rc == ABT_SUCCESS) {
                t->alive = 1;
                tptr[a] = (void *)t->h;
            } else
                tptr[a] = NULL;
            oprintf(" c%d", rc);
        } else if (strcmp(k, "pt") == 0) {
            sscanf(rest, "%ld %ld", &a, &b);
            rc = ABT_pool_push_thread(AP[a].h, AT[b].h);
            oprintf(" c%d", rc);
        } else if (strcmp(k, "pm") == 0) {
            /* the batched variant with a batch of one (built-in target pools only: it needs push_many): same contract as
             * push_thread */
            sscanf(rest, "%ld %ld", &a, &b);
            rc = ABT_pool_push_threads(AP[a].h, &AT[b].h, 1);
            oprintf(" c%d", rc);
        } else if (strcmp(k, "pu") == 0) {
            sscanf(rest, "%ld %ld", &a, &b);
            ABT_unit u;
            ABT_thread_get_unit(AT[b].h, &u);
            rc = ABT_pool_push(AP[a].h, u);
            oprintf(" c%d", rc);
        } else if (strcmp(k, "po") == 0 || strcmp(k, "pp") == 0) {
            sscanf(rest, "%ld %ld", &a, &b);
            a_popk = (int)b;
            ABT_thread t = ABT_THREAD_NULL;
            ABT_unit u = ABT_UNIT_NULL, u2 = ABT_UNIT_NULL;
            if (k[1] == 'o') {
                rc = ABT_pool_pop_thread(AP[a].h, &t);
            } else {
                rc = ABT_pool_pop(AP[a].h, &u);
                if (rc == ABT_SUCCESS && u != ABT_UNIT_NULL)
                    ABT_unit_get_thread(u, &t);
            }
            if (rc != ABT_SUCCESS)
                oprintf(" e%d", rc);
            else if (t == ABT_THREAD_NULL)
                oprintf(" t0/0");
            else {
                char ub[48];
                ABT_thread_get_unit(t, &u2);
                fmt_unit(ub, u2);
                oprintf(" t%d/%s%s", find_thread((void *)t), ub,
                        (k[1] == 'p' && u != u2) ? "!unit" : "");
            }
        } else if (strcmp(k, "pn") == 0) {
            /* batch pop: ABT_pool_pop_threads(len = b); reported as b single pops (the missing ones as t0/0).  Only
             * generated for built-in pools and legacy ABT_pool_def pools (pool_pop_many_wrapper over the user's p_pop) */
            long kk = 0;
            sscanf(rest, "%ld %ld %ld", &a, &b, &kk);
            a_popk = (int)kk;
            ABT_thread ts[16];
            size_t num = 0, i;
            if (b > 16) b = 16;
            rc = ABT_pool_pop_threads(AP[a].h, ts, (size_t)b, &num);
            if (rc != ABT_SUCCESS)
                oprintf(" e%d", rc);
            else {
                for (i = 0; i < (size_t)b; i++) {
                    if (i >= num || ts[i] == ABT_THREAD_NULL)
                        oprintf(" t0/0");
                    else {
                        char ub[48];
                        ABT_unit u2 = ABT_UNIT_NULL;
                        ABT_thread_get_unit(ts[i], &u2);
                        fmt_unit(ub, u2);
                        oprintf(" t%d/%s", find_thread((void *)ts[i]), ub);
                    }
                }
            }
        } else if (strcmp(k, "sa") == 0) {
            sscanf(rest, "%ld %ld", &a, &b);
            rc = ABT_thread_set_associated_pool(AT[a].h, AP[b].h);
            oprintf(" c%d", rc);
        } else if (strcmp(k, "mg") == 0) {
            sscanf(rest, "%ld %ld", &a, &b);
            rc = ABT_thread_migrate_to_pool(AT[a].h, AP[b].h);
            oprintf(" c%d", rc);
        } else if (strcmp(k, "rn") == 0) {
            sscanf(rest, "%ld", &a);
            int d0 = AT[a].done;
            a_ran = 0;
            rc = ABT_self_schedule(AT[a].h, ABT_POOL_NULL);
            oprintf(" r%d.%d", rc, after_schedule((int)a, d0));
        } else if (strcmp(k, "ru") == 0) {
            sscanf(rest, "%ld %ld", &a, &b);
            int d0 = AT[a].done;
            a_ran = 0;
            ABT_unit u;
            ABT_thread_get_unit(AT[a].h, &u);
            rc = ABT_xstream_run_unit(u, AP[b].h);
            if (rc != ABT_SUCCESS)
                oprintf(" r%d.3", rc);
            else
                oprintf(" r%d.%d", rc, after_schedule((int)a, d0));
        } else if (strcmp(k, "fr") == 0) {
            sscanf(rest, "%ld", &a);
            rc = ABT_thread_free(&AT[a].h);
            AT[a].alive = 0;
            tptr[a] = NULL;
            oprintf(" c%d", rc);
        } else if (strcmp(k, "rv") == 0) {
            if (sscanf(rest, "%ld %ld %31s", &a, &b, sc) != 3)
                VH_DIE("bad rv");
            char old[32];
            int oldpos = AT[a].pos;
            strcpy(old, AT[a].script);
            set_script(&AT[a], sc);
            rc = ABT_thread_revive(AP[b].h, a_body, (void *)(intptr_t)a, &AT[a].h);
            if (rc != ABT_SUCCESS) {
                strcpy(AT[a].script, old);
                AT[a].pos = oldpos;
            }
            oprintf(" c%d", rc);
        } else if (strcmp(k, "ck") == 0) {
            sscanf(rest, "%ld", &a);
            ABT_unit u = ABT_UNIT_NULL;
            ABT_thread t = ABT_THREAD_NULL;
            char ub[48];
            ABT_thread_get_unit(AT[a].h, &u);
            ABT_unit_get_thread(u, &t);
            fmt_unit(ub, u);
            oprintf(" %s>t%d", ub, find_thread((void *)t));
        } else
            VH_DIE("bad A op '%s'", k);
        op = strtok_r(NULL, ",", &save);
    }
    /* completion counters, call log */
    oprintf(" ; ");
    {
        int firstr = 1;
        for (i = 1; i < MAXT; i++)
            if (a_runs[i]) {
                oprintf("%s%d=%d", firstr ? "" : " ", i, a_runs[i]);
                firstr = 0;
            }
    }
    oprintf(" ; %s | ", lb_n ? lb : "");
    /* thread fields */
    int first = 1;
    for (i = 1; i < MAXT; i++)
        if (AT[i].alive) {
            char ub[48];
            ABTI_thread *t = ABTI_thread_get_ptr(AT[i].h);
            fmt_unit(ub, t->unit);
            oprintf("%st%d=(%s,%d)", first ? "" : " ", i, ub, a_pool_idx(ABTI_pool_get_handle(t->p_pool)));
            first = 0;
        }
    oprintf(" ; ");
    for (i = 0; i < anp; i++) {
        if (AP[i].kind == 'B') {
            size_t sz = 0;
            ABT_pool_get_size(AP[i].h, &sz);
            oprintf("%s%d:#%zu", i ? " " : "", i, sz);
        } else {
            int j;
            oprintf("%s%d:[", i ? " " : "", i);
            for (j = 0; j < AP[i].n; j++) {
                char ub[48];
                fmt_unit(ub, AP[i].c[j]);
                oprintf("%s%s", j ? "," : "", ub);
            }
            oprintf("]");
        }
    }
    oprintf(" ; ");
    dump_buckets(ABTI_global_get_global(), 0, 0);

    /* silent clean-up: finish and free everything */
    a_quiet = 1;
    a_popk = 0;
    int guard = 0, busy = 1;
    while (busy && guard++ < 1000) {
        busy = 0;
        for (i = 0; i < anp; i++) {
            for (;;) {
                ABT_thread t = ABT_THREAD_NULL;
                ABT_pool_pop_thread(AP[i].h, &t);
                if (t == ABT_THREAD_NULL)
                    break;
                int th = find_thread((void *)t);
                if (th <= 0)
                    VH_DIE("cleanup: unknown thread");
                int d0 = AT[th].done;
                ABT_self_schedule(t, ABT_POOL_NULL);
                after_schedule(th, d0);
                busy = 1;
            }
        }
        for (i = 1; i < MAXT; i++) {
            if (!AT[i].alive)
                continue;
            ABT_thread_state st;
            ABT_thread_get_state(AT[i].h, &st);
            if (st == ABT_THREAD_STATE_TERMINATED) {
                ABT_thread_free(&AT[i].h);
                AT[i].alive = 0;
                tptr[i] = NULL;
            } else {
                ABTI_thread *pt = ABTI_thread_get_ptr(AT[i].h);
                int inpool = 0, p, j;
                /* is it inside one of the pools? (then the pop loop gets it) */
                for (p = 0; p < anp; p++) {
                    if (AP[p].kind == 'B') {
                        if (ABTI_pool_get_ptr(AP[p].h) == pt->p_pool &&
                            ABTD_atomic_relaxed_load_int(&pt->is_in_pool))
                            inpool = 1;
                    } else
                        for (j = 0; j < AP[p].n; j++)
                            if (AP[p].c[j] == pt->unit)
                                inpool = 1;
                }
                if (!inpool) {
                    int d0 = AT[i].done;
                    ABT_self_schedule(AT[i].h, ABT_POOL_NULL);
                    after_schedule(i, d0);
                }
                busy = 1;
            }
        }
    }
    for (i = 0; i < anp; i++)
        ABT_pool_free(&AP[i].h);
    ABT_finalize();
}

/* ------------------------------------------------------------------ */
/* S : storm                                                            */
/* ------------------------------------------------------------------ */
/* 1024 handles, all in the four buckets 40..43: offset 8*k with
 * k = 256*j + ((B - j) & 255) hashes to (k + (k >> 8)) & 255 = B. */
#define S_SLOTS 1024
#define S_PIN 12
#define S_PARK 640
#define S_RING 8192
typedef struct {
    ABTD_spinlock lock;
    ABT_unit ring[S_RING];
    int head, n;
    ABT_pool h;
} spool;
static spool SP[3]; /* 0,1 served by the streams; 2 holds the pinned / parked units */
static ABT_unit s_slot_unit[S_SLOTS];
static ABTD_atomic_int s_slot_live[S_SLOTS];
static ABT_thread s_slot_thread[S_SLOTS];
static int s_free[S_SLOTS], s_nfree;
static ABTD_spinlock s_free_lock;
static ABTD_atomic_int s_err_dup, s_err_dfree, s_err_lookup, s_err_nounit, s_stop;
static ABTD_atomic_int s_done, s_created, s_creates, s_frees, s_lookups;
static ABTD_atomic_int *s_ran;
static int s_total_max, s_pin_mode;
static ABT_thread s_pin_thread[S_PIN + S_PARK];
static ABT_unit s_pin_unit[S_PIN + S_PARK];

static long s_slot_off(int slot)
{
    long B = 40 + slot / 256, j = slot % 256;
    return 8 * (256 * j + ((B - j) & 255));
}
static int s_slot_of(ABT_unit u)
{
    uintptr_t v = (uintptr_t)u;
    if (v < arena_base || ((v - arena_base) & 7))
        return -1;
    long k = (long)((v - arena_base) >> 3);
    long j = k >> 8, r = k & 255, B = (r + j) & 255;
    if (j > 255 || B < 40 || B > 43)
        return -1;
    int slot = (int)((B - 40) * 256 + j);
    return s_slot_unit[slot] == u ? slot : -1;
}
static int s_pool_idx(ABT_pool pool)
{
    int i;
    for (i = 0; i < 3; i++)
        if (SP[i].h == pool)
            return i;
    return -1;
}
/* Same-handle moves: a ULT that is about to migrate itself to the other served
 * pool may register (self, its unit) here; the create_unit of that migration
 * then hands out the same handle again ("unit = work-unit handle" pools), so
 * that map(new) and unmap(old) of the runtime act on one key while the other
 * streams and the checker use the same buckets.  s_slot_live counts the
 * associations of a slot: 1 normally, 2 between that create_unit and the old
 * pool's free_unit.  Only ULTs inside their body register, so a registered
 * handle is never a descriptor that is being created. */
#define S_KEEP 64
static ABTD_atomic_ptr s_keep_thread[S_KEEP];
static ABT_unit s_keep_unit[S_KEEP];
static ABTD_atomic_int s_samehandle;
static int s_keep_register(ABT_thread self, ABT_unit u)
{
    int i;
    for (i = 0; i < S_KEEP; i++) {
        if (ABTD_atomic_acquire_load_ptr(&s_keep_thread[i]) == NULL &&
            ABTD_atomic_bool_cas_strong_ptr(&s_keep_thread[i], NULL, (void *)(uintptr_t)1)) {
            s_keep_unit[i] = u;
            ABTD_atomic_release_store_ptr(&s_keep_thread[i], (void *)self);
            return i;
        }
    }
    return -1;
}
static ABT_unit s_keep_take(ABT_thread thread)
{
    int i;
    for (i = 0; i < S_KEEP; i++)
        if (ABTD_atomic_acquire_load_ptr(&s_keep_thread[i]) == (void *)thread) {
            ABT_unit u = s_keep_unit[i];
            ABTD_atomic_release_store_ptr(&s_keep_thread[i], NULL);
            return u;
        }
    return ABT_UNIT_NULL;
}

static ABT_unit s_create_unit(ABT_pool pool, ABT_thread thread)
{
    (void)pool;
    ABT_unit keep = s_keep_take(thread);
    if (keep != ABT_UNIT_NULL) {
        /* the handle this work unit already has: it must be live exactly once */
        int ks = s_slot_of(keep);
        if (ks < 0 || s_slot_thread[ks] != thread || ABTD_atomic_fetch_add_int(&s_slot_live[ks], 1) != 1)
            ABTD_atomic_fetch_add_int(&s_err_dup, 1);
        ABTD_atomic_fetch_add_int(&s_creates, 1);
        ABTD_atomic_fetch_add_int(&s_samehandle, 1);
        return keep;
    }
    ABTD_spinlock_acquire(&s_free_lock);
    if (s_nfree == 0) {
        ABTD_spinlock_release(&s_free_lock);
        ABTD_atomic_fetch_add_int(&s_err_nounit, 1);
        return ABT_UNIT_NULL;
    }
    int s = s_free[--s_nfree];
    ABTD_spinlock_release(&s_free_lock);
    if (ABTD_atomic_fetch_add_int(&s_slot_live[s], 1) != 0)
        ABTD_atomic_fetch_add_int(&s_err_dup, 1);
    s_slot_thread[s] = thread;
    ABTD_atomic_fetch_add_int(&s_creates, 1);
    return s_slot_unit[s];
}
static void s_free_unit(ABT_pool pool, ABT_unit unit)
{
    (void)pool;
    int s = s_slot_of(unit);
    int prev = s < 0 ? 0 : ABTD_atomic_fetch_sub_int(&s_slot_live[s], 1);
    if (prev == 2) {
        /* the old pool's free_unit of a same-handle move: the handle stays in use */
        ABTD_atomic_fetch_add_int(&s_frees, 1);
        return;
    }
    if (prev != 1) {
        ABTD_atomic_fetch_add_int(&s_err_dfree, 1);
        return;
    }
    ABTD_atomic_fetch_add_int(&s_frees, 1);
    ABTD_spinlock_acquire(&s_free_lock);
    s_free[s_nfree++] = s;
    ABTD_spinlock_release(&s_free_lock);
}
static ABT_bool s_is_empty(ABT_pool pool)
{
    spool *p = &SP[s_pool_idx(pool)];
    return p->n == 0 ? ABT_TRUE : ABT_FALSE;
}
static void s_push(ABT_pool pool, ABT_unit unit, ABT_pool_context ctx)
{
    (void)ctx;
    spool *p = &SP[s_pool_idx(pool)];
    ABTD_spinlock_acquire(&p->lock);
    if (p->n >= S_RING)
        VH_DIE("ring overflow");
    p->ring[(p->head + p->n) % S_RING] = unit;
    p->n++;
    ABTD_spinlock_release(&p->lock);
}
static ABT_thread s_pop(ABT_pool pool, ABT_pool_context ctx)
{
    (void)ctx;
    spool *p = &SP[s_pool_idx(pool)];
    ABT_unit u = ABT_UNIT_NULL;
    ABTD_spinlock_acquire(&p->lock);
    if (p->n > 0) {
        /* LIFO/FIFO mix: the policy depends on the parity of the size */
        if (p->n & 1) {
            u = p->ring[p->head];
            p->head = (p->head + 1) % S_RING;
        } else
            u = p->ring[(p->head + p->n - 1) % S_RING];
        p->n--;
    }
    ABTD_spinlock_release(&p->lock);
    if (u == ABT_UNIT_NULL)
        return ABT_THREAD_NULL;
    /* the unit is live (it was in the pool): its lookup must give its thread */
    ABT_thread t = ABT_THREAD_NULL;
    ABT_unit_get_thread(u, &t);
    ABTD_atomic_fetch_add_int(&s_lookups, 1);
    int s = s_slot_of(u);
    if (s < 0 || t != s_slot_thread[s])
        ABTD_atomic_fetch_add_int(&s_err_lookup, 1);
    return t;
}

typedef struct {
    int id, depth, is_task;
    uint64_t rng;
} sarg;
static sarg *s_args;

static void s_body(void *arg)
{
    sarg *a = (sarg *)arg;
    if (a->id < 0)
        return; /* pinned / parked: only run at the very end */
    ABT_thread self;
    ABT_unit u = ABT_UNIT_NULL;
    ABT_thread t2 = ABT_THREAD_NULL;
    ABT_self_get_thread(&self);
    /* own unit while others churn */
    ABT_thread_get_unit(self, &u);
    if (!(((uintptr_t)u) & 1)) {
        ABT_unit_get_thread(u, &t2);
        ABTD_atomic_fetch_add_int(&s_lookups, 1);
        if (t2 != self)
            ABTD_atomic_fetch_add_int(&s_err_lookup, 1);
    }
    uint64_t r = vh_rand(&a->rng);
    if ((r & 1) && !a->is_task) {
        /* user -> user remap on this stream, concurrently with the others */
        ABT_pool cur;
        ABT_thread_get_last_pool(self, &cur);
        int kept = -1;
        if ((r & 2) && !(((uintptr_t)u) & 1))
            kept = s_keep_register(self, u); /* the new pool will hand out u again */
        int mrc = ABT_thread_migrate_to_pool(self, cur == SP[0].h ? SP[1].h : SP[0].h);
        if (mrc != ABT_SUCCESS && kept >= 0) {
            s_keep_take(self);
            kept = -1;
        }
        ABT_self_yield();
        /* consumed by the create_unit of the migration?  (if the request was not served, take it back) */
        int consumed = kept >= 0 && s_keep_take(self) == ABT_UNIT_NULL;
        ABT_unit u_after = ABT_UNIT_NULL;
        ABT_thread_get_unit(self, &u_after);
        if (consumed && u_after != u)
            ABTD_atomic_fetch_add_int(&s_err_lookup, 1);
        u = u_after;
        ABT_unit_get_thread(u, &t2);
        ABTD_atomic_fetch_add_int(&s_lookups, 1);
        if (t2 != self)
            ABTD_atomic_fetch_add_int(&s_err_lookup, 1);
    }
    /* spawn children from this stream */
    int k, nchild = a->depth > 0 ? 2 : 0;
    for (k = 0; k < nchild; k++) {
        int id = ABTD_atomic_fetch_add_int(&s_created, 1);
        if (id >= s_total_max) {
            ABTD_atomic_fetch_sub_int(&s_created, 1);
            break;
        }
        s_args[id].id = id;
        s_args[id].depth = a->depth - 1;
        s_args[id].rng = r ^ (0x9e37ULL * (id + 1));
        int rc;
        s_args[id].is_task = (int)((r >> (8 + k)) & 1);
        if (s_args[id].is_task)
            rc = ABT_task_create(SP[(r >> (4 + k)) & 1].h, s_body, &s_args[id], NULL);
        else
            rc = ABT_thread_create(SP[(r >> (4 + k)) & 1].h, s_body, &s_args[id],
                                   ABT_THREAD_ATTR_NULL, NULL);
        if (rc != ABT_SUCCESS) {
            /* no free handle right now: count it as done */
            ABTD_atomic_fetch_add_int(&s_ran[id], 1);
            ABTD_atomic_fetch_add_int(&s_done, 1);
        }
    }
    ABTD_atomic_fetch_add_int(&s_ran[a->id], 1);
    ABTD_atomic_fetch_add_int(&s_done, 1);
}

static void *s_checker(void *arg)
{
    (void)arg;
    while (!ABTD_atomic_acquire_load_int(&s_stop)) {
        int i;
        for (i = 0; i < S_PIN; i++) {
            ABT_thread t = ABT_THREAD_NULL;
            ABT_unit_get_thread(s_pin_unit[i], &t);
            ABTD_atomic_fetch_add_int(&s_lookups, 1);
            if (t != s_pin_thread[i])
                ABTD_atomic_fetch_add_int(&s_err_lookup, 1);
        }
    }
    return NULL;
}

static double now_s(void)
{
    struct timespec ts;
    clock_gettime(CLOCK_MONOTONIC, &ts);
    return ts.tv_sec + ts.tv_nsec * 1e-9;
}

static void do_s(char *line)
{
    int nes = 2, depth = 3, nroot = 50, i, rc;
    unsigned long seed = 1;
    sscanf(line, "S %d %d %d %lu", &nes, &depth, &nroot, &seed);
    if (nes > 8)
        nes = 8;
    rc = ABT_init(0, NULL);
    if (rc != ABT_SUCCESS)
        VH_DIE("ABT_init");
    for (i = 0; i < S_SLOTS; i++) {
        s_slot_unit[i] = unit_of_off(s_slot_off(i));
        size_t h = unit_get_hash_index(s_slot_unit[i]);
        if (h != (size_t)(40 + i / 256))
            VH_DIE("handle %d hashes to %zu", i, h);
        ABTD_atomic_relaxed_store_int(&s_slot_live[i], 0);
    }
    /* free list: interleave the four buckets */
    s_nfree = 0;
    for (i = S_SLOTS - 1; i >= 0; i--)
        s_free[s_nfree++] = (i % 4) * 256 + i / 4;
    ABTD_spinlock_clear(&s_free_lock);
    ABTD_atomic_int *ctrs[] = { &s_err_dup, &s_err_dfree, &s_err_lookup, &s_err_nounit, &s_stop,
                                &s_done, &s_created, &s_creates, &s_frees, &s_lookups, &s_samehandle };
    for (i = 0; i < S_KEEP; i++)
        ABTD_atomic_relaxed_store_ptr(&s_keep_thread[i], NULL);
    for (i = 0; i < (int)(sizeof(ctrs) / sizeof(ctrs[0])); i++)
        ABTD_atomic_relaxed_store_int(ctrs[i], 0);
    s_total_max = nroot * ((1 << (depth + 1)) - 1);
    s_args = calloc(s_total_max + S_PIN + S_PARK, sizeof(sarg));
    s_ran = calloc(s_total_max, sizeof(ABTD_atomic_int));
    ABT_pool_user_def def;
    ABT_pool_user_def_create(s_create_unit, s_free_unit, s_is_empty, s_pop, s_push, &def);
    for (i = 0; i < 3; i++) {
        ABTD_spinlock_clear(&SP[i].lock);
        SP[i].head = SP[i].n = 0;
        rc = ABT_pool_create(def, ABT_POOL_CONFIG_NULL, &SP[i].h);
        if (rc != ABT_SUCCESS)
            VH_DIE("pool create");
    }
    ABT_pool_user_def_free(&def);
    /* pinned units: live for the whole storm, in an unserved pool; the checker looks them up */
    int npin = 0;
    for (i = 0; i < S_PIN; i++) {
        s_args[s_total_max + npin].id = -1;
        rc = ABT_thread_create(SP[2].h, s_body, &s_args[s_total_max + npin], ABT_THREAD_ATTR_NULL,
                               &s_pin_thread[npin]);
        if (rc != ABT_SUCCESS)
            VH_DIE("pin create");
        ABT_thread_get_unit(s_pin_thread[npin], &s_pin_unit[npin]);
        npin++;
    }
    ABT_xstream xs[8];
    for (i = 0; i < nes; i++) {
        ABT_pool pools[2] = { SP[i & 1].h, SP[1 - (i & 1)].h };
        rc = ABT_xstream_create_basic(ABT_SCHED_BASIC, 2, pools, ABT_SCHED_CONFIG_NULL, &xs[i]);
        if (rc != ABT_SUCCESS)
            VH_DIE("xstream create %d", rc);
    }
    pthread_t chk;
    pthread_create(&chk, NULL, s_checker, NULL);
    uint64_t rng = seed * 0x9e3779b97f4a7c15ULL + 1;
    int stuck = 0;
    double t0 = now_s();
    int park_per_root = (S_PARK + nroot - 1) / nroot;
    for (i = 0; i < nroot; i++) {
        int id = ABTD_atomic_fetch_add_int(&s_created, 1);
        s_args[id].id = id;
        s_args[id].depth = depth;
        s_args[id].rng = vh_rand(&rng);
        for (;;) {
            rc = ABT_thread_create(SP[i & 1].h, s_body, &s_args[id], ABT_THREAD_ATTR_NULL, NULL);
            if (rc == ABT_SUCCESS)
                break;
            ABT_thread_yield(); /* all handles in use: let the streams drain */
            if (now_s() - t0 > 40) {
                stuck = 1;
                break;
            }
        }
        if (stuck)
            break;
        /* parked units: never freed during the storm, so the table keeps growing (head
         * insertions) while the checker and the streams read and write the same buckets */
        int k;
        for (k = 0; k < park_per_root && npin < S_PIN + S_PARK; k++) {
            s_args[s_total_max + npin].id = -1;
            rc = ABT_thread_create(SP[2].h, s_body, &s_args[s_total_max + npin],
                                   ABT_THREAD_ATTR_NULL, &s_pin_thread[npin]);
            if (rc != ABT_SUCCESS)
                break;
            ABT_thread_get_unit(s_pin_thread[npin], &s_pin_unit[npin]);
            npin++;
        }
    }
    while (!stuck && ABTD_atomic_acquire_load_int(&s_done) < ABTD_atomic_acquire_load_int(&s_created)) {
        ABT_thread_yield();
        if (now_s() - t0 > 40)
            stuck = 1;
    }
    ABTD_atomic_release_store_int(&s_stop, 1);
    pthread_join(chk, NULL);
    int total = ABTD_atomic_acquire_load_int(&s_created);
    if (stuck) {
        oprintf("S FAIL stuck done=%d created=%d", ABTD_atomic_acquire_load_int(&s_done), total);
        /* cannot clean up a stuck runtime */
        fputs(ob, stdout);
        fputs("\n", stdout);
        fflush(stdout);
        _exit(0);
    }
    /* the streams finish (and free) the work units that are still terminating */
    for (i = 0; i < nes; i++) {
        ABT_xstream_join(xs[i]);
        ABT_xstream_free(&xs[i]);
    }
    int bad_runs = 0;
    for (i = 0; i < total; i++)
        if (ABTD_atomic_acquire_load_int(&s_ran[i]) != 1)
            bad_runs++;
    int live = 0;
    for (i = 0; i < S_SLOTS; i++)
        live += ABTD_atomic_acquire_load_int(&s_slot_live[i]);
    int e_dup = ABTD_atomic_acquire_load_int(&s_err_dup), e_df = ABTD_atomic_acquire_load_int(&s_err_dfree),
        e_lk = ABTD_atomic_acquire_load_int(&s_err_lookup);
    int cr = ABTD_atomic_acquire_load_int(&s_creates), fr = ABTD_atomic_acquire_load_int(&s_frees);
    /* all pinned / parked units are still mapped to their threads */
    for (i = 0; i < npin; i++) {
        ABT_thread t = ABT_THREAD_NULL;
        ABT_unit_get_thread(s_pin_unit[i], &t);
        if (t != s_pin_thread[i])
            e_lk++;
    }
    if (e_dup || e_df || e_lk || bad_runs || live != npin || cr != fr + npin)
        oprintf("S FAIL wrong_lookup=%d create_of_live=%d free_of_dead=%d runs!=1:%d live=%d creates=%d frees=%d",
                e_lk, e_dup, e_df, bad_runs, live, cr, fr);
    else
        oprintf("S ok");
    if (getenv("VERIF_C14_VERBOSE"))
        fprintf(stderr, "storm: units=%d parked=%d creates=%d same_handle_moves=%d lookups=%d nounit=%d %.2fs\n",
                total, npin, cr, ABTD_atomic_acquire_load_int(&s_samehandle),
                ABTD_atomic_acquire_load_int(&s_lookups), ABTD_atomic_acquire_load_int(&s_err_nounit),
                now_s() - t0);
    /* pinned / parked units: run (they return at once) and free */
    for (i = 0; i < npin; i++) {
        ABT_thread t;
        ABT_pool_pop_thread(SP[2].h, &t);
    }
    for (i = 0; i < npin; i++) {
        ABT_self_schedule(s_pin_thread[i], ABT_POOL_NULL);
        ABT_thread_free(&s_pin_thread[i]);
    }
    for (i = 0; i < 3; i++)
        ABT_pool_free(&SP[i].h);
    ABT_finalize();
    free(s_args);
    free((void *)s_ran);
}

/* ------------------------------------------------------------------ */
#include <signal.h>
static void on_alarm(int sig)
{
    (void)sig;
    static const char msg[] = "harness watchdog: case did not finish\n";
    if (write(2, msg, sizeof(msg) - 1) < 0) {
    }
    _exit(124);
}

int main(int argc, char **argv)
{
    signal(SIGALRM, on_alarm);
    FILE *f = argc > 1 ? fopen(argv[1], "r") : stdin;
    if (!f)
        VH_DIE("cannot open case file");
    arena_init();
    char *line;
    while ((line = vh_getline(f))) {
        if (line[0] == 0 || line[0] == '#') {
            free(line);
            continue;
        }
        ob_n = 0;
        lb_n = 0;
        alarm(line[0] == 'S' ? 90 : 4);
        if (lb)
            lb[0] = 0;
        if (line[0] == 'S') {
            do_s(line);
        } else if (line[0] == 'N') {
            /* the value of the null unit handle in this configuration */
            oprintf("N %lu", (unsigned long)(uintptr_t)ABT_UNIT_NULL);
        } else {
            char *semi = strchr(line, ';');
            if (!semi)
                VH_DIE("bad case");
            *semi = 0;
            char kinds[16] = "";
            char m;
            sscanf(line, " %c %15s", &m, kinds);
            if (m == 'T')
                do_t(semi + 1);
            else if (m == 'W')
                do_w(kinds, semi + 1);
            else if (m == 'A')
                do_a(kinds, semi + 1);
            else
                VH_DIE("bad mode");
        }
        fputs(ob, stdout);
        fputs("\n", stdout);
        fflush(stdout);
        free(line);
    }
    return 0;
}
