/* C07 harness (sequential part): runs call sequences through the PUBLIC pool
 * API of the library built from /repo's working tree and prints, per case,
 * the observable results and a white-box dump of the queue after every call
 * (same canonical format as ocaml/drv_c07.ml).
 *
 *   Q <F|W|R> <P|SS|MS|SM|MM> <nunits> <g> ; op , op , ...
 *     g = initial spinlock word of a PRIV FIFO/RANDWS pool: 0 = the harness
 *         clears it right after creation (the library does not initialise it
 *         for PRIV, so 0 is one legitimate malloc result); n = "natural": the
 *         heap is dirtied before the pool is created and the word is left as
 *         pool_init left it; the line is then prefixed with "G<0|1> " (the
 *         value found) so that the model can be run from the same state.
 *   ops: pt u | px u ctx | pm u.. | pmx ctx u.. | ot | ox ctx | om len |
 *        omx ctx len | ow | owx ctx | lp u | lo | lw | lt | lr u | gs | gt | ie
 *
 * Units are ULTs created on a parking pool no scheduler ever looks at and
 * popped off it again, so they are never run while a case uses them; they
 * are reused across cases and run/freed at the end. */
#include "abti.h"
#include "pool/thread_queue.h"
#include "vh_common.h"
#include <pthread.h>
#include <stdarg.h>
#include <setjmp.h>
#include <signal.h>
#include <sys/time.h>

#define NU_MAX 8
#define SENT ((size_t)777777)

/* layout mirrors of the file-local "struct data" of the three pool files */
struct spin_data {
    ABTD_spinlock mutex;
    thread_queue_t queue;
}; /* fifo.c:45, randws.c:51 */
struct wait_data {
    pthread_mutex_t mutex;
    pthread_cond_t cond;
    thread_queue_t queue;
}; /* fifo_wait.c:34 */

static ABT_thread g_units[NU_MAX];
static ABTI_thread *g_ptrs[NU_MAX];
static int g_nu;

static void unit_fn(void *arg)
{
    (void)arg;
}

static const char *id_of(ABTI_thread *p, char *buf)
{
    int i;
    if (!p)
        return "N";
    for (i = 0; i < NU_MAX; i++)
        if (g_ptrs[i] == p) {
            sprintf(buf, "%d", i);
            return buf;
        }
    return "?";
}

static const char *id_of_handle(ABT_thread t, char *buf)
{
    return id_of(t == ABT_THREAD_NULL ? NULL : (ABTI_thread *)t, buf);
}

static const char *id_of_unit(ABT_unit u, char *buf)
{
    int i;
    if (u == ABT_UNIT_NULL)
        return "N";
    for (i = 0; i < NU_MAX; i++) {
        ABT_unit uu;
        ABT_thread_get_unit(g_units[i], &uu);
        if (uu == u) {
            sprintf(buf, "%d", i);
            return buf;
        }
    }
    return "?";
}

typedef struct {
    char *s;
    size_t len, cap;
} sbuf;
static void sb_add(sbuf *b, const char *fmt, ...)
{
    va_list ap;
    char tmp[512];
    va_start(ap, fmt);
    int n = vsnprintf(tmp, sizeof(tmp), fmt, ap);
    va_end(ap);
    if (b->len + n + 1 > b->cap) {
        b->cap = (b->cap + n + 1) * 2;
        b->s = realloc(b->s, b->cap);
    }
    memcpy(b->s + b->len, tmp, n + 1);
    b->len += n;
}

static int is_wait_kind;
static thread_queue_t *g_q;
static void *g_data;

static int lock_is_held(void)
{
    if (is_wait_kind) {
        struct wait_data *d = (struct wait_data *)g_data;
        if (pthread_mutex_trylock(&d->mutex) == 0) {
            pthread_mutex_unlock(&d->mutex);
            return 0;
        }
        return 1;
    } else {
        struct spin_data *d = (struct spin_data *)g_data;
        return ABTD_spinlock_is_locked(&d->mutex) ? 1 : 0;
    }
}

static void dump(sbuf *b, int first)
{
    char t1[16], t2[16];
    thread_queue_t *q = g_q;
    size_t i, cap = 4 * NU_MAX;
    sb_add(b, "%sn%zu,h%s,t%s,e%d,l%d,f[", first ? "" : " / ", q->num_threads, id_of(q->p_head, t1),
           id_of(q->p_tail, t2), ABTD_atomic_acquire_load_int(&q->is_empty), lock_is_held());
    ABTI_thread *p = q->p_head;
    for (i = 0; i < q->num_threads && i < cap && p; i++) {
        const char *s = id_of(p, t1);
        sb_add(b, "%s%s", i ? "," : "", s);
        if (s[0] == '?')
            break;
        p = p->p_next;
    }
    sb_add(b, "],b[");
    p = q->p_tail;
    for (i = 0; i < q->num_threads && i < cap && p; i++) {
        const char *s = id_of(p, t1);
        sb_add(b, "%s%s", i ? "," : "", s);
        if (s[0] == '?')
            break;
        p = p->p_prev;
    }
    sb_add(b, "],");
    for (i = 0; i < (size_t)g_nu; i++) {
        sb_add(b, "%s%s.%s.%d", i ? ";" : "", id_of(g_ptrs[i]->p_prev, t1), id_of(g_ptrs[i]->p_next, t2),
               ABTD_atomic_acquire_load_int(&g_ptrs[i]->is_in_pool));
    }
}

static sigjmp_buf g_jmp;
static void on_alarm(int sig)
{
    (void)sig;
    siglongjmp(g_jmp, 1);
}
static void arm(int ms)
{
    struct itimerval it;
    memset(&it, 0, sizeof(it));
    it.it_value.tv_sec = ms / 1000;
    it.it_value.tv_usec = (ms % 1000) * 1000;
    setitimer(ITIMER_REAL, &it, NULL);
}

static ABT_thread handle_arg(const char *s)
{
    if (s[0] == 'N')
        return ABT_THREAD_NULL;
    int i = atoi(s);
    if (i < 0 || i >= NU_MAX)
        VH_DIE("bad unit index %s", s);
    return g_units[i];
}

static void do_op(ABT_pool pool, char *op, sbuf *res)
{
    char *w[40], t1[16];
    int nw = 0, i, ret;
    char *save;
    char *tok = strtok_r(op, " \t", &save);
    while (tok && nw < 40) {
        w[nw++] = tok;
        tok = strtok_r(NULL, " \t", &save);
    }
    if (nw == 0)
        VH_DIE("empty op");
    const char *sp = res->len ? " " : "";
    if (!strcmp(w[0], "pt")) {
        ret = ABT_pool_push_thread(pool, handle_arg(w[1]));
        sb_add(res, "%sc%d", sp, ret);
    } else if (!strcmp(w[0], "px")) {
        ret = ABT_pool_push_thread_ex(pool, handle_arg(w[1]), (ABT_pool_context)strtoull(w[2], NULL, 10));
        sb_add(res, "%sc%d", sp, ret);
    } else if (!strcmp(w[0], "pm") || !strcmp(w[0], "pmx")) {
        ABT_thread ts[40];
        int k = 0, ex = !strcmp(w[0], "pmx");
        for (i = ex ? 2 : 1; i < nw; i++)
            ts[k++] = handle_arg(w[i]);
        if (ex)
            ret = ABT_pool_push_threads_ex(pool, ts, k, (ABT_pool_context)strtoull(w[1], NULL, 10));
        else
            ret = ABT_pool_push_threads(pool, ts, k);
        sb_add(res, "%sc%d", sp, ret);
    } else if (!strcmp(w[0], "ot") || !strcmp(w[0], "ox") || !strcmp(w[0], "ow") || !strcmp(w[0], "owx")) {
        ABT_thread t = (ABT_thread)(uintptr_t)0x5a5a5a50;
        if (!strcmp(w[0], "ot"))
            ret = ABT_pool_pop_thread(pool, &t);
        else if (!strcmp(w[0], "ox"))
            ret = ABT_pool_pop_thread_ex(pool, &t, (ABT_pool_context)strtoull(w[1], NULL, 10));
        else if (!strcmp(w[0], "ow"))
            ret = ABT_pool_pop_wait_thread(pool, &t, 1e-6);
        else
            ret = ABT_pool_pop_wait_thread_ex(pool, &t, 1e-6, (ABT_pool_context)strtoull(w[1], NULL, 10));
        sb_add(res, "%su%d:%s", sp, ret, id_of_handle(t, t1));
    } else if (!strcmp(w[0], "om") || !strcmp(w[0], "omx")) {
        ABT_thread ts[64];
        size_t num = SENT, len;
        if (!strcmp(w[0], "om")) {
            len = strtoul(w[1], NULL, 10);
            ret = ABT_pool_pop_threads(pool, ts, len > 64 ? 64 : len, &num);
        } else {
            len = strtoul(w[2], NULL, 10);
            ret = ABT_pool_pop_threads_ex(pool, ts, len > 64 ? 64 : len, &num,
                                          (ABT_pool_context)strtoull(w[1], NULL, 10));
        }
        if (ret != ABT_SUCCESS)
            sb_add(res, "%sERR%d", sp, ret);
        if (num == SENT) {
            sb_add(res, "%sm-:[]", sp);
        } else {
            sb_add(res, "%sm%zu:[", sp, num);
            for (i = 0; i < (int)num && i < 64; i++)
                sb_add(res, "%s%s", i ? "," : "", id_of_handle(ts[i], t1));
            sb_add(res, "]");
        }
    } else if (!strcmp(w[0], "lp")) {
        ABT_unit u = ABT_UNIT_NULL;
        if (w[1][0] != 'N')
            ABT_thread_get_unit(handle_arg(w[1]), &u);
        ret = ABT_pool_push(pool, u);
        sb_add(res, "%sc%d", sp, ret);
    } else if (!strcmp(w[0], "lo") || !strcmp(w[0], "lw") || !strcmp(w[0], "lt")) {
        ABT_unit u = (ABT_unit)(uintptr_t)0x5a5a5a50;
        if (!strcmp(w[0], "lo"))
            ret = ABT_pool_pop(pool, &u);
        else if (!strcmp(w[0], "lw"))
            ret = ABT_pool_pop_wait(pool, &u, 1e-6);
        else
            ret = ABT_pool_pop_timedwait(pool, &u, ABT_get_wtime() + 1e-6);
        sb_add(res, "%su%d:%s", sp, ret, id_of_unit(u, t1));
    } else if (!strcmp(w[0], "lr")) {
        ABT_unit u;
        ABT_thread_get_unit(handle_arg(w[1]), &u);
        ret = ABT_pool_remove(pool, u);
        sb_add(res, "%sc%d", sp, ret);
    } else if (!strcmp(w[0], "gs") || !strcmp(w[0], "gt")) {
        size_t n = SENT;
        ret = !strcmp(w[0], "gs") ? ABT_pool_get_size(pool, &n) : ABT_pool_get_total_size(pool, &n);
        if (ret != ABT_SUCCESS)
            sb_add(res, "%sERR%d", sp, ret);
        else
            sb_add(res, "%ss%zu", sp, n);
    } else if (!strcmp(w[0], "ie")) {
        ABT_bool b = 7;
        ret = ABT_pool_is_empty(pool, &b);
        if (ret != ABT_SUCCESS)
            sb_add(res, "%sERR%d", sp, ret);
        else
            sb_add(res, "%sb%d", sp, b == ABT_TRUE ? 1 : (b == ABT_FALSE ? 0 : 9));
    } else {
        VH_DIE("unknown op '%s'", w[0]);
    }
}

static void dirty_heap(void)
{
    /* leave non-zero bytes in freed chunks of the size classes ABTU_malloc
     * (posix_memalign 64) may hand to pool_init next */
    void *v[64];
    int i;
    for (i = 0; i < 64; i++) {
        if (posix_memalign(&v[i], 64, 200) != 0)
            VH_DIE("oom");
        memset(v[i], 0xff, 200);
    }
    for (i = 0; i < 64; i++)
        free(v[i]);
}

static void do_case(char *line)
{
    char k[8], a[8], g[8];
    int nu;
    char *semi = strchr(line, ';');
    if (!semi)
        VH_DIE("bad case line");
    *semi = 0;
    if (sscanf(line, "Q %7s %7s %d %7s", k, a, &nu, g) != 4 || nu < 0 || nu > NU_MAX)
        VH_DIE("bad header '%s'", line);
    g_nu = nu;
    ABT_pool_kind kind = k[0] == 'F' ? ABT_POOL_FIFO : (k[0] == 'W' ? ABT_POOL_FIFO_WAIT : ABT_POOL_RANDWS);
    ABT_pool_access acc = !strcmp(a, "P")    ? ABT_POOL_ACCESS_PRIV
                          : !strcmp(a, "SS") ? ABT_POOL_ACCESS_SPSC
                          : !strcmp(a, "MS") ? ABT_POOL_ACCESS_MPSC
                          : !strcmp(a, "SM") ? ABT_POOL_ACCESS_SPMC
                                             : ABT_POOL_ACCESS_MPMC;
    if (g[0] == 'n')
        dirty_heap();
    ABT_pool pool;
    if (ABT_pool_create_basic(kind, acc, ABT_FALSE, &pool) != ABT_SUCCESS)
        VH_DIE("pool_create_basic failed");
    ABTI_pool *pp = (ABTI_pool *)pool;
    g_data = pp->data;
    is_wait_kind = (k[0] == 'W');
    g_q = is_wait_kind ? &((struct wait_data *)g_data)->queue : &((struct spin_data *)g_data)->queue;
    int may_hang = 0;
    if (!is_wait_kind && acc == ABT_POOL_ACCESS_PRIV) {
        struct spin_data *d = (struct spin_data *)g_data;
        if (g[0] == '0') {
            /* the "lucky malloc" initial state (and the state after a pool_init
             * that clears the lock) */
            ABTD_spinlock_clear(&d->mutex);
        } else if (g[0] != 'n') {
            VH_DIE("g must be 0 or n");
        } else {
            may_hang = 1;
            printf("G%d ", ABTD_spinlock_is_locked(&d->mutex) ? 1 : 0);
        }
    }
    sbuf res = { NULL, 0, 0 }, dmp = { NULL, 0, 0 };
    sb_add(&res, "");
    sb_add(&dmp, "");
    char *save;
    char *op = strtok_r(semi + 1, ",", &save);
    int first = 1;
    struct sigaction sa;
    memset(&sa, 0, sizeof(sa));
    sa.sa_handler = on_alarm;
    sigaction(SIGALRM, &sa, NULL);
    while (op) {
        while (*op == ' ')
            op++;
        if (*op) {
            if (may_hang) {
                if (sigsetjmp(g_jmp, 1)) {
                    sb_add(&res, "%sHANG", res.len ? " " : "");
                    break;
                }
                arm(300);
            }
            do_op(pool, op, &res);
            if (may_hang)
                arm(0);
            dump(&dmp, first);
            first = 0;
        }
        op = strtok_r(NULL, ",", &save);
    }
    printf("%s | %s\n", res.s, dmp.s);
    free(res.s);
    free(dmp.s);
    /* isolate the next case: empty the pool white-box and reset the units */
    int i;
    for (i = 0; i < NU_MAX; i++) {
        g_ptrs[i]->p_prev = NULL;
        g_ptrs[i]->p_next = NULL;
        ABTD_atomic_relaxed_store_int(&g_ptrs[i]->is_in_pool, 0);
    }
    thread_queue_init(g_q);
    if (!is_wait_kind)
        ABTD_spinlock_clear(&((struct spin_data *)g_data)->mutex);
    ABT_pool_free(&pool);
}

int main(int argc, char **argv)
{
    FILE *f = argc > 1 ? fopen(argv[1], "r") : stdin;
    if (!f)
        VH_DIE("cannot open case file");
    setvbuf(stdout, NULL, _IOLBF, 0);
    if (ABT_init(0, NULL) != ABT_SUCCESS)
        VH_DIE("ABT_init");
    ABT_pool park;
    if (ABT_pool_create_basic(ABT_POOL_FIFO, ABT_POOL_ACCESS_MPMC, ABT_FALSE, &park) != ABT_SUCCESS)
        VH_DIE("park pool");
    int i;
    for (i = 0; i < NU_MAX; i++) {
        ABT_thread t;
        if (ABT_thread_create(park, unit_fn, NULL, ABT_THREAD_ATTR_NULL, &g_units[i]) != ABT_SUCCESS)
            VH_DIE("thread_create");
        if (ABT_pool_pop_thread(park, &t) != ABT_SUCCESS || t != g_units[i])
            VH_DIE("park pop");
        g_ptrs[i] = (ABTI_thread *)g_units[i];
    }
    char *line;
    while ((line = vh_getline(f)) != NULL) {
        if (line[0] && line[0] != '#')
            do_case(line);
        free(line);
    }
    /* run and free the units on the primary execution stream */
    ABT_xstream xs;
    ABT_pool mainpool;
    ABT_xstream_self(&xs);
    ABT_xstream_get_main_pools(xs, 1, &mainpool);
    for (i = 0; i < NU_MAX; i++)
        ABT_pool_push_thread(mainpool, g_units[i]);
    for (i = 0; i < NU_MAX; i++)
        ABT_thread_free(&g_units[i]);
    ABT_pool_free(&park);
    ABT_finalize();
    return 0;
}
