/* C18 scenarios (included by h_c18.c).  The scenario name is also the name of
 * the Coq routine (coq/Fault/Routines.v, table `scenarios`) that models the
 * call.  Every scenario: setup (populate the runtime), call (the routine under
 * fault injection; output handle in g_h), use_free (exercise and release the
 * created object), teardown (release what setup created). */

/* ---------------------------------------------------------------- common */
static ABT_sched g_sched0 = ABT_SCHED_NULL;
static ABT_pool g_pool0 = ABT_POOL_NULL, g_pool1 = ABT_POOL_NULL, g_upool = ABT_POOL_NULL;
static ABT_xstream g_xs1 = ABT_XSTREAM_NULL, g_xs2 = ABT_XSTREAM_NULL;
static ABT_thread g_thr0 = ABT_THREAD_NULL, g_thr1 = ABT_THREAD_NULL, g_thrs[8];
static ABT_key g_key0 = ABT_KEY_NULL, g_key1 = ABT_KEY_NULL;
static ABT_thread_attr g_attr = ABT_THREAD_ATTR_NULL;
static ABT_sched_config g_scfg = ABT_SCHED_CONFIG_NULL;
static ABT_pool_config g_pcfg = ABT_POOL_CONFIG_NULL;
static ABT_mutex_attr g_mattr = ABT_MUTEX_ATTR_NULL;
static ABT_timer g_timer0 = ABT_TIMER_NULL;
static char g_userstack[32768] __attribute__((aligned(64)));
static int g_cb_called;

static void reg_primary(void)
{
    ABT_xstream x;
    ABT_thread t;
    ABT_sched s;
    ABT_pool p;
    CK(ABT_xstream_self(&x));
    CK(ABT_thread_self(&t));
    CK(ABT_xstream_get_main_sched(x, &s));
    CK(ABT_xstream_get_main_pools(x, 1, &p));
    REG(R_xs, n_xs, x);
    REG(R_thr, n_thr, t);
    REG(R_sched, n_sched, s);
    REG(R_pool, n_pool, p);
}
static void s_plain(void)
{
    reg_primary();
}
static void wu_block(void *arg)
{
    /* yields until released */
    volatile int *go = (volatile int *)arg;
    while (!*go)
        ABT_thread_yield();
    __atomic_fetch_add(&g_ran, 1, __ATOMIC_SEQ_CST);
}
static void mig_cb(ABT_thread t, void *arg)
{
    (void)t;
    (void)arg;
    g_cb_called++;
}
/* a populated runtime: two more running streams, pools holding ready units,
 * keys with values, a mutex, a user-defined pool with a queued unit */
static volatile int g_go;
static void s_populated(void)
{
    reg_primary();
    CK(ABT_xstream_create(ABT_SCHED_NULL, &g_xs1));
    CK(ABT_pool_create_basic(ABT_POOL_FIFO, ABT_POOL_ACCESS_MPMC, ABT_FALSE, &g_pool0));
    CK(ABT_sched_create_basic(ABT_SCHED_BASIC, 1, &g_pool0, ABT_SCHED_CONFIG_NULL, &g_sched0));
    CK(ABT_xstream_create(g_sched0, &g_xs2));
    REG(R_xs, n_xs, g_xs1);
    REG(R_xs, n_xs, g_xs2);
    REG(R_pool, n_pool, g_pool0);
    REG(R_sched, n_sched, g_sched0);
    CK(ABT_key_create(NULL, &g_key0));
    CK(ABT_key_create(NULL, &g_key1));
    REG(R_key, n_key, g_key0);
    REG(R_key, n_key, g_key1);
    CK(ABT_self_set_specific(g_key0, (void *)0x100));
    /* a pool nobody schedules, holding two ready ULTs (one with key values) */
    CK(ABT_pool_create_basic(ABT_POOL_FIFO, ABT_POOL_ACCESS_MPMC, ABT_FALSE, &g_pool1));
    REG(R_pool, n_pool, g_pool1);
    CK(ABT_thread_create(g_pool1, wu_count, (void *)0x1, ABT_THREAD_ATTR_NULL, &g_thr0));
    CK(ABT_thread_create(g_pool1, wu_count, (void *)0x2, ABT_THREAD_ATTR_NULL, &g_thr1));
    CK(ABT_thread_set_specific(g_thr0, g_key1, (void *)0x200));
    REG(R_thr, n_thr, g_thr0);
    REG(R_thr, n_thr, g_thr1);
    g_upool = make_userpool();
    REG(R_pool, n_pool, g_upool);
    CK(ABT_thread_create(g_upool, wu_count, (void *)0x3, ABT_THREAD_ATTR_NULL, &g_thrs[0]));
    REG(R_thr, n_thr, g_thrs[0]);
    ABT_mutex m;
    CK(ABT_mutex_create(&m));
    REG(R_mutex, n_mutex, m);
}
static void td_populated(void)
{
    /* everything queued must still be runnable */
    int before = g_ran;
    drain_userpool(g_upool);
    for (int i = 0; i < 2; i++) {
        ABT_thread t = ABT_THREAD_NULL;
        CK(ABT_pool_pop_thread(g_pool1, &t));
        if (t == ABT_THREAD_NULL)
            DIE("queued unit vanished");
        CK(ABT_self_schedule(t, ABT_POOL_NULL));
    }
    if (g_ran != before + 3)
        DIE("pre-existing units did not all run (%d)", g_ran - before);
    void *v = NULL;
    CK(ABT_thread_get_specific(g_thr0, g_key1, &v));
    if (v != (void *)0x200)
        DIE("key value of a pre-existing unit lost");
    CK(ABT_thread_free(&g_thr0));
    CK(ABT_thread_free(&g_thr1));
    CK(ABT_thread_free(&g_thrs[0]));
    CK(ABT_xstream_join(g_xs1));
    CK(ABT_xstream_free(&g_xs1));
    CK(ABT_xstream_join(g_xs2));
    CK(ABT_xstream_free(&g_xs2));
    CK(ABT_pool_free(&g_pool0));
    CK(ABT_pool_free(&g_pool1));
    CK(ABT_pool_free(&g_upool));
    CK(ABT_key_free(&g_key0));
    CK(ABT_key_free(&g_key1));
    CK(ABT_mutex_free(&R_mutex[0]));
}

/* ------------------------------------------------------------ ABT_init */
static int c_init(void)
{
    return ABT_init(0, NULL);
}
static int hs_init(void)
{
    /* the "handle" of ABT_init is the global runtime pointer */
    return gp_ABTI_global == NULL ? 1 : 2;
}
static void uf_init(void)
{
    const char *r = followup(0);
    if (r)
        DIE("workload after ABT_init failed: %s", r);
}

/* ------------------------------------------------------- xstream create */
static int c_xstream_create(void)
{
    return ABT_xstream_create(ABT_SCHED_NULL, (ABT_xstream *)&g_h);
}
static void uf_xstream(void)
{
    ABT_xstream x = (ABT_xstream)g_h;
    ABT_thread t;
    int before = g_ran;
    CK(ABT_thread_create_on_xstream(x, wu_count, NULL, ABT_THREAD_ATTR_NULL, &t));
    CK(ABT_thread_free(&t));
    if (g_ran != before + 1)
        DIE("new xstream did not run the unit");
    CK(ABT_xstream_join(x));
    CK(ABT_xstream_free(&x));
}
/* user-provided scheduler (basic, on a pool of ours) */
static void s_xstream_sched(void)
{
    reg_primary();
    CK(ABT_pool_create_basic(ABT_POOL_FIFO, ABT_POOL_ACCESS_MPMC, ABT_FALSE, &g_pool0));
    CK(ABT_sched_create_basic(ABT_SCHED_BASIC, 1, &g_pool0, ABT_SCHED_CONFIG_NULL, &g_sched0));
    REG(R_pool, n_pool, g_pool0);
    REG(R_sched, n_sched, g_sched0);
}
static int c_xstream_create_sched(void)
{
    return ABT_xstream_create(g_sched0, (ABT_xstream *)&g_h);
}
static void uf_xstream_sched(void)
{
    ABT_xstream x = (ABT_xstream)g_h;
    ABT_thread t;
    int before = g_ran;
    CK(ABT_thread_create(g_pool0, wu_count, NULL, ABT_THREAD_ATTR_NULL, &t));
    CK(ABT_thread_free(&t));
    if (g_ran != before + 1)
        DIE("new xstream did not run the unit");
    CK(ABT_xstream_join(x));
    CK(ABT_xstream_free(&x)); /* frees the automatic scheduler; the pool is ours */
    g_sched0 = ABT_SCHED_NULL;
}
static void td_xstream_sched(void)
{
    if (g_sched0 != ABT_SCHED_NULL)
        CK(ABT_sched_free(&g_sched0));
    CK(ABT_pool_free(&g_pool0));
}
/* create_basic with one pool of ours and one to be created */
static void s_pool0(void)
{
    reg_primary();
    CK(ABT_pool_create_basic(ABT_POOL_FIFO, ABT_POOL_ACCESS_MPMC, ABT_FALSE, &g_pool0));
    REG(R_pool, n_pool, g_pool0);
}
static int c_xstream_create_basic(void)
{
    ABT_pool pools[2] = { g_pool0, ABT_POOL_NULL };
    return ABT_xstream_create_basic(ABT_SCHED_BASIC, 2, pools, ABT_SCHED_CONFIG_NULL, (ABT_xstream *)&g_h);
}
static void uf_xstream_pool0(void)
{
    ABT_xstream x = (ABT_xstream)g_h;
    ABT_thread t;
    int before = g_ran;
    CK(ABT_thread_create(g_pool0, wu_count, NULL, ABT_THREAD_ATTR_NULL, &t));
    CK(ABT_thread_free(&t));
    if (g_ran != before + 1)
        DIE("new xstream did not run the unit");
    CK(ABT_xstream_join(x));
    CK(ABT_xstream_free(&x));
}
static void td_pool0(void)
{
    CK(ABT_pool_free(&g_pool0));
}
static int c_xstream_create_rank(void)
{
    return ABT_xstream_create_with_rank(ABT_SCHED_NULL, 5, (ABT_xstream *)&g_h);
}
static int c_xstream_create_rank_sched(void)
{
    return ABT_xstream_create_with_rank(g_sched0, 5, (ABT_xstream *)&g_h);
}
static void uf_xstream_rank(void)
{
    int r = -1;
    CK(ABT_xstream_get_rank((ABT_xstream)g_h, &r));
    if (r != 5)
        DIE("rank %d", r);
    uf_xstream();
}
static int c_xstream_create_rank1(void)
{
    return ABT_xstream_create_with_rank(ABT_SCHED_NULL, 1, (ABT_xstream *)&g_h);
}

/* -------------------------------------------------------- set_main_sched */
static ABT_pool make_userpool_auto(void)
{
    ABT_pool_config c;
    ABT_pool p;
    const int one = 1;
    CK(ABT_pool_config_create(&c));
    CK(ABT_pool_config_set(c, ABT_pool_config_automatic.key, ABT_POOL_CONFIG_INT, &one));
    CK(ABT_pool_create(userpool_def(), c, &p));
    CK(ABT_pool_config_free(&c));
    return p;
}
static int c_set_main_sched(void)
{
    ABT_xstream x;
    CK(ABT_xstream_self(&x));
    return ABT_xstream_set_main_sched(x, ABT_SCHED_NULL);
}
static void uf_workload(void)
{
    const char *r = followup(0);
    if (r)
        DIE("workload after the call failed: %s", r);
}
/* new main scheduler whose first pool is user-defined: the caller's unit must
 * be re-associated (unit + map) after the scheduler has been built */
static void s_set_main_sched_user(void)
{
    reg_primary();
    g_upool = make_userpool_auto();
    REG(R_pool, n_pool, g_upool);
    CK(ABT_sched_create_basic(ABT_SCHED_BASIC, 1, &g_upool, ABT_SCHED_CONFIG_NULL, &g_sched0));
    REG(R_sched, n_sched, g_sched0);
}
static int c_set_main_sched_user(void)
{
    ABT_xstream x;
    CK(ABT_xstream_self(&x));
    return ABT_xstream_set_main_sched(x, g_sched0);
}
static void s_upool_auto(void)
{
    reg_primary();
    g_upool = make_userpool_auto();
    REG(R_pool, n_pool, g_upool);
}
static int c_set_main_sched_basic_user(void)
{
    ABT_xstream x;
    CK(ABT_xstream_self(&x));
    return ABT_xstream_set_main_sched_basic(x, ABT_SCHED_BASIC, 1, &g_upool);
}
/* change the scheduler of a joined secondary stream (other-stream path) */
static void s_set_main_sched_other(void)
{
    reg_primary();
    CK(ABT_xstream_create(ABT_SCHED_NULL, &g_xs1));
    CK(ABT_xstream_join(g_xs1));
    REG(R_xs, n_xs, g_xs1);
    g_upool = make_userpool_auto();
    REG(R_pool, n_pool, g_upool);
    CK(ABT_sched_create_basic(ABT_SCHED_BASIC, 1, &g_upool, ABT_SCHED_CONFIG_NULL, &g_sched0));
    REG(R_sched, n_sched, g_sched0);
}
static int c_set_main_sched_other(void)
{
    return ABT_xstream_set_main_sched(g_xs1, g_sched0);
}
static void uf_set_main_sched_other(void)
{
    /* the stream must be revivable with its new scheduler and run a unit */
    ABT_thread t;
    int before = g_ran;
    CK(ABT_xstream_revive(g_xs1));
    CK(ABT_thread_create(g_upool, wu_count, NULL, ABT_THREAD_ATTR_NULL, &t));
    CK(ABT_thread_free(&t));
    if (g_ran != before + 1)
        DIE("unit did not run");
}
static void td_xs1(void)
{
    ABT_xstream_state st;
    CK(ABT_xstream_get_state(g_xs1, &st));
    if (st == ABT_XSTREAM_STATE_RUNNING)
        CK(ABT_xstream_join(g_xs1));
    CK(ABT_xstream_free(&g_xs1));
    if (g_sched0 != ABT_SCHED_NULL) {
        ABTI_sched *ps = ABTI_sched_get_ptr(g_sched0);
        (void)ps;
    }
}
static void td_set_main_sched_other(void)
{
    /* if the call never succeeded the scheduler and pool are still ours */
    ABTI_xstream *px = ABTI_xstream_get_ptr(g_xs1);
    int ours = px->p_main_sched != ABTI_sched_get_ptr(g_sched0);
    td_xs1();
    if (ours)
        CK(ABT_sched_free(&g_sched0)); /* frees the automatic user pool too */
}
static void td_sched0_if_unused(void)
{
    ABTI_sched *ps = ABTI_sched_get_ptr(g_sched0);
    if (ps->used == ABTI_SCHED_NOT_USED)
        CK(ABT_sched_free(&g_sched0));
}
static void td_upool_if_unused(void)
{
    ABTI_pool *pp = ABTI_pool_get_ptr(g_upool);
    if (ABTD_atomic_acquire_load_int32(&pp->num_scheds) == 0)
        CK(ABT_pool_free(&g_upool));
}

/* ------------------------------------------------------ sched / pool create */
static int c_sched_create_basic(void)
{
    return ABT_sched_create_basic(ABT_SCHED_BASIC, 0, NULL, ABT_SCHED_CONFIG_NULL, (ABT_sched *)&g_h);
}
static int c_sched_create_basic_prio(void)
{
    return ABT_sched_create_basic(ABT_SCHED_PRIO, 0, NULL, ABT_SCHED_CONFIG_NULL, (ABT_sched *)&g_h);
}
static int c_sched_create_basic_wait(void)
{
    return ABT_sched_create_basic(ABT_SCHED_BASIC_WAIT, 0, NULL, ABT_SCHED_CONFIG_NULL, (ABT_sched *)&g_h);
}
static int c_sched_create_basic_randws(void)
{
    return ABT_sched_create_basic(ABT_SCHED_RANDWS, 0, NULL, ABT_SCHED_CONFIG_NULL, (ABT_sched *)&g_h);
}
static void uf_sched(void)
{
    /* use it as the scheduler of a new stream, run a unit, release */
    ABT_sched s = (ABT_sched)g_h;
    ABT_xstream x;
    ABT_pool p;
    ABT_thread t;
    int before = g_ran;
    CK(ABT_sched_get_pools(s, 1, 0, &p));
    CK(ABT_xstream_create(s, &x));
    CK(ABT_thread_create(p, wu_count, NULL, ABT_THREAD_ATTR_NULL, &t));
    CK(ABT_thread_free(&t));
    if (g_ran != before + 1)
        DIE("unit did not run");
    CK(ABT_xstream_join(x));
    CK(ABT_xstream_free(&x));
}
static void uf_sched_free(void)
{
    ABT_sched s = (ABT_sched)g_h;
    CK(ABT_sched_free(&s));
}
static void s_two_pools(void)
{
    reg_primary();
    CK(ABT_pool_create_basic(ABT_POOL_FIFO, ABT_POOL_ACCESS_MPMC, ABT_FALSE, &g_pool0));
    CK(ABT_pool_create_basic(ABT_POOL_FIFO, ABT_POOL_ACCESS_MPMC, ABT_FALSE, &g_pool1));
    REG(R_pool, n_pool, g_pool0);
    REG(R_pool, n_pool, g_pool1);
}
static void td_two_pools(void)
{
    CK(ABT_pool_free(&g_pool0));
    CK(ABT_pool_free(&g_pool1));
}
static int c_sched_create_basic_pools(void)
{
    ABT_pool pools[3] = { g_pool0, ABT_POOL_NULL, g_pool1 };
    return ABT_sched_create_basic(ABT_SCHED_BASIC, 3, pools, ABT_SCHED_CONFIG_NULL, (ABT_sched *)&g_h);
}
/* user-defined scheduler whose init allocates */
static int us_init(ABT_sched sched, ABT_sched_config config)
{
    (void)config;
    void *d = malloc(40);
    if (!d)
        return ABT_ERR_MEM;
    int r = ABT_sched_set_data(sched, d);
    if (r != ABT_SUCCESS) {
        free(d);
        return r;
    }
    return ABT_SUCCESS;
}
static void us_run(ABT_sched sched)
{
    ABT_pool p;
    ABT_sched_get_pools(sched, 1, 0, &p);
    while (1) {
        ABT_thread t = ABT_THREAD_NULL;
        ABT_pool_pop_thread(p, &t);
        if (t != ABT_THREAD_NULL)
            ABT_self_schedule(t, ABT_POOL_NULL);
        ABT_bool stop;
        ABT_sched_has_to_stop(sched, &stop);
        if (stop)
            break;
        ABT_xstream_check_events(sched);
    }
}
static int us_free(ABT_sched sched)
{
    void *d = NULL;
    ABT_sched_get_data(sched, &d);
    free(d);
    return ABT_SUCCESS;
}
static ABT_sched_def g_usdef = { ABT_SCHED_TYPE_ULT, us_init, us_run, us_free, NULL };
static int c_sched_create_user(void)
{
    ABT_pool pools[2] = { g_pool0, ABT_POOL_NULL };
    return ABT_sched_create(&g_usdef, 2, pools, ABT_SCHED_CONFIG_NULL, (ABT_sched *)&g_h);
}
static int c_pool_create_basic_fifo(void)
{
    return ABT_pool_create_basic(ABT_POOL_FIFO, ABT_POOL_ACCESS_MPMC, ABT_FALSE, (ABT_pool *)&g_h);
}
static int c_pool_create_basic_fifo_wait(void)
{
    return ABT_pool_create_basic(ABT_POOL_FIFO_WAIT, ABT_POOL_ACCESS_MPMC, ABT_FALSE, (ABT_pool *)&g_h);
}
static int c_pool_create_basic_randws(void)
{
    return ABT_pool_create_basic(ABT_POOL_RANDWS, ABT_POOL_ACCESS_MPMC, ABT_FALSE, (ABT_pool *)&g_h);
}
static void uf_pool(void)
{
    ABT_pool p = (ABT_pool)g_h;
    ABT_thread t, q = ABT_THREAD_NULL;
    int before = g_ran;
    CK(ABT_thread_create(p, wu_count, NULL, ABT_THREAD_ATTR_NULL, &t));
    CK(ABT_pool_pop_thread(p, &q));
    if (q != t)
        DIE("pool lost the unit");
    CK(ABT_self_schedule(q, ABT_POOL_NULL));
    CK(ABT_thread_free(&t));
    if (g_ran != before + 1)
        DIE("unit did not run");
    CK(ABT_pool_free(&p));
}
static void s_userdef(void)
{
    reg_primary();
    (void)userpool_def();
}
static int c_pool_create_user(void)
{
    return ABT_pool_create(userpool_def(), ABT_POOL_CONFIG_NULL, (ABT_pool *)&g_h);
}
static int c_pool_create_old(void)
{
    ABT_pool_def d;
    fill_old_def(&d);
    return ABT_pool_create((ABT_pool_user_def)&d, ABT_POOL_CONFIG_NULL, (ABT_pool *)&g_h);
}
static int c_pool_user_def_create(void)
{
    return ABT_pool_user_def_create(up_create_unit, up_free_unit, up_is_empty, up_pop, up_push, (ABT_pool_user_def *)&g_h);
}
static void uf_pool_user_def(void)
{
    ABT_pool_user_def d = (ABT_pool_user_def)g_h;
    ABT_pool p;
    CK(ABT_pool_user_def_set_init(d, up_init));
    CK(ABT_pool_user_def_set_free(d, up_free));
    CK(ABT_pool_create(d, ABT_POOL_CONFIG_NULL, &p));
    CK(ABT_pool_free(&p));
    CK(ABT_pool_user_def_free(&d));
}
/* configuration objects (hashtable: colliding keys allocate elements) */
static ABT_sched_config_var g_v1 = { 1, ABT_SCHED_CONFIG_INT }, g_v9 = { 9, ABT_SCHED_CONFIG_INT },
                            g_v17 = { 17, ABT_SCHED_CONFIG_INT };
static int c_sched_config_create(void)
{
    return ABT_sched_config_create((ABT_sched_config *)&g_h, g_v1, 11, g_v9, 99, g_v17, 1717, ABT_sched_config_var_end);
}
static void uf_sched_config(void)
{
    ABT_sched_config c = (ABT_sched_config)g_h;
    int v = 0;
    CK(ABT_sched_config_read(c, 3, NULL, NULL, NULL)); /* no-op read */
    CK(ABT_sched_config_get(c, 9, NULL, &v));
    if (v != 99)
        DIE("config value %d", v);
    CK(ABT_sched_config_free(&c));
}
static void s_sched_config(void)
{
    reg_primary();
    CK(ABT_sched_config_create(&g_scfg, g_v1, 11, ABT_sched_config_var_end));
}
static int c_sched_config_set(void)
{
    const int v = 99;
    return ABT_sched_config_set(g_scfg, 9, ABT_SCHED_CONFIG_INT, &v);
}
static int cfg_sig_sched(void)
{
    int a = -1, b = -1;
    ABT_sched_config_type t;
    int ra = ABT_sched_config_get(g_scfg, 1, &t, &a);
    int rb = ABT_sched_config_get(g_scfg, 9, &t, &b);
    return (ra * 7 + rb) * 1000 + a * 10 + (rb == ABT_SUCCESS ? b : 0) % 10;
}
static void uf_sched_config_set(void)
{
    int v = 0;
    CK(ABT_sched_config_get(g_scfg, 9, NULL, &v));
    if (v != 99)
        DIE("config value %d", v);
}
static void td_sched_config(void)
{
    int v = 0;
    CK(ABT_sched_config_get(g_scfg, 1, NULL, &v));
    if (v != 11)
        DIE("pre-existing config value lost (%d)", v);
    CK(ABT_sched_config_free(&g_scfg));
}
static int c_pool_config_create(void)
{
    return ABT_pool_config_create((ABT_pool_config *)&g_h);
}
static void uf_pool_config(void)
{
    ABT_pool_config c = (ABT_pool_config)g_h;
    const int v = 5;
    CK(ABT_pool_config_set(c, 2, ABT_POOL_CONFIG_INT, &v));
    CK(ABT_pool_config_free(&c));
}
static void s_pool_config(void)
{
    const int v = 11;
    reg_primary();
    CK(ABT_pool_config_create(&g_pcfg));
    CK(ABT_pool_config_set(g_pcfg, 1, ABT_POOL_CONFIG_INT, &v));
}
static int c_pool_config_set(void)
{
    const int v = 99;
    return ABT_pool_config_set(g_pcfg, 9, ABT_POOL_CONFIG_INT, &v);
}
static void uf_pool_config_set(void)
{
    int v = 0;
    CK(ABT_pool_config_get(g_pcfg, 9, NULL, &v));
    if (v != 99)
        DIE("config value %d", v);
}
static void td_pool_config(void)
{
    int v = 0;
    CK(ABT_pool_config_get(g_pcfg, 1, NULL, &v));
    if (v != 11)
        DIE("pre-existing config value lost (%d)", v);
    CK(ABT_pool_config_free(&g_pcfg));
}
/* stackable scheduler pushed to a pool */
static void s_add_sched(void)
{
    reg_primary();
    CK(ABT_pool_create_basic(ABT_POOL_FIFO, ABT_POOL_ACCESS_MPMC, ABT_FALSE, &g_pool0));
    REG(R_pool, n_pool, g_pool0);
    CK(ABT_sched_create_basic(ABT_SCHED_BASIC, 0, NULL, ABT_SCHED_CONFIG_NULL, &g_sched0)); /* automatic */
    REG(R_sched, n_sched, g_sched0);
}
static int c_pool_add_sched(void)
{
    return ABT_pool_add_sched(g_pool0, g_sched0);
}
static void run_stacked_sched(ABT_pool pool)
{
    /* run the scheduler unit queued in `pool`; it finishes at once */
    ABT_thread t = ABT_THREAD_NULL;
    CK(ABT_sched_finish(g_sched0));
    CK(ABT_pool_pop_thread(pool, &t));
    if (t == ABT_THREAD_NULL)
        DIE("scheduler unit not queued");
    CK(ABT_self_schedule(t, ABT_POOL_NULL));
}
static void uf_pool_add_sched(void)
{
    run_stacked_sched(g_pool0); /* automatic scheduler: freed when its unit ends */
    g_sched0 = ABT_SCHED_NULL;
    n_sched--;
}
static void td_add_sched(void)
{
    if (g_sched0 != ABT_SCHED_NULL)
        CK(ABT_sched_free(&g_sched0));
    CK(ABT_pool_free(&g_pool0));
}
static void s_add_sched_user(void)
{
    reg_primary();
    g_pool0 = make_userpool();
    REG(R_pool, n_pool, g_pool0);
    CK(ABT_sched_create_basic(ABT_SCHED_BASIC, 0, NULL, ABT_SCHED_CONFIG_NULL, &g_sched0)); /* automatic */
    REG(R_sched, n_sched, g_sched0);
}
static void s_add_sched_user_noauto(void)
{
    reg_primary();
    g_pool0 = make_userpool();
    REG(R_pool, n_pool, g_pool0);
    ABT_sched_config c;
    CK(ABT_sched_config_create(&c, ABT_sched_config_automatic, 0, ABT_sched_config_var_end));
    CK(ABT_sched_create_basic(ABT_SCHED_BASIC, 0, NULL, c, &g_sched0));
    CK(ABT_sched_config_free(&c));
    REG(R_sched, n_sched, g_sched0);
}
static void uf_pool_add_sched_noauto(void)
{
    run_stacked_sched(g_pool0);
}

/* ---------------------------------------------------------- thread create */
static int c_thread_create(void)
{
    return ABT_thread_create(R_pool[0], wu_count, NULL, ABT_THREAD_ATTR_NULL, (ABT_thread *)&g_h);
}
static void uf_thread(void)
{
    ABT_thread t = (ABT_thread)g_h;
    int before = g_ran;
    CK(ABT_thread_free(&t));
    if (g_ran != before + 1)
        DIE("created unit did not run");
}
/* white box: will the next stack / descriptor allocation of this stream need a
 * fresh page from the OS? */
static int lifo_empty(ABTI_sync_lifo *l)
{
    void *top;
    size_t tag;
    ABTD_atomic_relaxed_load_non_atomic_tagged_ptr(&l->p_top, &top, &tag);
    return top == NULL;
}
static int pool_needs_page(ABTI_mem_pool_local_pool *lp)
{
    if (!(lp->bucket_index == 0 && lp->buckets[0]->bucket_info.num_headers == 1))
        return 0;
    ABTI_mem_pool_global_pool *g = lp->p_global_pool;
    return lifo_empty(&g->bucket_lifo) && lifo_empty(&g->mem_page_lifo) && g->partial_bucket == NULL;
}
/* the next allocation needs a refill, no complete bucket is available, and the page the refill will start
 * from holds fewer blocks than a bucket: the refill gathers those blocks and then has to obtain a fresh page */
static int pool_needs_page_after_leftover(ABTI_mem_pool_local_pool *lp)
{
    if (!(lp->bucket_index == 0 && lp->buckets[0]->bucket_info.num_headers == 1))
        return 0;
    ABTI_mem_pool_global_pool *g = lp->p_global_pool;
    if (!(lifo_empty(&g->bucket_lifo) && g->partial_bucket == NULL))
        return 0;
    void *top;
    size_t tag;
    ABTD_atomic_relaxed_load_non_atomic_tagged_ptr(&g->mem_page_lifo.p_top, &top, &tag);
    if (!top)
        return 0;
    ABTI_mem_pool_page *pg = (ABTI_mem_pool_page *)top; /* lifo_elem is the first member */
    size_t left = pg->mem_extra_size / g->header_size;
    return left >= 1 && left < g->num_headers_per_bucket && pg->lifo_elem.p_next == NULL;
}
static int n_held;
static ABT_thread g_held[256];
static void s_stack_leftover(void)
{
    reg_primary();
    ABTI_xstream *px = ABTI_xstream_get_ptr(R_xs[0]);
    CK(ABT_pool_create_basic(ABT_POOL_FIFO, ABT_POOL_ACCESS_MPMC, ABT_FALSE, &g_pool1));
    while (!pool_needs_page_after_leftover(&px->mem_pool_stack)) {
        if (n_held >= 250)
            DIE("stack pool never reaches the leftover state");
        CK(ABT_thread_create(g_pool1, wu_count, NULL, ABT_THREAD_ATTR_NULL, &g_held[n_held++]));
    }
}
static void s_stack_exhausted(void)
{
    reg_primary();
    ABTI_xstream *px = ABTI_xstream_get_ptr(R_xs[0]);
    CK(ABT_pool_create_basic(ABT_POOL_FIFO, ABT_POOL_ACCESS_MPMC, ABT_FALSE, &g_pool1));
    while (!pool_needs_page(&px->mem_pool_stack)) {
        if (n_held >= 250)
            DIE("stack pool never exhausts");
        CK(ABT_thread_create(g_pool1, wu_count, NULL, ABT_THREAD_ATTR_NULL, &g_held[n_held++]));
    }
}
static void td_held(void)
{
    for (int i = 0; i < n_held; i++) {
        ABT_thread t = ABT_THREAD_NULL;
        CK(ABT_pool_pop_thread(g_pool1, &t));
        CK(ABT_self_schedule(t, ABT_POOL_NULL));
    }
    for (int i = 0; i < n_held; i++)
        CK(ABT_thread_free(&g_held[i]));
    CK(ABT_pool_free(&g_pool1));
}
/* the global stack pool has neither a bucket nor page space left: the local
 * pool of a new stream must obtain a page */
static void s_global_stack_exhausted(void)
{
    reg_primary();
    ABTI_mem_pool_global_pool *g = &gp_ABTI_global->mem_pool_stack;
    CK(ABT_pool_create_basic(ABT_POOL_FIFO, ABT_POOL_ACCESS_MPMC, ABT_FALSE, &g_pool1));
    while (!(lifo_empty(&g->bucket_lifo) && lifo_empty(&g->mem_page_lifo) && g->partial_bucket == NULL)) {
        if (n_held >= 250)
            DIE("global stack pool never exhausts");
        CK(ABT_thread_create(g_pool1, wu_count, NULL, ABT_THREAD_ATTR_NULL, &g_held[n_held++]));
    }
}
static void s_desc_exhausted(void)
{
    reg_primary();
    ABTI_xstream *px = ABTI_xstream_get_ptr(R_xs[0]);
    CK(ABT_pool_create_basic(ABT_POOL_FIFO, ABT_POOL_ACCESS_MPMC, ABT_FALSE, &g_pool1));
    while (!pool_needs_page(&px->mem_pool_desc)) {
        if (n_held >= 250)
            DIE("descriptor pool never exhausts");
        CK(ABT_task_create(g_pool1, wu_count, NULL, (ABT_task *)&g_held[n_held++]));
    }
}
static void s_attr_stacksize(void)
{
    reg_primary();
    CK(ABT_thread_attr_create(&g_attr));
    CK(ABT_thread_attr_set_stacksize(g_attr, 32768));
}
static void td_attr(void)
{
    CK(ABT_thread_attr_free(&g_attr));
}
static int c_thread_create_attr(void)
{
    return ABT_thread_create(R_pool[0], wu_count, NULL, g_attr, (ABT_thread *)&g_h);
}
static void s_attr_userstack(void)
{
    reg_primary();
    CK(ABT_thread_attr_create(&g_attr));
    CK(ABT_thread_attr_set_stack(g_attr, g_userstack, sizeof(g_userstack)));
}
static void s_attr_cb(void)
{
    reg_primary();
    CK(ABT_thread_attr_create(&g_attr));
    CK(ABT_thread_attr_set_callback(g_attr, mig_cb, NULL));
}
static void s_userpool(void)
{
    reg_primary();
    g_pool0 = make_userpool();
    REG(R_pool, n_pool, g_pool0);
}
static int c_thread_create_userpool(void)
{
    return ABT_thread_create(g_pool0, wu_count, NULL, ABT_THREAD_ATTR_NULL, (ABT_thread *)&g_h);
}
static void uf_thread_userpool(void)
{
    ABT_thread t = (ABT_thread)g_h;
    int before = g_ran;
    drain_userpool(g_pool0);
    CK(ABT_thread_free(&t));
    if (g_ran != before + 1)
        DIE("created unit did not run");
}
static int c_thread_create_userpool_pop(void)
{
    return ABT_thread_create(g_upool, wu_count, NULL, ABT_THREAD_ATTR_NULL, (ABT_thread *)&g_h);
}
static void uf_thread_userpool_pop(void)
{
    /* the pre-existing queued unit runs too; it is accounted for in teardown */
    ABT_thread t = (ABT_thread)g_h;
    ABT_thread q = ABT_THREAD_NULL;
    updata *d = up_data(g_upool);
    int before = g_ran;
    /* pop only the new unit (it was pushed last) */
    ABT_unit u = d->units[d->n - 1];
    d->n--;
    q = ((uunit *)u)->thread;
    if (q != t)
        DIE("new unit is not the last of the user pool");
    CK(ABT_self_schedule(q, ABT_POOL_NULL));
    CK(ABT_thread_free(&t));
    if (g_ran != before + 1)
        DIE("created unit did not run");
}
static void s_userpool_cb(void)
{
    s_userpool();
    CK(ABT_thread_attr_create(&g_attr));
    CK(ABT_thread_attr_set_callback(g_attr, mig_cb, NULL));
    CK(ABT_thread_attr_set_stacksize(g_attr, 32768));
}
static int c_thread_create_userpool_attr(void)
{
    return ABT_thread_create(g_pool0, wu_count, NULL, g_attr, (ABT_thread *)&g_h);
}
static void td_pool0_attr(void)
{
    CK(ABT_pool_free(&g_pool0));
    CK(ABT_thread_attr_free(&g_attr));
}
static int c_thread_create_to_userpool(void)
{
    return ABT_thread_create_to(g_pool0, wu_count, NULL, ABT_THREAD_ATTR_NULL, (ABT_thread *)&g_h);
}
static void uf_thread_ran(void)
{
    ABT_thread t = (ABT_thread)g_h;
    ABT_thread_state st;
    CK(ABT_thread_get_state(t, &st));
    if (st != ABT_THREAD_STATE_TERMINATED)
        DIE("create_to target has not run");
    CK(ABT_thread_free(&t));
}
static void s_xs1(void)
{
    reg_primary();
    CK(ABT_xstream_create(ABT_SCHED_NULL, &g_xs1));
    REG(R_xs, n_xs, g_xs1);
    CK(ABT_thread_attr_create(&g_attr));
    CK(ABT_thread_attr_set_stacksize(g_attr, 32768));
}
static int c_thread_create_on_xstream(void)
{
    return ABT_thread_create_on_xstream(g_xs1, wu_count, NULL, g_attr, (ABT_thread *)&g_h);
}
static void uf_thread_joined(void)
{
    ABT_thread t = (ABT_thread)g_h;
    CK(ABT_thread_free(&t)); /* joins: the unit runs on the other stream */
}
static void td_xs1_attr(void)
{
    CK(ABT_xstream_join(g_xs1));
    CK(ABT_xstream_free(&g_xs1));
    CK(ABT_thread_attr_free(&g_attr));
}
/* deprecated ABT_thread_create_many (documented: no error handling) */
static void (*g_fns[3])(void *) = { wu_count, wu_count, wu_count };
static int c_thread_create_many(void)
{
    ABT_pool pools[3] = { R_pool[0], R_pool[0], R_pool[0] };
    g_h2[0] = g_h2[1] = g_h2[2] = SENT_PTR;
    int r = ABT_thread_create_many(3, pools, g_fns, NULL, g_attr, (ABT_thread *)g_h2);
    g_h = g_h2[2];
    return r;
}
static int hs_many(void)
{
    int worst = 1;
    for (int i = 0; i < 3; i++) {
        if (g_h2[i] == SENT_PTR)
            continue;
        if (g_h2[i] == (void *)ABT_THREAD_NULL) {
            worst = worst == 2 ? 2 : 0;
            continue;
        }
        worst = 2;
    }
    return worst;
}
static void uf_thread_many(void)
{
    for (int i = 0; i < 3; i++) {
        ABT_thread t = (ABT_thread)g_h2[i];
        CK(ABT_thread_free(&t));
    }
}
/* revive */
static void s_revive_userpool(void)
{
    s_userpool();
    CK(ABT_thread_create(R_pool[0], wu_count, NULL, ABT_THREAD_ATTR_NULL, &g_thr0));
    CK(ABT_thread_join(g_thr0));
    REG(R_thr, n_thr, g_thr0);
}
static int c_thread_revive_userpool(void)
{
    g_h = (void *)g_thr0;
    return ABT_thread_revive(g_pool0, wu_count, NULL, &g_thr0);
}
static void uf_revived(void)
{
    int before = g_ran;
    drain_userpool(g_pool0);
    CK(ABT_thread_join(g_thr0));
    if (g_ran != before + 1)
        DIE("revived unit did not run");
}
static void td_revive_userpool(void)
{
    CK(ABT_thread_free(&g_thr0));
    CK(ABT_pool_free(&g_pool0));
}
static int c_thread_revive_to_userpool(void)
{
    g_h = (void *)g_thr0;
    return ABT_thread_revive_to(g_pool0, wu_count, NULL, &g_thr0);
}
static void uf_revived_to(void)
{
    ABT_thread_state st;
    CK(ABT_thread_get_state(g_thr0, &st));
    if (st != ABT_THREAD_STATE_TERMINATED)
        DIE("revive_to target has not run");
}
/* tasks */
static int c_task_create(void)
{
    return ABT_task_create(R_pool[0], wu_count, NULL, (ABT_task *)&g_h);
}
static void uf_task(void)
{
    ABT_task t = (ABT_task)g_h;
    int before = g_ran;
    CK(ABT_task_free(&t));
    if (g_ran != before + 1)
        DIE("created unit did not run");
}
static int c_task_create_userpool(void)
{
    return ABT_task_create(g_pool0, wu_count, NULL, (ABT_task *)&g_h);
}
static void uf_task_userpool(void)
{
    ABT_task t = (ABT_task)g_h;
    int before = g_ran;
    drain_userpool(g_pool0);
    CK(ABT_task_free(&t));
    if (g_ran != before + 1)
        DIE("created unit did not run");
}
static void s_task_revive_userpool(void)
{
    s_userpool();
    CK(ABT_task_create(R_pool[0], wu_count, NULL, (ABT_task *)&g_thr0));
    CK(ABT_task_join((ABT_task)g_thr0));
    REG(R_thr, n_thr, g_thr0);
}
static int c_task_revive_userpool(void)
{
    g_h = (void *)g_thr0;
    return ABT_task_revive(g_pool0, wu_count, NULL, (ABT_task *)&g_thr0);
}
/* migration data, callbacks, unit-local storage */
static void s_ready_thread(void)
{
    reg_primary();
    CK(ABT_pool_create_basic(ABT_POOL_FIFO, ABT_POOL_ACCESS_MPMC, ABT_FALSE, &g_pool0));
    CK(ABT_pool_create_basic(ABT_POOL_FIFO, ABT_POOL_ACCESS_MPMC, ABT_FALSE, &g_pool1));
    REG(R_pool, n_pool, g_pool0);
    REG(R_pool, n_pool, g_pool1);
    CK(ABT_thread_create(g_pool0, wu_yield, NULL, ABT_THREAD_ATTR_NULL, &g_thr0));
    REG(R_thr, n_thr, g_thr0);
    CK(ABT_key_create(NULL, &g_key0));
    REG(R_key, n_key, g_key0);
}
static void td_ready_thread(void)
{
    /* run the thread to completion wherever it is now */
    for (int guard = 0; guard < 10; guard++) {
        ABT_thread_state st;
        CK(ABT_thread_get_state(g_thr0, &st));
        if (st == ABT_THREAD_STATE_TERMINATED)
            break;
        ABT_thread t = ABT_THREAD_NULL;
        CK(ABT_pool_pop_thread(g_pool0, &t));
        if (t == ABT_THREAD_NULL)
            CK(ABT_pool_pop_thread(g_pool1, &t));
        if (t == ABT_THREAD_NULL)
            DIE("ready unit is in no pool");
        CK(ABT_self_schedule(t, ABT_POOL_NULL));
    }
    CK(ABT_thread_free(&g_thr0));
    CK(ABT_pool_free(&g_pool0));
    CK(ABT_pool_free(&g_pool1));
    CK(ABT_key_free(&g_key0));
}
static int c_thread_migrate_to_pool(void)
{
    return ABT_thread_migrate_to_pool(g_thr0, g_pool1);
}
static void uf_migrated(void)
{
    /* the request is honoured when the unit is next scheduled */
    ABT_thread t = ABT_THREAD_NULL;
    ABT_pool lp;
    CK(ABT_pool_pop_thread(g_pool0, &t));
    if (t != g_thr0)
        DIE("unit not in its pool");
    CK(ABT_self_schedule(t, ABT_POOL_NULL));
    CK(ABT_thread_get_last_pool(g_thr0, &lp));
    if (lp != g_pool1)
        DIE("unit did not migrate");
}
static int c_thread_set_callback(void)
{
    return ABT_thread_set_callback(g_thr0, mig_cb, NULL);
}
static void uf_nothing(void)
{
}
static int c_thread_set_specific(void)
{
    return ABT_thread_set_specific(g_thr0, g_key0, (void *)0x77);
}
static void uf_specific(void)
{
    void *v = NULL;
    CK(ABT_thread_get_specific(g_thr0, g_key0, &v));
    if (v != (void *)0x77)
        DIE("value lost");
}
static void s_key(void)
{
    reg_primary();
    CK(ABT_key_create(NULL, &g_key0));
    REG(R_key, n_key, g_key0);
}
static void td_key(void)
{
    CK(ABT_key_free(&g_key0));
}
static int c_self_set_specific(void)
{
    return ABT_self_set_specific(g_key0, (void *)0x78);
}
static void uf_self_specific(void)
{
    void *v = NULL;
    CK(ABT_self_get_specific(g_key0, &v));
    if (v != (void *)0x78)
        DIE("value lost");
}
static int c_key_set(void)
{
    return ABT_key_set(g_key0, (void *)0x78);
}
static int c_thread_get_attr(void)
{
    ABT_thread t;
    CK(ABT_thread_self(&t));
    return ABT_thread_get_attr(t, (ABT_thread_attr *)&g_h);
}
static void uf_attr(void)
{
    ABT_thread_attr a = (ABT_thread_attr)g_h;
    CK(ABT_thread_attr_free(&a));
}
/* re-association of existing units with a user-defined pool */
static void s_assoc_userpool(void)
{
    s_userpool();
    CK(ABT_pool_create_basic(ABT_POOL_FIFO, ABT_POOL_ACCESS_MPMC, ABT_FALSE, &g_pool1));
    REG(R_pool, n_pool, g_pool1);
    for (int i = 0; i < 3; i++) {
        ABT_thread t = ABT_THREAD_NULL;
        CK(ABT_thread_create(g_pool1, wu_count, NULL, ABT_THREAD_ATTR_NULL, &g_thrs[i]));
        REG(R_thr, n_thr, g_thrs[i]);
        CK(ABT_pool_pop_thread(g_pool1, &t)); /* the unit is now in no pool */
    }
}
static int c_thread_set_assoc_userpool(void)
{
    return ABT_thread_set_associated_pool(g_thrs[0], g_pool0);
}
static void td_assoc_userpool(void)
{
    int before = g_ran;
    for (int i = 0; i < 3; i++) {
        ABT_thread_state st;
        CK(ABT_thread_get_state(g_thrs[i], &st));
        if (st == ABT_THREAD_STATE_READY) {
            ABT_bool in_user = ABT_FALSE;
            updata *d = up_data(g_pool0);
            ABT_unit u;
            CK(ABT_thread_get_unit(g_thrs[i], &u));
            for (int k = 0; k < d->n; k++)
                if (d->units[k] == u)
                    in_user = ABT_TRUE;
            if (!in_user)
                CK(ABT_self_schedule(g_thrs[i], ABT_POOL_NULL));
        }
    }
    drain_userpool(g_pool0);
    if (g_ran != before + 3)
        DIE("pre-existing units did not all run (%d)", g_ran - before);
    for (int i = 0; i < 3; i++)
        CK(ABT_thread_free(&g_thrs[i]));
    CK(ABT_pool_free(&g_pool0));
    CK(ABT_pool_free(&g_pool1));
}
static int c_pool_push_thread_userpool(void)
{
    return ABT_pool_push_thread(g_pool0, g_thrs[0]);
}
static int c_pool_push_threads_userpool(void)
{
    return ABT_pool_push_threads(g_pool0, g_thrs, 3);
}

/* ------------------------------------------------------ simple creators */
static int c_key_create(void)
{
    return ABT_key_create(NULL, (ABT_key *)&g_h);
}
static void uf_key(void)
{
    ABT_key k = (ABT_key)g_h;
    void *v = NULL;
    CK(ABT_self_set_specific(k, (void *)0x10));
    CK(ABT_self_get_specific(k, &v));
    if (v != (void *)0x10)
        DIE("key value lost");
    CK(ABT_key_free(&k));
}
static int c_mutex_create(void)
{
    return ABT_mutex_create((ABT_mutex *)&g_h);
}
static void uf_mutex(void)
{
    ABT_mutex m = (ABT_mutex)g_h;
    CK(ABT_mutex_lock(m));
    CK(ABT_mutex_unlock(m));
    CK(ABT_mutex_free(&m));
}
static void s_mattr(void)
{
    reg_primary();
    CK(ABT_mutex_attr_create(&g_mattr));
    CK(ABT_mutex_attr_set_recursive(g_mattr, ABT_TRUE));
}
static void td_mattr(void)
{
    CK(ABT_mutex_attr_free(&g_mattr));
}
static int c_mutex_create_with_attr(void)
{
    return ABT_mutex_create_with_attr(g_mattr, (ABT_mutex *)&g_h);
}
static int c_mutex_attr_create(void)
{
    return ABT_mutex_attr_create((ABT_mutex_attr *)&g_h);
}
static void uf_mattr(void)
{
    ABT_mutex_attr a = (ABT_mutex_attr)g_h;
    CK(ABT_mutex_attr_free(&a));
}
static int c_cond_create(void)
{
    return ABT_cond_create((ABT_cond *)&g_h);
}
static void uf_cond(void)
{
    ABT_cond c = (ABT_cond)g_h;
    CK(ABT_cond_signal(c));
    CK(ABT_cond_free(&c));
}
static int c_rwlock_create(void)
{
    return ABT_rwlock_create((ABT_rwlock *)&g_h);
}
static void uf_rwlock(void)
{
    ABT_rwlock l = (ABT_rwlock)g_h;
    CK(ABT_rwlock_rdlock(l));
    CK(ABT_rwlock_unlock(l));
    CK(ABT_rwlock_free(&l));
}
static int c_barrier_create(void)
{
    return ABT_barrier_create(1, (ABT_barrier *)&g_h);
}
static void uf_barrier(void)
{
    ABT_barrier b = (ABT_barrier)g_h;
    CK(ABT_barrier_wait(b));
    CK(ABT_barrier_free(&b));
}
static int c_xstream_barrier_create(void)
{
    return ABT_xstream_barrier_create(1, (ABT_xstream_barrier *)&g_h);
}
static void uf_xstream_barrier(void)
{
    ABT_xstream_barrier b = (ABT_xstream_barrier)g_h;
    CK(ABT_xstream_barrier_wait(b));
    CK(ABT_xstream_barrier_free(&b));
}
static int c_eventual_create(void)
{
    return ABT_eventual_create(16, (ABT_eventual *)&g_h);
}
static void uf_eventual(void)
{
    ABT_eventual e = (ABT_eventual)g_h;
    int v[4] = { 1, 2, 3, 4 };
    void *p = NULL;
    CK(ABT_eventual_set(e, v, 16));
    CK(ABT_eventual_wait(e, &p));
    if (memcmp(p, v, 16) != 0)
        DIE("eventual value");
    CK(ABT_eventual_free(&e));
}
static int c_future_create(void)
{
    return ABT_future_create(4, NULL, (ABT_future *)&g_h);
}
static void uf_future(void)
{
    ABT_future f = (ABT_future)g_h;
    for (int i = 0; i < 4; i++)
        CK(ABT_future_set(f, (void *)(uintptr_t)(i + 1)));
    CK(ABT_future_wait(f));
    CK(ABT_future_free(&f));
}
static int c_timer_create(void)
{
    return ABT_timer_create((ABT_timer *)&g_h);
}
static void uf_timer(void)
{
    ABT_timer t = (ABT_timer)g_h;
    CK(ABT_timer_start(t));
    CK(ABT_timer_stop(t));
    CK(ABT_timer_free(&t));
}
static void s_timer(void)
{
    reg_primary();
    CK(ABT_timer_create(&g_timer0));
}
static void td_timer(void)
{
    CK(ABT_timer_free(&g_timer0));
}
static int c_timer_dup(void)
{
    return ABT_timer_dup(g_timer0, (ABT_timer *)&g_h);
}
static int c_thread_attr_create(void)
{
    return ABT_thread_attr_create((ABT_thread_attr *)&g_h);
}

/* ------------------------------------------------------------- the table */
#define NUL(x) ((void *)(x))
static const scen_t g_scens[] = {
    { "init", F_NOINIT, NULL, NULL, c_init, hs_init, uf_init, NULL },
    { "init_malloc", F_NOINIT | F_LPMALLOC, NULL, NULL, c_init, hs_init, uf_init, NULL },
    { "xstream_create", 0, NUL(ABT_XSTREAM_NULL), s_plain, c_xstream_create, hs_generic, uf_xstream, NULL },
    { "xstream_create_sched", 0, NUL(ABT_XSTREAM_NULL), s_xstream_sched, c_xstream_create_sched, hs_generic, uf_xstream_sched, td_xstream_sched },
    { "xstream_create_basic", 0, NUL(ABT_XSTREAM_NULL), s_pool0, c_xstream_create_basic, hs_generic, uf_xstream_pool0, td_pool0 },
    { "xstream_create_rank", 0, NUL(ABT_XSTREAM_NULL), s_plain, c_xstream_create_rank, hs_generic, uf_xstream_rank, NULL },
    { "xstream_create_rank_sched", 0, NUL(ABT_XSTREAM_NULL), s_xstream_sched, c_xstream_create_rank_sched, hs_generic, uf_xstream_sched, td_xstream_sched },
    { "xstream_create_maxxs", F_MAXXS1, NUL(ABT_XSTREAM_NULL), s_plain, c_xstream_create_rank1, hs_generic, uf_xstream, NULL },
    { "xstream_create_refill", F_LPMALLOC | F_SMALLPAGES, NUL(ABT_XSTREAM_NULL), s_global_stack_exhausted, c_xstream_create, hs_generic, uf_xstream, td_held },
    { "xstream_create_populated", 0, NUL(ABT_XSTREAM_NULL), s_populated, c_xstream_create, hs_generic, uf_xstream, td_populated },
    { "set_main_sched", F_NOHANDLE, NULL, s_plain, c_set_main_sched, NULL, uf_workload, NULL },
    { "set_main_sched_user", F_NOHANDLE, NULL, s_set_main_sched_user, c_set_main_sched_user, NULL, uf_workload, td_sched0_if_unused },
    { "set_main_sched_basic_user", F_NOHANDLE, NULL, s_upool_auto, c_set_main_sched_basic_user, NULL, uf_workload, td_upool_if_unused },
    { "set_main_sched_other", F_NOHANDLE, NULL, s_set_main_sched_other, c_set_main_sched_other, NULL, uf_set_main_sched_other, td_set_main_sched_other },
    { "sched_create_basic", 0, NUL(ABT_SCHED_NULL), s_plain, c_sched_create_basic, hs_generic, uf_sched, NULL },
    { "sched_create_basic_prio", 0, NUL(ABT_SCHED_NULL), s_plain, c_sched_create_basic_prio, hs_generic, uf_sched, NULL },
    { "sched_create_basic_wait", 0, NUL(ABT_SCHED_NULL), s_plain, c_sched_create_basic_wait, hs_generic, uf_sched, NULL },
    { "sched_create_basic_randws", 0, NUL(ABT_SCHED_NULL), s_plain, c_sched_create_basic_randws, hs_generic, uf_sched, NULL },
    { "sched_create_basic_pools", 0, NUL(ABT_SCHED_NULL), s_two_pools, c_sched_create_basic_pools, hs_generic, uf_sched, td_two_pools },
    { "sched_create_user", 0, NUL(ABT_SCHED_NULL), s_pool0, c_sched_create_user, hs_generic, uf_sched_free, td_pool0 },
    { "sched_create_populated", 0, NUL(ABT_SCHED_NULL), s_populated, c_sched_create_basic, hs_generic, uf_sched, td_populated },
    { "pool_create_basic_fifo", 0, NUL(ABT_POOL_NULL), s_plain, c_pool_create_basic_fifo, hs_generic, uf_pool, NULL },
    { "pool_create_basic_fifo_wait", 0, NUL(ABT_POOL_NULL), s_plain, c_pool_create_basic_fifo_wait, hs_generic, uf_pool, NULL },
    { "pool_create_basic_randws", 0, NUL(ABT_POOL_NULL), s_plain, c_pool_create_basic_randws, hs_generic, uf_pool, NULL },
    { "pool_create_user", 0, NUL(ABT_POOL_NULL), s_userdef, c_pool_create_user, hs_generic, uf_pool, NULL },
    { "pool_create_old", 0, NUL(ABT_POOL_NULL), s_plain, c_pool_create_old, hs_generic, uf_pool, NULL },
    { "pool_user_def_create", 0, NUL(ABT_POOL_USER_DEF_NULL), s_plain, c_pool_user_def_create, hs_generic, uf_pool_user_def, NULL },
    { "sched_config_create", 0, NUL(ABT_SCHED_CONFIG_NULL), s_plain, c_sched_config_create, hs_generic, uf_sched_config, NULL },
    { "sched_config_set", F_NOHANDLE, NULL, s_sched_config, c_sched_config_set, NULL, uf_sched_config_set, td_sched_config },
    { "pool_config_create", 0, NUL(ABT_POOL_CONFIG_NULL), s_plain, c_pool_config_create, hs_generic, uf_pool_config, NULL },
    { "pool_config_set", F_NOHANDLE, NULL, s_pool_config, c_pool_config_set, NULL, uf_pool_config_set, td_pool_config },
    { "pool_add_sched", F_NOHANDLE, NULL, s_add_sched, c_pool_add_sched, NULL, uf_pool_add_sched, td_add_sched },
    { "pool_add_sched_user", F_NOHANDLE, NULL, s_add_sched_user, c_pool_add_sched, NULL, uf_pool_add_sched, td_add_sched },
    { "pool_add_sched_user_noauto", F_NOHANDLE, NULL, s_add_sched_user_noauto, c_pool_add_sched, NULL, uf_pool_add_sched_noauto, td_add_sched },
    { "thread_create", 0, NUL(ABT_THREAD_NULL), s_plain, c_thread_create, hs_generic, uf_thread, NULL },
    { "thread_create_refill", F_LPMALLOC | F_SMALLPAGES | F_LATEFU, NUL(ABT_THREAD_NULL), s_stack_exhausted, c_thread_create, hs_generic, uf_thread, td_held },
    { "thread_create_refill_mmap", F_SMALLPAGES | F_LATEFU, NUL(ABT_THREAD_NULL), s_stack_exhausted, c_thread_create, hs_generic, uf_thread, td_held },
    { "thread_create_refill_leftover", F_LPMALLOC | F_SMALLPAGES | F_LATEFU, NUL(ABT_THREAD_NULL), s_stack_leftover, c_thread_create, hs_generic, uf_thread, td_held },
    { "thread_create_stacksize", 0, NUL(ABT_THREAD_NULL), s_attr_stacksize, c_thread_create_attr, hs_generic, uf_thread, td_attr },
    { "thread_create_userstack", 0, NUL(ABT_THREAD_NULL), s_attr_userstack, c_thread_create_attr, hs_generic, uf_thread, td_attr },
    { "thread_create_cb", 0, NUL(ABT_THREAD_NULL), s_attr_cb, c_thread_create_attr, hs_generic, uf_thread, td_attr },
    { "thread_create_cb_ktbig", F_KTBIG, NUL(ABT_THREAD_NULL), s_attr_cb, c_thread_create_attr, hs_generic, uf_thread, td_attr },
    { "thread_create_userpool", 0, NUL(ABT_THREAD_NULL), s_userpool, c_thread_create_userpool, hs_generic, uf_thread_userpool, td_pool0 },
    { "thread_create_userpool_cb_ktbig", F_KTBIG, NUL(ABT_THREAD_NULL), s_userpool_cb, c_thread_create_userpool_attr, hs_generic, uf_thread_userpool, td_pool0_attr },
    { "thread_create_to_userpool", 0, NUL(ABT_THREAD_NULL), s_userpool, c_thread_create_to_userpool, hs_generic, uf_thread_ran, td_pool0 },
    { "thread_create_on_xstream", 0, NUL(ABT_THREAD_NULL), s_xs1, c_thread_create_on_xstream, hs_generic, uf_thread_joined, td_xs1_attr },
    { "thread_create_populated", 0, NUL(ABT_THREAD_NULL), s_populated, c_thread_create_userpool_pop, hs_generic, uf_thread_userpool_pop, td_populated },
    { "thread_create_many", 0, NUL(ABT_THREAD_NULL), s_attr_stacksize, c_thread_create_many, hs_many, uf_thread_many, td_attr },
    { "thread_revive_userpool", F_NOHANDLE, NULL, s_revive_userpool, c_thread_revive_userpool, NULL, uf_revived, td_revive_userpool },
    { "thread_revive_to_userpool", F_NOHANDLE, NULL, s_revive_userpool, c_thread_revive_to_userpool, NULL, uf_revived_to, td_revive_userpool },
    { "task_create", 0, NUL(ABT_TASK_NULL), s_plain, c_task_create, hs_generic, uf_task, NULL },
    { "task_create_refill", F_LPMALLOC | F_SMALLPAGES | F_LATEFU, NUL(ABT_TASK_NULL), s_desc_exhausted, c_task_create, hs_generic, uf_task, td_held },
    { "task_create_userpool", 0, NUL(ABT_TASK_NULL), s_userpool, c_task_create_userpool, hs_generic, uf_task_userpool, td_pool0 },
    { "task_revive_userpool", F_NOHANDLE, NULL, s_task_revive_userpool, c_task_revive_userpool, NULL, uf_revived, td_revive_userpool },
    { "thread_migrate_to_pool", F_NOHANDLE, NULL, s_ready_thread, c_thread_migrate_to_pool, NULL, uf_migrated, td_ready_thread },
    { "thread_migrate_to_pool_ktbig", F_NOHANDLE | F_KTBIG, NULL, s_ready_thread, c_thread_migrate_to_pool, NULL, uf_migrated, td_ready_thread },
    { "thread_set_callback", F_NOHANDLE, NULL, s_ready_thread, c_thread_set_callback, NULL, uf_nothing, td_ready_thread },
    { "thread_set_specific_ktbig", F_NOHANDLE | F_KTBIG, NULL, s_ready_thread, c_thread_set_specific, NULL, uf_specific, td_ready_thread },
    { "self_set_specific_ktbig", F_NOHANDLE | F_KTBIG, NULL, s_key, c_self_set_specific, NULL, uf_self_specific, td_key },
    { "key_set_ktbig", F_NOHANDLE | F_KTBIG, NULL, s_key, c_key_set, NULL, uf_self_specific, td_key },
    { "thread_get_attr", 0, NUL(ABT_THREAD_ATTR_NULL), s_plain, c_thread_get_attr, hs_generic, uf_attr, NULL },
    { "thread_set_assoc_userpool", F_NOHANDLE, NULL, s_assoc_userpool, c_thread_set_assoc_userpool, NULL, uf_nothing, td_assoc_userpool },
    { "pool_push_thread_userpool", F_NOHANDLE, NULL, s_assoc_userpool, c_pool_push_thread_userpool, NULL, uf_nothing, td_assoc_userpool },
    { "pool_push_threads_userpool", F_NOHANDLE, NULL, s_assoc_userpool, c_pool_push_threads_userpool, NULL, uf_nothing, td_assoc_userpool },
    { "key_create", 0, NUL(ABT_KEY_NULL), s_plain, c_key_create, hs_generic, uf_key, NULL },
    { "mutex_create", 0, NUL(ABT_MUTEX_NULL), s_plain, c_mutex_create, hs_generic, uf_mutex, NULL },
    { "mutex_create_with_attr", 0, NUL(ABT_MUTEX_NULL), s_mattr, c_mutex_create_with_attr, hs_generic, uf_mutex, td_mattr },
    { "mutex_attr_create", 0, NUL(ABT_MUTEX_ATTR_NULL), s_plain, c_mutex_attr_create, hs_generic, uf_mattr, NULL },
    { "cond_create", 0, NUL(ABT_COND_NULL), s_plain, c_cond_create, hs_generic, uf_cond, NULL },
    { "rwlock_create", 0, NUL(ABT_RWLOCK_NULL), s_plain, c_rwlock_create, hs_generic, uf_rwlock, NULL },
    { "barrier_create", 0, NUL(ABT_BARRIER_NULL), s_plain, c_barrier_create, hs_generic, uf_barrier, NULL },
    { "xstream_barrier_create", 0, NUL(ABT_XSTREAM_BARRIER_NULL), s_plain, c_xstream_barrier_create, hs_generic, uf_xstream_barrier, NULL },
    { "eventual_create", 0, NUL(ABT_EVENTUAL_NULL), s_plain, c_eventual_create, hs_generic, uf_eventual, NULL },
    { "future_create", 0, NUL(ABT_FUTURE_NULL), s_plain, c_future_create, hs_generic, uf_future, NULL },
    { "timer_create", 0, NUL(ABT_TIMER_NULL), s_plain, c_timer_create, hs_generic, uf_timer, NULL },
    { "timer_dup", 0, NUL(ABT_TIMER_NULL), s_timer, c_timer_dup, hs_generic, uf_timer, td_timer },
    { "thread_attr_create", 0, NUL(ABT_THREAD_ATTR_NULL), s_plain, c_thread_attr_create, hs_generic, uf_attr, NULL },
};

#define R64(x) ((((size_t)(x)) + 63) / 64 * 64)
static void print_sizes(void)
{
    printf("global=%zu\n", R64(sizeof(ABTI_global)));
    printf("xstream=%zu\n", R64(sizeof(ABTI_xstream)));
    printf("sched=%zu\n", R64(sizeof(ABTI_sched)));
    printf("pool=%zu\n", R64(sizeof(ABTI_pool)));
    printf("key=%zu\n", R64(sizeof(ABTI_key)));
    printf("mutex=%zu\n", R64(sizeof(ABTI_mutex)));
    printf("mutex_attr=%zu\n", R64(sizeof(ABTI_mutex_attr)));
    printf("cond=%zu\n", R64(sizeof(ABTI_cond)));
    printf("rwlock=%zu\n", R64(sizeof(ABTI_rwlock)));
    printf("barrier=%zu\n", R64(sizeof(ABTI_barrier)));
    printf("xstream_barrier=%zu\n", R64(sizeof(ABTI_xstream_barrier)));
    printf("eventual=%zu\n", R64(sizeof(ABTI_eventual)));
    printf("eventual_value=%zu\n", R64(16));
    printf("future=%zu\n", R64(sizeof(ABTI_future)));
    printf("future_array=%zu\n", R64(4 * sizeof(void *)));
    printf("timer=%zu\n", sizeof(ABTI_timer));
    printf("thread_attr=%zu\n", R64(sizeof(ABTI_thread_attr)));
    printf("mig_data=%zu\n", R64(sizeof(ABTI_thread_mig_data)));
    printf("unit_map_elem=%zu\n", R64(24));
    printf("user_unit=%zu\n", sizeof(uunit));
    printf("user_pool_data=%zu\n", sizeof(updata));
    printf("user_sched_data=%zu\n", (size_t)40);
    printf("sched_config=%zu\n", R64(sizeof(ABTI_sched_config)));
    printf("pool_config=%zu\n", R64(sizeof(ABTI_pool_config)));
    printf("pool_user_def=%zu\n", R64(sizeof(ABTI_pool_user_def)));
    printf("warning_msg=%zu\n", R64(1024));
    printf("sched_stack=%zu\n", R64(4 * 1024 * 1024 + sizeof(ABTI_ythread)));
    printf("stack32k=%zu\n", R64(32768 + sizeof(ABTI_ythread)));
    printf("probe_page=%zu\n", (size_t)2 * 1024 * 1024);
    printf("stack_page=%zu\n", (size_t)8 * 1024 * 1024);
    printf("desc_page=%zu\n", (size_t)2 * 1024 * 1024);
    printf("small_stack_page=%zu\n", (size_t)65536);
    printf("small_desc_page=%zu\n", (size_t)4096);
    printf("ktable_big=%zu\n", R64(offsetof(ABTI_ktable, p_elems) + sizeof(ABTD_atomic_ptr) * 1024 + sizeof(ABTI_ktable_mem_header)));
}
