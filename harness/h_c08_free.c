/* C08 — ABT_barrier_free by a caller the last round has just released ("immediately reusable ... fast callers
 * while slow ones are still leaving the previous round").
 *
 * The last arrival of a round wakes the waiters first and only then stores counter = 0 and releases the barrier's
 * lock.  A released waiter may free the barrier at once; ABT_barrier_free must not give the memory back before the
 * last arrival has left its critical section (it takes the lock for that).  Directed interleaving through the
 * ABT_VERIF hook table: the record of the counter = 0 store holds the last arrival for HOLD_US, during which the
 * released waiter runs ABT_barrier_free.  Verdict, from the hook table alone (no allocator tricks): ABT_barrier_free
 * returned while the last arrival had not yet begun to release the lock.
 *
 * usage: h_c08_free <rounds>     output: one "OK ..." or "FAIL ..." line per configuration; exit 1 on any FAIL */
#include <pthread.h>
#include <stdatomic.h>
#include <stdint.h>
#include <stdio.h>
#include <stdlib.h>
#include <string.h>
#include <unistd.h>
#include <sched.h>
#include "abti.h"

#define HOLD_US 20000

static _Atomic(uintptr_t) g_obj;           /* the barrier under test */
static atomic_int g_in_cs;                 /* the last arrival has reset the counter and not yet begun to release the lock */
static atomic_int g_early_free, g_held;
static __thread int tl_holding;

/* no trace lock: nothing is logged here, and a lock held across the delay would also hold up the released waiter at
 * its next record and hide the window.  lock() is called before every hooked operation: the first one the last
 * arrival performs after the counter record is the release of the barrier's lock, so g_in_cs is cleared BEFORE that
 * release (the SPIN_REL record itself comes after the release and would be too late to tell). */
static void h_lock(void)
{
    if (tl_holding) {
        tl_holding = 0;
        atomic_store(&g_in_cs, 0);
    }
}
static void h_unlock(void) {}
static void h_ev(int kind, uintptr_t a, uintptr_t b, uintptr_t c)
{
    if (kind == ABTI_VEV_DATA && a == atomic_load(&g_obj) && b == 1 && c == 0) {
        /* the last arrival has woken everybody and reset the counter; it still holds the lock */
        atomic_store(&g_in_cs, 1);
        tl_holding = 1;
        atomic_fetch_add(&g_held, 1);
        usleep(HOLD_US);
    }
}

static ABT_barrier g_b;
static int g_n;
static atomic_int g_returned;

static void waiter_common(int frees)
{
    ABT_barrier b = g_b;
    int ret = ABT_barrier_wait(b);
    if (ret != ABT_SUCCESS)
        abort();
    if (frees) {
        ABT_barrier bb = b;
        ABT_barrier_free(&bb);
        if (atomic_load(&g_in_cs))
            atomic_fetch_add(&g_early_free, 1);
    }
    atomic_fetch_add(&g_returned, 1);
}
static void *ext_waiter(void *arg) { waiter_common((int)(intptr_t)arg); return NULL; }
static void ult_waiter(void *arg) { waiter_common((int)(intptr_t)arg); }

/* kinds: string of n-1 waiter kinds ('E' external pthread, 'U' ULT on the secondary stream); waiter 0 frees */
static int run_cfg(const char *kinds, int rounds, ABT_xstream es1, ABT_pool p1)
{
    int n = (int)strlen(kinds) + 1, r, i, late = 0;
    long held = 0;
    for (r = 0; r < rounds; r++) {
        pthread_t pt[8];
        ABT_thread ut[8];
        if (ABT_barrier_create((uint32_t)n, &g_b) != ABT_SUCCESS)
            abort();
        ABTI_barrier *p = ABTI_barrier_get_ptr(g_b);
        atomic_store(&g_in_cs, 0);
        atomic_store(&g_returned, 0);
        atomic_store(&g_held, 0);
        atomic_store(&g_obj, (uintptr_t)p);
        g_n = n;
        for (i = 0; i < n - 1; i++) {
            if (kinds[i] == 'E')
                pthread_create(&pt[i], NULL, ext_waiter, (void *)(intptr_t)(i == 0));
            else
                ABT_thread_create(p1, ult_waiter, (void *)(intptr_t)(i == 0), ABT_THREAD_ATTR_NULL, &ut[i]);
        }
        /* arrive last: all the others are counted (and queued) */
        while (*(volatile size_t *)&p->counter != (size_t)(n - 1))
            sched_yield();
        ABT_barrier_wait(g_b);
        for (i = 0; i < n - 1; i++) {
            if (kinds[i] == 'E')
                pthread_join(pt[i], NULL);
            else
                ABT_thread_free(&ut[i]);
        }
        atomic_store(&g_obj, 0);
        held += atomic_load(&g_held);
        if (atomic_load(&g_returned) != n - 1)
            late++;
    }
    int ef = atomic_exchange(&g_early_free, 0);
    if (ef || late) {
        printf("FAIL n=%d waiters=%s rounds=%d : %d time(s) ABT_barrier_free, called by a waiter the round had released, "
               "returned while the last arrival was still inside its critical section (counter reset, lock not yet "
               "released); %d round(s) with a waiter missing\n", n, kinds, rounds, ef, late);
        return 1;
    }
    printf("OK n=%d waiters=%s rounds=%d held=%ld\n", n, kinds, rounds, held);
    (void)es1;
    return 0;
}

int main(int argc, char **argv)
{
    int rounds = argc > 1 ? atoi(argv[1]) : 5, bad = 0;
    alarm(120);
    ABT_init(0, NULL);
    ABT_xstream es1;
    ABT_pool p1;
    ABT_xstream_create(ABT_SCHED_NULL, &es1);
    ABT_xstream_get_main_pools(es1, 1, &p1);
    ABTI_verif_hooks.lock = h_lock;
    ABTI_verif_hooks.unlock = h_unlock;
    ABTI_verif_hooks.ev = h_ev;
    const char *cfgs[] = { "E", "U", "EE", "UE", "EU", "UUE" };
    size_t i;
    for (i = 0; i < sizeof(cfgs) / sizeof(cfgs[0]); i++)
        bad += run_cfg(cfgs[i], rounds, es1, p1);
    ABTI_verif_hooks.ev = NULL;
    ABT_xstream_join(es1);
    ABT_xstream_free(&es1);
    ABT_finalize();
    return bad ? 1 : 0;
}
