/* C09 harness: runs an eventual / future scenario on the real runtime with the
 * event hooks on and dumps the totally ordered history of atomic actions.
 *   EVENTUAL <i> <cap>        eventual e<i> with a buffer of <cap> ints (0 = no buffer)
 *   FUTURE <i> <n> <cb>       future f<i> with <n> compartments, callback registered iff <cb>
 *   ops: es<i>:<v>:<nb>  ABT_eventual_set(e<i>, &v, nb ints)
 *        ew<i>  wait (records the first word of the buffer it is handed)
 *        et<i>  test (records *is_ready and, if ready, the first word of the buffer)
 *        er<i>  reset
 *        fs<i>:<v>  ABT_future_set(f<i>, (void *)v)      fw<i> wait   ft<i> test   fr<i> reset
 *        A<k>   arrive at rendezvous k (non-blocking)
 *        Q<k>:<c>  wait until c callers have arrived at rendezvous k (coordinator)
 *        R<k>   open rendezvous k           G<k>  wait until rendezvous k is open
 *        Y yield   W short work
 * The rendezvous is made of plain atomics (no Argobots object), so that resets
 * are issued at quiescent points as the API contract demands.
 * Harness records (kinds >= 1000):
 *   BEGIN a=opcode+100*nb b=object c=value     END a=opcode b=object c=return code
 *   opcodes: 0 set 1 wait 2 test 3 reset on eventuals, 10..13 the same on futures
 *   K1010 a=eventual b=flag c=value   value read by the caller after wait (flag 1) / test
 *   K1011 a=future   b=flag           *is_ready after ABT_future_test
 *   K1012 a=future   b=slot c=value   written by the user callback for every array entry */
#include "abti.h"
#include "vh_scn.h"

#define MAXO 16
#define K_EVREAD 1010
#define K_FTEST 1011
#define K_CBVAL 1012

static ABT_eventual g_e[MAXO];
static int g_ecap[MAXO];
static int g_ne;
static ABT_future g_f[MAXO];
static int g_fn[MAXO], g_fcb[MAXO];
static int g_nf;
static volatile int g_cbcount[MAXO];
static volatile int g_cbunknown;
#define MAXR 64
static int g_arrived[MAXR];
static int g_open[MAXR];

static int vh_parse_decl(char *line)
{
    int i, a, b;
    if (sscanf(line, "EVENTUAL %d %d", &i, &a) == 2) {
        if (i != g_ne || i >= MAXO)
            VH_DIE("EVENTUAL indices must be 0,1,2,...");
        g_ecap[i] = a;
        g_ne++;
        return 1;
    }
    if (sscanf(line, "FUTURE %d %d %d", &i, &a, &b) == 3) {
        if (i != g_nf || i >= MAXO)
            VH_DIE("FUTURE indices must be 0,1,2,...");
        g_fn[i] = a;
        g_fcb[i] = b;
        g_nf++;
        return 1;
    }
    return 0;
}

/* user callback of every future that has one: says which entries it sees */
static void future_cb(void **arg)
{
    int j, i;
    for (j = 0; j < g_nf; j++) {
        ABTI_future *p = ABTI_future_get_ptr(g_f[j]);
        if (p->array == arg && arg != NULL)
            break;
    }
    if (j == g_nf) {
        g_cbunknown++;
        return;
    }
    __atomic_fetch_add(&g_cbcount[j], 1, __ATOMIC_SEQ_CST);
    for (i = 0; i < g_fn[j]; i++)
        vh_note(K_CBVAL, j, i, (uintptr_t)arg[i]);
}

static void vh_setup_objects(void)
{
    int i;
    for (i = 0; i < g_ne; i++) {
        if (ABT_eventual_create(g_ecap[i] * (int)sizeof(int), &g_e[i]) != ABT_SUCCESS)
            VH_DIE("eventual_create");
        ABTI_eventual *p = ABTI_eventual_get_ptr(g_e[i]);
        if (p->value)
            memset(p->value, 0, p->nbytes);
        vh_register_obj(&p->lock, "e%d.%s", i, "lock");
        vh_register_obj(&p->waitlist, "e%d.%s", i, "wl");
        vh_register_obj(p, "e%d.%s", i, "obj");
    }
    for (i = 0; i < g_nf; i++) {
        if (ABT_future_create((uint32_t)g_fn[i], g_fcb[i] ? future_cb : NULL, &g_f[i]) != ABT_SUCCESS)
            VH_DIE("future_create");
        ABTI_future *p = ABTI_future_get_ptr(g_f[i]);
        vh_register_obj(&p->lock, "f%d.%s", i, "lock");
        vh_register_obj(&p->waitlist, "f%d.%s", i, "wl");
        vh_register_obj(p, "f%d.%s", i, "obj");
    }
}

static void vh_teardown_objects(void)
{
    int i;
    for (i = 0; i < g_ne; i++)
        ABT_eventual_free(&g_e[i]);
    for (i = 0; i < g_nf; i++)
        ABT_future_free(&g_f[i]);
}

static void relax(vh_tctx *c)
{
    if (c->kind == 'U')
        ABT_thread_yield();
    else if (c->kind == 'E')
        sched_yield();
    else
        VH_DIE("a tasklet must not wait at a rendezvous");
}

static void vh_do_op(vh_tctx *c, const char *tok)
{
    int ret;
    if (tok[0] == 'e' || tok[0] == 'f') {
        int isf = tok[0] == 'f';
        char op = tok[1];
        int o = 0, v = 0, nb = 0;
        if (op == 's') {
            if (isf) {
                if (sscanf(tok + 2, "%d:%d", &o, &v) != 2)
                    VH_DIE("bad token %s", tok);
            } else if (sscanf(tok + 2, "%d:%d:%d", &o, &v, &nb) != 3)
                VH_DIE("bad token %s", tok);
        } else
            o = atoi(tok + 2);
        if (o < 0 || o >= (isf ? g_nf : g_ne))
            VH_DIE("bad object in %s", tok);
        int base = isf ? 10 : 0;
        switch (op) {
            case 's':
                vh_note(VH_EV_OP_BEGIN, base + 0 + 100 * nb, o, v);
                if (isf)
                    ret = ABT_future_set(g_f[o], (void *)(intptr_t)v);
                else {
                    int buf[4] = { v, v + 1000000, v + 2000000, v + 3000000 };
                    ret = ABT_eventual_set(g_e[o], buf, nb * (int)sizeof(int));
                }
                vh_note(VH_EV_OP_END, base + 0, o, ret);
                break;
            case 'w':
                vh_note(VH_EV_OP_BEGIN, base + 1, o, 0);
                if (isf)
                    ret = ABT_future_wait(g_f[o]);
                else {
                    void *buf = NULL;
                    ret = ABT_eventual_wait(g_e[o], &buf);
                    if (ret == ABT_SUCCESS) {
                        int r = buf ? *(volatile int *)buf : 0;
                        vh_note(K_EVREAD, o, 1, r);
                    }
                }
                vh_note(VH_EV_OP_END, base + 1, o, ret);
                break;
            case 't': {
                ABT_bool flag = ABT_FALSE;
                vh_note(VH_EV_OP_BEGIN, base + 2, o, 0);
                if (isf) {
                    ret = ABT_future_test(g_f[o], &flag);
                    vh_note(K_FTEST, o, flag == ABT_TRUE, 0);
                } else {
                    void *buf = NULL;
                    ret = ABT_eventual_test(g_e[o], &buf, &flag);
                    int r = (flag == ABT_TRUE && buf) ? *(volatile int *)buf : 0;
                    vh_note(K_EVREAD, o, flag == ABT_TRUE, r);
                }
                vh_note(VH_EV_OP_END, base + 2, o, ret);
                break;
            }
            case 'r':
                vh_note(VH_EV_OP_BEGIN, base + 3, o, 0);
                ret = isf ? ABT_future_reset(g_f[o]) : ABT_eventual_reset(g_e[o]);
                vh_note(VH_EV_OP_END, base + 3, o, ret);
                break;
            default:
                VH_DIE("bad op token %s", tok);
        }
        return;
    }
    switch (tok[0]) {
        case 'A':
            __atomic_fetch_add(&g_arrived[atoi(tok + 1) % MAXR], 1, __ATOMIC_SEQ_CST);
            break;
        case 'Q': {
            int k = 0, cnt = 0;
            if (sscanf(tok + 1, "%d:%d", &k, &cnt) != 2)
                VH_DIE("bad token %s", tok);
            while (__atomic_load_n(&g_arrived[k % MAXR], __ATOMIC_SEQ_CST) < cnt)
                relax(c);
            break;
        }
        case 'R':
            __atomic_store_n(&g_open[atoi(tok + 1) % MAXR], 1, __ATOMIC_SEQ_CST);
            break;
        case 'G':
            while (!__atomic_load_n(&g_open[atoi(tok + 1) % MAXR], __ATOMIC_SEQ_CST))
                relax(c);
            break;
        case 'Y':
            if (c->kind == 'U')
                ABT_thread_yield();
            else if (c->kind == 'E')
                sched_yield();
            break;
        case 'W': {
            volatile int k;
            for (k = 0; k < 200; k++)
                ;
            break;
        }
        default:
            VH_DIE("bad op token %s", tok);
    }
}

static void vh_extra_dump(FILE *f)
{
    int i, t;
    for (i = 0; i < g_ne; i++)
        fprintf(f, "MON e%d cap=%d\n", i, g_ecap[i]);
    for (i = 0; i < g_nf; i++)
        fprintf(f, "MON f%d n=%d cb=%d cbcount=%d\n", i, g_fn[i], g_fcb[i], g_cbcount[i]);
    fprintf(f, "MON x cbunknown=%d\n", g_cbunknown);
    for (t = 0; t < vh_nsthr; t++)
        fprintf(f, "THRDONE %d %d\n", vh_sthr[t].index, vh_sthr[t].done);
}

int main(int argc, char **argv)
{
    return vh_scenario_main(argc, argv);
}
