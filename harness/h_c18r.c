/* C18, the ABTI_ktable_set soft spot (include/abti_key.h): two streams set a
 * value on the same work unit that has no key table yet.  The creator (A) wins
 * the NULL -> LOCKED compare-and-swap and its table allocation fails; the
 * other setter (B) is spinning on LOCKED at that moment.
 *
 * Deterministic interleaving: the allocation of A is intercepted (own
 * posix_memalign interposer: the table is ABTU_malloc'ed because
 * ABT_KEY_TABLE_SIZE=1024); inside it A releases B, waits until B has
 * announced its call and a further 100 ms (B is then inside the
 * `while (p_ktable == ABTI_KTABLE_LOCKED)` loop), and only then fails.
 *
 * Expected by C18: A returns ABT_ERR_MEM, B creates the table itself and
 * succeeds (or returns an error), nobody crashes.
 * Output: "ktable_race => ok | a=<rc> b=<rc> v=<value seen>" or CRASH/HANG. */
#define _GNU_SOURCE
#include <abt.h>
#include <dlfcn.h>
#include <errno.h>
#include <pthread.h>
#include <signal.h>
#include <stdio.h>
#include <stdlib.h>
#include <string.h>
#include <sys/wait.h>
#include <unistd.h>

static volatile int g_armed, g_b_go, g_b_in, g_b_done, g_b_rc = -1, g_hits;
static pthread_t g_a_thread;
static size_t g_min_size = 4096;

int posix_memalign(void **memptr, size_t alignment, size_t size)
{
    static int (*real)(void **, size_t, size_t);
    if (!real)
        real = (int (*)(void **, size_t, size_t))dlsym(RTLD_NEXT, "posix_memalign");
    if (g_armed && size >= g_min_size && pthread_equal(pthread_self(), g_a_thread)) {
        g_armed = 0;
        g_hits++;
        __atomic_store_n(&g_b_go, 1, __ATOMIC_SEQ_CST);
        while (!__atomic_load_n(&g_b_in, __ATOMIC_SEQ_CST))
            ;
        usleep(100000); /* B is spinning on ABTI_KTABLE_LOCKED now */
        return ENOMEM;
    }
    return real(memptr, alignment, size);
}

static ABT_thread g_target;
static ABT_key g_key;
static void idle(void *arg)
{
    (void)arg;
}
static void b_func(void *arg)
{
    (void)arg;
    while (!__atomic_load_n(&g_b_go, __ATOMIC_SEQ_CST))
        ;
    __atomic_store_n(&g_b_in, 1, __ATOMIC_SEQ_CST);
    g_b_rc = ABT_thread_set_specific(g_target, g_key, (void *)0xB);
    __atomic_store_n(&g_b_done, 1, __ATOMIC_SEQ_CST);
}

static int child(void)
{
    setenv("ABT_KEY_TABLE_SIZE", "1024", 1);
    setenv("ABT_MEM_MAX_NUM_DESCS", "4", 1);
    setenv("ABT_MEM_MAX_NUM_STACKS", "4", 1);
    ABT_xstream xs;
    ABT_pool pool;
    ABT_thread b;
    if (ABT_init(0, NULL) != ABT_SUCCESS)
        return 3;
    ABT_key_create(NULL, &g_key);
    ABT_pool_create_basic(ABT_POOL_FIFO, ABT_POOL_ACCESS_MPMC, ABT_FALSE, &pool);
    ABT_thread_create(pool, idle, NULL, ABT_THREAD_ATTR_NULL, &g_target); /* never scheduled: no table */
    ABT_xstream_create(ABT_SCHED_NULL, &xs);
    ABT_thread_create_on_xstream(xs, b_func, NULL, ABT_THREAD_ATTR_NULL, &b);
    g_a_thread = pthread_self();
    g_armed = 1;
    int a_rc = ABT_thread_set_specific(g_target, g_key, (void *)0xA);
    for (int i = 0; i < 3000 && !g_b_done; i++)
        usleep(1000);
    if (!g_b_done) {
        printf("ktable_race => HANG[setter-B-never-returned] | a=%d hits=%d\n", a_rc, g_hits);
        fflush(stdout);
        _exit(0);
    }
    void *v = NULL;
    ABT_thread_get_specific(g_target, g_key, &v);
    const char *obs = "ok";
    if (g_hits != 1)
        obs = "HARNESS-ERROR[allocation-not-intercepted]";
    else if (a_rc == ABT_SUCCESS)
        obs = "creator-did-not-fail";
    else if (g_b_rc == ABT_SUCCESS && v != (void *)0xB)
        obs = "value-lost";
    printf("ktable_race => %s | a=%s b=%s v=%p\n", obs, a_rc == ABT_SUCCESS ? "S" : "E",
           g_b_rc == ABT_SUCCESS ? "S" : "E", v);
    fflush(stdout);
    /* the rest of the runtime must still work */
    ABT_thread_free(&b);
    ABT_xstream_join(xs);
    ABT_xstream_free(&xs);
    ABT_thread t = ABT_THREAD_NULL;
    ABT_pool_pop_thread(pool, &t);
    if (t != ABT_THREAD_NULL)
        ABT_self_schedule(t, ABT_POOL_NULL);
    ABT_thread_free(&g_target);
    ABT_pool_free(&pool);
    ABT_key_free(&g_key);
    ABT_finalize();
    return 0;
}

int main(void)
{
    fflush(stdout);
    pid_t pid = fork();
    if (pid == 0) {
        alarm(20);
        _exit(child());
    }
    int status = 0;
    waitpid(pid, &status, 0);
    if (WIFSIGNALED(status)) {
        if (WTERMSIG(status) == SIGALRM)
            printf("ktable_race => HANG[20s] | -\n");
        else
            printf("ktable_race => CRASH[signal=%d] | -\n", WTERMSIG(status));
    } else if (WEXITSTATUS(status) != 0) {
        printf("ktable_race => HARNESS-ERROR[exit=%d] | -\n", WEXITSTATUS(status));
    }
    return 0;
}
