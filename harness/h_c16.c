/* C16 harness: work-unit-local storage through the public API (no hooks).
 * One case per input line, one canonical output line per case (same format as
 * ocaml/drv_c16.ml).  Every case does its own ABT_init/ABT_finalize with
 * ABT_KEY_TABLE_SIZE set beforehand and the global key-id counter reset (white
 * box), so cases are independent; a watchdog alarm aborts a stuck case (the
 * runner restarts after it).  VH_FORK=1 runs every case in a child process
 * instead; RC cases always do.  The sanitizer build runs a leak check after
 * every case (" LEAK" in the observable part).
 *
 *   CFG
 *   KT <env|-> ; op , op , ...        API level, ops executed in the given total order
 *      kc D            main: ABT_key_create(destructor #D (0 = NULL), &key[next])
 *      kf H            main: ABT_key_free(&key[H])
 *      kj N            main (white box): g_key_id := N
 *      uc U T M        main: create unit U; T = t named ULT (primary ES) | T named ULT (ES 2)
 *                      | n unnamed ULT (primary ES) | k named tasklet (ES 1) | j unnamed tasklet (ES 1);
 *                      M = 1: thread attribute with a migration callback (ULTs only)
 *      s A P U H V     actor A (unit number, x = external pthread) sets key H := V on unit U with
 *                      P = k ABT_key_set | e ABT_self_set_specific | t ABT_thread_set_specific
 *      g A P U H       same for get
 *      m A U           actor A: ABT_thread_set_callback(U) (-> ABTI_thread_get_mig_data)
 *      uj U            unit U's function returns (unnamed: it is freed by its scheduler)
 *      ur U            main: ABT_thread_revive(U)
 *      uf U            main: ABT_thread_free(U)
 *   at the end: remaining named units are freed in ascending order, then ABT_finalize
 *   frees the primary ULT (unit 0).
 *   WB <env|-> ; op , ...             white box on a private p_keytable word
 *      s ID D V | g ID | a SIZE       ABTI_ktable_set_unsafe with a key {D, ID} / ABTI_ktable_get /
 *                                     ABTI_ktable_alloc_elem(SIZE)
 *   CC <env|-> ; E K R                E streams x K keys each x R rounds set concurrently on one
 *                                     fresh ULT (keys distinct per stream), then everything is read back
 * Output: observable results, then " | ", then the white-box dump. */
#include "abti.h"
#include "vh_common.h"
#include <stdarg.h>
#include <pthread.h>
#include <sched.h>
#include <signal.h>
#include <sys/wait.h>
#include <unistd.h>

/* ------------------------------------------------------------ release log */
/* one log per execution stream rank (frees run on the stream of whoever frees:
 * the caller of ABT_thread_free, or the scheduler for unnamed units) */
#define MAXREL 8192
#define NLANE 4
typedef struct {
    void *p;
    char how; /* 'P' ABTI_mem_free_desc (trailing word 0), 'X' ABTI_mem_free_desc
                 (trailing word != 0), 'F' ABTU_free */
} rel_t;
static rel_t g_rel[NLANE][MAXREL];
static volatile int g_nrel[NLANE];
static int g_force_lane = -1;
static int lane(void)
{
    int rank = -1;
    if (g_force_lane >= 0)
        return g_force_lane;
    if (ABT_xstream_self_rank(&rank) != ABT_SUCCESS || rank < 0 ||
        rank >= NLANE - 1)
        return NLANE - 1;
    return rank;
}
static void rel_log(void *p, char how)
{
    int l = lane();
    if (g_nrel[l] < MAXREL) {
        g_rel[l][g_nrel[l]].p = p;
        g_rel[l][g_nrel[l]].how = how;
        g_nrel[l]++;
    }
}
static void vh_free_desc(ABTI_global *p_global, ABTI_local *p_local, void *p)
{
    rel_log(p, *(uint32_t *)(((char *)p) + ABTI_MEM_POOL_DESC_SIZE) ? 'X' : 'P');
    ABTI_mem_free_desc(p_global, p_local, p);
}
static void vh_free(void *p)
{
    rel_log(p, 'F');
    ABTU_free(p);
}

/* The harness *is* key.c of the tree under test: all of its external symbols
 * are defined here, so the archive member is not linked and the library's
 * thread_free() calls this copy of ABTI_ktable_free, whose two releasers are
 * the logging wrappers above. */
#define ABTI_mem_free_desc vh_free_desc
#define ABTU_free vh_free
#include "key.c"
#undef ABTI_mem_free_desc
#undef ABTU_free

/* ------------------------------------------------------------ destructor log */
#define MAXD 8192
typedef struct {
    int d;
    intptr_t v;
} dl_t;
static dl_t g_dlog[NLANE][MAXD];
static volatile int g_nd[NLANE];
static void dlog(int d, void *v)
{
    int l = lane();
    if (g_nd[l] < MAXD) {
        g_dlog[l][g_nd[l]].d = d;
        g_dlog[l][g_nd[l]].v = (intptr_t)v;
        g_nd[l]++;
    }
}
#define DT(n)                                                                  \
    static void dtor##n(void *v)                                               \
    {                                                                          \
        dlog(n, v);                                                            \
    }
DT(1) DT(2) DT(3) DT(4) DT(5) DT(6) DT(7)
typedef void (*dtor_t)(void *);
static dtor_t g_dtors[8] = { NULL,  dtor1, dtor2, dtor3,
                             dtor4, dtor5, dtor6, dtor7 };
static int dtor_num(dtor_t f)
{
    int i;
    if (!f)
        return 0;
    for (i = 1; i < 8; i++)
        if (g_dtors[i] == f)
            return i;
    return 99; /* an internal destructor (migration data) */
}

/* ------------------------------------------------------------ output slots */
/* slot 0 = header, slot i+1 = op i, last slot = end of case; each slot has an
 * observable and an internal text; a case line is all observable texts, " |",
 * all internal texts */
#define MAXOPS 4096
typedef struct {
    char *p;
    size_t n, c;
} dstr_t;
static dstr_t g_out[2][MAXOPS + 3];
static volatile int g_slot;
static void outf(int internal, const char *fmt, ...)
{
    char tmp[512];
    va_list ap;
    va_start(ap, fmt);
    int n = vsnprintf(tmp, sizeof(tmp), fmt, ap);
    va_end(ap);
    dstr_t *d = &g_out[internal ? 1 : 0][g_slot];
    if (d->n + n + 1 > d->c) {
        d->c = (d->c + n + 1) * 2;
        d->p = (char *)realloc(d->p, d->c);
    }
    memcpy(d->p + d->n, tmp, n + 1);
    d->n += n;
}
static void out_reset(void)
{
    int k, i;
    for (k = 0; k < 2; k++)
        for (i = 0; i < MAXOPS + 3; i++) {
            free(g_out[k][i].p);
            g_out[k][i].p = NULL;
            g_out[k][i].n = g_out[k][i].c = 0;
        }
    g_slot = 0;
}
static void out_print(void)
{
    int k, i;
    for (k = 0; k < 2; k++) {
        for (i = 0; i < MAXOPS + 3; i++)
            if (g_out[k][i].p)
                fputs(g_out[k][i].p, stdout);
        if (k == 0)
            fputs(" |", stdout);
    }
    fputs("\n", stdout);
}

/* ------------------------------------------------------------ white-box dump */
#define MAXBLK 4096
typedef struct {
    int nblk;
    void *blk[MAXBLK]; /* chain addresses, head first */
} snap_t;

static size_t g_ktable_bytes; /* ktable_size of the running configuration */

static void dump_table(const char *tag, int u, ABTI_ktable *t, snap_t *sn)
{
    sn->nblk = 0;
    if (!t) {
        outf(1, " %s%d:null", tag, u);
        return;
    }
    if (t == ABTI_KTABLE_LOCKED) {
        outf(1, " %s%d:LOCKED", tag, u);
        return;
    }
    ABTI_ktable_mem_header *h = (ABTI_ktable_mem_header *)t->p_used_mem;
    char kinds[MAXBLK];
    while (h && sn->nblk < MAXBLK) {
        kinds[sn->nblk] =
            h->is_from_mempool
                ? (*(uint32_t *)(((char *)h) + ABTI_MEM_POOL_DESC_SIZE) ? 'X'
                                                                       : 'P')
                : 'M';
        sn->blk[sn->nblk++] = (void *)h;
        h = h->p_next;
    }
    int nb = sn->nblk, i;
    outf(1, " %s%d:sz=%d;", tag, u, t->size);
    for (i = 0; i < t->size; i++) {
        ABTI_ktelem *e =
            (ABTI_ktelem *)ABTD_atomic_relaxed_load_ptr(&t->p_elems[i]);
        if (!e)
            continue;
        outf(1, "%d[", i);
        int first = 1;
        while (e) {
            /* which block holds this element? */
            int b, where = -1;
            long off = 0;
            for (b = 0; b < nb; b++) {
                char *lo = (char *)sn->blk[b];
                size_t lim =
                    kinds[b] != 'M'
                        ? ABTI_MEM_POOL_DESC_SIZE
                        : (b == nb - 1 ? sizeof(ABTI_ktable_mem_header) +
                                             g_ktable_bytes
                                       : (size_t)1 << 30);
                if ((char *)e >= lo && (char *)e < lo + lim) {
                    where = nb - 1 - b;
                    off = (char *)e - lo;
                    break;
                }
            }
            long val = (long)(intptr_t)e->value;
            if (dtor_num(e->f_destructor) == 99 && e->value)
                val = -1; /* the migration data: an address */
            outf(1, "%s%u:%ld:%d@%d+%ld", first ? "" : " ", e->key_id, val,
                 dtor_num(e->f_destructor), where, off);
            first = 0;
            e = (ABTI_ktelem *)ABTD_atomic_relaxed_load_ptr(&e->p_next);
        }
        outf(1, "]");
    }
    outf(1, ";used=");
    for (i = 0; i < nb; i++)
        outf(1, "%c", kinds[i]);
    /* p_extra_mem */
    if (!t->p_extra_mem)
        outf(1, ";extra=-/%zu", t->extra_mem_size);
    else {
        int b, where = -1;
        long off = 0;
        for (b = 0; b < nb; b++) {
            char *lo = (char *)sn->blk[b];
            if ((char *)t->p_extra_mem >= lo &&
                (char *)t->p_extra_mem <= lo + ABTI_MEM_POOL_DESC_ELEM_SIZE) {
                where = nb - 1 - b;
                off = (char *)t->p_extra_mem - lo;
                break;
            }
        }
        outf(1, ";extra=%d+%ld/%zu", where, off, t->extra_mem_size);
    }
}

/* releases logged on lane [l] in [from, to), mapped through the snapshot */
static void dump_rel(int l, int from, int to, snap_t *sn)
{
    int i, b;
    outf(1, ";rel=");
    for (i = from; i < to; i++) {
        int where = -1;
        for (b = 0; b < sn->nblk; b++)
            if (sn->blk[b] == g_rel[l][i].p)
                where = sn->nblk - 1 - b;
        outf(1, "%s%c%d", i == from ? "" : ",", g_rel[l][i].how, where);
    }
}

static int cmp_d(const void *a, const void *b)
{
    const long *p = (const long *)a, *q = (const long *)b;
    if (p[0] != q[0])
        return p[0] < q[0] ? -1 : 1;
    if (p[1] != q[1])
        return p[1] < q[1] ? -1 : 1;
    return 0;
}
/* destructor calls logged on lane [l] in [from, to): sorted in the observable
 * part (the order is unspecified by the API), in call order in the internal part */
static void dump_dtors(int u, int l, int from, int to)
{
    int n = to - from, i;
    long *a = (long *)malloc(sizeof(long) * 2 * (n + 1));
    outf(1, ";dt=");
    for (i = 0; i < n; i++) {
        a[2 * i] = g_dlog[l][from + i].d;
        a[2 * i + 1] = (long)g_dlog[l][from + i].v;
        outf(1, "%s%ld:%ld", i ? "," : "", a[2 * i], a[2 * i + 1]);
    }
    qsort(a, n, 2 * sizeof(long), cmp_d);
    outf(0, " F%d{", u);
    for (i = 0; i < n; i++)
        outf(0, "%s%ld:%ld", i ? "," : "", a[2 * i], a[2 * i + 1]);
    outf(0, "}");
    free(a);
}

/* ------------------------------------------------------------ KT cases */
#define MAXU 64
#define MAXK 512
typedef struct {
    char kind[3];
    int actor; /* unit number, -1 = external, -2 = main orchestration */
    char api;
    int u, h;
    long v;
    char ty;
    int mig;
} op_t;
static op_t g_ops[MAXOPS];
static int g_nops;
static volatile int g_turn, g_ujdone;
static ABT_key g_keys[MAXK];
static int g_nkeys;
typedef struct {
    int exists, named, type; /* type: 't','T','n','k','j' */
    ABT_thread h;
    volatile int published;
    int cursor;
    snap_t snap;
    int relmark, dmark, lane, defer_op;
} unit_t;
static unit_t g_units[MAXU];
static int g_defer[MAXOPS], g_ndefer;
static ABT_xstream g_xs[3];
static ABT_pool g_pool[3];

static int actor_of(op_t *o)
{
    return o->actor;
}
static void mig_cb(ABT_thread t, void *arg)
{
    (void)t;
    (void)arg;
}

static void exec_setget(op_t *o)
{
    int rc;
    ABT_key key = (o->h >= 0 && o->h < g_nkeys) ? g_keys[o->h] : ABT_KEY_NULL;
    if (o->kind[0] == 's') {
        void *val = (void *)(intptr_t)o->v;
        if (o->api == 'k')
            rc = ABT_key_set(key, val);
        else if (o->api == 'e')
            rc = ABT_self_set_specific(key, val);
        else {
            if (!g_units[o->u].published)
                VH_DIE("set on unit %d whose handle is not known yet", o->u);
            rc = ABT_thread_set_specific(g_units[o->u].h, key, val);
        }
        outf(0, " c%d", rc);
    } else if (o->kind[0] == 'g') {
        void *val = (void *)(intptr_t)0x5a5a;
        if (o->api == 'k')
            rc = ABT_key_get(key, &val);
        else if (o->api == 'e')
            rc = ABT_self_get_specific(key, &val);
        else {
            if (!g_units[o->u].published)
                VH_DIE("get on unit %d whose handle is not known yet", o->u);
            rc = ABT_thread_get_specific(g_units[o->u].h, key, &val);
        }
        if (rc == ABT_SUCCESS)
            outf(0, " v%ld", (long)(intptr_t)val);
        else
            outf(0, " c%d", rc);
    } else if (o->kind[0] == 'm') {
        if (!g_units[o->u].published)
            VH_DIE("callback on unit %d whose handle is not known yet", o->u);
        rc = ABT_thread_set_callback(g_units[o->u].h, mig_cb, NULL);
        outf(0, " c%d", rc);
    }
}

/* body of every created unit and of the external thread: perform the ops this
 * actor owns, each when its turn comes */
static void run_actor(int actor, int can_yield)
{
    unit_t *me = actor >= 0 ? &g_units[actor] : NULL;
    int i = me ? me->cursor : 0;
    for (; i < g_nops; i++) {
        op_t *o = &g_ops[i];
        if (actor_of(o) != actor)
            continue;
        while (g_turn != i) {
            if (can_yield)
                ABT_thread_yield();
            else
                sched_yield();
        }
        __sync_synchronize();
        g_slot = i + 1;
        if (me && !me->published) {
            ABT_self_get_thread(&me->h);
            me->published = 1;
        }
        if (!strcmp(o->kind, "uj")) {
            me->cursor = i + 1;
            if (!me->named) {
                /* about to be freed by the scheduler: dump myself now */
                ABTI_thread *p = ABTI_thread_get_ptr(me->h);
                dump_table("T", actor,
                           (ABTI_ktable *)ABTD_atomic_acquire_load_ptr(
                               &p->p_keytable),
                           &me->snap);
                me->lane = lane();
                me->relmark = g_nrel[me->lane];
                me->dmark = g_nd[me->lane];
            }
            __sync_synchronize();
            g_ujdone = i + 1; /* main finishes the op and passes the turn on */
            return;
        }
        exec_setget(o);
        __sync_synchronize();
        g_turn = i + 1;
    }
}
static void unit_fn(void *arg)
{
    int u = (int)(intptr_t)arg;
    run_actor(u, g_units[u].type != 'k' && g_units[u].type != 'j');
}
static void *ext_fn(void *arg)
{
    (void)arg;
    run_actor(-1, 0);
    return NULL;
}
static void nop_fn(void *arg)
{
    (void)arg;
}

static int es_of(int type)
{
    return type == 'T' ? 2 : (type == 'k' || type == 'j') ? 1 : 0;
}

static void free_unit_now(int u)
{
    unit_t *x = &g_units[u];
    ABTI_thread *p = ABTI_thread_get_ptr(x->h);
    dump_table("T", u,
               (ABTI_ktable *)ABTD_atomic_acquire_load_ptr(&p->p_keytable),
               &x->snap);
    int l = lane();
    int rm = g_nrel[l], dm = g_nd[l];
    int rc = ABT_thread_free(&x->h);
    if (rc != ABT_SUCCESS)
        outf(0, " FREE-RC%d", rc);
    dump_rel(l, rm, g_nrel[l], &x->snap);
    dump_dtors(u, l, dm, g_nd[l]);
    x->exists = 0;
}

static void parse_kt_ops(char *ops)
{
    char *save;
    char *o = strtok_r(ops, ",", &save);
    g_nops = 0;
    while (o) {
        while (*o == ' ')
            o++;
        if (*o) {
            if (g_nops >= MAXOPS)
                VH_DIE("too many ops");
            op_t *p = &g_ops[g_nops];
            memset(p, 0, sizeof(*p));
            char a[16] = "", b[16] = "";
            p->actor = -2;
            if (sscanf(o, "%2s", p->kind) != 1)
                VH_DIE("bad op");
            if (!strcmp(p->kind, "kc")) {
                sscanf(o, "kc %ld", &p->v);
            } else if (!strcmp(p->kind, "kf")) {
                sscanf(o, "kf %d", &p->h);
            } else if (!strcmp(p->kind, "kj")) {
                sscanf(o, "kj %ld", &p->v);
            } else if (!strcmp(p->kind, "uc")) {
                sscanf(o, "uc %d %c %d", &p->u, &p->ty, &p->mig);
            } else if (!strcmp(p->kind, "s")) {
                sscanf(o, "s %15s %c %d %d %ld", a, &p->api, &p->u, &p->h,
                       &p->v);
                p->actor = a[0] == 'x' ? -1 : atoi(a);
            } else if (!strcmp(p->kind, "g")) {
                sscanf(o, "g %15s %c %d %d", a, &p->api, &p->u, &p->h);
                p->actor = a[0] == 'x' ? -1 : atoi(a);
            } else if (!strcmp(p->kind, "m")) {
                sscanf(o, "m %15s %d", a, &p->u);
                p->actor = a[0] == 'x' ? -1 : atoi(a);
            } else if (!strcmp(p->kind, "uj")) {
                sscanf(o, "uj %d", &p->u);
                p->actor = p->u;
            } else if (!strcmp(p->kind, "ur") || !strcmp(p->kind, "uf")) {
                sscanf(o + 2, "%d", &p->u);
            } else
                VH_DIE("bad op '%s'", o);
            (void)b;
            if (p->actor == 0)
                p->actor = -2; /* the primary ULT's own ops are run by main */
            g_nops++;
        }
        o = strtok_r(NULL, ",", &save);
    }
}

static void set_env(const char *env)
{
    if (env[0] == '-')
        unsetenv("ABT_KEY_TABLE_SIZE");
    else
        setenv("ABT_KEY_TABLE_SIZE", env, 1);
    unsetenv("ABT_ENV_KEY_TABLE_SIZE");
}

static void init_rt(int need_es1, int need_es2)
{
    ABT_init(0, NULL);
    ABTI_global *g = ABTI_global_get_global();
    g_ktable_bytes = ABTU_roundup_size(offsetof(ABTI_ktable, p_elems) +
                                           sizeof(ABTD_atomic_ptr) *
                                               g->key_table_size,
                                       ABTU_MAX_ALIGNMENT);
    ABT_xstream_self(&g_xs[0]);
    ABT_xstream_get_main_pools(g_xs[0], 1, &g_pool[0]);
    int e;
    for (e = 1; e < 3; e++) {
        if ((e == 1 && !need_es1) || (e == 2 && !need_es2))
            continue;
        if (ABT_xstream_create(ABT_SCHED_NULL, &g_xs[e]) != ABT_SUCCESS)
            VH_DIE("xstream create");
        ABT_xstream_get_main_pools(g_xs[e], 1, &g_pool[e]);
    }
}

static void do_kt(char *line)
{
    char env[32];
    char *semi = strchr(line, ';');
    if (!semi || sscanf(line, "KT %31s", env) != 1)
        VH_DIE("bad KT line");
    parse_kt_ops(semi + 1);
    set_env(env);
    int i, need1 = 0, need2 = 0, needx = 0;
    for (i = 0; i < g_nops; i++) {
        if (!strcmp(g_ops[i].kind, "uc")) {
            if (es_of(g_ops[i].ty) == 1)
                need1 = 1;
            if (es_of(g_ops[i].ty) == 2)
                need2 = 1;
        }
        if (g_ops[i].actor == -1)
            needx = 1;
    }
    init_rt(need1, need2);
    ABTI_global *gl = ABTI_global_get_global();
    outf(0, "KT n=%u", gl->key_table_size);
    /* unit 0 = primary ULT */
    memset(g_units, 0, sizeof(g_units));
    g_units[0].exists = 1;
    g_units[0].named = 1;
    g_units[0].type = 'p';
    ABT_self_get_thread(&g_units[0].h);
    g_units[0].published = 1;
    pthread_t xt;
    if (needx)
        pthread_create(&xt, NULL, ext_fn, NULL);
    g_turn = 0;
    g_ujdone = 0;
    for (i = 0; i < g_nops; i++) {
        op_t *o = &g_ops[i];
        if (o->actor != -2) {
            /* somebody else's op: wait until it has been performed */
            if (strcmp(o->kind, "uj")) {
                while (g_turn <= i)
                    ABT_thread_yield();
                __sync_synchronize();
            } else {
                while (g_ujdone != i + 1)
                    ABT_thread_yield();
                __sync_synchronize();
                g_slot = i + 1;
                unit_t *x = &g_units[o->u];
                if (x->named) {
                    ABT_thread_join(x->h);
                } else {
                    /* the unit is freed by its scheduler.  On the primary
                     * stream that has happened by now (this ULT runs again only
                     * after the scheduler has dealt with the terminated unit);
                     * on another stream it is collected at the end of the case
                     * from that stream's logs */
                    if (es_of(x->type) == 0) {
                        dump_rel(x->lane, x->relmark, g_nrel[x->lane], &x->snap);
                        dump_dtors(o->u, x->lane, x->dmark, g_nd[x->lane]);
                    } else {
                        x->defer_op = i;
                        g_defer[g_ndefer++] = o->u;
                    }
                    x->exists = 0;
                }
                __sync_synchronize();
                g_turn = i + 1;
            }
            continue;
        }
        /* all earlier ops are complete: the slot is ours */
        g_slot = i + 1;
        if (!strcmp(o->kind, "kc")) {
            if (g_nkeys >= MAXK)
                VH_DIE("too many keys");
            int rc = ABT_key_create(g_dtors[o->v & 7], &g_keys[g_nkeys]);
            if (rc != ABT_SUCCESS)
                VH_DIE("key create");
            outf(0, " k");
            outf(1, " id%u", ABTI_key_get_ptr(g_keys[g_nkeys])->id);
            g_nkeys++;
        } else if (!strcmp(o->kind, "kf")) {
            int rc = ABT_key_free(&g_keys[o->h]);
            outf(0, " c%d", rc);
        } else if (!strcmp(o->kind, "kj")) {
            ABTD_atomic_relaxed_store_uint32(&g_key_id, (uint32_t)o->v);
            outf(0, " c0");
        } else if (!strcmp(o->kind, "uc")) {
            unit_t *x = &g_units[o->u];
            if (o->u <= 0 || o->u >= MAXU || x->exists)
                VH_DIE("bad unit number %d", o->u);
            memset(x, 0, sizeof(*x));
            x->exists = 1;
            x->type = o->ty;
            x->named = (o->ty == 't' || o->ty == 'T' || o->ty == 'k');
            x->cursor = i + 1;
            int e = es_of(o->ty), rc;
            if (o->ty == 'k' || o->ty == 'j') {
                rc = ABT_task_create(g_pool[e], unit_fn,
                                     (void *)(intptr_t)o->u,
                                     x->named ? &x->h : NULL);
            } else {
                ABT_thread_attr attr = ABT_THREAD_ATTR_NULL;
                if (o->mig) {
                    ABT_thread_attr_create(&attr);
                    ABT_thread_attr_set_callback(attr, mig_cb, NULL);
                }
                rc = ABT_thread_create(g_pool[e], unit_fn,
                                       (void *)(intptr_t)o->u, attr,
                                       x->named ? &x->h : NULL);
                if (o->mig)
                    ABT_thread_attr_free(&attr);
            }
            if (x->named)
                x->published = 1;
            outf(0, " c%d", rc);
        } else if (!strcmp(o->kind, "ur")) {
            unit_t *x = &g_units[o->u];
            int e = es_of(x->type);
            int rc = ABT_thread_revive(g_pool[e], unit_fn,
                                       (void *)(intptr_t)o->u, &x->h);
            outf(0, " c%d", rc);
        } else if (!strcmp(o->kind, "uf")) {
            free_unit_now(o->u);
        } else {
            exec_setget(o);
        }
        __sync_synchronize();
        g_turn = i + 1;
    }
    if (needx)
        pthread_join(xt, NULL);
    /* end of case: free what is left */
    g_slot = g_nops + 1;
    for (i = 1; i < MAXU; i++)
        if (g_units[i].exists && g_units[i].named)
            free_unit_now(i);
    for (i = 0; i < g_nkeys; i++)
        if (g_keys[i] != ABT_KEY_NULL)
            ABT_key_free(&g_keys[i]);
    int e;
    for (e = 1; e < 3; e++)
        if (g_xs[e]) {
            ABT_xstream_join(g_xs[e]);
            ABT_xstream_free(&g_xs[e]);
        }
    /* unnamed units freed by other streams: their slice of that stream's logs
     * ends where the next such unit's begins */
    for (i = 0; i < g_ndefer; i++) {
        unit_t *x = &g_units[g_defer[i]];
        int rend = g_nrel[x->lane], dend = g_nd[x->lane], j;
        for (j = i + 1; j < g_ndefer; j++)
            if (g_units[g_defer[j]].lane == x->lane) {
                rend = g_units[g_defer[j]].relmark;
                dend = g_units[g_defer[j]].dmark;
                break;
            }
        g_slot = x->defer_op + 1;
        dump_rel(x->lane, x->relmark, rend, &x->snap);
        dump_dtors(g_defer[i], x->lane, x->dmark, dend);
    }
    g_slot = g_nops + 2;
    {
        ABTI_thread *p = ABTI_thread_get_ptr(g_units[0].h);
        dump_table("T", 0,
                   (ABTI_ktable *)ABTD_atomic_acquire_load_ptr(&p->p_keytable),
                   &g_units[0].snap);
        int rm = g_nrel[0], dm = g_nd[0];
        g_force_lane = 0;
        ABT_finalize();
        g_force_lane = -1;
        dump_rel(0, rm, g_nrel[0], &g_units[0].snap);
        dump_dtors(0, 0, dm, g_nd[0]);
    }
}

/* ------------------------------------------------------------ WB cases */
static void do_wb(char *line)
{
    char env[32];
    char *semi = strchr(line, ';');
    if (!semi || sscanf(line, "WB %31s", env) != 1)
        VH_DIE("bad WB line");
    set_env(env);
    init_rt(0, 0);
    ABTI_global *gl = ABTI_global_get_global();
    ABTI_local *lo = ABTI_local_get_local();
    outf(0, "WB n=%u", gl->key_table_size);
    ABTI_ktable *tab = NULL;
    ABTD_atomic_ptr word;
    char *save;
    char *o = strtok_r(semi + 1, ",", &save);
    while (o) {
        while (*o == ' ')
            o++;
        if (*o == 's') {
            unsigned long id;
            int d;
            long v;
            sscanf(o, "s %lu %d %ld", &id, &d, &v);
            ABTI_key k;
            k.f_destructor = g_dtors[d & 7];
            k.id = (uint32_t)id;
            int rc = ABTI_ktable_set_unsafe(gl, lo, &tab, &k,
                                            (void *)(intptr_t)v);
            outf(0, " c%d", rc);
        } else if (*o == 'g') {
            unsigned long id;
            sscanf(o, "g %lu", &id);
            ABTI_key k;
            k.f_destructor = NULL;
            k.id = (uint32_t)id;
            ABTD_atomic_relaxed_store_ptr(&word, tab);
            outf(0, " v%ld", (long)(intptr_t)ABTI_ktable_get(&word, &k));
        } else if (*o == 'a') {
            unsigned long sz;
            sscanf(o, "a %lu", &sz);
            if (!tab)
                outf(0, " anull");
            else {
                void *m = NULL;
                int rc = ABTI_ktable_alloc_elem(lo, tab, sz, &m);
                if (rc == ABT_SUCCESS)
                    memset(m, 0xa5, sz); /* ASan checks the extent for malloc'ed blocks */
                outf(0, " c%d", rc);
            }
        } else if (*o)
            VH_DIE("bad WB op '%s'", o);
        o = strtok_r(NULL, ",", &save);
    }
    snap_t *sn = (snap_t *)calloc(1, sizeof(snap_t));
    dump_table("W", 0, tab, sn);
    g_force_lane = 0;
    int rm = g_nrel[0], dm = g_nd[0];
    if (tab)
        ABTI_ktable_free(gl, lo, tab);
    dump_rel(0, rm, g_nrel[0], sn);
    dump_dtors(0, 0, dm, g_nd[0]);
    g_force_lane = -1;
    free(sn);
    ABT_finalize();
}

/* ------------------------------------------------------------ CC cases */
static struct {
    int E, K, R;
    ABT_thread target;
    volatile int go;
    volatile int err;
} g_cc;
static void cc_fn(void *arg)
{
    int e = (int)(intptr_t)arg, r, k;
    __sync_fetch_and_add(&g_cc.go, 1);
    while (g_cc.go < g_cc.E)
        ;
    for (r = 0; r < g_cc.R; r++)
        for (k = 0; k < g_cc.K; k++) {
            int h = e * g_cc.K + k;
            int rc = ABT_thread_set_specific(g_cc.target, g_keys[h],
                                             (void *)(intptr_t)(
                                                 (h + 1) * 1000 + r));
            void *v = NULL;
            int rc2 = ABT_thread_get_specific(g_cc.target, g_keys[h], &v);
            if (rc || rc2 || (intptr_t)v != (h + 1) * 1000 + r)
                g_cc.err = 1;
        }
}
static void cc_idle(void *arg)
{
    volatile int *stop = (volatile int *)arg;
    while (!*stop)
        ABT_thread_yield();
}
static void do_cc(char *line)
{
    char env[32];
    int E, K, R, rounds, it;
    if (sscanf(line, "CC %31s ; %d %d %d %d", env, &E, &K, &R, &rounds) != 5)
        VH_DIE("bad CC line");
    set_env(env);
    ABT_init(0, NULL);
    ABTI_global *gl = ABTI_global_get_global();
    outf(0, "CC n=%u", gl->key_table_size);
    ABT_xstream xs[16];
    ABT_pool pools[16];
    int e, h;
    if (E > 16 || E * K > MAXK)
        VH_DIE("CC too large");
    ABT_xstream xself;
    ABT_pool pool0;
    ABT_xstream_self(&xself);
    ABT_xstream_get_main_pools(xself, 1, &pool0);
    for (e = 0; e < E; e++) {
        ABT_xstream_create(ABT_SCHED_NULL, &xs[e]);
        ABT_xstream_get_main_pools(xs[e], 1, &pools[e]);
    }
    for (h = 0; h < E * K; h++)
        ABT_key_create(g_dtors[1 + h % 7], &g_keys[h]);
    g_nkeys = E * K;
    int bad = 0, dups = 0, missing = 0, wrongslot = 0;
    for (it = 0; it < rounds; it++) {
        volatile int stop = 0;
        ABT_thread tgt, w[16];
        ABT_thread_create(pool0, cc_idle, (void *)&stop, ABT_THREAD_ATTR_NULL,
                          &tgt);
        g_cc.E = E;
        g_cc.K = K;
        g_cc.R = R;
        g_cc.target = tgt;
        g_cc.go = 0;
        for (e = 0; e < E; e++)
            ABT_thread_create(pools[e], cc_fn, (void *)(intptr_t)e,
                              ABT_THREAD_ATTR_NULL, &w[e]);
        for (e = 0; e < E; e++)
            ABT_thread_free(&w[e]);
        /* read everything back and inspect the chains */
        for (h = 0; h < E * K; h++) {
            void *v = NULL;
            ABT_thread_get_specific(tgt, g_keys[h], &v);
            if ((intptr_t)v != (h + 1) * 1000 + R - 1)
                missing++;
        }
        ABTI_ktable *t = (ABTI_ktable *)ABTD_atomic_acquire_load_ptr(
            &ABTI_thread_get_ptr(tgt)->p_keytable);
        if (!ABTI_ktable_is_valid(t))
            bad++;
        else {
            int i, cnt = 0;
            static unsigned char seen[MAXK + 8];
            memset(seen, 0, sizeof(seen));
            for (i = 0; i < t->size; i++) {
                ABTI_ktelem *el = (ABTI_ktelem *)ABTD_atomic_relaxed_load_ptr(
                    &t->p_elems[i]);
                while (el) {
                    cnt++;
                    if ((el->key_id & (uint32_t)(t->size - 1)) != (uint32_t)i)
                        wrongslot++;
                    uint32_t rel = el->key_id - ABTI_KEY_ID_END_;
                    if (rel < MAXK) {
                        if (seen[rel])
                            dups++;
                        seen[rel] = 1;
                    }
                    el = (ABTI_ktelem *)ABTD_atomic_relaxed_load_ptr(
                        &el->p_next);
                }
            }
            if (cnt != E * K)
                bad++;
        }
        stop = 1;
        g_force_lane = 0;
        int dm = g_nd[0];
        ABT_thread_free(&tgt);
        if (g_nd[0] - dm != E * K)
            bad++;
        g_nd[0] = 0;
        g_nrel[0] = 0;
        g_force_lane = -1;
    }
    outf(0, " err=%d missing=%d dups=%d wrongslot=%d bad=%d", g_cc.err, missing,
         dups, wrongslot, bad);
    for (h = 0; h < E * K; h++)
        ABT_key_free(&g_keys[h]);
    for (e = 0; e < E; e++) {
        ABT_xstream_join(xs[e]);
        ABT_xstream_free(&xs[e]);
    }
    ABT_finalize();
}

/* ------------------------------------------------------------ RC cases */
/* RC <env> ; <ms>    two streams set different keys on one fresh ULT; the first
 * setter wins the NULL -> LOCKED CAS and its table allocation is made to fail
 * (posix_memalign wrapped at link time, harness built with -DVH_RACE) after
 * the second setter has been released into the spin loop.  Needs a table size
 * for which ABTI_ktable_create uses ABTU_malloc (>= 16). */
#ifdef VH_RACE
#include <errno.h>
#include <time.h>
int __real_posix_memalign(void **p, size_t al, size_t sz);
static volatile int g_fail_armed, g_in_create, g_fail_ms;
static volatile size_t g_fail_size;
int __wrap_posix_memalign(void **p, size_t al, size_t sz)
{
    if (g_fail_armed && sz == g_fail_size &&
        __sync_bool_compare_and_swap(&g_fail_armed, 1, 0)) {
        struct timespec ts;
        g_in_create = 1; /* the caller holds ABTI_KTABLE_LOCKED now */
        __sync_synchronize();
        ts.tv_sec = 0;
        ts.tv_nsec = (long)g_fail_ms * 1000000L;
        nanosleep(&ts, NULL);
        return ENOMEM;
    }
    return __real_posix_memalign(p, al, sz);
}
static struct {
    ABT_thread target;
    ABT_key k1, k2;
    volatile int rc_a, rc_b, rc_a2;
} g_rc;
static void rc_creator(void *arg)
{
    (void)arg;
    g_fail_armed = 1;
    __sync_synchronize();
    g_rc.rc_a = ABT_thread_set_specific(g_rc.target, g_rc.k1, (void *)11);
    /* a retry after the failed run behaves like a first run */
    g_rc.rc_a2 = ABT_thread_set_specific(g_rc.target, g_rc.k1, (void *)12);
}
static void rc_loser(void *arg)
{
    (void)arg;
    while (!g_in_create)
        ;
    __sync_synchronize();
    g_rc.rc_b = ABT_thread_set_specific(g_rc.target, g_rc.k2, (void *)22);
}
static void do_rc(char *line)
{
    char env[32];
    int ms;
    if (sscanf(line, "RC %31s ; %d", env, &ms) != 2)
        VH_DIE("bad RC line");
    set_env(env);
    ABT_init(0, NULL);
    ABTI_global *gl = ABTI_global_get_global();
    outf(0, "RC n=%u", gl->key_table_size);
    g_fail_size = ABTU_roundup_size(
        ABTU_roundup_size(offsetof(ABTI_ktable, p_elems) +
                              sizeof(ABTD_atomic_ptr) * gl->key_table_size,
                          ABTU_MAX_ALIGNMENT) +
            sizeof(ABTI_ktable_mem_header),
        ABT_CONFIG_STATIC_CACHELINE_SIZE);
    g_fail_ms = ms;
    ABT_xstream xs[2], xself;
    ABT_pool pools[2], pool0;
    int e;
    ABT_xstream_self(&xself);
    ABT_xstream_get_main_pools(xself, 1, &pool0);
    for (e = 0; e < 2; e++) {
        ABT_xstream_create(ABT_SCHED_NULL, &xs[e]);
        ABT_xstream_get_main_pools(xs[e], 1, &pools[e]);
    }
    ABT_key_create(dtor1, &g_rc.k1);
    ABT_key_create(dtor2, &g_rc.k2);
    volatile int stop = 0;
    ABT_thread a, b;
    ABT_thread_create(pool0, cc_idle, (void *)&stop, ABT_THREAD_ATTR_NULL,
                      &g_rc.target);
    g_rc.rc_a = g_rc.rc_b = g_rc.rc_a2 = -1;
    ABT_thread_create(pools[1], rc_loser, NULL, ABT_THREAD_ATTR_NULL, &b);
    ABT_thread_create(pools[0], rc_creator, NULL, ABT_THREAD_ATTR_NULL, &a);
    ABT_thread_free(&a);
    ABT_thread_free(&b);
    void *v1 = NULL, *v2 = NULL;
    ABT_thread_get_specific(g_rc.target, g_rc.k1, &v1);
    ABT_thread_get_specific(g_rc.target, g_rc.k2, &v2);
    outf(0, " injected=%d creator=c%d loser=c%d retry=c%d get1=%ld get2=%ld",
         g_in_create, g_rc.rc_a, g_rc.rc_b, g_rc.rc_a2, (long)(intptr_t)v1,
         (long)(intptr_t)v2);
    stop = 1;
    g_force_lane = 0;
    ABT_thread_free(&g_rc.target);
    g_force_lane = -1;
    outf(0, " dtors=%d", g_nd[0]);
    ABT_key_free(&g_rc.k1);
    ABT_key_free(&g_rc.k2);
    for (e = 0; e < 2; e++) {
        ABT_xstream_join(xs[e]);
        ABT_xstream_free(&xs[e]);
    }
    ABT_finalize();
}
#else
static void do_rc(char *line)
{
    (void)line;
    VH_DIE("RC cases need the harness built with -DVH_RACE");
}
#endif

/* ------------------------------------------------------------ driver */
static void on_alarm(int sig)
{
    char b[128];
    int n = snprintf(b, sizeof(b), "harness: case timed out at op %d (%s)\n", g_turn,
                     g_turn < g_nops ? g_ops[g_turn].kind : "end");
    (void)sig;
    if (write(2, b, n) < 0)
        n = 0;
    _exit(14);
}

static void reset_case(void)
{
    int l;
    out_reset();
    for (l = 0; l < NLANE; l++)
        g_nrel[l] = g_nd[l] = 0;
    g_nkeys = 0;
    g_ndefer = 0;
    g_nops = 0;
    memset(g_xs, 0, sizeof(g_xs));
    memset(g_units, 0, sizeof(g_units));
    /* every case starts with the key-id counter of a fresh process: the value key.c itself starts from (sampled
     * before the first case), not a constant of this harness */
    static int have_init;
    static uint32_t init_id;
    if (!have_init) {
        init_id = ABTD_atomic_relaxed_load_uint32(&g_key_id);
        have_init = 1;
    }
    ABTD_atomic_relaxed_store_uint32(&g_key_id, init_id);
}

#if defined(__SANITIZE_ADDRESS__)
#include <sanitizer/lsan_interface.h>
#define VH_LEAKCHECK() __lsan_do_recoverable_leak_check()
#else
#define VH_LEAKCHECK() 0
#endif

static void run_case(char *line)
{
    if (!strncmp(line, "CFG", 3)) {
        printf("CFG desc=%zu hdr=%zu off=%zu ptr=%zu align=%zu elem=%zu "
               "idend=%d\n",
               (size_t)ABTI_KTABLE_DESC_SIZE, sizeof(ABTI_ktable_mem_header),
               offsetof(ABTI_ktable, p_elems), sizeof(ABTD_atomic_ptr),
               (size_t)ABTU_MAX_ALIGNMENT, sizeof(ABTI_ktelem),
               ABTI_KEY_ID_END_);
        return;
    }
    reset_case();
    if (!strncmp(line, "KT", 2))
        do_kt(line);
    else if (!strncmp(line, "WB", 2))
        do_wb(line);
    else if (!strncmp(line, "CC", 2))
        do_cc(line);
    else if (!strncmp(line, "RC", 2))
        do_rc(line);
    else
        VH_DIE("bad line");
    g_slot = MAXOPS + 2;
    if (VH_LEAKCHECK())
        outf(0, " LEAK");
    out_print();
    out_reset();
}

int main(int argc, char **argv)
{
    FILE *f = argc > 1 ? fopen(argv[1], "r") : stdin;
    if (!f)
        VH_DIE("cannot open case file");
    char *line;
    int nofork = getenv("VH_FORK") == NULL;
    /* read everything first: a forked child must not share a half-read FILE */
    char **lines = NULL;
    size_t nl = 0, cl = 0, li;
    while ((line = vh_getline(f))) {
        if (nl == cl) {
            cl = cl ? cl * 2 : 1024;
            lines = (char **)realloc(lines, cl * sizeof(char *));
        }
        lines[nl++] = line;
    }
    if (f != stdin)
        fclose(f);
    for (li = 0; li < nl; li++) {
        line = lines[li];
        if (!line[0] || line[0] == '#') {
            free(line);
            continue;
        }
        fflush(stdout);
        if (nofork && strncmp(line, "RC", 2)) {
            signal(SIGALRM, on_alarm);
            alarm(getenv("VH_ALARM") ? atoi(getenv("VH_ALARM")) : (strncmp(line, "CC", 2) ? 60 : 300));
            run_case(line);
            alarm(0);
            fflush(stdout);
            free(line);
            continue;
        }
        int fd[2];
        if (pipe(fd) != 0)
            VH_DIE("pipe");
        pid_t pid = fork();
        if (pid == 0) {
            close(fd[0]);
            dup2(fd[1], 1);
            close(fd[1]);
            signal(SIGALRM, on_alarm);
            alarm(getenv("VH_ALARM") ? atoi(getenv("VH_ALARM")) : 120);
            run_case(line);
            fflush(stdout);
            exit(0); /* runs the leak check of the sanitizer build */
        }
        close(fd[1]);
        size_t cap = 1 << 16, len = 0;
        char *buf = (char *)malloc(cap);
        for (;;) {
            if (len + 4096 > cap) {
                cap *= 2;
                buf = (char *)realloc(buf, cap);
            }
            ssize_t n = read(fd[0], buf + len, cap - len - 1);
            if (n <= 0)
                break;
            len += n;
        }
        buf[len] = 0;
        close(fd[0]);
        int st = 0;
        waitpid(pid, &st, 0);
        if (WIFSIGNALED(st))
            printf("CRASH: signal %d\n", WTERMSIG(st));
        else if (WEXITSTATUS(st) != 0)
            printf("CRASH: exit %d\n", WEXITSTATUS(st));
        else
            fputs(buf, stdout);
        free(buf);
        fflush(stdout);
        free(line);
    }
    free(lines);
    return 0;
}
