/* C02 (a) — hardware validation of the machine-context theorems and failing-
 * input search for them.  Reads scenarios (one per line) and prints one line
 * per scenario: "OK <scenario>" or "FAIL <scenario> : what".  A crash prints
 * "CRASH <scenario> : signal N" from the signal handler (alternate stack).
 *
 *  W <save> <restore> <off>
 *      white box: the fcontext primitives are called directly (they are
 *      hidden-visibility symbols of the static library).  Context A (this
 *      pthread's stack) calls save primitive <save> through the canary
 *      trampoline (rbx, rbp, r12-r15, MXCSR, x87 CW hold canaries AT the
 *      primitive's first instruction); side context B (own stack, top
 *      misaligned by <off> bytes) then executes restore primitive <restore>
 *      targeting A, itself through the trampoline with different values.
 *      Callbacks check that the old context is complete in memory when they
 *      are entered (C02_save_before_callback), their own stack alignment, and
 *      scribble over caller-saved registers, MXCSR/CW and the stack below them
 *      (validates the ABI oracle of the Coq model).
 *  J <init_and_jump|init_and_jump_with_call> <restore> <off>
 *      white box: A switches to a third context that starts B with the jump variant; B restores A.
 *  K <off>
 *      white box: peek_fcontext on a suspended context, then a round trip through it.
 *  P <prov> <off> <size> <op> <res>
 *      public API, one execution stream.  Subject ULT A lives on a stack of
 *      provenance <prov> (D default memory pool, M attr stack size <size>,
 *      U user stack at 64-byte-aligned base + <off> with <size> bytes,
 *      Y the primary ULT) and switches away with <op> through the trampoline;
 *      helper ULT B resumes it as <res>.  A checks alignment at entry
 *      (frame address, movaps), canaries after the switch, locals.
 */
#include "abti.h"
#include "vh_common.h"
#include <stdarg.h>
#include <signal.h>
#include <unistd.h>
#include <xmmintrin.h>

/* ------------------------------------------------------------------ canary trampoline */
struct cc {
    void *fn;            /*   0 */
    uint64_t arg[6];     /*   8 */
    uint64_t in[6];      /*  56 rbx rbp r12 r13 r14 r15 */
    uint32_t in_mxcsr;   /* 104 */
    uint16_t in_cw;      /* 108 */
    uint16_t pad0;
    uint64_t out[6];     /* 112 */
    uint32_t out_mxcsr;  /* 160 */
    uint16_t out_cw;     /* 164 */
    uint16_t pad1;
    uint64_t ret;        /* 168 */
    uint64_t rsp_in;     /* 176 */
    uint64_t rsp_out;    /* 184 */
    uint64_t magic;      /* 192 */
};
#define CC_MAGIC 0x0C02C02C02C02C02ULL
void canary_call(struct cc *c);
/* Loads the canaries, calls c->fn(c->arg[0..5]) with a 16-byte aligned stack,
 * records what came back.  Its own frame (saved registers, the pointer c, the
 * original MXCSR/CW) lives on the caller's stack across the switch: "stack
 * contents survive" is checked by coming back at all and by the magic. */
__asm__(".text\n"
        ".globl canary_call\n"
        ".type canary_call,@function\n"
        "canary_call:\n"
        "  pushq %rbp\n  pushq %rbx\n  pushq %r12\n  pushq %r13\n  pushq %r14\n  pushq %r15\n"
        "  subq $24, %rsp\n"
        "  movq %rdi, (%rsp)\n"
        "  stmxcsr 8(%rsp)\n"
        "  fnstcw 12(%rsp)\n"
        "  movq %rsp, 176(%rdi)\n"
        "  ldmxcsr 104(%rdi)\n"
        "  fldcw 108(%rdi)\n"
        "  movq %rdi, %rax\n"
        "  movq 56(%rax), %rbx\n  movq 64(%rax), %rbp\n  movq 72(%rax), %r12\n"
        "  movq 80(%rax), %r13\n  movq 88(%rax), %r14\n  movq 96(%rax), %r15\n"
        "  movq (%rax), %r10\n"
        "  movq 8(%rax), %rdi\n  movq 16(%rax), %rsi\n  movq 24(%rax), %rdx\n"
        "  movq 32(%rax), %rcx\n  movq 40(%rax), %r8\n  movq 48(%rax), %r9\n"
        "  xorl %eax, %eax\n"
        "  call *%r10\n"
        "  movq (%rsp), %rdi\n"
        "  movq %rax, 168(%rdi)\n"
        "  movq %rsp, 184(%rdi)\n"
        "  movq %rbx, 112(%rdi)\n  movq %rbp, 120(%rdi)\n  movq %r12, 128(%rdi)\n"
        "  movq %r13, 136(%rdi)\n  movq %r14, 144(%rdi)\n  movq %r15, 152(%rdi)\n"
        "  stmxcsr 160(%rdi)\n"
        "  fnstcw 164(%rdi)\n"
        "  ldmxcsr 8(%rsp)\n"
        "  fldcw 12(%rsp)\n"
        "  addq $24, %rsp\n"
        "  popq %r15\n  popq %r14\n  popq %r13\n  popq %r12\n  popq %rbx\n  popq %rbp\n"
        "  ret\n"
        ".size canary_call,.-canary_call\n");

/* ------------------------------------------------------------------ reporting */
static char g_line[256];
static int g_fail;
static char g_msg[1024];
static void failf(const char *fmt, ...)
{
    va_list ap;
    size_t n = strlen(g_msg);
    g_fail++;
    if (n > sizeof(g_msg) - 160)
        return;
    if (n)
        g_msg[n++] = ';', g_msg[n++] = ' ';
    va_start(ap, fmt);
    vsnprintf(g_msg + n, sizeof(g_msg) - n, fmt, ap);
    va_end(ap);
}
static void on_signal(int sig)
{
    char buf[400];
    int n = snprintf(buf, sizeof(buf), "CRASH %s : signal %d%s%s\n", g_line, sig, g_msg[0] ? " after " : "", g_msg);
    if (write(1, buf, n) < 0) {
    }
    _exit(5);
}
#define CHK(call)                                                              \
    do {                                                                       \
        int r_ = (call);                                                       \
        if (r_ != ABT_SUCCESS)                                                 \
            failf("%s -> %d", #call, r_);                                      \
    } while (0)

static const char *const REGN[6] = { "rbx", "rbp", "r12", "r13", "r14", "r15" };
static uint64_t g_salt;
static void cc_fill(struct cc *c, uint64_t who, int variant)
{
    int i;
    /* MXCSR: all exceptions masked, no status flags; rounding bits 13-14, FTZ bit 15, DAZ bit 6 varied.
     * x87 CW: exceptions masked; precision bits 8-9 and rounding bits 10-11 varied.
     * The tables of A and B are disjoint and none contains the defaults 0x1f80 / 0x037f. */
    static const uint32_t MXA[4] = { 0x3f80, 0x5f80, 0x7f80, 0x9f80 }, MXB[4] = { 0x1fc0, 0x3fc0, 0x5fc0, 0xdf80 };
    static const uint16_t CWA[4] = { 0x027f, 0x067f, 0x0a7f, 0x0c7f }, CWB[4] = { 0x007f, 0x047f, 0x087f, 0x0e7f };
    memset(c, 0, sizeof(*c));
    for (i = 0; i < 6; i++)
        c->in[i] = 0xC0DE000000000000ULL | (who << 44) | ((uint64_t)(i + 1) << 36) | ((g_salt & 0xfffff) << 8) | 0x5A;
    c->in_mxcsr = (who == 0xA ? MXA : MXB)[variant & 3];
    c->in_cw = (who == 0xA ? CWA : CWB)[(variant >> 2) & 3];
    c->magic = CC_MAGIC;
}
static void cc_check(const struct cc *c, const char *who)
{
    int i;
    if (c->magic != CC_MAGIC)
        failf("%s: trampoline frame lost (stack contents did not survive)", who);
    for (i = 0; i < 6; i++)
        if (c->out[i] != c->in[i])
            failf("%s: %s = %#" PRIx64 " after the switch, was %#" PRIx64, who, REGN[i], c->out[i], c->in[i]);
    if ((c->out_mxcsr & 0xffc0) != (c->in_mxcsr & 0xffc0))
        failf("%s: MXCSR = %#x after the switch, was %#x", who, c->out_mxcsr, c->in_mxcsr);
    if (c->out_cw != c->in_cw)
        failf("%s: x87 CW = %#x after the switch, was %#x", who, c->out_cw, c->in_cw);
    if (c->rsp_out != c->rsp_in)
        failf("%s: RSP = %#" PRIx64 " after the switch, was %#" PRIx64, who, c->rsp_out, c->rsp_in);
}
/* is the frame behind *ctx the complete context described by c? (layout of the .S header) */
static void saved_check(fcontext_t *ctx, const struct cc *c, const char *who)
{
    uint64_t *sp = (uint64_t *)ctx->dummy;
    if (!sp) {
        failf("%s: old context not stored when the callback runs", who);
        return;
    }
    /* +8 r12 +16 r13 +24 r14 +32 r15 +40 rbx +48 rbp */
    static const int IDX[6] = { 5, 6, 1, 2, 3, 4 };
    int i;
    for (i = 0; i < 6; i++)
        if (sp[IDX[i]] != c->in[i])
            failf("%s: saved %s = %#" PRIx64 " in the frame when the callback runs, register had %#" PRIx64, who,
                  REGN[i], sp[IDX[i]], c->in[i]);
    if ((*(uint32_t *)sp & 0xffc0) != (c->in_mxcsr & 0xffc0))
        failf("%s: saved MXCSR %#x, register had %#x", who, *(uint32_t *)sp, c->in_mxcsr);
    if (*(uint16_t *)((char *)sp + 4) != c->in_cw)
        failf("%s: saved CW %#x, register had %#x", who, *(uint16_t *)((char *)sp + 4), c->in_cw);
    if ((uint64_t)sp + 64 != c->rsp_in)
        failf("%s: saved frame at %p does not end at the trampoline's RSP %#" PRIx64, who, (void *)sp, c->rsp_in);
}
/* entry RSP of the calling function = frame address + 8 must be 8 mod 16 */
#define ENTRY_ALIGNED() (((uintptr_t)__builtin_frame_address(0) & 15) == 0)
static __attribute__((noinline)) void movaps_probe(void)
{
    volatile __m128 v;
    __m128 one = _mm_set1_ps(1.0f);
    v = one; /* movaps to a 16-byte aligned local: faults if the ABI alignment chain is broken */
    (void)v;
}
/* what an ABI-conforming callee may do: use stack, clobber caller-saved registers, FP control */
static __attribute__((noinline)) void scribble_fp(int fp)
{
    volatile char pad[1536];
    memset((void *)pad, 0xA7, sizeof(pad));
    __asm__ volatile("movq $-1, %%rax\n movq %%rax, %%rcx\n movq %%rax, %%rdx\n movq %%rax, %%rsi\n"
                     "movq %%rax, %%rdi\n movq %%rax, %%r8\n movq %%rax, %%r9\n movq %%rax, %%r10\n movq %%rax, %%r11\n"
                     ::: "rax", "rcx", "rdx", "rsi", "rdi", "r8", "r9", "r10", "r11", "memory");
    unsigned mx = 0x7f80 | 0x8000;
    unsigned short cw = 0x0f7f;
    /* the callbacks of the switch primitives may even leave other FP control state behind (the
     * primitives reload it afterwards); f_peek must not: the ABI makes the control bits callee-saved */
    if (fp)
        __asm__ volatile("ldmxcsr %0\n fldcw %1" ::"m"(mx), "m"(cw));
}
static void scribble(void) { scribble_fp(1); }
static void fp_default(void)
{
    unsigned mx = 0x1f80;
    unsigned short cw = 0x037f;
    __asm__ volatile("ldmxcsr %0\n fldcw %1" ::"m"(mx), "m"(cw));
}

/* ------------------------------------------------------------------ W: white box */
enum { K_SWITCH, K_JUMP, K_SWC, K_JWC, K_ISWITCH, K_ISWC };
static fcontext_t wA, wB;
static struct cc wccA, wccB;
static char *wstk;
#define WSTK 65536
static int w_restore, w_phase, w_b_runs, w_cb_calls, w_cb2_calls;
static void *w_top;
#define W_ARG1 ((void *)0x1111beefUL)
#define W_ARG2 ((void *)0x2222beefUL)

static void w_cb(void *arg) /* callback of A's save primitive: runs on B's stack, A must be complete */
{
    w_cb_calls++;
    if (arg != W_ARG1)
        failf("f_cb got %p instead of cb_arg", arg);
    if (!ENTRY_ALIGNED())
        failf("f_cb of the save primitive entered with RSP+8 not a multiple of 16");
    movaps_probe();
    saved_check(&wA, &wccA, "A at f_cb entry");
    scribble();
}
static void w_cb2(void *arg) /* callback of B's restore primitive: runs on A's stack below A's frame */
{
    w_cb2_calls++;
    if (arg != W_ARG2)
        failf("restorer's f_cb got %p instead of cb_arg", arg);
    if (!ENTRY_ALIGNED())
        failf("f_cb of the restore primitive entered with RSP+8 not a multiple of 16");
    movaps_probe();
    if (w_restore == K_SWC)
        saved_check(&wB, &wccB, "B at f_cb entry");
    scribble();
}
static void w_b_restore(void)
{
    cc_fill(&wccB, 0xB, 5 + w_restore);
    switch (w_phase ? w_restore : K_SWITCH) {
        case K_SWITCH:
            wccB.fn = (void *)switch_fcontext;
            wccB.arg[0] = (uint64_t)&wA, wccB.arg[1] = (uint64_t)&wB;
            break;
        case K_JUMP:
            wccB.fn = (void *)jump_fcontext;
            wccB.arg[0] = (uint64_t)&wA;
            break;
        case K_SWC:
            wccB.fn = (void *)switch_with_call_fcontext;
            wccB.arg[0] = (uint64_t)W_ARG2, wccB.arg[1] = (uint64_t)w_cb2, wccB.arg[2] = (uint64_t)&wA,
            wccB.arg[3] = (uint64_t)&wB;
            break;
        case K_JWC:
            wccB.fn = (void *)jump_with_call_fcontext;
            wccB.arg[0] = (uint64_t)W_ARG2, wccB.arg[1] = (uint64_t)w_cb2, wccB.arg[2] = (uint64_t)&wA;
            break;
    }
    canary_call(&wccB);
    /* only the switch kinds come back here (someone switched to B again) */
    cc_check(&wccB, "B");
    fp_default();
}
static void w_b_entry(fcontext_t *p)
{
    w_b_runs++;
    if (p != &wB)
        failf("f_thread got %p instead of p_new_ctx %p", (void *)p, (void *)&wB);
    if (!ENTRY_ALIGNED())
        failf("f_thread entered with RSP+8 not a multiple of 16");
    uintptr_t fa = (uintptr_t)__builtin_frame_address(0) + 8; /* entry RSP */
    if (!(fa <= (uintptr_t)w_top - 8 && fa > (uintptr_t)w_top - 24))
        failf("f_thread entry RSP %#lx not in (top-24, top-8] for top %p", (unsigned long)fa, w_top);
    movaps_probe();
    for (;;) {
        w_b_restore();
        w_phase = 1;
    }
}
static int kind_of(const char *s)
{
    if (!strcmp(s, "switch")) return K_SWITCH;
    if (!strcmp(s, "jump")) return K_JUMP;
    if (!strcmp(s, "switch_with_call")) return K_SWC;
    if (!strcmp(s, "jump_with_call")) return K_JWC;
    if (!strcmp(s, "init_and_switch")) return K_ISWITCH;
    if (!strcmp(s, "init_and_switch_with_call")) return K_ISWC;
    return -1;
}
static void run_W(const char *save, const char *restore, int off)
{
    int S = kind_of(save), T = kind_of(restore);
    if (S < 0 || T < 0 || S == K_JUMP || S == K_JWC || T == K_ISWITCH || T == K_ISWC) {
        failf("bad W scenario");
        return;
    }
    if (!wstk)
        wstk = (char *)aligned_alloc(64, WSTK + 64);
    memset(wstk, 0x5c, WSTK + 64);
    w_top = wstk + WSTK - off;
    wA.dummy = wB.dummy = NULL;
    w_restore = T;
    w_b_runs = w_cb_calls = w_cb2_calls = 0;
    w_phase = (S == K_ISWITCH || S == K_ISWC) ? 1 : 0;
    if (!w_phase) {
        /* B must be a started, suspended context: start it, it switches straight back */
        init_and_switch_fcontext(&wB, w_b_entry, w_top, &wA);
        if (!wB.dummy || w_b_runs != 1)
            failf("could not prepare a started context B");
        wA.dummy = NULL;
    }
    volatile uint64_t loc[16];
    int i;
    for (i = 0; i < 16; i++)
        loc[i] = 0xA0A0000000000000ULL + i;
    cc_fill(&wccA, 0xA, S * 4 + T);
    switch (S) {
        case K_SWITCH:
            wccA.fn = (void *)switch_fcontext;
            wccA.arg[0] = (uint64_t)&wB, wccA.arg[1] = (uint64_t)&wA;
            break;
        case K_SWC:
            wccA.fn = (void *)switch_with_call_fcontext;
            wccA.arg[0] = (uint64_t)W_ARG1, wccA.arg[1] = (uint64_t)w_cb, wccA.arg[2] = (uint64_t)&wB,
            wccA.arg[3] = (uint64_t)&wA;
            break;
        case K_ISWITCH:
            wccA.fn = (void *)init_and_switch_fcontext;
            wccA.arg[0] = (uint64_t)&wB, wccA.arg[1] = (uint64_t)w_b_entry, wccA.arg[2] = (uint64_t)w_top,
            wccA.arg[3] = (uint64_t)&wA;
            break;
        case K_ISWC:
            wccA.fn = (void *)init_and_switch_with_call_fcontext;
            wccA.arg[0] = (uint64_t)W_ARG1, wccA.arg[1] = (uint64_t)w_cb, wccA.arg[2] = (uint64_t)&wB,
            wccA.arg[3] = (uint64_t)w_b_entry, wccA.arg[4] = (uint64_t)w_top, wccA.arg[5] = (uint64_t)&wA;
            break;
    }
    canary_call(&wccA);
    fp_default();
    cc_check(&wccA, "A");
    for (i = 0; i < 16; i++)
        if (loc[i] != 0xA0A0000000000000ULL + i)
            failf("local %d of A changed", i);
    if ((S == K_SWC || S == K_ISWC) && w_cb_calls != 1)
        failf("f_cb of the save primitive ran %d times", w_cb_calls);
    if ((T == K_SWC || T == K_JWC) && w_cb2_calls != 1)
        failf("f_cb of the restore primitive ran %d times", w_cb2_calls);
    if ((S == K_ISWITCH || S == K_ISWC) && w_b_runs != 1)
        failf("f_thread ran %d times", w_b_runs);
}

/* J <init_and_jump|init_and_jump_with_call> <restore> <off>: A switches (through the trampoline) to a
 * third context C, which starts B with the jump variant; B restores A */
static fcontext_t wC;
static char *wstkC;
static int w_jvariant;
static void w_c_entry(fcontext_t *p)
{
    (void)p;
    switch_fcontext(&wA, &wC); /* become a started, suspended context */
    if (w_jvariant == 0)
        init_and_jump_fcontext(&wB, w_b_entry, w_top);
    else
        init_and_jump_with_call_fcontext(W_ARG1, w_cb, &wB, w_b_entry, w_top);
    failf("init_and_jump returned");
    for (;;)
        switch_fcontext(&wA, &wC);
}
static void run_J(const char *variant, const char *restore, int off)
{
    int T = kind_of(restore);
    w_jvariant = !strcmp(variant, "init_and_jump_with_call");
    if (T < 0 || T == K_ISWITCH || T == K_ISWC || (!w_jvariant && strcmp(variant, "init_and_jump"))) {
        failf("bad J scenario");
        return;
    }
    if (!wstk)
        wstk = (char *)aligned_alloc(64, WSTK + 64);
    if (!wstkC)
        wstkC = (char *)aligned_alloc(64, WSTK + 64);
    memset(wstk, 0x5c, WSTK + 64);
    memset(wstkC, 0x5d, WSTK + 64);
    w_top = wstk + WSTK - off;
    wA.dummy = wB.dummy = wC.dummy = NULL;
    w_restore = T;
    w_b_runs = w_cb_calls = w_cb2_calls = 0;
    w_phase = 1;
    init_and_switch_fcontext(&wC, w_c_entry, wstkC + WSTK, &wA);
    if (!wC.dummy)
        failf("could not prepare a started context C");
    wA.dummy = NULL;
    cc_fill(&wccA, 0xA, off + T);
    wccA.fn = (void *)switch_fcontext;
    wccA.arg[0] = (uint64_t)&wC, wccA.arg[1] = (uint64_t)&wA;
    canary_call(&wccA);
    fp_default();
    cc_check(&wccA, "A");
    if (w_b_runs != 1)
        failf("f_thread ran %d times", w_b_runs);
    if (w_jvariant && w_cb_calls != 1)
        failf("f_cb ran %d times", w_cb_calls);
}

/* K <off>: peek_fcontext on a suspended B, then a switch round trip through B: B's frame must have survived */
static int w_peek_calls;
static void w_peek(void *arg)
{
    w_peek_calls++;
    if (arg != W_ARG1)
        failf("f_peek got %p instead of arg", arg);
    if (!ENTRY_ALIGNED())
        failf("f_peek entered with RSP+8 not a multiple of 16");
    movaps_probe();
    scribble_fp(0);
}
static void run_K(int off)
{
    if (!wstk)
        wstk = (char *)aligned_alloc(64, WSTK + 64);
    memset(wstk, 0x5c, WSTK + 64);
    w_top = wstk + WSTK - off;
    wA.dummy = wB.dummy = NULL;
    w_restore = K_SWITCH;
    w_b_runs = w_cb_calls = w_cb2_calls = w_peek_calls = 0;
    w_phase = 0;
    init_and_switch_fcontext(&wB, w_b_entry, w_top, &wA);
    if (!wB.dummy || w_b_runs != 1)
        failf("could not prepare a started context B");
    cc_fill(&wccA, 0xA, off);
    wccA.fn = (void *)peek_fcontext;
    wccA.arg[0] = (uint64_t)W_ARG1, wccA.arg[1] = (uint64_t)w_peek, wccA.arg[2] = (uint64_t)&wB;
    canary_call(&wccA);
    fp_default();
    cc_check(&wccA, "A (peek)");
    if (w_peek_calls != 1)
        failf("f_peek ran %d times", w_peek_calls);
    if (g_fail)
        return;
    cc_fill(&wccA, 0xA, off + 1);
    wccA.fn = (void *)switch_fcontext;
    wccA.arg[0] = (uint64_t)&wB, wccA.arg[1] = (uint64_t)&wA;
    canary_call(&wccA); /* B checks its own canaries (saved before the peek) and switches back */
    fp_default();
    cc_check(&wccA, "A");
}

/* ------------------------------------------------------------------ P: public API */
static struct {
    char prov;
    int off;
    long size;
    char op[32], res[32];
    ABT_xstream es;
    ABT_pool M, PP;
    ABT_thread A, B;
    ABT_eventual ev;
    int b_incarnation, b_done, a_done;
    char *ubuf, *ubase;   /* user stack of A */
    char *ubuf2, *ubase2; /* user stack of B (same provenance as A) */
    ABT_thread_attr attrB;
    struct cc cc;
} G;
static int op_is(const char *s) { return !strcmp(G.op, s); }
static int res_is(const char *s) { return !strcmp(G.res, s); }

static ABT_thread pop_expect(ABT_pool pool, ABT_thread want, const char *what)
{
    ABT_thread t = ABT_THREAD_NULL;
    CHK(ABT_pool_pop_thread(pool, &t));
    if (t == ABT_THREAD_NULL || (want != ABT_THREAD_NULL && t != want))
        failf("harness: expected %s in the pool, popped %p", what, (void *)t);
    return t;
}

/* A work unit's stack is its own down to the last byte: the running ULT asks the library for its stack range
 * (ABT_thread_attr_get_stack), fills the lowest SFILL bytes of it - far below anything the harness's frames reach -
 * and finds them unchanged when it is about to finish.  A stack that overlaps another unit's descriptor or stack (a
 * memory-pool element laid out too short, a malloc'ed block cut wrongly) breaks one of the two units across the
 * switches of the scenario. */
#define SFILL 1536
static char *own_stack_fill(void)
{
    ABT_thread self = ABT_THREAD_NULL;
    ABT_thread_attr at = ABT_THREAD_ATTR_NULL;
    void *addr = NULL;
    size_t sz = 0, i;
    if (G.prov == 'Y')
        return NULL;
    if (ABT_self_get_thread(&self) != ABT_SUCCESS || ABT_thread_get_attr(self, &at) != ABT_SUCCESS)
        return NULL;
    if (ABT_thread_attr_get_stack(at, &addr, &sz) != ABT_SUCCESS)
        addr = NULL;
    ABT_thread_attr_free(&at);
    char *here = (char *)__builtin_frame_address(0);
    if (!addr || sz < 4 * SFILL || !(here > (char *)addr + 2 * SFILL && here <= (char *)addr + sz))
        return NULL;
    for (i = 0; i < SFILL; i++)
        ((volatile char *)addr)[i] = (char)(0xA5 ^ (i * 7));
    return (char *)addr;
}

static void own_stack_check(char *lo, const char *who)
{
    size_t i;
    if (!lo)
        return;
    for (i = 0; i < SFILL; i++)
        if (((volatile char *)lo)[i] != (char)(0xA5 ^ (i * 7))) {
            failf("byte %ld of %s's own stack (bottom end, below every frame) was overwritten during the scenario", (long)i, who);
            return;
        }
}

static void B_body(void *arg)
{
    (void)arg;
    int inc = G.b_incarnation++;
    if (!ENTRY_ALIGNED())
        failf("helper ULT function entered with RSP+8 not a multiple of 16 (frame address %p)", __builtin_frame_address(0));
    movaps_probe();
    char *own_lo = own_stack_fill();
    if (G.prov == 'U') {
        char *p = (char *)&inc;
        if (!(p >= G.ubase2 && p < G.ubase2 + G.size))
            failf("helper's locals at %p outside its user stack [%p,%p)", (void *)p, (void *)G.ubase2, (void *)(G.ubase2 + G.size));
    }
    if (op_is("revive_to") && inc == 0)
        return; /* first incarnation just terminates; A revives it */
    if (op_is("yield_to_started") || op_is("suspend_to_started") || op_is("schedule_started"))
        CHK(ABT_thread_yield()); /* B is now started, READY, back in its pool */
    if (op_is("resume_yield_to") || op_is("resume_suspend_to"))
        CHK(ABT_self_suspend()); /* B is now BLOCKED until A resumes it */
    /* --- A has switched away through the trampoline; act as the resumer --- */
    scribble();
    fp_default();
    if (res_is("sched") || res_is("child_exit") || res_is("exit")) {
        /* nothing: returning lets the scheduler / the parent / the joiner continue */
    } else if (res_is("resume")) {
        CHK(ABT_thread_resume(G.A));
    } else if (res_is("yield_to")) {
        ABT_thread a = pop_expect(G.M, G.A, "A");
        if (a != ABT_THREAD_NULL)
            CHK(ABT_self_yield_to(a));
    } else if (res_is("exit_to")) {
        ABT_thread a = pop_expect(G.M, G.A, "A");
        G.b_done = 1;
        if (a != ABT_THREAD_NULL)
            CHK(ABT_self_exit_to(a));
        failf("ABT_self_exit_to returned");
    } else if (res_is("resume_yield_to")) {
        CHK(ABT_self_resume_yield_to(G.A));
    } else if (res_is("resume_suspend_to")) {
        CHK(ABT_self_resume_suspend_to(G.A));
    } else if (res_is("resume_exit_to")) {
        G.b_done = 1;
        CHK(ABT_self_resume_exit_to(G.A));
        failf("ABT_self_resume_exit_to returned");
    } else if (res_is("child_yield")) {
        CHK(ABT_thread_yield());
    } else if (res_is("set_ev")) {
        CHK(ABT_eventual_set(G.ev, NULL, 0));
    } else {
        failf("harness: unknown resumer %s", G.res);
    }
    own_stack_check(own_lo, "the helper");
    G.b_done = 1;
}

static void A_body(void *arg)
{
    (void)arg;
    struct cc *c = &G.cc;
    volatile uint64_t loc[32];
    int i;
    if (!ENTRY_ALIGNED())
        failf("ULT function entered with RSP+8 not a multiple of 16 (frame address %p)", __builtin_frame_address(0));
    movaps_probe();
    char *own_lo = own_stack_fill();
    if (G.prov == 'U') {
        char *p = (char *)&loc[0];
        if (!(p >= G.ubase && p < G.ubase + G.size))
            failf("locals at %p outside the user stack [%p,%p)", (void *)p, (void *)G.ubase, (void *)(G.ubase + G.size));
    }
    for (i = 0; i < 32; i++)
        loc[i] = 0x10CA100000000000ULL + (uint64_t)i * 0x101;
    /* phase 1: bring B into the state the operation needs */
    if (op_is("yield_to_started") || op_is("suspend_to_started")) {
        ABT_thread b = pop_expect(G.PP, G.B, "B");
        CHK(ABT_self_yield_to(b));
    } else if (op_is("schedule_started")) {
        ABT_thread b = pop_expect(G.PP, G.B, "B");
        CHK(ABT_self_schedule(b, ABT_POOL_NULL));
    } else if (op_is("resume_yield_to") || op_is("resume_suspend_to") || op_is("revive_to")) {
        CHK(ABT_thread_yield());
    }
    /* the switch under test */
    cc_fill(c, 0xA, (int)(g_salt & 15));
    if (op_is("yield")) {
        c->fn = (void *)ABT_thread_yield;
    } else if (op_is("yield_to_fresh") || op_is("yield_to_started")) {
        c->fn = (void *)ABT_self_yield_to;
        c->arg[0] = (uint64_t)pop_expect(G.PP, G.B, "B");
    } else if (op_is("thread_yield_to")) {
        c->fn = (void *)ABT_thread_yield_to;
        c->arg[0] = (uint64_t)G.B;
    } else if (op_is("create_to")) {
        c->fn = (void *)ABT_thread_create_to;
        c->arg[0] = (uint64_t)G.PP, c->arg[1] = (uint64_t)B_body, c->arg[2] = 0,
        c->arg[3] = (uint64_t)G.attrB, c->arg[4] = (uint64_t)&G.B;
    } else if (op_is("revive_to")) {
        c->fn = (void *)ABT_thread_revive_to;
        c->arg[0] = (uint64_t)G.PP, c->arg[1] = (uint64_t)B_body, c->arg[2] = 0, c->arg[3] = (uint64_t)&G.B;
    } else if (op_is("suspend")) {
        c->fn = (void *)ABT_self_suspend;
    } else if (op_is("suspend_to_fresh") || op_is("suspend_to_started")) {
        c->fn = (void *)ABT_self_suspend_to;
        c->arg[0] = (uint64_t)pop_expect(G.PP, G.B, "B");
    } else if (op_is("resume_yield_to")) {
        c->fn = (void *)ABT_self_resume_yield_to;
        c->arg[0] = (uint64_t)G.B;
    } else if (op_is("resume_suspend_to")) {
        c->fn = (void *)ABT_self_resume_suspend_to;
        c->arg[0] = (uint64_t)G.B;
    } else if (op_is("eventual_wait")) {
        c->fn = (void *)ABT_eventual_wait;
        c->arg[0] = (uint64_t)G.ev, c->arg[1] = 0;
    } else if (op_is("join")) {
        c->fn = (void *)ABT_thread_join;
        c->arg[0] = (uint64_t)G.B;
    } else if (op_is("schedule_fresh") || op_is("schedule_started")) {
        c->fn = (void *)ABT_self_schedule;
        c->arg[0] = (uint64_t)pop_expect(G.PP, G.B, "B"), c->arg[1] = (uint64_t)ABT_POOL_NULL;
    } else if (op_is("set_main_sched")) {
        c->fn = (void *)ABT_xstream_set_main_sched_basic;
        c->arg[0] = (uint64_t)G.es, c->arg[1] = (uint64_t)ABT_SCHED_DEFAULT, c->arg[2] = 1, c->arg[3] = (uint64_t)&G.M;
    } else {
        failf("harness: unknown op %s", G.op);
        G.a_done = 1;
        return;
    }
    if (!g_fail)
        canary_call(c);
    else
        c->magic = 0;
    fp_default();
    if (c->magic == CC_MAGIC || !g_fail) {
        cc_check(c, "A");
        if ((int)c->ret != ABT_SUCCESS)
            failf("%s returned %d", G.op, (int)c->ret);
    }
    for (i = 0; i < 32; i++)
        if (loc[i] != 0x10CA100000000000ULL + (uint64_t)i * 0x101)
            failf("local %d of A changed across the switch", i);
    movaps_probe();
    own_stack_check(own_lo, "A");
    /* let a helper that blocked itself for us finish */
    if (res_is("resume_suspend_to"))
        CHK(ABT_thread_resume(G.B));
    G.a_done = 1;
}

/* a user stack must not have been written outside [base, base+size) */
static void check_guard(const char *buf, const char *base, const char *whose)
{
    long i, lo = base - buf;
    if (!buf)
        return;
    for (i = 0; i < lo; i++)
        if ((unsigned char)buf[i] != 0x6b) {
            failf("byte below %s user stack written (offset %ld)", whose, i - lo);
            break;
        }
    for (i = lo + G.size; i < G.size + 256; i++)
        if ((unsigned char)buf[i] != 0x6b) {
            failf("byte above %s user stack written (offset +%ld past the top)", whose, i - (lo + G.size));
            break;
        }
}

static void run_P(void)
{
    ABT_thread_attr attr = ABT_THREAD_ATTR_NULL;
    ABT_thread t;
    int b_pool_M = op_is("yield") ? (res_is("sched") ? -1 : 1)
                   : (op_is("suspend") || op_is("resume_yield_to") || op_is("resume_suspend_to") ||
                      op_is("eventual_wait") || op_is("join") || op_is("revive_to"))
                         ? 1
                     : (op_is("create_to") || op_is("set_main_sched")) ? -1
                                                                         : 0;
    CHK(ABT_init(0, NULL));
    CHK(ABT_self_get_xstream(&G.es));
    CHK(ABT_xstream_get_main_pools(G.es, 1, &G.M));
    CHK(ABT_pool_create_basic(ABT_POOL_FIFO, ABT_POOL_ACCESS_MPMC, ABT_TRUE, &G.PP));
    CHK(ABT_eventual_create(0, &G.ev));
    G.A = G.B = ABT_THREAD_NULL;
    G.b_incarnation = G.b_done = G.a_done = 0;
    G.attrB = ABT_THREAD_ATTR_NULL;
    if (G.prov == 'M') {
        CHK(ABT_thread_attr_create(&attr));
        CHK(ABT_thread_attr_set_stacksize(attr, (size_t)G.size));
        CHK(ABT_thread_attr_create(&G.attrB));
        CHK(ABT_thread_attr_set_stacksize(G.attrB, (size_t)G.size));
    } else if (G.prov == 'U') {
        G.ubuf = (char *)malloc((size_t)G.size + 256);
        G.ubase = (char *)(((uintptr_t)G.ubuf + 63) & ~(uintptr_t)63) + G.off;
        memset(G.ubuf, 0x6b, (size_t)G.size + 256);
        CHK(ABT_thread_attr_create(&attr));
        CHK(ABT_thread_attr_set_stack(attr, G.ubase, (size_t)G.size));
        /* the helper gets a user stack of the same shape: it is the one entered through the
         * init_and_switch_with_call path of yield_to / create_to / revive_to / suspend_to */
        G.ubuf2 = (char *)malloc((size_t)G.size + 256);
        G.ubase2 = (char *)(((uintptr_t)G.ubuf2 + 63) & ~(uintptr_t)63) + G.off;
        memset(G.ubuf2, 0x6b, (size_t)G.size + 256);
        CHK(ABT_thread_attr_create(&G.attrB));
        CHK(ABT_thread_attr_set_stack(G.attrB, G.ubase2, (size_t)G.size));
    }
    if (G.prov != 'Y')
        CHK(ABT_thread_create(G.M, A_body, NULL, attr, &G.A));
    else
        CHK(ABT_self_get_thread(&G.A));
    if (b_pool_M >= 0)
        CHK(ABT_thread_create(b_pool_M ? G.M : G.PP, B_body, NULL, G.attrB, &G.B));
    if (!g_fail) {
        if (G.prov != 'Y')
            CHK(ABT_thread_join(G.A));
        else
            A_body(NULL);
    }
    /* run leftovers of the helper to completion (it may sit in the private pool) */
    int guard = 0;
    while (!g_fail && guard++ < 8) {
        t = ABT_THREAD_NULL;
        CHK(ABT_pool_pop_thread(G.PP, &t));
        if (t == ABT_THREAD_NULL)
            break;
        CHK(ABT_self_schedule(t, ABT_POOL_NULL));
    }
    if (!g_fail && G.B != ABT_THREAD_NULL) {
        CHK(ABT_thread_join(G.B));
        if (!G.b_done)
            failf("helper ULT did not run to its end");
    }
    if (!G.a_done)
        failf("subject ULT did not run to its end");
    if (g_fail) /* do not try to tear down a runtime in an unknown state */
        return;
    if (G.B != ABT_THREAD_NULL)
        CHK(ABT_thread_free(&G.B));
    if (G.prov != 'Y')
        CHK(ABT_thread_free(&G.A));
    if (attr != ABT_THREAD_ATTR_NULL)
        CHK(ABT_thread_attr_free(&attr));
    if (G.attrB != ABT_THREAD_ATTR_NULL)
        CHK(ABT_thread_attr_free(&G.attrB));
    CHK(ABT_eventual_free(&G.ev));
    CHK(ABT_pool_free(&G.PP));
    CHK(ABT_finalize());
    check_guard(G.ubuf, G.ubase, "A's");
    check_guard(G.ubuf2, G.ubase2, "B's");
    free(G.ubuf);
    free(G.ubuf2);
    G.ubuf = G.ubuf2 = NULL;
}

int main(int argc, char **argv)
{
    static char altstack[65536];
    stack_t ss = { .ss_sp = altstack, .ss_size = sizeof(altstack), .ss_flags = 0 };
    struct sigaction sa;
    FILE *f;
    char *line;
    if (argc < 2)
        VH_DIE("usage: %s scenario-file", argv[0]);
    sigaltstack(&ss, NULL);
    memset(&sa, 0, sizeof(sa));
    sa.sa_handler = on_signal;
    sa.sa_flags = SA_ONSTACK;
    sigaction(SIGSEGV, &sa, NULL);
    sigaction(SIGBUS, &sa, NULL);
    sigaction(SIGILL, &sa, NULL);
    sigaction(SIGFPE, &sa, NULL);
    sigaction(SIGABRT, &sa, NULL);
    sigaction(SIGALRM, &sa, NULL);
    f = fopen(argv[1], "r");
    if (!f)
        VH_DIE("cannot open %s", argv[1]);
    while ((line = vh_getline(f))) {
        char k = 0, a[40] = "", b[40] = "";
        int off = 0;
        snprintf(g_line, sizeof(g_line), "%s", line);
        g_fail = 0;
        g_msg[0] = 0;
        { /* canary values depend on the scenario text only (replay = same values) */
            const char *q;
            g_salt = 1469598103934665603ULL;
            for (q = line; *q; q++)
                g_salt = (g_salt ^ (unsigned char)*q) * 1099511628211ULL;
            g_salt ^= g_salt >> 29;
        }
        alarm(20);
        if (sscanf(line, " %c", &k) == 1 && k == 'W' && sscanf(line, " W %39s %39s %d", a, b, &off) == 3) {
            run_W(a, b, off);
        } else if (k == 'J' && sscanf(line, " J %39s %39s %d", a, b, &off) == 3) {
            run_J(a, b, off);
        } else if (k == 'K' && sscanf(line, " K %d", &off) == 1) {
            run_K(off);
        } else if (k == 'P' && sscanf(line, " P %c %d %ld %31s %31s", &G.prov, &G.off, &G.size, G.op, G.res) == 5) {
            run_P();
        } else if (line[0] == 0 || line[0] == '#') {
            free(line);
            continue;
        } else {
            failf("unparsable scenario");
        }
        alarm(0);
        if (g_fail) {
            /* registers / runtime state of this process can no longer be trusted (main's own
             * callee-saved registers went through the broken switch): report and leave at once;
             * the driver restarts the harness after this scenario */
            printf("FAIL %s : %s\n", g_line, g_msg);
            fflush(stdout);
            _exit(0);
        }
        printf("OK %s\n", g_line);
        fflush(stdout);
        free(line);
    }
    return 0;
}
