/* C17 harness: execution-stream ranks and the native-thread protocol.
 *
 * This translation unit contains stream.c and arch/abtd_stream.c of the tree
 * under test *textually*; because it then defines every external symbol of
 * those two files, the linker does not take stream.o / abtd_stream.o from
 * libabt.a: the whole runtime linked into this program runs on the copies
 * compiled here.  That gives (without any hook in /repo)
 *   - direct access to the static functions xstream_set_new_rank /
 *     xstream_change_rank / xstream_return_rank (mode X, private ABTI_global),
 *   - a white-box walk of the real global list after every API call (mode A),
 *   - a record of every pthread call made by abtd_stream.c, with the value of
 *     p_ctx->state and "does the caller hold state_lock" sampled at the call
 *     (the pthread_* names are macro-renamed to logging wrappers while
 *     abtd_stream.c is included) -- the history replayed by Conc/XstreamCtx.v.
 *
 * Case lines (one canonical output line per case, same as ocaml/drv_c17.ml):
 *   X <max> ; op , op ...       ops: N r | C i r | R i
 *   A <max> ; op , op ...       ops: c | w r | s i r | u i r | f i | j i | v i | g i | n | t i | k i | m i
 *   P <seed> <hosts> <ults> <exts> <nops> <maxrank>
 *   K                           lock probe: set_new_rank / change_rank / return_rank block while the
 *                               harness holds xstream_list_lock ("one locked step each")
 * argv[2] == "hist": print recorded histories instead (A: pthread-call
 * history per context; P: operation history with invocation/response stamps).
 */
#include "abti.h"
#include "vh_common.h"
#include <pthread.h>
#include <sched.h>
#include <stdarg.h>
#include <setjmp.h>
#include <signal.h>

/* a failing ABTI_ASSERT inside a white-box call (mode X) is a result, not a
 * crash: this definition takes precedence over libc's */
static jmp_buf vh_assert_jb;
static volatile int vh_assert_armed;
void __assert_fail(const char *expr, const char *file, unsigned int line, const char *fn)
{
    if (vh_assert_armed) {
        vh_assert_armed = 0;
        longjmp(vh_assert_jb, 1);
    }
    fprintf(stderr, "%s:%u: %s: Assertion `%s' failed.\n", file, line, fn, expr);
    abort();
}
#include <unistd.h>

/* ------------------------------------------------------------------ */
/* (1) stream.c of the tree under test                                  */
#include "stream.c"

/* ------------------------------------------------------------------ */
/* (2) recording wrappers + abtd_stream.c of the tree under test        */
enum { K_FC, K_FR, K_LK, K_UL, K_SG, K_WE, K_WR, K_EX, K_BJ, K_EJ, K_BR, K_ER,
       K_BF, K_EF, K_PJ, K_CD, K_MD, K_BC, K_NKINDS };
static const char *vh_kname[] = { "FC", "FR", "LK", "UL", "SG", "WE", "WR", "EX", "BJ", "EJ",
                                  "BR", "ER", "BF", "EF", "PJ", "CD", "MD", "BC" };
typedef struct {
    int ctx, role, kind, sample, held;
} vh_ev;
typedef struct {
    ABTD_xstream_context *p;
    int active;
    volatile int owned;
    pthread_t owner;
    void *(*orig_f)(void *);
    void *(*start)(void *);
} vh_ctxrec;

#define VH_MAXCTX 4096
static vh_ctxrec vh_ctxs[VH_MAXCTX];
static int vh_nctx;
static vh_ev *vh_log;
static size_t vh_nlog, vh_caplog;
static volatile int vh_tlock;
static __thread vh_ctxrec *vh_self_ctx;

static void vh_tl_acquire(void)
{
    while (__atomic_exchange_n(&vh_tlock, 1, __ATOMIC_ACQUIRE))
        while (__atomic_load_n(&vh_tlock, __ATOMIC_RELAXED))
            ;
}
static void vh_tl_release(void)
{
    __atomic_store_n(&vh_tlock, 0, __ATOMIC_RELEASE);
}

static vh_ctxrec *vh_find(ABTD_xstream_context *p)
{
    int i;
    vh_ctxrec *r = NULL;
    vh_tl_acquire();
    for (i = vh_nctx - 1; i >= 0; i--)
        if (vh_ctxs[i].p == p && vh_ctxs[i].active) {
            r = &vh_ctxs[i];
            break;
        }
    vh_tl_release();
    return r;
}

static void vh_record(vh_ctxrec *r, int kind, int sample, int held)
{
    if (!r)
        return;
    vh_tl_acquire();
    if (vh_nlog == vh_caplog) {
        vh_caplog = vh_caplog ? vh_caplog * 2 : 1024;
        vh_log = (vh_ev *)realloc(vh_log, vh_caplog * sizeof(vh_ev));
    }
    vh_ev *e = &vh_log[vh_nlog++];
    e->ctx = (int)(r - vh_ctxs);
    e->role = (vh_self_ctx == r) ? 0 : 1;
    e->kind = kind;
    e->sample = sample;
    e->held = held;
    vh_tl_release();
}

/* H2-style perturbation of the real interleaving, driven by VH_PERTURB */
static uint64_t vh_pseed;
static __thread uint64_t vh_prng;
static void vh_perturb(void)
{
    if (!vh_pseed)
        return;
    if (!vh_prng)
        vh_prng = vh_pseed * 0x9e3779b97f4a7c15ULL + (uint64_t)(uintptr_t)&vh_prng;
    uint64_t r = vh_rand(&vh_prng);
    if ((r & 7) == 0)
        sched_yield();
    else if ((r & 7) == 1) {
        volatile int k;
        for (k = 0; k < (int)((r >> 8) & 2047); k++)
            ;
    } else if ((r & 63) == 2)
        usleep(50);
}

static uint64_t vh_perturb_draw(void)
{
    if (!vh_prng)
        vh_prng = vh_pseed * 0x9e3779b97f4a7c15ULL + (uint64_t)(uintptr_t)&vh_prng;
    return vh_rand(&vh_prng) >> 20;
}

static int vh_held(vh_ctxrec *r)
{
    return r && r->owned && pthread_equal(r->owner, pthread_self());
}
#define VH_CTX_OF_MUTEX(m)                                                     \
    ((ABTD_xstream_context *)((char *)(m)-offsetof(ABTD_xstream_context, state_lock)))
#define VH_CTX_OF_COND(c)                                                      \
    ((ABTD_xstream_context *)((char *)(c)-offsetof(ABTD_xstream_context, state_cond)))

static int vh_mutex_init(pthread_mutex_t *m, const pthread_mutexattr_t *a)
{
    int ret = pthread_mutex_init(m, a);
    if (ret == 0) {
        vh_tl_acquire();
        if (vh_nctx >= VH_MAXCTX)
            VH_DIE("too many contexts");
        vh_ctxrec *r = &vh_ctxs[vh_nctx++];
        memset(r, 0, sizeof(*r));
        r->p = VH_CTX_OF_MUTEX(m);
        r->active = 1;
        vh_tl_release();
    }
    return ret;
}
static int vh_cond_init(pthread_cond_t *c, const pthread_condattr_t *a)
{
    return pthread_cond_init(c, a);
}
static void *vh_f_tramp(void *arg)
{
    vh_ctxrec *r = vh_self_ctx;
    vh_record(r, K_FC, -1, 0);
    void *ret = r->orig_f(arg);
    vh_record(r, K_FR, -1, 0);
    vh_perturb();
    return ret;
}
static void *vh_start_tramp(void *arg)
{
    vh_ctxrec *r = (vh_ctxrec *)arg;
    vh_self_ctx = r;
    void *ret = r->start(r->p);
    vh_record(r, K_EX, -1, 0);
    return ret;
}
static int vh_create(pthread_t *t, const pthread_attr_t *a, void *(*fn)(void *), void *arg)
{
    vh_ctxrec *r = vh_find((ABTD_xstream_context *)arg);
    if (!r)
        return pthread_create(t, a, fn, arg);
    r->orig_f = r->p->thread_f;
    r->p->thread_f = vh_f_tramp;
    r->start = fn;
    int ret = pthread_create(t, a, vh_start_tramp, r);
    if (ret != 0)
        r->p->thread_f = r->orig_f;
    return ret;
}
static int vh_lock(pthread_mutex_t *m)
{
    vh_perturb();
    int ret = pthread_mutex_lock(m);
    vh_ctxrec *r = vh_find(VH_CTX_OF_MUTEX(m));
    if (r) {
        r->owner = pthread_self();
        r->owned = 1;
        vh_record(r, K_LK, (int)r->p->state, 1);
    }
    return ret;
}
static int vh_unlock(pthread_mutex_t *m)
{
    vh_ctxrec *r = vh_find(VH_CTX_OF_MUTEX(m));
    int held = vh_held(r);
    if (r) {
        vh_record(r, K_UL, held ? (int)r->p->state : -1, held);
        if (held)
            r->owned = 0;
    }
    return pthread_mutex_unlock(m);
}
static int vh_signal(pthread_cond_t *c)
{
    vh_ctxrec *r = vh_find(VH_CTX_OF_COND(c));
    int held = vh_held(r);
    vh_record(r, K_SG, held ? (int)r->p->state : -1, held);
    int ret = pthread_cond_signal(c);
    vh_perturb();
    return ret;
}
static int vh_broadcast(pthread_cond_t *c)
{
    vh_ctxrec *r = vh_find(VH_CTX_OF_COND(c));
    int held = vh_held(r);
    vh_record(r, K_BC, held ? (int)r->p->state : -1, held);
    return pthread_cond_broadcast(c);
}
static int vh_wait(pthread_cond_t *c, pthread_mutex_t *m)
{
    vh_ctxrec *r = vh_find(VH_CTX_OF_COND(c));
    int held = vh_held(r);
    if (r) {
        vh_record(r, K_WE, held ? (int)r->p->state : -1, held);
        r->owned = 0;
    }
    int ret;
    if (vh_pseed && (vh_perturb_draw() & 3) == 0) {
        /* an injected spurious wake-up (POSIX allows pthread_cond_wait to return
         * without a signal): release the mutex, let others run, take it again */
        pthread_mutex_unlock(m);
        sched_yield();
        ret = pthread_mutex_lock(m);
    } else {
        ret = pthread_cond_wait(c, m);
    }
    if (r) {
        r->owner = pthread_self();
        r->owned = 1;
        vh_record(r, K_WR, (int)r->p->state, 1);
    }
    return ret;
}
static int vh_join(pthread_t t, void **ret)
{
    int i, rc = pthread_join(t, ret);
    vh_ctxrec *r = NULL;
    vh_tl_acquire();
    for (i = vh_nctx - 1; i >= 0; i--)
        if (vh_ctxs[i].active && pthread_equal(vh_ctxs[i].p->native_thread, t)) {
            r = &vh_ctxs[i];
            break;
        }
    vh_tl_release();
    vh_record(r, K_PJ, -1, 0);
    return rc;
}
static int vh_cond_destroy(pthread_cond_t *c)
{
    vh_record(vh_find(VH_CTX_OF_COND(c)), K_CD, -1, 0);
    return pthread_cond_destroy(c);
}
static int vh_mutex_destroy(pthread_mutex_t *m)
{
    vh_ctxrec *r = vh_find(VH_CTX_OF_MUTEX(m));
    vh_record(r, K_MD, -1, 0);
    if (r)
        r->active = 0;
    return pthread_mutex_destroy(m);
}

#define pthread_mutex_init vh_mutex_init
#define pthread_cond_init vh_cond_init
#define pthread_create vh_create
#define pthread_mutex_lock vh_lock
#define pthread_mutex_unlock vh_unlock
#define pthread_cond_signal vh_signal
#define pthread_cond_broadcast vh_broadcast
#define pthread_cond_wait vh_wait
#define pthread_join vh_join
#define pthread_cond_destroy vh_cond_destroy
#define pthread_mutex_destroy vh_mutex_destroy
#define ABTD_xstream_context_join vh_impl_ctx_join
#define ABTD_xstream_context_revive vh_impl_ctx_revive
#define ABTD_xstream_context_free vh_impl_ctx_free
#include "arch/abtd_stream.c"
#undef ABTD_xstream_context_join
#undef ABTD_xstream_context_revive
#undef ABTD_xstream_context_free
#undef pthread_mutex_init
#undef pthread_cond_init
#undef pthread_create
#undef pthread_mutex_lock
#undef pthread_mutex_unlock
#undef pthread_cond_signal
#undef pthread_cond_broadcast
#undef pthread_cond_wait
#undef pthread_join
#undef pthread_cond_destroy
#undef pthread_mutex_destroy

void ABTD_xstream_context_join(ABTD_xstream_context *p_ctx)
{
    vh_ctxrec *r = vh_find(p_ctx);
    vh_record(r, K_BJ, -1, 0);
    vh_impl_ctx_join(p_ctx);
    vh_record(r, K_EJ, -1, 0);
}
void ABTD_xstream_context_revive(ABTD_xstream_context *p_ctx)
{
    vh_ctxrec *r = vh_find(p_ctx);
    vh_record(r, K_BR, -1, 0);
    vh_impl_ctx_revive(p_ctx);
    vh_record(r, K_ER, -1, 0);
}
void ABTD_xstream_context_free(ABTD_xstream_context *p_ctx)
{
    /* an UNINIT context has no record (mutex never initialised) */
    vh_ctxrec *r = (p_ctx->state == ABTD_XSTREAM_CONTEXT_STATE_UNINIT) ? NULL : vh_find(p_ctx);
    vh_record(r, K_BF, -1, 0);
    vh_impl_ctx_free(p_ctx);
    vh_record(r, K_EF, -1, 0); /* r stays valid after mutex_destroy deactivated it */
}

static void vh_reset_log(void)
{
    vh_nlog = 0;
    vh_nctx = 0;
}

/* print the pthread-call history of the current case, grouped per context */
static void vh_print_hist(void)
{
    int c;
    size_t i;
    for (c = 0; c < vh_nctx; c++) {
        printf("%sctx%d:", c ? " ; " : "", c);
        for (i = 0; i < vh_nlog; i++)
            if (vh_log[i].ctx == c)
                printf(" %c.%s.%d.%d", vh_log[i].role ? 'C' : 'S', vh_kname[vh_log[i].kind],
                       vh_log[i].sample, vh_log[i].held);
    }
}

/* ------------------------------------------------------------------ */
/* output buffers                                                       */
static char *ob, *db;
static size_t obn, dbn, obc, dbc;
static void buf_add(char **b, size_t *n, size_t *c, const char *fmt, ...)
{
    va_list ap;
    if (*c - *n < 256) {
        *c = *c ? *c * 2 : 4096;
        *b = (char *)realloc(*b, *c);
    }
    va_start(ap, fmt);
    *n += vsnprintf(*b + *n, *c - *n, fmt, ap);
    va_end(ap);
}
#define OB(...) buf_add(&ob, &obn, &obc, __VA_ARGS__)
#define DB(...) buf_add(&db, &dbn, &dbc, __VA_ARGS__)

/* canonical dump of a list; returns 1 if it is a sane doubly linked chain */
static int dump_list(ABTI_global *g, ABTI_xstream **tab, int ntab)
{
    int steps = 0, sane = 1, first = 1, i;
    ABTI_xstream *prev = NULL, *p = g->p_xstream_head;
    while (p) {
        if (steps++ > ntab + 1) {
            DB("%sCYCLE", first ? "" : ",");
            sane = 0;
            break;
        }
        int id = -1;
        for (i = 0; i < ntab; i++)
            if (tab[i] == p)
                id = i;
        if (id < 0) {
            DB("%sDANGLING", first ? "" : ",");
            sane = 0;
            break;
        }
        int pok = (p->p_prev == prev);
        DB("%s%d:%d%s", first ? "" : ",", id, p->rank, pok ? "" : "!");
        if (!pok)
            sane = 0;
        first = 0;
        prev = p;
        p = p->p_next;
    }
    DB(";n=%d;m=%d", g->num_xstreams, g->max_xstreams);
    return sane;
}

/* ------------------------------------------------------------------ */
/* mode X: the static list functions on a private ABTI_global           */
#define MAXN 64
static void do_x(char *line)
{
    int max, i;
    volatile int n = 0, stopped = 0, nd = 0;
    char *save, *hd = strtok_r(line, ";", &save), *ops = strtok_r(NULL, ";", &save);
    if (sscanf(hd, "X %d", &max) != 1)
        VH_DIE("bad X header");
    ABTI_global *g = (ABTI_global *)calloc(1, sizeof(ABTI_global));
    ABTD_spinlock_clear(&g->xstream_list_lock);
    g->max_xstreams = max;
    ABTI_xstream *tab[MAXN];
    int linked[MAXN];
    char *save2, *o = ops ? strtok_r(ops, ",", &save2) : NULL;
    obn = dbn = 0;
    OB("X");
    DB("");
    for (; o && !stopped; o = strtok_r(NULL, ",", &save2)) {
        char k;
        int a = 0, b = 0;
        int nf = sscanf(o, " %c %d %d", &k, &a, &b);
        if (nf < 1)
            continue;
        vh_assert_armed = 1;
        if (setjmp(vh_assert_jb)) {
            OB(" BAD");
            break;
        }
        if (k == 'N') {
            if (n >= MAXN)
                VH_DIE("too many nodes");
            ABTI_xstream *x = (ABTI_xstream *)calloc(1, sizeof(ABTI_xstream));
            x->p_prev = NULL;
            x->p_next = NULL;
            tab[n++] = x;
            linked[n - 1] = 0;
            ABT_bool ok = xstream_set_new_rank(g, x, a);
            linked[n - 1] = (ok == ABT_TRUE);
            OB(" %d.%d", ok == ABT_TRUE, x->rank);
        } else if (k == 'C') {
            if (a < 0 || a >= n || !linked[a]) {
                OB(" skip");
            } else {
                ABT_bool ok = xstream_change_rank(g, tab[a], b);
                OB(" %d.%d", ok == ABT_TRUE, tab[a]->rank);
            }
        } else if (k == 'R') {
            if (a < 0 || a >= n || !linked[a]) {
                OB(" skip");
            } else {
                xstream_return_rank(g, tab[a]);
                linked[a] = 0;
                OB(" -");
            }
        } else
            VH_DIE("bad X op '%s'", o);
        vh_assert_armed = 0;
        if (nd++)
            DB(" / ");
        if (!dump_list(g, tab, n))
            stopped = 1;
    }
    printf("%s | %s\n", ob, db);
    for (i = 0; i < n; i++)
        free(tab[i]);
    free(g);
}

/* ------------------------------------------------------------------ */
/* mode K: the three list operations run under xstream_list_lock.  The  */
/* harness holds the lock of a private ABTI_global and lets a helper    */
/* thread call the function: it must not finish before the release.     */
typedef struct {
    ABTI_global *g;
    ABTI_xstream *x;
    int which, rank;
    volatile int started, done;
} k_arg;
static void *k_helper(void *p)
{
    k_arg *a = (k_arg *)p;
    __atomic_store_n(&a->started, 1, __ATOMIC_RELEASE);
    if (a->which == 0)
        xstream_set_new_rank(a->g, a->x, a->rank);
    else if (a->which == 1)
        xstream_change_rank(a->g, a->x, a->rank);
    else
        xstream_return_rank(a->g, a->x);
    __atomic_store_n(&a->done, 1, __ATOMIC_RELEASE);
    return NULL;
}
static void do_k(void)
{
    ABTI_global *g = (ABTI_global *)calloc(1, sizeof(ABTI_global));
    ABTI_xstream *x0 = (ABTI_xstream *)calloc(1, sizeof(ABTI_xstream));
    ABTI_xstream *x1 = (ABTI_xstream *)calloc(1, sizeof(ABTI_xstream));
    int which, blocked[3];
    ABTD_spinlock_clear(&g->xstream_list_lock);
    g->max_xstreams = 4;
    xstream_set_new_rank(g, x0, -1);
    for (which = 0; which < 3; which++) {
        k_arg a = { g, x1, which, which == 0 ? 3 : 5, 0, 0 };
        pthread_t th;
        int spins;
        ABTD_spinlock_acquire(&g->xstream_list_lock);
        if (pthread_create(&th, NULL, k_helper, &a) != 0)
            VH_DIE("pthread_create");
        while (!__atomic_load_n(&a.started, __ATOMIC_ACQUIRE))
            sched_yield();
        /* the call itself takes well under a microsecond: give it 20 ms */
        for (spins = 0; spins < 200 && !__atomic_load_n(&a.done, __ATOMIC_ACQUIRE); spins++)
            usleep(100);
        blocked[which] = !__atomic_load_n(&a.done, __ATOMIC_ACQUIRE);
        ABTD_spinlock_release(&g->xstream_list_lock);
        pthread_join(th, NULL);
    }
    printf("K %d %d %d | %d\n", blocked[0], blocked[1], blocked[2],
           (int)ABTD_spinlock_is_locked(&g->xstream_list_lock));
    free(x0);
    free(x1);
    free(g);
}

/* ------------------------------------------------------------------ */
/* mode A: the public API with real streams                             */
typedef struct {
    int newrank, r0, rc, r1;
} ult_arg;
static void ult_self_set_rank(void *p)
{
    ult_arg *a = (ult_arg *)p;
    ABT_xstream me;
    a->r0 = a->r1 = -77;
    ABT_xstream_self_rank(&a->r0);
    ABT_xstream_self(&me);
    a->rc = ABT_xstream_set_rank(me, a->newrank);
    ABT_xstream_self_rank(&a->r1);
}
static void ult_work(void *p)
{
    ult_arg *a = (ult_arg *)p;
    a->r0 = -77;
    ABT_xstream_self_rank(&a->r0);
}

static int run_ult_on(ABT_xstream x, void (*fn)(void *), ult_arg *a)
{
    ABT_xstream_state st;
    ABT_pool pool;
    ABT_thread th;
    if (x == ABT_XSTREAM_NULL)
        return -1;
    if (ABT_xstream_get_state(x, &st) != ABT_SUCCESS)
        return -1;
    if (st != ABT_XSTREAM_STATE_RUNNING)
        return -2;
    if (ABT_xstream_get_main_pools(x, 1, &pool) != ABT_SUCCESS)
        VH_DIE("get_main_pools");
    if (ABT_thread_create(pool, fn, a, ABT_THREAD_ATTR_NULL, &th) != ABT_SUCCESS)
        VH_DIE("thread_create");
    if (ABT_thread_free(&th) != ABT_SUCCESS)
        VH_DIE("thread_free");
    return 0;
}

#define MAXS 64
static void do_a(char *line, int hist)
{
    int max, n = 0, i, nd = 0;
    char *save, *hd = strtok_r(line, ";", &save), *ops = strtok_r(NULL, ";", &save);
    char envb[32];
    if (sscanf(hd, "A %d", &max) != 1)
        VH_DIE("bad A header");
    snprintf(envb, sizeof envb, "%d", max);
    setenv("ABT_MAX_NUM_XSTREAMS", envb, 1);
    vh_reset_log();
    if (ABT_init(0, NULL) != ABT_SUCCESS)
        VH_DIE("ABT_init");
    ABTI_global *g = ABTI_global_get_global();
    ABT_xstream xs[MAXS];
    ABTI_xstream *tab[MAXS]; /* pointer identity survives ABT_xstream_free for the dump */
    ABT_xstream_self(&xs[0]);
    tab[0] = ABTI_xstream_get_ptr(xs[0]);
    n = 1;
    obn = dbn = 0;
    OB("A");
    DB("");
    char *save2, *o = ops ? strtok_r(ops, ",", &save2) : NULL;
    for (; o; o = strtok_r(NULL, ",", &save2)) {
        char k;
        int a = 0, b = 0, rc, v;
        if (sscanf(o, " %c %d %d", &k, &a, &b) < 1)
            continue;
        ABT_xstream h = (a >= 0 && a < n) ? xs[a] : ABT_XSTREAM_NULL;
        switch (k) {
            case 'c':
            case 'w':
                if (n >= MAXS)
                    VH_DIE("too many streams");
                xs[n] = ABT_XSTREAM_NULL;
                rc = (k == 'c') ? ABT_xstream_create(ABT_SCHED_NULL, &xs[n])
                                : ABT_xstream_create_with_rank(ABT_SCHED_NULL, a, &xs[n]);
                tab[n] = (rc == ABT_SUCCESS) ? ABTI_xstream_get_ptr(xs[n]) : NULL;
                if (rc == ABT_SUCCESS) {
                    v = -77;
                    ABT_xstream_get_rank(xs[n], &v);
                    OB(" %d.%d", rc, v);
                } else {
                    OB(" %d", rc);
                }
                n++;
                break;
            case 's':
                OB(" %d", ABT_xstream_set_rank(h, b));
                break;
            case 'u': {
                ult_arg ua = { b, 0, 0, 0 };
                rc = run_ult_on(h, ult_self_set_rank, &ua);
                if (rc < 0)
                    OB(" %d", rc);
                else
                    OB(" %d.%d.%d", ua.r0, ua.rc, ua.r1);
                break;
            }
            case 'k': {
                ult_arg ua = { 0, 0, 0, 0 };
                rc = run_ult_on(h, ult_work, &ua);
                if (rc < 0)
                    OB(" %d", rc);
                else
                    OB(" %d", ua.r0);
                break;
            }
            case 'f':
                rc = (a >= 0 && a < n) ? ABT_xstream_free(&xs[a]) : ABT_ERR_INV_XSTREAM;
                if (rc == ABT_SUCCESS)
                    tab[a] = NULL;
                OB(" %d", rc);
                break;
            case 'j':
                OB(" %d", ABT_xstream_join(h));
                break;
            case 'm':
                OB(" %d", ABT_xstream_set_main_sched(h, ABT_SCHED_NULL));
                break;
            case 'v':
                OB(" %d", ABT_xstream_revive(h));
                break;
            case 'g':
                v = -77;
                rc = ABT_xstream_get_rank(h, &v);
                if (rc == ABT_SUCCESS)
                    OB(" %d.%d", rc, v);
                else
                    OB(" %d", rc);
                break;
            case 'n':
                v = -77;
                rc = ABT_xstream_get_num(&v);
                OB(" %d.%d", rc, v);
                break;
            case 't': {
                ABT_xstream_state st = (ABT_xstream_state)-77;
                rc = ABT_xstream_get_state(h, &st);
                if (rc == ABT_SUCCESS)
                    OB(" %d.%d", rc, (int)st);
                else
                    OB(" %d", rc);
                break;
            }
            default:
                VH_DIE("bad A op '%s'", o);
        }
        if (nd++)
            DB(" / ");
        dump_list(g, tab, n);
    }
    for (i = 1; i < n; i++)
        if (xs[i] != ABT_XSTREAM_NULL)
            ABT_xstream_free(&xs[i]);
    ABT_finalize();
    if (hist) {
        printf("H ");
        vh_print_hist();
        printf("\n");
    } else {
        printf("%s | %s\n", ob, db);
    }
}

/* ------------------------------------------------------------------ */
/* mode P: rank operations issued concurrently from ULTs on several     */
/* streams and from external threads                                    */
#define P_SLOTS 3
typedef struct {
    int kind; /* 0 create, 1 create_with_rank, 2 set_rank, 3 free, 4 get_num */
    int slot, arg, rc, val;
    long inv, resp;
} p_op;
typedef struct {
    int id, nops, maxrank;
    uint64_t seed;
    ABT_xstream own[P_SLOTS];
    int created_by[P_SLOTS]; /* index of the op that created the stream in the slot */
    p_op ops[32];
} p_worker;
static long p_clock;
static volatile int p_go;

static void p_body(void *arg)
{
    p_worker *w = (p_worker *)arg;
    int i;
    while (!__atomic_load_n(&p_go, __ATOMIC_ACQUIRE))
        sched_yield();
    for (i = 0; i < w->nops; i++) {
        p_op *o = &w->ops[i];
        uint64_t r = vh_rand(&w->seed);
        int slot = (int)((r >> 8) % P_SLOTS);
        int rank = 1 + (int)((r >> 16) % w->maxrank);
        int have = (w->own[slot] != ABT_XSTREAM_NULL);
        int c = (int)(r % 100);
        o->slot = slot;
        o->arg = rank;
        o->val = -1;
        if (!have)
            o->kind = (c < 45) ? 0 : (c < 90) ? 1 : 4;
        else
            o->kind = (c < 50) ? 2 : (c < 85) ? 3 : 4;
        if ((vh_rand(&w->seed) & 3) == 0)
            sched_yield();
        o->inv = __atomic_fetch_add(&p_clock, 1, __ATOMIC_SEQ_CST);
        switch (o->kind) {
            case 0:
                o->rc = ABT_xstream_create(ABT_SCHED_NULL, &w->own[slot]);
                if (o->rc == ABT_SUCCESS)
                    ABT_xstream_get_rank(w->own[slot], &o->val);
                break;
            case 1:
                o->rc = ABT_xstream_create_with_rank(ABT_SCHED_NULL, rank, &w->own[slot]);
                if (o->rc == ABT_SUCCESS)
                    ABT_xstream_get_rank(w->own[slot], &o->val);
                break;
            case 2:
                o->rc = ABT_xstream_set_rank(w->own[slot], rank);
                ABT_xstream_get_rank(w->own[slot], &o->val);
                break;
            case 3:
                o->rc = ABT_xstream_free(&w->own[slot]);
                break;
            default:
                o->rc = ABT_xstream_get_num(&o->val);
                break;
        }
        o->resp = __atomic_fetch_add(&p_clock, 1, __ATOMIC_SEQ_CST);
    }
}
static void *p_ext(void *arg)
{
    p_body(arg);
    return NULL;
}

static void do_p(char *line, int hist)
{
    unsigned long long seed;
    int hosts, ults, exts, nops, maxrank, i, j;
    if (sscanf(line, "P %llu %d %d %d %d %d", &seed, &hosts, &ults, &exts, &nops, &maxrank) != 6)
        VH_DIE("bad P line");
    if (nops > 32 || hosts > 8 || ults + exts > 16)
        VH_DIE("P too large");
    setenv("ABT_MAX_NUM_XSTREAMS", "4", 1);
    vh_reset_log();
    if (ABT_init(0, NULL) != ABT_SUCCESS)
        VH_DIE("ABT_init");
    ABTI_global *g = ABTI_global_get_global();
    ABT_xstream hx[8];
    ABT_pool hp[8];
    for (i = 0; i < hosts; i++) {
        /* host streams sleep when idle (BASIC_WAIT): they are ballast in the rank list, not load on the machine */
        if (ABT_xstream_create_basic(ABT_SCHED_BASIC_WAIT, 0, NULL, ABT_SCHED_CONFIG_NULL, &hx[i]) != ABT_SUCCESS)
            VH_DIE("host create");
        ABT_xstream_get_main_pools(hx[i], 1, &hp[i]);
    }
    int nw = ults + exts;
    p_worker *ws = (p_worker *)calloc(nw, sizeof(p_worker));
    ABT_thread th[16];
    pthread_t pt[16];
    p_clock = 0;
    p_go = 0;
    for (i = 0; i < nw; i++) {
        ws[i].id = i;
        ws[i].nops = nops;
        ws[i].maxrank = maxrank;
        ws[i].seed = seed * 1000003ULL + i * 7919ULL + 1;
        for (j = 0; j < P_SLOTS; j++)
            ws[i].own[j] = ABT_XSTREAM_NULL;
    }
    for (i = 0; i < ults; i++)
        if (ABT_thread_create(hp[i % (hosts ? hosts : 1)], p_body, &ws[i], ABT_THREAD_ATTR_NULL,
                              &th[i]) != ABT_SUCCESS)
            VH_DIE("ult create");
    for (i = ults; i < nw; i++)
        if (pthread_create(&pt[i], NULL, p_ext, &ws[i]) != 0)
            VH_DIE("pthread_create");
    __atomic_store_n(&p_go, 1, __ATOMIC_RELEASE);
    for (i = 0; i < ults; i++)
        ABT_thread_free(&th[i]);
    for (i = ults; i < nw; i++)
        pthread_join(pt[i], NULL);

    /* final state: white-box walk + invariants checked here */
    const char *bad = NULL;
    int cnt = 0, live = 1 + hosts, gnum = -1;
    ABTI_xstream *prev = NULL, *p;
    char fin[2048];
    size_t fn = 0;
    fin[0] = 0;
    for (p = g->p_xstream_head; p; prev = p, p = p->p_next) {
        if (++cnt > 1000) {
            bad = "cycle";
            break;
        }
        if (p->p_prev != prev)
            bad = "prev pointer inconsistent";
        if (prev && prev->rank >= p->rank)
            bad = "not strictly sorted";
        if (fn < sizeof(fin) - 16)
            fn += snprintf(fin + fn, sizeof(fin) - fn, "%s%d", cnt > 1 ? "," : "", p->rank);
    }
    for (i = 0; i < nw; i++)
        for (j = 0; j < P_SLOTS; j++)
            if (ws[i].own[j] != ABT_XSTREAM_NULL) {
                int rk = -1, found = 0;
                live++;
                ABT_xstream_get_rank(ws[i].own[j], &rk);
                for (p = g->p_xstream_head; p && !bad; p = p->p_next)
                    if (p == ABTI_xstream_get_ptr(ws[i].own[j]) && p->rank == rk)
                        found = 1;
                if (!found && !bad)
                    bad = "live stream not in the list";
            }
    ABT_xstream_get_num(&gnum);
    if (!bad && cnt != live)
        bad = "list length != number of live streams";
    if (!bad && (g->num_xstreams != live || gnum != live))
        bad = "num_xstreams != number of live streams";
    if (!bad && (!g->p_xstream_head || g->p_xstream_head->rank != 0 ||
                 g->p_xstream_head->type != ABTI_XSTREAM_TYPE_PRIMARY))
        bad = "head is not the primary stream with rank 0";

    if (hist) {
        printf("L hosts=%d ;", hosts);
        for (i = 0; i < nw; i++)
            for (j = 0; j < nops; j++) {
                p_op *o = &ws[i].ops[j];
                printf(" %d %d %d %d %d %d %ld %ld ;", i, o->kind, o->slot, o->arg, o->rc, o->val,
                       o->inv, o->resp);
            }
        printf(" final=%s n=%d\n", fin, g->num_xstreams);
    } else if (bad) {
        printf("P FAIL %s | [%s] n=%d live=%d\n", bad, fin, g->num_xstreams, live);
    } else {
        printf("P ok | inv\n");
    }
    for (i = 0; i < nw; i++)
        for (j = 0; j < P_SLOTS; j++)
            if (ws[i].own[j] != ABT_XSTREAM_NULL)
                ABT_xstream_free(&ws[i].own[j]);
    for (i = 0; i < hosts; i++)
        ABT_xstream_free(&hx[i]);
    ABT_finalize();
    free(ws);
}

/* watchdog: a case that does not finish (lost wake-up, endless list walk) */
static char vh_cur_case[256];
static void vh_on_alarm(int sig)
{
    static const char m1[] = "harness watchdog: case did not finish (hang): ";
    (void)sig;
    if (write(2, m1, sizeof(m1) - 1) < 0 || write(2, vh_cur_case, strlen(vh_cur_case)) < 0 ||
        write(2, "\n", 1) < 0)
        _exit(9);
    _exit(9);
}

int main(int argc, char **argv)
{
    FILE *f = argc > 1 ? fopen(argv[1], "r") : stdin;
    int hist = argc > 2 && !strcmp(argv[2], "hist");
    char *line;
    vh_pseed = 1 + (getenv("VH_PERTURB") ? strtoull(getenv("VH_PERTURB"), NULL, 10) : 0);
    if (!f)
        VH_DIE("cannot open case file");
    setvbuf(stdout, NULL, _IOLBF, 0);
    signal(SIGALRM, vh_on_alarm);
    while ((line = vh_getline(f)) != NULL) {
        strncpy(vh_cur_case, line, sizeof(vh_cur_case) - 1);
        alarm(getenv("VH_WATCHDOG") ? (unsigned)atoi(getenv("VH_WATCHDOG")) : 10);
        if (line[0] == 'X' && !hist)
            do_x(line);
        else if (line[0] == 'A')
            do_a(line, hist);
        else if (line[0] == 'P')
            do_p(line, hist);
        else if (line[0] == 'K' && !hist)
            do_k();
        else if (line[0] && line[0] != '#' && !hist)
            VH_DIE("bad line '%s'", line);
        free(line);
    }
    return 0;
}
