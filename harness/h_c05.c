/* C05 harness: condition variables in monitor discipline on the real runtime,
 * event hooks on; dumps the totally ordered history of atomic actions.
 *   PAIR <i> <plain|rec|static|static_rec> <dyn|static>    mutex i + condition variable i
 * Shared predicate of pair i (only touched while holding mutex i): tokens[i], closed[i].
 * ops (i = pair index):
 *   A<i>      consumer: lock; while (tokens==0 && !closed) ABT_cond_wait; take a token if any; unlock
 *   T<i>:<d>  timed consumer: same loop with ABT_cond_timedwait(deadline = 1000+d virtual seconds);
 *             leaves the loop on ABT_ERR_COND_TIMEDOUT
 *   P<i>      producer: lock; tokens++; ABT_cond_signal; unlock          (signal inside)
 *   p<i>      producer: lock; tokens++; unlock; ABT_cond_signal          (signal outside)
 *   B<i>:<k>  lock; tokens += k; ABT_cond_broadcast; unlock
 *   N<i> / n<i>  naked ABT_cond_signal / ABT_cond_broadcast (no mutex, predicate unchanged)
 *   C<i>      close: lock; closed = 1; ABT_cond_broadcast; unlock         (releases every waiter, sticky)
 *   X<i>:<j>  lock m_i; timedwait(c_i, m_i, past deadline); unlock m_i  (binds c_i to m_i), then
 *             lock m_j; ABT_cond_wait(c_i, m_j) -> ABT_ERR_INV_MUTEX expected; unlock m_j
 *   E<i>      ABT_cond_wait(c_i, m_i) without any lock: for tasklets (returns ABT_ERR_COND at once)
 *   M<i>      plain critical section on mutex i (contention)
 *   K<n>      advance the virtual clock by n seconds (logged under the trace lock)
 *   Z<n>      let the others run: n x (yield + 60 us real sleep)
 *   Y yield   W short work
 * BEGIN/END records: a = opcode (0..3 mutex ops as in h_c04; 10 wait, 11 timedwait, 12 signal,
 * 13 broadcast), b = cond (mutex) index, c = mutex index (+ 64 * absolute deadline for timedwait) /
 * return code.  NOTE 1 <clock> : clock tick. */
#include "abti.h"
#include "vh_scn.h"

#define MAXP 16
static ABT_mutex g_m[MAXP];
static ABT_mutex_memory g_mmem[MAXP];
static ABT_cond g_c[MAXP];
static ABT_cond_memory g_cmem[MAXP];
static int g_mkind[MAXP]; /* 0 plain 1 rec 2 static 3 static_rec */
static int g_ckind[MAXP]; /* 0 dyn 1 static */
static int g_np;
/* shared predicate, protected only by the mutex under test */
static volatile long g_tokens[MAXP];
static volatile int g_closed[MAXP];
/* monitors */
static volatile int g_inside[MAXP];
static volatile int g_overlap[MAXP];
static long g_produced[VH_MAX_STHR][MAXP];
static long g_consumed[VH_MAX_STHR][MAXP];
static long g_badtimeout[VH_MAX_STHR];
static long g_badret[VH_MAX_STHR];
static long g_waitcalls[VH_MAX_STHR];

static int vh_parse_decl(char *line)
{
    int i;
    char k[32], c[32];
    if (sscanf(line, "PAIR %d %31s %31s", &i, k, c) == 3) {
        if (i != g_np || i >= MAXP)
            VH_DIE("PAIR indices must be 0,1,2,...");
        g_mkind[i] = !strcmp(k, "plain") ? 0 : !strcmp(k, "rec") ? 1 : !strcmp(k, "static") ? 2 : 3;
        g_ckind[i] = !strcmp(c, "static");
        g_np++;
        return 1;
    }
    return 0;
}

static void vh_setup_objects(void)
{
    int i;
    for (i = 0; i < g_np; i++) {
        if (g_mkind[i] == 0) {
            if (ABT_mutex_create(&g_m[i]) != ABT_SUCCESS)
                VH_DIE("mutex_create");
        } else if (g_mkind[i] == 1) {
            ABT_mutex_attr a;
            ABT_mutex_attr_create(&a);
            ABT_mutex_attr_set_recursive(a, ABT_TRUE);
            if (ABT_mutex_create_with_attr(a, &g_m[i]) != ABT_SUCCESS)
                VH_DIE("mutex_create_with_attr");
            ABT_mutex_attr_free(&a);
        } else if (g_mkind[i] == 2) {
            ABT_mutex_memory m = ABT_MUTEX_INITIALIZER;
            g_mmem[i] = m;
            g_m[i] = ABT_MUTEX_MEMORY_GET_HANDLE(&g_mmem[i]);
        } else {
            ABT_mutex_memory m = ABT_RECURSIVE_MUTEX_INITIALIZER;
            g_mmem[i] = m;
            g_m[i] = ABT_MUTEX_MEMORY_GET_HANDLE(&g_mmem[i]);
        }
        if (g_ckind[i] == 0) {
            if (ABT_cond_create(&g_c[i]) != ABT_SUCCESS)
                VH_DIE("cond_create");
        } else {
            ABT_cond_memory c = ABT_COND_INITIALIZER;
            g_cmem[i] = c;
            g_c[i] = ABT_COND_MEMORY_GET_HANDLE(&g_cmem[i]);
        }
        ABTI_mutex *p = ABTI_mutex_get_ptr(g_m[i]);
        ABTI_cond *q = ABTI_cond_get_ptr(g_c[i]);
        vh_register_obj(&p->lock, "m%d.%s", i, "lock");
        vh_register_obj(&p->waiter_lock, "m%d.%s", i, "wlock");
        vh_register_obj(&p->waitlist, "m%d.%s", i, "wl");
        vh_register_obj(p, "m%d.%s", i, "self");
        vh_register_obj(&q->lock, "c%d.%s", i, "lock"); /* == the cond pointer itself */
        vh_register_obj(&q->waitlist, "c%d.%s", i, "wl");
    }
}

static void vh_teardown_objects(void)
{
    int i;
    for (i = 0; i < g_np; i++) {
        if (g_ckind[i] == 0)
            ABT_cond_free(&g_c[i]);
        if (g_mkind[i] < 2)
            ABT_mutex_free(&g_m[i]);
    }
}

static void cs_enter(int m)
{
    if (++g_inside[m] != 1)
        g_overlap[m] = 1;
}
static void cs_leave(int m)
{
    if (g_inside[m]-- != 1)
        g_overlap[m] = 1;
}
static void m_lock(int m)
{
    vh_note(VH_EV_OP_BEGIN, 0, m, 0);
    int ret = ABT_mutex_lock(g_m[m]);
    cs_enter(m);
    vh_note(VH_EV_OP_END, 0, m, ret);
}
static void m_unlock(int m)
{
    cs_leave(m);
    vh_note(VH_EV_OP_BEGIN, 3, m, 0);
    int ret = ABT_mutex_unlock(g_m[m]);
    vh_note(VH_EV_OP_END, 3, m, ret);
}
/* one ABT_cond_wait call by a caller that holds mutex m (as far as the harness knows) */
static int c_wait(vh_tctx *c, int i, int m, int holding)
{
    int t = (int)(c - vh_sthr);
    g_waitcalls[t]++;
    if (holding)
        cs_leave(m);
    vh_note(VH_EV_OP_BEGIN, 10, i, m);
    int ret = ABT_cond_wait(g_c[i], g_m[m]);
    if (holding)
        cs_enter(m); /* the caller must own the mutex again, whatever the return code */
    vh_note(VH_EV_OP_END, 10, i, ret);
    return ret;
}
static int c_timedwait(vh_tctx *c, int i, int m, long deadline)
{
    int t = (int)(c - vh_sthr);
    struct timespec ts;
    ts.tv_sec = (time_t)deadline;
    ts.tv_nsec = 0;
    g_waitcalls[t]++;
    cs_leave(m);
    vh_note(VH_EV_OP_BEGIN, 11, i, (uintptr_t)(m + 64 * deadline));
    int ret = ABT_cond_timedwait(g_c[i], g_m[m], &ts);
    double now = vh_vclock;
    cs_enter(m);
    vh_note(VH_EV_OP_END, 11, i, ret);
    if (ret == ABT_ERR_COND_TIMEDOUT && now < (double)deadline)
        g_badtimeout[t]++; /* timed out although the (monotone) clock has not reached the deadline */
    return ret;
}
static void c_signal(int i)
{
    vh_note(VH_EV_OP_BEGIN, 12, i, 0);
    int ret = ABT_cond_signal(g_c[i]);
    vh_note(VH_EV_OP_END, 12, i, ret);
}
static void c_broadcast(int i)
{
    vh_note(VH_EV_OP_BEGIN, 13, i, 0);
    int ret = ABT_cond_broadcast(g_c[i]);
    vh_note(VH_EV_OP_END, 13, i, ret);
}

static void vh_do_op(vh_tctx *c, const char *tok)
{
    int t = (int)(c - vh_sthr);
    int i = 0;
    long arg = 0;
    if (tok[1]) {
        i = atoi(tok + 1);
        const char *col = strchr(tok, ':');
        if (col)
            arg = atol(col + 1);
    }
    if (tok[0] != 'K' && tok[0] != 'Z' && tok[0] != 'Y' && tok[0] != 'W' && (i < 0 || i >= g_np))
        VH_DIE("bad pair index in %s", tok);
    int ret;
    switch (tok[0]) {
        case 'A':
            m_lock(i);
            while (g_tokens[i] == 0 && !g_closed[i]) {
                ret = c_wait(c, i, i, 1);
                if (ret != ABT_SUCCESS) {
                    g_badret[t]++;
                    break;
                }
            }
            if (g_tokens[i] > 0) {
                g_tokens[i]--;
                g_consumed[t][i]++;
            }
            m_unlock(i);
            break;
        case 'T':
            m_lock(i);
            while (g_tokens[i] == 0 && !g_closed[i]) {
                ret = c_timedwait(c, i, i, 1000 + arg);
                if (ret == ABT_ERR_COND_TIMEDOUT)
                    break;
                if (ret != ABT_SUCCESS) {
                    g_badret[t]++;
                    break;
                }
            }
            if (g_tokens[i] > 0) {
                g_tokens[i]--;
                g_consumed[t][i]++;
            }
            m_unlock(i);
            break;
        case 'P':
            m_lock(i);
            g_tokens[i]++;
            g_produced[t][i]++;
            c_signal(i);
            m_unlock(i);
            break;
        case 'p':
            m_lock(i);
            g_tokens[i]++;
            g_produced[t][i]++;
            m_unlock(i);
            c_signal(i);
            break;
        case 'B':
            m_lock(i);
            g_tokens[i] += arg;
            g_produced[t][i] += arg;
            c_broadcast(i);
            m_unlock(i);
            break;
        case 'N':
            c_signal(i);
            break;
        case 'n':
            c_broadcast(i);
            break;
        case 'C':
            m_lock(i);
            g_closed[i] = 1;
            c_broadcast(i);
            m_unlock(i);
            break;
        case 'X': {
            int j = (int)arg;
            if (j < 0 || j >= g_np || j == i)
                VH_DIE("bad X op %s", tok);
            m_lock(i);
            ret = c_timedwait(c, i, i, 1); /* deadline long past: binds c_i to m_i */
            if (ret != ABT_ERR_COND_TIMEDOUT && ret != ABT_SUCCESS)
                g_badret[t]++;
            m_unlock(i);
            m_lock(j);
            ret = c_wait(c, i, j, 1);
            if (ret != ABT_ERR_INV_MUTEX)
                g_badret[t]++;
            m_unlock(j);
            break;
        }
        case 'E':
            ret = c_wait(c, i, i, 0);
            if (ret != ABT_ERR_COND)
                g_badret[t]++;
            break;
        case 'M':
            m_lock(i);
            {
                volatile int k;
                for (k = 0; k < 100; k++)
                    ;
            }
            m_unlock(i);
            break;
        case 'K':
            vh_trace_lock();
            vh_vclock = vh_vclock + (double)atol(tok + 1);
            vh_trace_ev(VH_EV_NOTE, 1, (uintptr_t)vh_vclock, 0);
            vh_trace_unlock();
            break;
        case 'Z': {
            int k, n = atoi(tok + 1);
            for (k = 0; k < n; k++) {
                if (c->kind == 'U')
                    ABT_thread_yield();
                usleep(60);
            }
            break;
        }
        case 'Y':
            if (c->kind == 'U')
                ABT_thread_yield();
            else
                sched_yield();
            break;
        case 'W': {
            volatile int k;
            for (k = 0; k < 200; k++)
                ;
            break;
        }
        default:
            VH_DIE("bad op token %s", tok);
    }
}

static void vh_extra_dump(FILE *f)
{
    int i, t;
    for (i = 0; i < g_np; i++) {
        long pr = 0, co = 0;
        for (t = 0; t < vh_nsthr; t++) {
            pr += g_produced[t][i];
            co += g_consumed[t][i];
        }
        fprintf(f, "MON p%d mkind=%d ckind=%d produced=%ld consumed=%ld tokens=%ld overlap=%d inside=%d\n", i,
                g_mkind[i], g_ckind[i], pr, co, (long)g_tokens[i], g_overlap[i], g_inside[i]);
    }
    for (t = 0; t < vh_nsthr; t++)
        fprintf(f, "THRDONE %d %d badtimeout=%ld badret=%ld waitcalls=%ld\n", vh_sthr[t].index, vh_sthr[t].done,
                g_badtimeout[t], g_badret[t], g_waitcalls[t]);
}

int main(int argc, char **argv)
{
    return vh_scenario_main(argc, argv);
}
