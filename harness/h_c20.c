/* C20 harness: runs the case file on the implementation and prints one
 * canonical line per case (same format as ocaml/drv_c20.ml).
 *   HT <W|S|P> <n> ; idx ty v , ... ; op , op ...
 *   AT <i|u32|u64|sz> <codes...>
 * W = white box on a sanitizer-instrumented copy of util/hashtable.c,
 * S = ABT_sched_config public API, P = ABT_pool_config public API. */
#include "abti.h"
#include "vh_common.h"

/* instrumented private copies of the two utility files */
#define ABTU_hashtable_create vhx_ht_create
#define ABTU_hashtable_free vhx_ht_free
#define ABTU_hashtable_get vhx_ht_get
#define ABTU_hashtable_set vhx_ht_set
#define ABTU_hashtable_delete vhx_ht_delete
#include "util/hashtable.c"
#undef ABTU_hashtable_create
#undef ABTU_hashtable_free
#undef ABTU_hashtable_get
#undef ABTU_hashtable_set
#undef ABTU_hashtable_delete
#define ABTU_atoi vhx_atoi
#define ABTU_atoui32 vhx_atoui32
#define ABTU_atoui64 vhx_atoui64
#define ABTU_atosz vhx_atosz
#include "util/atoi.c"
#undef ABTU_atoi
#undef ABTU_atoui32
#undef ABTU_atoui64
#undef ABTU_atosz

typedef struct {
    int type;
    union {
        int v_int;
        double v_double;
        void *v_ptr;
    } val;
} elem_t; /* same layout as sched_config_element / pool_config_element */

#define SENT 0xA5A5A5A5A5A5A5A5ULL

static void fmt_val(char *out, int type, const void *p)
{
    if (type == 0) {
        int v;
        memcpy(&v, p, 4);
        sprintf(out, "%d:%d", type, v);
    } else {
        uint64_t v;
        memcpy(&v, p, 8);
        sprintf(out, "%d:%" PRIu64, type, v);
    }
}

static void dump_table(ABTU_hashtable *t)
{
    size_t i, heap = 0;
    printf(" | ");
    for (i = 0; i < t->num_entries; i++) {
        ABTU_hashtable_element *e = get_element(t, i);
        printf("[");
        int first = 1;
        if (e->data) {
            if (e->data != ((char *)e) + sizeof(ABTU_hashtable_element))
                printf("BADDATA,");
            printf("%d", e->key);
            first = 0;
        } else if (e->p_next) {
            printf("U");
            first = 0;
        }
        ABTU_hashtable_element *c = e->p_next;
        while (c) {
            if (c->data != ((char *)c) + sizeof(ABTU_hashtable_element))
                printf("%sBADDATA", first ? "" : ",");
            printf("%s%d", first ? "" : ",", c->key);
            first = 0;
            heap++;
            c = c->p_next;
        }
        printf("]");
    }
    printf(" heap=%zu", heap);
}

static void set_typed(void *buf, int ty, const char *v)
{
    memset(buf, 0, 8);
    if (ty == 0) {
        int x = (int)strtoll(v, NULL, 10);
        memcpy(buf, &x, 4);
    } else {
        uint64_t x = strtoull(v, NULL, 10);
        memcpy(buf, &x, 8);
    }
}

static void do_ht(char *line)
{
    char *save1;
    char *hd = strtok_r(line, ";", &save1);
    char *ents = strtok_r(NULL, ";", &save1);
    char *ops = strtok_r(NULL, ";", &save1);
    char variant;
    int n;
    if (sscanf(hd, "HT %c %d", &variant, &n) != 2)
        VH_DIE("bad HT header");
    ABTU_hashtable *wt = NULL;
    ABT_sched_config sc = ABT_SCHED_CONFIG_NULL;
    ABT_pool_config pc = ABT_POOL_CONFIG_NULL;
    int ret, createfail = 0;
    /* ---- creation ---- */
    int nent = 0, eidx[16], ety[16];
    char ev[16][32];
    char *save2;
    char *e = ents ? strtok_r(ents, ",", &save2) : NULL;
    while (e && nent < 16) {
        if (sscanf(e, "%d %d %31s", &eidx[nent], &ety[nent], ev[nent]) == 3)
            nent++;
        e = strtok_r(NULL, ",", &save2);
    }
    if (variant == 'W') {
        ret = vhx_ht_create(n, sizeof(elem_t), &wt);
        if (ret != ABT_SUCCESS)
            VH_DIE("create failed");
        int i;
        for (i = 0; i < nent; i++) {
            if (eidx[i] == -1)
                break;
            if (ety[i] < 0 || ety[i] > 2) {
                createfail = 1;
                break;
            }
            elem_t d;
            memset(&d, 0, sizeof(d));
            d.type = ety[i];
            set_typed(&d.val, ety[i], ev[i]);
            ret = vhx_ht_set(wt, eidx[i], &d, NULL);
            if (ret != ABT_SUCCESS)
                VH_DIE("set failed");
        }
    } else if (variant == 'S') {
        /* variadic creation: up to 3 entries are passed through the real
         * varargs interface, the rest through ABT_sched_config_set */
        ABT_sched_config_var var[3];
        int i, k = nent < 3 ? nent : 3;
        uint64_t raw[3] = { 0, 0, 0 };
        for (i = 0; i < 3; i++) {
            var[i].idx = -1;
            var[i].type = ABT_SCHED_CONFIG_INT;
        }
        for (i = 0; i < k; i++) {
            var[i].idx = eidx[i];
            var[i].type = (ABT_sched_config_type)ety[i];
            set_typed(&raw[i], ety[i], ev[i]);
        }
        /* build the call for each type combination of up to 3 entries is
         * unwieldy; use the one-entry form repeatedly: create with the first
         * entry, then set the others (documented as equivalent). */
        if (k == 0 || var[0].idx == -1) {
            ret = ABT_sched_config_create(&sc, ABT_sched_config_var_end);
            k = 0;
            if (nent > 0 && eidx[0] == -1)
                nent = 0;
        } else if (var[0].type == ABT_SCHED_CONFIG_INT) {
            int x;
            memcpy(&x, &raw[0], 4);
            ret = ABT_sched_config_create(&sc, var[0], x,
                                          ABT_sched_config_var_end);
        } else if (var[0].type == ABT_SCHED_CONFIG_DOUBLE) {
            double x;
            memcpy(&x, &raw[0], 8);
            ret = ABT_sched_config_create(&sc, var[0], x,
                                          ABT_sched_config_var_end);
        } else if (var[0].type == ABT_SCHED_CONFIG_PTR) {
            void *x;
            memcpy(&x, &raw[0], 8);
            ret = ABT_sched_config_create(&sc, var[0], x,
                                          ABT_sched_config_var_end);
        } else {
            ret = ABT_sched_config_create(&sc, var[0], 0,
                                          ABT_sched_config_var_end);
        }
        if (ret != ABT_SUCCESS) {
            createfail = 1;
            if (sc != ABT_SCHED_CONFIG_NULL)
                printf("HANDLE-NOT-NULL ");
        } else {
            for (i = 1; i < nent; i++) {
                if (eidx[i] == -1)
                    break;
                uint64_t r;
                set_typed(&r, ety[i], ev[i]);
                ret = ABT_sched_config_set(sc, eidx[i],
                                           (ABT_sched_config_type)ety[i], &r);
                if (ret != ABT_SUCCESS) {
                    createfail = 1;
                    ABT_sched_config_free(&sc);
                    break;
                }
            }
        }
    } else if (variant == 'P') {
        ret = ABT_pool_config_create(&pc);
        if (ret != ABT_SUCCESS)
            VH_DIE("pool config create failed");
        int i;
        for (i = 0; i < nent; i++) {
            if (eidx[i] == -1)
                break;
            uint64_t r;
            set_typed(&r, ety[i], ev[i]);
            ret = ABT_pool_config_set(pc, eidx[i], (ABT_pool_config_type)ety[i],
                                      &r);
            if (ret != ABT_SUCCESS) {
                createfail = 1;
                ABT_pool_config_free(&pc);
                break;
            }
        }
    } else
        VH_DIE("bad variant");
    if (createfail) {
        printf("HT createfail\n");
        if (wt)
            vhx_ht_free(wt);
        return;
    }
    /* ---- operations ---- */
    printf("HT");
    char *o = ops ? strtok_r(ops, ",", &save2) : NULL;
    while (o) {
        char opc;
        int key = 0, ty = 0;
        char vs[32] = "0";
        while (*o == ' ')
            o++;
        if (!*o) {
            o = strtok_r(NULL, ",", &save2);
            continue;
        }
        opc = *o;
        if (opc == 'S') {
            if (sscanf(o, "S %d %d %31s", &key, &ty, vs) != 3)
                VH_DIE("bad S");
            uint64_t r;
            set_typed(&r, ty, vs);
            if (variant == 'W') {
                if (ty < 0 || ty > 2)
                    ret = ABT_ERR_INV_ARG;
                else {
                    elem_t d;
                    memset(&d, 0, sizeof(d));
                    d.type = ty;
                    memcpy(&d.val, &r, 8);
                    ret = vhx_ht_set(wt, key, &d, NULL);
                }
            } else if (variant == 'S')
                ret = ABT_sched_config_set(sc, key, (ABT_sched_config_type)ty,
                                           &r);
            else
                ret = ABT_pool_config_set(pc, key, (ABT_pool_config_type)ty,
                                          &r);
            printf(" c%d", ret);
        } else if (opc == 'D') {
            sscanf(o, "D %d", &key);
            if (variant == 'W') {
                vhx_ht_delete(wt, key, NULL);
                ret = ABT_SUCCESS;
            } else if (variant == 'S')
                ret = ABT_sched_config_set(sc, key, ABT_SCHED_CONFIG_INT, NULL);
            else
                ret = ABT_pool_config_set(pc, key, ABT_POOL_CONFIG_INT, NULL);
            printf(" c%d", ret);
        } else if (opc == 'G') {
            sscanf(o, "G %d", &key);
            uint64_t buf = SENT;
            int type = -77, found = 0;
            if (variant == 'W') {
                elem_t d;
                vhx_ht_get(wt, key, &d, &found);
                if (found) {
                    type = d.type;
                    memcpy(&buf, &d.val, 8);
                    ret = ABT_SUCCESS;
                } else
                    ret = ABT_ERR_INV_ARG;
            } else if (variant == 'S') {
                ABT_sched_config_type t2 = (ABT_sched_config_type)-77;
                ret = ABT_sched_config_get(sc, key, &t2, &buf);
                type = (int)t2;
            } else {
                ABT_pool_config_type t2 = (ABT_pool_config_type)-77;
                ret = ABT_pool_config_get(pc, key, &t2, &buf);
                type = (int)t2;
            }
            if (ret == ABT_SUCCESS) {
                char s[64];
                fmt_val(s, type, &buf);
                printf(" g%s", s);
            } else
                printf(" c%d", ret);
        } else if (opc == 'R') {
            int cnt = 0, i;
            sscanf(o, "R %d", &cnt);
            if (cnt > 8)
                cnt = 8;
            uint64_t b[8];
            for (i = 0; i < 8; i++)
                b[i] = SENT;
            if (variant == 'S') {
                ret = ABT_sched_config_read(sc, cnt, &b[0], &b[1], &b[2], &b[3],
                                            &b[4], &b[5], &b[6], &b[7]);
                if (ret != ABT_SUCCESS)
                    printf(" READFAIL");
            } else {
                /* W, P: no variadic read; emulate by get */
                for (i = 0; i < cnt; i++) {
                    int found = 0;
                    elem_t d;
                    if (variant == 'W')
                        vhx_ht_get(wt, i, &d, &found);
                    else {
                        ABT_pool_config_type t2;
                        uint64_t tmp = 0;
                        found = ABT_pool_config_get(pc, i, &t2, &tmp) ==
                                ABT_SUCCESS;
                        d.type = (int)t2;
                        memcpy(&d.val, &tmp, 8);
                    }
                    if (found)
                        memcpy(&b[i], &d.val, d.type == 0 ? 4 : 8);
                }
            }
            printf(" r[");
            for (i = 0; i < cnt; i++)
                printf("%s%" PRIu64, i ? "," : "", b[i]);
            printf("]");
        } else
            VH_DIE("bad op %c", opc);
        o = strtok_r(NULL, ",", &save2);
    }
    ABTU_hashtable *t =
        variant == 'W'
            ? wt
            : (variant == 'S' ? ABTI_sched_config_get_ptr(sc)->p_table
                              : ABTI_pool_config_get_ptr(pc)->p_table);
    dump_table(t);
    printf("\n");
    if (variant == 'W')
        vhx_ht_free(wt);
    else if (variant == 'S') {
        ABT_sched_config_free(&sc);
        if (sc != ABT_SCHED_CONFIG_NULL)
            printf("FREE-HANDLE-NOT-NULL\n");
    } else
        ABT_pool_config_free(&pc);
}

static void do_at(char *line)
{
    char kind[8];
    int off = 0;
    if (sscanf(line, "AT %7s%n", kind, &off) != 1)
        VH_DIE("bad AT");
    /* exact-size heap buffer so that ASan sees any read past the NUL */
    int cap = 0, len = 0;
    char *p = line + off;
    int codes[4096];
    while (*p) {
        char *q;
        long c = strtol(p, &q, 10);
        if (q == p)
            break;
        codes[len++] = (int)c;
        p = q;
    }
    (void)cap;
    char *s = (char *)malloc(len + 1);
    int i;
    for (i = 0; i < len; i++)
        s[i] = (char)codes[i];
    s[len] = 0;
    ABT_bool ovf = 77;
    int ret;
    if (!strcmp(kind, "i")) {
        int v = 12345;
        ret = vhx_atoi(s, &v, &ovf);
        if (ret == ABT_SUCCESS)
            printf("AT i %d %d\n", v, ovf == ABT_TRUE);
    } else if (!strcmp(kind, "u32")) {
        uint32_t v = 12345;
        ret = vhx_atoui32(s, &v, &ovf);
        if (ret == ABT_SUCCESS)
            printf("AT u32 %u %d\n", v, ovf == ABT_TRUE);
    } else if (!strcmp(kind, "u64")) {
        uint64_t v = 12345;
        ret = vhx_atoui64(s, &v, &ovf);
        if (ret == ABT_SUCCESS)
            printf("AT u64 %" PRIu64 " %d\n", v, ovf == ABT_TRUE);
    } else {
        size_t v = 12345;
        ret = vhx_atosz(s, &v, &ovf);
        if (ret == ABT_SUCCESS)
            printf("AT sz %zu %d\n", v, ovf == ABT_TRUE);
    }
    if (ret != ABT_SUCCESS)
        printf("AT %s err\n", kind);
    free(s);
}

int main(int argc, char **argv)
{
    FILE *f = argc > 1 ? fopen(argv[1], "r") : stdin;
    if (!f)
        VH_DIE("cannot open case file");
    ABT_init(0, NULL);
    char *line;
    while ((line = vh_getline(f))) {
        if (line[0] == 'H')
            do_ht(line);
        else if (line[0] == 'A')
            do_at(line);
        fflush(stdout);
        free(line);
    }
    ABT_finalize();
    return 0;
}
