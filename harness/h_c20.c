/* C20 harness: runs the case file on the implementation and prints one
 * canonical line per case (same format as ocaml/drv_c20.ml).
 *   HT <W|S|P> <n> ; idx ty v , ... ; op , op ...
 *   AT <i|u32|u64|sz> <codes...>
 *   AF <codes...> | AF null          white-box ABTD_affinity_list_create
 *   ENV nc=<cores> pg=<pagesize> NAME=c.c.c ...   ABTD_env_init / ABT_init in a child
 * W = white box on a sanitizer-instrumented copy of util/hashtable.c,
 * S = ABT_sched_config public API, P = ABT_pool_config public API. */
#include "abti.h"
#include "vh_common.h"

/* instrumented private copies of the two utility files */
#define ABTU_hashtable_create vhx_ht_create
#define ABTU_hashtable_free vhx_ht_free
#define ABTU_hashtable_get vhx_ht_get
#define ABTU_hashtable_set vhx_ht_set
#define ABTU_hashtable_delete vhx_ht_delete
#include "util/hashtable.c"
#undef ABTU_hashtable_create
#undef ABTU_hashtable_free
#undef ABTU_hashtable_get
#undef ABTU_hashtable_set
#undef ABTU_hashtable_delete
#define ABTU_atoi vhx_atoi
#define ABTU_atoui32 vhx_atoui32
#define ABTU_atoui64 vhx_atoui64
#define ABTU_atosz vhx_atosz
#include "util/atoi.c"
#undef ABTU_atoi
#undef ABTU_atoui32
#undef ABTU_atoui64
#undef ABTU_atosz
/* instrumented private copy of the affinity parser */
#define ABTD_affinity_list_create vhx_aff_create
#define ABTD_affinity_list_free vhx_aff_free
#include "arch/abtd_affinity_parser.c"
#undef ABTD_affinity_list_create
#undef ABTD_affinity_list_free
#include <unistd.h>
#include <sys/wait.h>

typedef struct {
    int type;
    union {
        int v_int;
        double v_double;
        void *v_ptr;
    } val;
} elem_t; /* same layout as sched_config_element / pool_config_element */

#define SENT 0xA5A5A5A5A5A5A5A5ULL

static void fmt_val(char *out, int type, const void *p)
{
    if (type == 0) {
        int v;
        memcpy(&v, p, 4);
        sprintf(out, "%d:%d", type, v);
    } else {
        uint64_t v;
        memcpy(&v, p, 8);
        sprintf(out, "%d:%" PRIu64, type, v);
    }
}

static void dump_table(ABTU_hashtable *t)
{
    size_t i, heap = 0;
    printf(" | ");
    for (i = 0; i < t->num_entries; i++) {
        ABTU_hashtable_element *e = get_element(t, i);
        printf("[");
        int first = 1;
        if (e->data) {
            if (e->data != ((char *)e) + sizeof(ABTU_hashtable_element))
                printf("BADDATA,");
            printf("%d", e->key);
            first = 0;
        } else if (e->p_next) {
            printf("U");
            first = 0;
        }
        ABTU_hashtable_element *c = e->p_next;
        while (c) {
            if (c->data != ((char *)c) + sizeof(ABTU_hashtable_element))
                printf("%sBADDATA", first ? "" : ",");
            printf("%s%d", first ? "" : ",", c->key);
            first = 0;
            heap++;
            c = c->p_next;
        }
        printf("]");
    }
    printf(" heap=%zu", heap);
}

static void set_typed(void *buf, int ty, const char *v)
{
    memset(buf, 0, 8);
    if (ty == 0) {
        int x = (int)strtoll(v, NULL, 10);
        memcpy(buf, &x, 4);
    } else {
        uint64_t x = strtoull(v, NULL, 10);
        memcpy(buf, &x, 8);
    }
}

static void do_ht(char *line)
{
    char *save1;
    char *hd = strtok_r(line, ";", &save1);
    char *ents = strtok_r(NULL, ";", &save1);
    char *ops = strtok_r(NULL, ";", &save1);
    char variant;
    int n;
    if (sscanf(hd, "HT %c %d", &variant, &n) != 2)
        VH_DIE("bad HT header");
    ABTU_hashtable *wt = NULL;
    ABT_sched_config sc = ABT_SCHED_CONFIG_NULL;
    ABT_pool_config pc = ABT_POOL_CONFIG_NULL;
    int ret, createfail = 0;
    /* ---- creation ---- */
    int nent = 0, eidx[16], ety[16];
    char ev[16][32];
    char *save2;
    char *e = ents ? strtok_r(ents, ",", &save2) : NULL;
    while (e && nent < 16) {
        if (sscanf(e, "%d %d %31s", &eidx[nent], &ety[nent], ev[nent]) == 3)
            nent++;
        e = strtok_r(NULL, ",", &save2);
    }
    if (variant == 'W') {
        ret = vhx_ht_create(n, sizeof(elem_t), &wt);
        if (ret != ABT_SUCCESS)
            VH_DIE("create failed");
        int i;
        for (i = 0; i < nent; i++) {
            if (eidx[i] == -1)
                break;
            if (ety[i] < 0 || ety[i] > 2) {
                createfail = 1;
                break;
            }
            elem_t d;
            memset(&d, 0, sizeof(d));
            d.type = ety[i];
            set_typed(&d.val, ety[i], ev[i]);
            ret = vhx_ht_set(wt, eidx[i], &d, NULL);
            if (ret != ABT_SUCCESS)
                VH_DIE("set failed");
        }
    } else if (variant == 'S') {
        /* variadic creation: up to 3 entries are passed through the real
         * varargs interface, the rest through ABT_sched_config_set */
        ABT_sched_config_var var[3];
        int i, k = nent < 3 ? nent : 3;
        uint64_t raw[3] = { 0, 0, 0 };
        for (i = 0; i < 3; i++) {
            var[i].idx = -1;
            var[i].type = ABT_SCHED_CONFIG_INT;
        }
        for (i = 0; i < k; i++) {
            var[i].idx = eidx[i];
            var[i].type = (ABT_sched_config_type)ety[i];
            set_typed(&raw[i], ety[i], ev[i]);
        }
        /* build the call for each type combination of up to 3 entries is
         * unwieldy; use the one-entry form repeatedly: create with the first
         * entry, then set the others (documented as equivalent). */
        if (k == 0 || var[0].idx == -1) {
            ret = ABT_sched_config_create(&sc, ABT_sched_config_var_end);
            k = 0;
            if (nent > 0 && eidx[0] == -1)
                nent = 0;
        } else if (var[0].type == ABT_SCHED_CONFIG_INT) {
            int x;
            memcpy(&x, &raw[0], 4);
            ret = ABT_sched_config_create(&sc, var[0], x,
                                          ABT_sched_config_var_end);
        } else if (var[0].type == ABT_SCHED_CONFIG_DOUBLE) {
            double x;
            memcpy(&x, &raw[0], 8);
            ret = ABT_sched_config_create(&sc, var[0], x,
                                          ABT_sched_config_var_end);
        } else if (var[0].type == ABT_SCHED_CONFIG_PTR) {
            void *x;
            memcpy(&x, &raw[0], 8);
            ret = ABT_sched_config_create(&sc, var[0], x,
                                          ABT_sched_config_var_end);
        } else {
            ret = ABT_sched_config_create(&sc, var[0], 0,
                                          ABT_sched_config_var_end);
        }
        if (ret != ABT_SUCCESS) {
            createfail = 1;
            if (sc != ABT_SCHED_CONFIG_NULL)
                printf("HANDLE-NOT-NULL ");
        } else {
            for (i = 1; i < nent; i++) {
                if (eidx[i] == -1)
                    break;
                uint64_t r;
                set_typed(&r, ety[i], ev[i]);
                ret = ABT_sched_config_set(sc, eidx[i],
                                           (ABT_sched_config_type)ety[i], &r);
                if (ret != ABT_SUCCESS) {
                    createfail = 1;
                    ABT_sched_config_free(&sc);
                    break;
                }
            }
        }
    } else if (variant == 'P') {
        ret = ABT_pool_config_create(&pc);
        if (ret != ABT_SUCCESS)
            VH_DIE("pool config create failed");
        int i;
        for (i = 0; i < nent; i++) {
            if (eidx[i] == -1)
                break;
            uint64_t r;
            set_typed(&r, ety[i], ev[i]);
            ret = ABT_pool_config_set(pc, eidx[i], (ABT_pool_config_type)ety[i],
                                      &r);
            if (ret != ABT_SUCCESS) {
                createfail = 1;
                ABT_pool_config_free(&pc);
                break;
            }
        }
    } else
        VH_DIE("bad variant");
    if (createfail) {
        printf("HT createfail\n");
        if (wt)
            vhx_ht_free(wt);
        return;
    }
    /* ---- operations ---- */
    printf("HT");
    char *o = ops ? strtok_r(ops, ",", &save2) : NULL;
    while (o) {
        char opc;
        int key = 0, ty = 0;
        char vs[32] = "0";
        while (*o == ' ')
            o++;
        if (!*o) {
            o = strtok_r(NULL, ",", &save2);
            continue;
        }
        opc = *o;
        if (opc == 'S') {
            if (sscanf(o, "S %d %d %31s", &key, &ty, vs) != 3)
                VH_DIE("bad S");
            uint64_t r;
            set_typed(&r, ty, vs);
            if (variant == 'W') {
                if (ty < 0 || ty > 2)
                    ret = ABT_ERR_INV_ARG;
                else {
                    elem_t d;
                    memset(&d, 0, sizeof(d));
                    d.type = ty;
                    memcpy(&d.val, &r, 8);
                    ret = vhx_ht_set(wt, key, &d, NULL);
                }
            } else if (variant == 'S')
                ret = ABT_sched_config_set(sc, key, (ABT_sched_config_type)ty,
                                           &r);
            else
                ret = ABT_pool_config_set(pc, key, (ABT_pool_config_type)ty,
                                          &r);
            printf(" c%d", ret);
        } else if (opc == 'D') {
            sscanf(o, "D %d", &key);
            if (variant == 'W') {
                vhx_ht_delete(wt, key, NULL);
                ret = ABT_SUCCESS;
            } else if (variant == 'S')
                ret = ABT_sched_config_set(sc, key, ABT_SCHED_CONFIG_INT, NULL);
            else
                ret = ABT_pool_config_set(pc, key, ABT_POOL_CONFIG_INT, NULL);
            printf(" c%d", ret);
        } else if (opc == 'G') {
            sscanf(o, "G %d", &key);
            uint64_t buf = SENT;
            int type = -77, found = 0;
            if (variant == 'W') {
                elem_t d;
                vhx_ht_get(wt, key, &d, &found);
                if (found) {
                    type = d.type;
                    memcpy(&buf, &d.val, 8);
                    ret = ABT_SUCCESS;
                } else
                    ret = ABT_ERR_INV_ARG;
            } else if (variant == 'S') {
                ABT_sched_config_type t2 = (ABT_sched_config_type)-77;
                ret = ABT_sched_config_get(sc, key, &t2, &buf);
                type = (int)t2;
            } else {
                ABT_pool_config_type t2 = (ABT_pool_config_type)-77;
                ret = ABT_pool_config_get(pc, key, &t2, &buf);
                type = (int)t2;
            }
            if (ret == ABT_SUCCESS) {
                char s[64];
                fmt_val(s, type, &buf);
                printf(" g%s", s);
            } else
                printf(" c%d", ret);
        } else if (opc == 'R') {
            int cnt = 0, i;
            sscanf(o, "R %d", &cnt);
            if (cnt > 8)
                cnt = 8;
            uint64_t b[8];
            for (i = 0; i < 8; i++)
                b[i] = SENT;
            if (variant == 'S') {
                ret = ABT_sched_config_read(sc, cnt, &b[0], &b[1], &b[2], &b[3],
                                            &b[4], &b[5], &b[6], &b[7]);
                if (ret != ABT_SUCCESS)
                    printf(" READFAIL");
            } else {
                /* W, P: no variadic read; emulate by get */
                for (i = 0; i < cnt; i++) {
                    int found = 0;
                    elem_t d;
                    if (variant == 'W')
                        vhx_ht_get(wt, i, &d, &found);
                    else {
                        ABT_pool_config_type t2;
                        uint64_t tmp = 0;
                        found = ABT_pool_config_get(pc, i, &t2, &tmp) ==
                                ABT_SUCCESS;
                        d.type = (int)t2;
                        memcpy(&d.val, &tmp, 8);
                    }
                    if (found)
                        memcpy(&b[i], &d.val, d.type == 0 ? 4 : 8);
                }
            }
            printf(" r[");
            for (i = 0; i < cnt; i++)
                printf("%s%" PRIu64, i ? "," : "", b[i]);
            printf("]");
        } else
            VH_DIE("bad op %c", opc);
        o = strtok_r(NULL, ",", &save2);
    }
    ABTU_hashtable *t =
        variant == 'W'
            ? wt
            : (variant == 'S' ? ABTI_sched_config_get_ptr(sc)->p_table
                              : ABTI_pool_config_get_ptr(pc)->p_table);
    dump_table(t);
    printf("\n");
    if (variant == 'W')
        vhx_ht_free(wt);
    else if (variant == 'S') {
        ABT_sched_config_free(&sc);
        if (sc != ABT_SCHED_CONFIG_NULL)
            printf("FREE-HANDLE-NOT-NULL\n");
    } else
        ABT_pool_config_free(&pc);
}

static void do_at(char *line)
{
    char kind[8];
    int off = 0;
    if (sscanf(line, "AT %7s%n", kind, &off) != 1)
        VH_DIE("bad AT");
    /* exact-size heap buffer so that ASan sees any read past the NUL */
    int cap = 0, len = 0;
    char *p = line + off;
    int codes[4096];
    while (*p) {
        char *q;
        long c = strtol(p, &q, 10);
        if (q == p)
            break;
        codes[len++] = (int)c;
        p = q;
    }
    (void)cap;
    char *s = (char *)malloc(len + 1);
    int i;
    for (i = 0; i < len; i++)
        s[i] = (char)codes[i];
    s[len] = 0;
    ABT_bool ovf = 77;
    int ret;
    if (!strcmp(kind, "i")) {
        int v = 12345;
        ret = vhx_atoi(s, &v, &ovf);
        if (ret == ABT_SUCCESS)
            printf("AT i %d %d\n", v, ovf == ABT_TRUE);
    } else if (!strcmp(kind, "u32")) {
        uint32_t v = 12345;
        ret = vhx_atoui32(s, &v, &ovf);
        if (ret == ABT_SUCCESS)
            printf("AT u32 %u %d\n", v, ovf == ABT_TRUE);
    } else if (!strcmp(kind, "u64")) {
        uint64_t v = 12345;
        ret = vhx_atoui64(s, &v, &ovf);
        if (ret == ABT_SUCCESS)
            printf("AT u64 %" PRIu64 " %d\n", v, ovf == ABT_TRUE);
    } else {
        size_t v = 12345;
        ret = vhx_atosz(s, &v, &ovf);
        if (ret == ABT_SUCCESS)
            printf("AT sz %zu %d\n", v, ovf == ABT_TRUE);
    }
    if (ret != ABT_SUCCESS)
        printf("AT %s err\n", kind);
    free(s);
}

/* ---- AF: affinity parser ------------------------------------------- */
static int parse_codes(const char *p, int *codes, int max)
{
    int len = 0;
    while (*p && len < max) {
        char *q;
        long c = strtol(p, &q, 10);
        if (q == p)
            break;
        codes[len++] = (int)c;
        p = q;
    }
    return len;
}

static void af_run(const char *s)
{
    ABTD_affinity_list *p_list = NULL;
    int ret = vhx_aff_create(s, &p_list);
    if (ret != ABT_SUCCESS) {
        printf("AF reject\n");
        return;
    }
    uint64_t h = 0, tot = 0;
    uint32_t i, j;
    for (i = 0; i < p_list->num; i++) {
        ABTD_affinity_id_list *l = p_list->p_id_lists[i];
        h = (h * 31 + 40503) & 0xFFFFFFFFULL;
        for (j = 0; j < l->num; j++)
            h = (h * 31 + (uint64_t)(uint32_t)l->ids[j] + 1) & 0xFFFFFFFFULL;
        tot += l->num;
    }
    printf("AF ok n=%u tot=%" PRIu64 " h=%" PRIu64, p_list->num, tot, h);
    if (tot <= 48 && p_list->num <= 48) {
        printf(" ");
        for (i = 0; i < p_list->num; i++) {
            ABTD_affinity_id_list *l = p_list->p_id_lists[i];
            printf("{");
            for (j = 0; j < l->num; j++)
                printf("%s%d", j ? "," : "", l->ids[j]);
            printf("}");
        }
    }
    printf("\n");
    vhx_aff_free(p_list);
}

/* run f(arg) in a forked child; a sanitizer abort / signal in the child is
 * reported as a "CRASH: ..." line by the parent, so one bad case does not
 * stop the run */
static void in_child(const char *tag, void (*f)(const char *), const char *arg)
{
    int pfd[2];
    fflush(stdout);
    fflush(stderr);
    if (pipe(pfd) != 0)
        VH_DIE("pipe");
    pid_t pid = fork();
    if (pid < 0)
        VH_DIE("fork");
    if (pid == 0) {
        close(pfd[0]);
        dup2(pfd[1], 2);
        close(pfd[1]);
        f(arg);
        fflush(stdout);
        _exit(0);
    }
    close(pfd[1]);
    char err[8192];
    size_t n = 0;
    ssize_t r;
    while ((r = read(pfd[0], err + n, sizeof(err) - 1 - n)) > 0)
        n += (size_t)r;
    close(pfd[0]);
    err[n] = 0;
    int st = 0;
    waitpid(pid, &st, 0);
    if (WIFEXITED(st) && WEXITSTATUS(st) == 0)
        return;
    /* summary: the sanitizer's first diagnostic line */
    const char *k = strstr(err, "runtime error:");
    if (!k)
        k = strstr(err, "AddressSanitizer:");
    if (!k)
        k = strstr(err, "ERROR:");
    char sum[200] = "";
    if (k) {
        size_t m = strcspn(k, "\n");
        if (m > sizeof(sum) - 1)
            m = sizeof(sum) - 1;
        memcpy(sum, k, m);
        sum[m] = 0;
    }
    printf("CRASH: %s status=%d %s\n", tag, st, sum);
}

static void do_af(char *line)
{
    char *p = line + 2;
    while (*p == ' ')
        p++;
    if (!strncmp(p, "null", 4)) {
        af_run(NULL);
        return;
    }
    static int codes[1 << 16];
    int len = parse_codes(p, codes, 1 << 16), i, slen = 0;
    while (slen < len && codes[slen] != 0)
        slen++;
    /* exact-size heap buffer (string + NUL) so that ASan sees any read past
     * the terminating NUL */
    char *s = (char *)malloc(slen + 1);
    for (i = 0; i < slen; i++)
        s[i] = (char)codes[i];
    s[slen] = 0;
    /* UBSan aborts on a signed overflow; an int can only overflow on a run of
     * at least 10 digits, so such strings are parsed in a child process and
     * the abort is reported as this case's "CRASH: ..." line */
    int run = 0, maxrun = 0;
    for (i = 0; i < slen; i++) {
        run = (s[i] >= '0' && s[i] <= '9') ? run + 1 : 0;
        if (run > maxrun)
            maxrun = run;
    }
    if (maxrun >= 10)
        in_child("AF", af_run, s);
    else
        af_run(s);
    free(s);
}

/* ---- ENV: ABTD_env_init under a generated environment ---------------- */
extern char **environ;
static ABTD_atomic_int g_smoke_cnt;
static ABT_key g_smoke_key;
static void smoke_ult(void *arg)
{
    void *v = NULL;
    ABT_key_set(g_smoke_key, arg);
    ABT_thread_yield();
    ABT_key_get(g_smoke_key, &v);
    if (v == arg)
        ABTD_atomic_fetch_add_int(&g_smoke_cnt, 1);
}
static void smoke_task(void *arg)
{
    ABTD_atomic_fetch_add_int(&g_smoke_cnt, 1);
}
static int smoke(void)
{
    ABT_xstream xs;
    ABT_pool pool;
    ABT_thread th[8];
    ABT_task tk[4];
    int i;
    ABTD_atomic_relaxed_store_int(&g_smoke_cnt, 0);
    if (ABT_key_create(NULL, &g_smoke_key) != ABT_SUCCESS)
        return 1;
    if (ABT_xstream_self(&xs) != ABT_SUCCESS)
        return 2;
    if (ABT_xstream_get_main_pools(xs, 1, &pool) != ABT_SUCCESS)
        return 3;
    for (i = 0; i < 8; i++)
        if (ABT_thread_create(pool, smoke_ult, (void *)(intptr_t)(i + 1),
                              ABT_THREAD_ATTR_NULL, &th[i]) != ABT_SUCCESS)
            return 4;
    for (i = 0; i < 4; i++)
        if (ABT_task_create(pool, smoke_task, NULL, &tk[i]) != ABT_SUCCESS)
            return 5;
    for (i = 0; i < 8; i++)
        if (ABT_thread_free(&th[i]) != ABT_SUCCESS)
            return 6;
    for (i = 0; i < 4; i++)
        if (ABT_task_free(&tk[i]) != ABT_SUCCESS)
            return 7;
    ABT_key_free(&g_smoke_key);
    return ABTD_atomic_relaxed_load_int(&g_smoke_cnt) == 12 ? 0 : 9;
}

/* compare the public ABT_info_query_config answers with the white-box values */
static int query_same(const ABTI_global *g)
{
    unsigned int mx = 0;
    size_t ts = 0, ss = 0;
    uint64_t ef = 0, sn = 0;
    ABT_bool lg = 77, db = 77, pc = 77;
    int so = -1, bad = 0;
    if (ABT_info_query_config(ABT_INFO_QUERY_KIND_MAX_NUM_XSTREAMS, &mx) != ABT_SUCCESS || (int)mx != g->max_xstreams)
        bad |= 1;
    if (ABT_info_query_config(ABT_INFO_QUERY_KIND_DEFAULT_THREAD_STACKSIZE, &ts) != ABT_SUCCESS || ts != g->thread_stacksize)
        bad |= 2;
    if (ABT_info_query_config(ABT_INFO_QUERY_KIND_DEFAULT_SCHED_STACKSIZE, &ss) != ABT_SUCCESS || ss != g->sched_stacksize)
        bad |= 4;
    if (ABT_info_query_config(ABT_INFO_QUERY_KIND_DEFAULT_SCHED_EVENT_FREQ, &ef) != ABT_SUCCESS || ef != g->sched_event_freq)
        bad |= 8;
    if (ABT_info_query_config(ABT_INFO_QUERY_KIND_DEFAULT_SCHED_SLEEP_NSEC, &sn) != ABT_SUCCESS || sn != g->sched_sleep_nsec)
        bad |= 16;
    if (ABT_info_query_config(ABT_INFO_QUERY_KIND_ENABLED_LOG, &lg) != ABT_SUCCESS || lg != g->use_logging)
        bad |= 32;
    if (ABT_info_query_config(ABT_INFO_QUERY_KIND_ENABLED_DEBUG, &db) != ABT_SUCCESS || db != g->use_debug)
        bad |= 64;
    if (ABT_info_query_config(ABT_INFO_QUERY_KIND_ENABLED_PRINT_CONFIG, &pc) != ABT_SUCCESS || pc != g->print_config)
        bad |= 128;
    if (ABT_info_query_config(ABT_INFO_QUERY_KIND_ENABLED_STACK_OVERFLOW_CHECK, &so) != ABT_SUCCESS ||
        so != (g->stack_guard_kind == ABTI_STACK_GUARD_MPROTECT ? 2 : g->stack_guard_kind == ABTI_STACK_GUARD_MPROTECT_STRICT ? 3 : 0))
        bad |= 256;
    return bad;
}

static void env_run(const char *line)
{
    /* the parent has initialised Argobots; start from an uninitialised library */
    ABT_finalize();
    /* drop every inherited ABT_* variable */
    for (;;) {
        char **e, name[160];
        int found = 0;
        for (e = environ; e && *e; e++)
            if (!strncmp(*e, "ABT_", 4)) {
                size_t n = strcspn(*e, "=");
                if (n < sizeof(name)) {
                    memcpy(name, *e, n);
                    name[n] = 0;
                    unsetenv(name);
                    found = 1;
                    break;
                }
            }
        if (!found)
            break;
    }
    long nc = -1, pg = -1;
    char *copy = strdup(line), *save, *tok;
    for (tok = strtok_r(copy, " ", &save); tok; tok = strtok_r(NULL, " ", &save)) {
        if (!strcmp(tok, "ENV"))
            continue;
        char *eq = strchr(tok, '=');
        if (!eq)
            VH_DIE("bad ENV token %s", tok);
        *eq = 0;
        if (!strcmp(tok, "nc"))
            nc = atol(eq + 1);
        else if (!strcmp(tok, "pg"))
            pg = atol(eq + 1);
        else {
            char val[4096];
            int n = 0;
            char *q = eq + 1;
            while (*q && n < 4095) {
                val[n++] = (char)strtol(q, &q, 10);
                if (*q == '.')
                    q++;
            }
            val[n] = 0;
            setenv(tok, val, 1);
        }
    }
    free(copy);
    if (nc != sysconf(_SC_NPROCESSORS_ONLN) || pg != getpagesize()) {
        printf("ENV MACHINE-MISMATCH nc=%ld pg=%d\n", sysconf(_SC_NPROCESSORS_ONLN), getpagesize());
        return;
    }
    ABTI_global *g = (ABTI_global *)calloc(1, sizeof(ABTI_global));
    ABTD_env_init(g);
    int sgk = g->stack_guard_kind == ABTI_STACK_GUARD_MPROTECT ? 1 : g->stack_guard_kind == ABTI_STACK_GUARD_MPROTECT_STRICT ? 2 : 0;
    printf("ENV mx=%d log=%d dbg=%d kts=%u sg=%d sps=%zu ts=%zu ss=%zu ef=%u sn=%" PRIu64
           " mh=%u mw=%u prs=%d hps=%zu mps=%zu msp=%zu mms=%u mmd=%u pc=%d",
           g->max_xstreams, g->use_logging == ABT_TRUE, g->use_debug == ABT_TRUE, g->key_table_size, sgk,
           g->sys_page_size, g->thread_stacksize, g->sched_stacksize, g->sched_event_freq, g->sched_sleep_nsec,
           g->mutex_max_handovers, g->mutex_max_wakeups, g->print_raw_stack == ABT_TRUE, g->huge_page_size,
           g->mem_page_size, g->mem_sp_size, g->mem_max_stacks, g->mem_max_descs, g->print_config == ABT_TRUE);
    int sane = 16384 <= g->thread_stacksize && g->thread_stacksize <= 16777216 && 16384 <= g->sched_stacksize &&
               g->sched_stacksize <= 67108864 && g->sys_page_size == (size_t)pg && g->huge_page_size <= 1073741824 &&
               g->mem_page_size <= 67108864 && g->mem_sp_size <= 268435456 && g->key_table_size <= 65536 &&
               g->mem_max_stacks <= 4096 && g->mem_max_descs <= 65536 && g->sched_sleep_nsec <= 1000000 &&
               g->sched_event_freq <= 4096 &&
               !g->print_config;
    printf(" sane=%d", sane);
    if (sane) {
        fflush(stdout);
        int rc = ABT_init(0, NULL);
        printf(" init=%d", rc);
        if (rc == ABT_SUCCESS) {
            ABTI_global *r = ABTI_global_get_global();
            int same = r->max_xstreams == g->max_xstreams && r->use_logging == g->use_logging &&
                       r->use_debug == g->use_debug && r->key_table_size == g->key_table_size &&
                       r->stack_guard_kind == g->stack_guard_kind && r->sys_page_size == g->sys_page_size &&
                       r->thread_stacksize == g->thread_stacksize && r->sched_stacksize == g->sched_stacksize &&
                       r->sched_event_freq == g->sched_event_freq && r->sched_sleep_nsec == g->sched_sleep_nsec &&
                       r->mutex_max_handovers == g->mutex_max_handovers &&
                       r->mutex_max_wakeups == g->mutex_max_wakeups && r->print_raw_stack == g->print_raw_stack &&
                       r->huge_page_size == g->huge_page_size && r->mem_page_size == g->mem_page_size &&
                       r->mem_sp_size == g->mem_sp_size && r->mem_max_stacks == g->mem_max_stacks &&
                       r->mem_max_descs == g->mem_max_descs && r->print_config == g->print_config;
            printf(" same=%d q=%d", same, query_same(g));
            fflush(stdout);
            printf(" smoke=%d", smoke());
            fflush(stdout);
            ABT_finalize();
        }
    }
    printf("\n");
    free(g);
}

static void do_env(char *line)
{
    in_child("ENV", env_run, line);
}

int main(int argc, char **argv)
{
    FILE *f = argc > 1 ? fopen(argv[1], "r") : stdin;
    if (!f)
        VH_DIE("cannot open case file");
    ABT_init(0, NULL);
    char *line;
    while ((line = vh_getline(f))) {
        if (line[0] == 'H')
            do_ht(line);
        else if (line[0] == 'A' && line[1] == 'T')
            do_at(line);
        else if (line[0] == 'A' && line[1] == 'F')
            do_af(line);
        else if (line[0] == 'E')
            do_env(line);
        fflush(stdout);
        free(line);
    }
    ABT_finalize();
    return 0;
}
