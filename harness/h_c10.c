/* C10 harness: ABT_rwlock scenarios on the real runtime with the event hooks on;
 * dumps the totally ordered history of atomic actions on rw->mutex / rw->cond and the
 * DATA records of rwlock.c.
 *   RWLOCK <i>
 * ops (i = rwlock index):
 *   R<i>:<body>  rdlock; body; unlock        W<i>:<body>  wrlock; body; unlock
 *   r<i> / w<i>  rdlock / wrlock and keep     u<i>         unlock (only if this thread holds it)
 *   body / stand-alone: Y yield, W short work, Z<n> n x (yield + 60 us sleep); body letters are
 *   given as a string, e.g. R0:YWY
 *   A tasklet ('T' thread) calling R/W/r/w gets ABT_ERR_RWLOCK and skips body and unlock.
 * Monitors (plain counters, independent of the model): no reader inside with a writer, at most
 * one writer, number of simultaneous readers (max), every thread finishes.
 * BEGIN/END records: a = opcode (20 rdlock, 21 wrlock, 22 unlock), b = rwlock index, c = return code. */
#include "abti.h"
#include "vh_scn.h"

#define MAXR 8
static ABT_rwlock g_rw[MAXR];
static int g_nr;
static int g_readers_in[MAXR];
static int g_writers_in[MAXR];
static int g_bad_rw[MAXR];  /* reader together with a writer */
static int g_bad_ww[MAXR];  /* two writers */
static int g_max_readers[MAXR];
static long g_rd_entries[MAXR], g_wr_entries[MAXR];
static long g_shared[MAXR];    /* written by writers only, non-atomically */
static long g_shared_expect[MAXR];
static int g_held[VH_MAX_STHR][MAXR]; /* 0 none, 1 read, 2 write (per thread) */
static int g_rdn[VH_MAX_STHR][MAXR];  /* number of read holds of the thread (a reader may take the lock again) */
static long g_badret[VH_MAX_STHR];

static int vh_parse_decl(char *line)
{
    int i;
    if (sscanf(line, "RWLOCK %d", &i) == 1) {
        if (i != g_nr || i >= MAXR)
            VH_DIE("RWLOCK indices must be 0,1,2,...");
        g_nr++;
        return 1;
    }
    return 0;
}

static void vh_setup_objects(void)
{
    int i;
    for (i = 0; i < g_nr; i++) {
        if (ABT_rwlock_create(&g_rw[i]) != ABT_SUCCESS)
            VH_DIE("rwlock_create");
        ABTI_rwlock *p = ABTI_rwlock_get_ptr(g_rw[i]);
        vh_register_obj(&p->mutex.lock, "r%d.%s", i, "mlock");
        vh_register_obj(&p->mutex.waiter_lock, "r%d.%s", i, "mwlock");
        vh_register_obj(&p->mutex.waitlist, "r%d.%s", i, "mwl");
        vh_register_obj(&p->cond.lock, "r%d.%s", i, "clock"); /* == &p->cond */
        vh_register_obj(&p->cond.waitlist, "r%d.%s", i, "cwl");
        vh_register_obj(p, "r%d.%s", i, "self"); /* == &p->mutex */
    }
}

static void vh_teardown_objects(void)
{
    int i;
    for (i = 0; i < g_nr; i++)
        ABT_rwlock_free(&g_rw[i]);
}

static void enter_read(int i)
{
    if (__atomic_load_n(&g_writers_in[i], __ATOMIC_SEQ_CST) != 0)
        g_bad_rw[i] = 1;
    int n = __atomic_add_fetch(&g_readers_in[i], 1, __ATOMIC_SEQ_CST);
    int m = g_max_readers[i];
    while (n > m && !__atomic_compare_exchange_n(&g_max_readers[i], &m, n, 0, __ATOMIC_SEQ_CST, __ATOMIC_SEQ_CST))
        ;
    __atomic_add_fetch(&g_rd_entries[i], 1, __ATOMIC_SEQ_CST);
    if (__atomic_load_n(&g_writers_in[i], __ATOMIC_SEQ_CST) != 0)
        g_bad_rw[i] = 1;
}
static void leave_read(int i)
{
    if (__atomic_load_n(&g_writers_in[i], __ATOMIC_SEQ_CST) != 0)
        g_bad_rw[i] = 1;
    __atomic_sub_fetch(&g_readers_in[i], 1, __ATOMIC_SEQ_CST);
}
static void enter_write(int i)
{
    if (__atomic_add_fetch(&g_writers_in[i], 1, __ATOMIC_SEQ_CST) != 1)
        g_bad_ww[i] = 1;
    if (__atomic_load_n(&g_readers_in[i], __ATOMIC_SEQ_CST) != 0)
        g_bad_rw[i] = 1;
    g_wr_entries[i]++;
    long v = g_shared[i]; /* plain read-modify-write: lost if two writers overlap */
    volatile int k;
    for (k = 0; k < 50; k++)
        ;
    g_shared[i] = v + 1;
    __atomic_add_fetch(&g_shared_expect[i], 1, __ATOMIC_SEQ_CST);
}
static void leave_write(int i)
{
    if (__atomic_load_n(&g_readers_in[i], __ATOMIC_SEQ_CST) != 0)
        g_bad_rw[i] = 1;
    if (__atomic_sub_fetch(&g_writers_in[i], 1, __ATOMIC_SEQ_CST) != 0)
        g_bad_ww[i] = 1;
}

static int do_lock(vh_tctx *c, int i, int write)
{
    int t = (int)(c - vh_sthr);
    int op = write ? 21 : 20;
    vh_note(VH_EV_OP_BEGIN, op, i, 0);
    int ret = write ? ABT_rwlock_wrlock(g_rw[i]) : ABT_rwlock_rdlock(g_rw[i]);
    if (ret == ABT_SUCCESS) {
        if (write)
            enter_write(i);
        else
            enter_read(i);
        g_held[t][i] = write ? 2 : 1;
        if (!write)
            g_rdn[t][i]++;
    }
    vh_note(VH_EV_OP_END, op, i, ret);
    if (c->kind == 'T' ? ret != ABT_ERR_RWLOCK : ret != ABT_SUCCESS)
        g_badret[t]++;
    return ret;
}
static void do_unlock(vh_tctx *c, int i)
{
    int t = (int)(c - vh_sthr);
    if (!g_held[t][i])
        return;
    if (g_held[t][i] == 2)
        leave_write(i);
    else
        leave_read(i);
    if (g_held[t][i] == 2 || --g_rdn[t][i] <= 0) {
        g_rdn[t][i] = 0;
        g_held[t][i] = 0;
    }
    vh_note(VH_EV_OP_BEGIN, 22, i, 0);
    int ret = ABT_rwlock_unlock(g_rw[i]);
    vh_note(VH_EV_OP_END, 22, i, ret);
    if (ret != ABT_SUCCESS)
        g_badret[t]++;
}
static void do_plain(vh_tctx *c, char op, int n)
{
    switch (op) {
        case 'Y':
            if (c->kind == 'U')
                ABT_thread_yield();
            else
                sched_yield();
            break;
        case 'W': {
            volatile int k;
            for (k = 0; k < 200; k++)
                ;
            break;
        }
        case 'Z': {
            int k;
            for (k = 0; k < n; k++) {
                if (c->kind == 'U')
                    ABT_thread_yield();
                usleep(60);
            }
            break;
        }
        default:
            VH_DIE("bad body op %c", op);
    }
}

static void vh_do_op(vh_tctx *c, const char *tok)
{
    int i = tok[1] ? atoi(tok + 1) : 0;
    switch (tok[0]) {
        case 'R':
        case 'W': {
            if (tok[0] == 'W' && !tok[1]) { /* stand-alone W = short work */
                do_plain(c, 'W', 0);
                break;
            }
            if (i < 0 || i >= g_nr)
                VH_DIE("bad rwlock index in %s", tok);
            int ret = do_lock(c, i, tok[0] == 'W');
            if (ret != ABT_SUCCESS)
                break;
            const char *b = strchr(tok, ':');
            if (b)
                for (b++; *b; b++)
                    do_plain(c, *b == 'Z' ? 'Z' : *b, 1);
            do_unlock(c, i);
            break;
        }
        case 'r':
        case 'w':
            if (i < 0 || i >= g_nr)
                VH_DIE("bad rwlock index in %s", tok);
            do_lock(c, i, tok[0] == 'w');
            break;
        case 'u':
            if (i < 0 || i >= g_nr)
                VH_DIE("bad rwlock index in %s", tok);
            do_unlock(c, i);
            break;
        case 'Y':
            do_plain(c, 'Y', 0);
            break;
        case 'Z':
            do_plain(c, 'Z', atoi(tok + 1));
            break;
        default:
            VH_DIE("bad op token %s", tok);
    }
}

static void vh_extra_dump(FILE *f)
{
    int i, t;
    for (i = 0; i < g_nr; i++)
        fprintf(f,
                "MON r%d rd_entries=%ld wr_entries=%ld readers_in=%d writers_in=%d bad_rw=%d bad_ww=%d max_readers=%d "
                "shared=%ld expect=%ld\n",
                i, g_rd_entries[i], g_wr_entries[i], g_readers_in[i], g_writers_in[i], g_bad_rw[i], g_bad_ww[i],
                g_max_readers[i], g_shared[i], g_shared_expect[i]);
    for (t = 0; t < vh_nsthr; t++)
        fprintf(f, "THRDONE %d %d badret=%ld\n", vh_sthr[t].index, vh_sthr[t].done, g_badret[t]);
}

int main(int argc, char **argv)
{
    return vh_scenario_main(argc, argv);
}
