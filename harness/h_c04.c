/* C04 harness: runs a mutex scenario on the real runtime with the event hooks
 * on and dumps the totally ordered history of atomic actions.
 *   MUTEX <i> <plain|rec|static|static_rec>
 *   ops: L<i> lock  l<i> lock_low  h<i> lock_high  S<i> spinlock  T<i> trylock
 *        U<i> unlock  u<i> unlock_se  d<i> unlock_de  Y yield  W short work
 * An unlock token is executed only if the thread currently holds the mutex (a
 * failed trylock therefore skips its unlock). */
#include "abti.h"
#include "vh_scn.h"

#define MAXM 16
static ABT_mutex g_m[MAXM];
static ABT_mutex_memory g_mem[MAXM];
static int g_kind[MAXM]; /* 0 plain 1 rec 2 static 3 static_rec */
static int g_nm;
/* monitors: plain data protected only by the mutex under test */
static volatile long g_counter[MAXM];
static volatile int g_inside[MAXM];
static volatile int g_overlap[MAXM];
static long g_entries[VH_MAX_STHR][MAXM];

static int vh_parse_decl(char *line)
{
    int i;
    char k[32];
    if (sscanf(line, "MUTEX %d %31s", &i, k) == 2) {
        if (i != g_nm || i >= MAXM)
            VH_DIE("MUTEX indices must be 0,1,2,...");
        g_kind[i] = !strcmp(k, "plain") ? 0 : !strcmp(k, "rec") ? 1 : !strcmp(k, "static") ? 2 : 3;
        g_nm++;
        return 1;
    }
    return 0;
}

static void vh_setup_objects(void)
{
    int i;
    for (i = 0; i < g_nm; i++) {
        if (g_kind[i] == 0) {
            if (ABT_mutex_create(&g_m[i]) != ABT_SUCCESS)
                VH_DIE("mutex_create");
        } else if (g_kind[i] == 1) {
            ABT_mutex_attr a;
            ABT_mutex_attr_create(&a);
            ABT_mutex_attr_set_recursive(a, ABT_TRUE);
            if (ABT_mutex_create_with_attr(a, &g_m[i]) != ABT_SUCCESS)
                VH_DIE("mutex_create_with_attr");
            ABT_mutex_attr_free(&a);
        } else if (g_kind[i] == 2) {
            ABT_mutex_memory m = ABT_MUTEX_INITIALIZER;
            g_mem[i] = m;
            g_m[i] = ABT_MUTEX_MEMORY_GET_HANDLE(&g_mem[i]);
        } else {
            ABT_mutex_memory m = ABT_RECURSIVE_MUTEX_INITIALIZER;
            g_mem[i] = m;
            g_m[i] = ABT_MUTEX_MEMORY_GET_HANDLE(&g_mem[i]);
        }
        ABTI_mutex *p = ABTI_mutex_get_ptr(g_m[i]);
        vh_register_obj(&p->lock, "m%d.%s", i, "lock");
        vh_register_obj(&p->waiter_lock, "m%d.%s", i, "wlock");
        vh_register_obj(&p->waitlist, "m%d.%s", i, "wl");
    }
}

static void vh_teardown_objects(void)
{
    int i;
    for (i = 0; i < g_nm; i++)
        if (g_kind[i] < 2)
            ABT_mutex_free(&g_m[i]);
}

static void cs_enter(vh_tctx *c, int m)
{
    if (c->held[m]++ == 0) {
        if (++g_inside[m] != 1)
            g_overlap[m] = 1;
        g_counter[m]++;
        g_entries[c - vh_sthr][m]++;
    }
}
static void cs_leave(vh_tctx *c, int m)
{
    if (--c->held[m] == 0) {
        if (g_inside[m]-- != 1)
            g_overlap[m] = 1;
    }
}

static void vh_do_op(vh_tctx *c, const char *tok)
{
    int m = tok[1] ? atoi(tok + 1) : 0;
    int ret;
    switch (tok[0]) {
        case 'L':
        case 'l':
        case 'h':
            vh_note(VH_EV_OP_BEGIN, 0, m, 0);
            ret = tok[0] == 'L' ? ABT_mutex_lock(g_m[m])
                                : tok[0] == 'l' ? ABT_mutex_lock_low(g_m[m]) : ABT_mutex_lock_high(g_m[m]);
            cs_enter(c, m);
            vh_note(VH_EV_OP_END, 0, m, ret);
            break;
        case 'S':
            vh_note(VH_EV_OP_BEGIN, 2, m, 0);
            ret = ABT_mutex_spinlock(g_m[m]);
            cs_enter(c, m);
            vh_note(VH_EV_OP_END, 2, m, ret);
            break;
        case 'T':
            vh_note(VH_EV_OP_BEGIN, 1, m, 0);
            ret = ABT_mutex_trylock(g_m[m]);
            if (ret == ABT_SUCCESS)
                cs_enter(c, m);
            vh_note(VH_EV_OP_END, 1, m, ret);
            break;
        case 'U':
        case 'u':
        case 'd':
            if (c->held[m] <= 0)
                break;
            cs_leave(c, m);
            vh_note(VH_EV_OP_BEGIN, 3, m, 0);
            ret = tok[0] == 'U' ? ABT_mutex_unlock(g_m[m])
                                : tok[0] == 'u' ? ABT_mutex_unlock_se(g_m[m]) : ABT_mutex_unlock_de(g_m[m]);
            vh_note(VH_EV_OP_END, 3, m, ret);
            break;
        case 'Y':
            if (c->kind == 'U')
                ABT_thread_yield();
            else
                sched_yield();
            break;
        case 'W': {
            volatile int k;
            for (k = 0; k < 200; k++)
                ;
            break;
        }
        default:
            VH_DIE("bad op token %s", tok);
    }
}

static void vh_extra_dump(FILE *f)
{
    int i, t;
    for (i = 0; i < g_nm; i++) {
        long sum = 0;
        for (t = 0; t < vh_nsthr; t++)
            sum += g_entries[t][i];
        fprintf(f, "MON m%d kind=%d entries=%ld counter=%ld overlap=%d inside=%d\n", i, g_kind[i], sum,
                (long)g_counter[i], g_overlap[i], g_inside[i]);
    }
    for (t = 0; t < vh_nsthr; t++)
        fprintf(f, "THRDONE %d %d\n", vh_sthr[t].index, vh_sthr[t].done);
}

int main(int argc, char **argv)
{
    return vh_scenario_main(argc, argv);
}
