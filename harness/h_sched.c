/* Scheduler / work-unit lifecycle harness (C01, C02b, C03, C06, C11, C12, C13).
 * Runs a scenario of work units on the real runtime with all scheduler-level
 * hooks on and dumps the totally ordered history.
 *
 *   SEED n | WATCHDOG s | PERTURB 0|1
 *   POOL <i> <fifo|fifo_wait|randws> <priv|spsc|mpsc|spmc|mpmc> [user]   (user: not freed by the runtime)
 *   ES <i> <default|basic|basic_wait|prio|randws> <pool,pool,...>      (i >= 1)
 *   UNIT <i> <U|T> <N|A> <pool> : ops      U ULT / T tasklet, N named / A unnamed; pool 99 = primary's main pool
 *   EXT <i> : ops                           external pthread
 *   MAIN : ops                              primary ULT
 * ops: C<i> create unit i   J<i> join   F<i> free(join+free)   Y yield   W work
 *      S self-suspend       R<i> wait until unit i is BLOCKED, then resume it
 *      X exit               K<i> cancel unit i     D<i> wait until unit i finished or terminated
 *      y<i> ABT_self_yield_to(unit i)   t<i> ABT_thread_yield_to(unit i)
 *      M<i>:<p> migrate unit i to pool p    V<i> revive unit i (after join) on its pool
 *      G<i> ABT_thread_get_state(unit i) (recorded)
 */
#include "abti.h"
#include "vh_trace.h"
#include <time.h>

enum { UEV_START = 1010, UEV_FINISH = 1011, UEV_UNITPTR = 1012, UEV_OPB = 1013, UEV_OPE = 1014, UEV_POOLPTR = 1015,
       UEV_QUIESCE = 1016, UEV_SCHEDPTR = 1017 };

#define MAXU 128
#define MAXP 16
#define MAXES 8
#define MAXTOK 256
typedef struct {
    int idx;
    char kind;  /* U, T, E(xt), M(ain) */
    char named; /* N / A */
    int pool;
    int ntoks;
    char *toks[MAXTOK];
    ABT_thread h;
    pthread_t pth;
    volatile int created, entries, finished, badarg, revives, cancelled;
    /* incarnations (create / revive) that ended although nobody asked to cancel them and the function had not been
     * entered exactly once; ent0 = entries when the current incarnation began */
    volatile int lost, ent0;
    volatile int badstate; /* times the unit, while executing its function, read a state other than RUNNING for itself */
    void *arg_given;
} unit_t;
static unit_t g_u[MAXU];
static int g_nu;
static unit_t g_ext[16];
static int g_next;
static unit_t g_main;
static struct { char kind[16], access[8]; ABT_pool h; volatile int dead; int user; } g_pool[MAXP];
static int g_npool;
static struct { char sched[16]; int npools; int pools[MAXP]; ABT_xstream h; } g_es[MAXES];
static int g_nes = 1;
static int g_watchdog = 20, g_perturb = 1;
static uint64_t g_seed = 1;
static const char *g_out;
static volatile int g_finished;

static ABT_pool pool_handle(int p)
{
    if (p == 99) {
        ABT_xstream xs;
        ABT_pool mp;
        ABT_xstream_self(&xs); /* only used from ES0 setup */
        ABT_xstream_get_main_pools(g_es[0].h, 1, &mp);
        return mp;
    }
    return g_pool[p].h;
}

/* migration callback with an optional rendezvous (finding F6: a second request issued while the first one
 * is being handled) */
static volatile int g_cb_calls[MAXU], g_cb_armed, g_cb_entered, g_cb_release;
static volatile int g_join_issued[16]; /* ES index -> an ABT_xstream_join on it is about to be / has been called */
static void mig_cb(ABT_thread thread, void *arg)
{
    unit_t *u = (unit_t *)arg;
    (void)thread;
    g_cb_calls[u->idx]++;
    if (g_cb_armed) {
        g_cb_armed = 0;
        g_cb_entered = 1;
        while (!g_cb_release)
            sched_yield();
    }
}

static void run_ops(unit_t *me);
/* a work unit that is executing observes itself RUNNING (ABT_thread_get_state on its own handle) */
static void self_state_check(unit_t *u)
{
    ABT_thread self = ABT_THREAD_NULL;
    ABT_thread_state st = ABT_THREAD_STATE_RUNNING;
    if (ABT_self_get_thread(&self) == ABT_SUCCESS && self != ABT_THREAD_NULL &&
        ABT_thread_get_state(self, &st) == ABT_SUCCESS && st != ABT_THREAD_STATE_RUNNING)
        u->badstate++;
}
static void unit_fn(void *arg)
{
    unit_t *u = (unit_t *)arg;
    u->entries++;
    if (arg != u->arg_given)
        u->badarg = 1;
    vh_note(UEV_START, u->idx, 0, 0);
    /* the creator publishes the handle after the create call returns; a unit that starts on another
     * stream at once must not use its own (or a sibling's) handle before that */
    while (u->named == 'N' && !u->created)
        ABT_thread_yield();
    self_state_check(u);
    run_ops(u);
    self_state_check(u);
    vh_note(UEV_FINISH, u->idx, 0, 0);
    u->finished++;
}
static void *ext_fn(void *arg)
{
    unit_t *u = (unit_t *)arg;
    vh_register_self(1000 + u->idx, 'E');
    run_ops(u);
    u->finished = 1;
    return NULL;
}

static void mig_cb(ABT_thread thread, void *arg);
/* with_attr: the ULT is created non-migratable with the migration callback given in the attribute ('a' op) */
static void create_unit_x(int i, int with_attr)
{
    unit_t *u = &g_u[i];
    ABT_pool pool = pool_handle(u->pool);
    int ret;
    u->arg_given = u;
    vh_note(UEV_OPB, 'C', i, 0);
    if (u->kind == 'U' && with_attr) {
        ABT_thread_attr attr;
        if (ABT_thread_attr_create(&attr) != ABT_SUCCESS || ABT_thread_attr_set_migratable(attr, ABT_FALSE) != ABT_SUCCESS ||
            ABT_thread_attr_set_callback(attr, mig_cb, u) != ABT_SUCCESS)
            VH_DIE("attr");
        ret = ABT_thread_create(pool, unit_fn, u, attr, u->named == 'N' ? &u->h : NULL);
        ABT_thread_attr_free(&attr);
    } else if (u->kind == 'U')
        ret = ABT_thread_create(pool, unit_fn, u, ABT_THREAD_ATTR_NULL, u->named == 'N' ? &u->h : NULL);
    else
        ret = ABT_task_create(pool, unit_fn, u, u->named == 'N' ? &u->h : NULL);
    if (ret != ABT_SUCCESS)
        VH_DIE("create failed %d", ret);
    u->created = 1;
    vh_note(UEV_OPE, 'C', i, (uintptr_t)(u->named == 'N' ? (void *)u->h : NULL));
    if (with_attr)
        vh_note(UEV_OPE, 'b', i, 0); /* a callback is installed (same note as the 'b' op) */
}
static void create_unit(int i)
{
    create_unit_x(i, 0);
}

static void wait_blocked(unit_t *me, int i);
static void self_yield(unit_t *me);
/* pop unit i from its pool (it must be READY there); other units popped on the way are pushed back */
static void take_unit(unit_t *me, int i)
{
    ABT_pool pool = pool_handle(g_u[i].pool);
    int guard = 0;
    while (1) {
        ABT_thread th = ABT_THREAD_NULL;
        if (ABT_pool_pop_thread(pool, &th) != ABT_SUCCESS)
            VH_DIE("pop_thread");
        if (th == g_u[i].h)
            return;
        if (th != ABT_THREAD_NULL) {
            /* not ours: put it back and retry at once (yielding here can livelock two takers) */
            ABT_pool_push_thread(pool, th);
            if (++guard > 2000000)
                VH_DIE("take_unit: unit %d never showed up in its pool", i);
            continue;
        }
        if (++guard > 2000000)
            VH_DIE("take_unit: unit %d never showed up in its pool", i);
        self_yield(me);
    }
}
static void wait_blocked(unit_t *me, int i)
{
    ABT_thread_state st;
    /* the handle exists only after the creator's call has returned (external threads start at once) */
    while (!g_u[i].created) {
        self_yield(me);
        usleep(20);
    }
    while (1) {
        /* "has blocked, or is past blocking": a waiter that comes late must not spin for ever */
        if (g_u[i].finished || g_u[i].h == ABT_THREAD_NULL)
            break;
        ABT_thread_get_state(g_u[i].h, &st);
        if (st == ABT_THREAD_STATE_BLOCKED || st == ABT_THREAD_STATE_TERMINATED)
            break;
        self_yield(me);
        usleep(20); /* polling loops must not flood the event log */
    }
}

static void self_yield(unit_t *me)
{
    if (me->kind == 'U' || me->kind == 'M')
        ABT_thread_yield();
    else
        sched_yield();
}

static void run_ops(unit_t *me)
{
    int k;
    for (k = 0; k < me->ntoks; k++) {
        const char *t = me->toks[k];
        int i = t[1] ? atoi(t + 1) : 0;
        int ret = 0;
        switch (t[0]) {
            case 'C':
                create_unit(i);
                break;
            case 'a':
                create_unit_x(i, 1);
                break;
            case 'n':
                ret = ABT_thread_set_migratable(g_u[i].h, ABT_TRUE);
                if (ret != ABT_SUCCESS)
                    VH_DIE("set_migratable %d", ret);
                break;
            case 'J':
                vh_note(UEV_OPB, 'J', i, 0);
                ret = ABT_thread_join(g_u[i].h);
                vh_note(UEV_OPE, 'J', i, ret);
                break;
            case 'N':   /* "N1.2._.3": ABT_thread_join_many over the listed units, '_' = ABT_THREAD_NULL entry */
            case 'E': { /* "E1._.2":   ABT_thread_free_many */
                ABT_thread list[32];
                int idx[32], n = 0;
                const char *q = t + 1;
                while (*q && n < 32) {
                    if (*q == '_') {
                        idx[n] = -1, list[n] = ABT_THREAD_NULL, n++, q++;
                    } else {
                        idx[n] = atoi(q), list[n] = g_u[idx[n]].h, n++;
                        while (*q >= '0' && *q <= '9')
                            q++;
                    }
                    if (*q == '.')
                        q++;
                }
                int k2, unfinished = 0;
                for (k2 = 0; k2 < n; k2++)
                    if (idx[k2] >= 0)
                        vh_note(UEV_OPB, t[0] == 'N' ? 'J' : 'F', idx[k2], 0);
                ret = t[0] == 'N' ? ABT_thread_join_many(n, list) : ABT_thread_free_many(n, list);
                /* what the caller may rely on when the call returns: every listed unit has terminated */
                for (k2 = 0; k2 < n; k2++)
                    if (idx[k2] >= 0 && !g_u[idx[k2]].finished && !g_u[idx[k2]].cancelled)
                        unfinished++;
                vh_note(UEV_OPE, 'N', n, ret * 1000 + unfinished);
                for (k2 = 0; k2 < n; k2++)
                    if (idx[k2] >= 0) {
                        if (t[0] == 'E')
                            g_u[idx[k2]].h = list[k2];
                        vh_note(UEV_OPE, t[0] == 'N' ? 'J' : 'F', idx[k2],
                                ret + (t[0] == 'E' && list[k2] != ABT_THREAD_NULL ? 1000 : 0));
                    }
                break;
            }
            case 'F':
                vh_note(UEV_OPB, 'F', i, 0);
                ret = ABT_thread_free(&g_u[i].h);
                vh_note(UEV_OPE, 'F', i, ret + (g_u[i].h != ABT_THREAD_NULL ? 1000 : 0));
                break;
            case 'Y':
                self_yield(me);
                break;
            case 'W': {
                volatile int n;
                for (n = 0; n < 300; n++)
                    ;
                break;
            }
            case 'Z': { /* "Z<i>": keep the stream busy, WITHOUT a scheduling point, until the function of unit i
                         * has finished (at most 5 s); the caller's next scheduling point then comes after everything
                         * unit i has issued */
                int spins = 0;
                while (t[1] && !g_u[i].finished && spins++ < 100000)
                    usleep(50);
                break;
            }
            case 'S':
                vh_note(UEV_OPB, 'S', me->idx, 0);
                ret = ABT_self_suspend();
                vh_note(UEV_OPE, 'S', me->idx, ret);
                break;
            case 'R': {
                wait_blocked(me, i);
                vh_note(UEV_OPB, 'R', i, 0);
                ret = ABT_thread_resume(g_u[i].h);
                vh_note(UEV_OPE, 'R', i, ret);
                break;
            }
            case 'X':
                vh_note(UEV_FINISH, me->idx, 1, 0);
                me->finished++;
                ABT_thread_exit();
                VH_DIE("ABT_thread_exit returned");
                break;
            case 'K':
                vh_note(UEV_OPB, 'K', i, 0);
                g_u[i].cancelled = 1;
                ret = ABT_thread_cancel(g_u[i].h);
                vh_note(UEV_OPE, 'K', i, ret);
                break;
            case 'D':
                while (!g_u[i].finished) {
                    usleep(20);
                    ABT_thread_state st = ABT_THREAD_STATE_READY;
                    if (g_u[i].named == 'N' && g_u[i].created) {
                        ABT_thread_get_state(g_u[i].h, &st);
                        if (st == ABT_THREAD_STATE_TERMINATED)
                            break;
                    }
                    self_yield(me);
                }
                break;
            case 'G': {
                ABT_thread_state st;
                ret = ABT_thread_get_state(g_u[i].h, &st);
                vh_note(UEV_OPE, 'G', i, st);
                break;
            }
            case 'y':
                take_unit(me, i);
                vh_note(UEV_OPB, 'y', i, 0);
                ret = ABT_self_yield_to(g_u[i].h);
                vh_note(UEV_OPE, 'y', i, ret);
                break;
            case 's':
                take_unit(me, i);
                vh_note(UEV_OPB, 's', i, 0);
                ret = ABT_self_suspend_to(g_u[i].h);
                vh_note(UEV_OPE, 's', i, ret);
                break;
            case 'r':
                wait_blocked(me, i);
                vh_note(UEV_OPB, 'r', i, 0);
                ret = ABT_self_resume_yield_to(g_u[i].h);
                vh_note(UEV_OPE, 'r', i, ret);
                break;
            case 'u':
                wait_blocked(me, i);
                vh_note(UEV_OPB, 'u', i, 0);
                ret = ABT_self_resume_suspend_to(g_u[i].h);
                vh_note(UEV_OPE, 'u', i, ret);
                break;
            case 'e':
                take_unit(me, i);
                vh_note(UEV_FINISH, me->idx, 2, 0);
                me->finished++;
                ABT_self_exit_to(g_u[i].h);
                VH_DIE("exit_to returned");
                break;
            case 'x':
                wait_blocked(me, i);
                vh_note(UEV_FINISH, me->idx, 3, 0);
                me->finished++;
                ABT_self_resume_exit_to(g_u[i].h);
                VH_DIE("resume_exit_to returned");
                break;
            case 'c': {
                unit_t *u = &g_u[i];
                u->arg_given = u;
                vh_note(UEV_OPB, 'c', i, 0);
                u->created = 1;
                ret = ABT_thread_create_to(pool_handle(u->pool), unit_fn, u, ABT_THREAD_ATTR_NULL,
                                           u->named == 'N' ? &u->h : NULL);
                vh_note(UEV_OPE, 'c', i, (uintptr_t)(u->named == 'N' ? (void *)u->h : NULL));
                break;
            }
            case 'v':
                vh_note(UEV_OPB, 'v', i, 0);
                if (!g_u[i].cancelled && g_u[i].entries - g_u[i].ent0 != 1)
                    g_u[i].lost++;
                g_u[i].cancelled = 0;
                g_u[i].ent0 = g_u[i].entries;
                g_u[i].finished = 0;
                g_u[i].revives++;
                ret = ABT_thread_revive_to(pool_handle(g_u[i].pool), unit_fn, &g_u[i], &g_u[i].h);
                vh_note(UEV_OPE, 'v', i, ret);
                break;
            case 'g': { /* record the caller's own state as seen through the API */
                ABT_thread self;
                ABT_thread_state st;
                ABT_self_get_thread(&self);
                ABT_thread_get_state(self, &st);
                vh_note(UEV_OPE, 'g', me->idx, st);
                break;
            }
            case 't':
                vh_note(UEV_OPB, 't', i, 0);
                ret = ABT_thread_yield_to(g_u[i].h);
                vh_note(UEV_OPE, 't', i, ret);
                break;
            case 'M': {
                int p = atoi(strchr(t, ':') + 1);
                vh_note(UEV_OPB, 'M', i, p);
                ret = ABT_thread_migrate_to_pool(g_u[i].h, pool_handle(p));
                vh_note(UEV_OPE, 'M', i, ret);
                break;
            }
            case 'j': { /* ABT_xstream_join(ES i): on return every unit of the pools only ES i serves must be done */
                vh_note(UEV_OPB, 'j', i, 0);
                g_join_issued[i & 15] = 1;
                ret = ABT_xstream_join(g_es[i].h);
                int n, q, unfinished = 0;
                for (n = 0; n < g_nu; n++)
                    for (q = 0; q < g_es[i].npools; q++)
                        if (g_u[n].created && g_u[n].pool == g_es[i].pools[q] && !g_u[n].finished && !g_u[n].cancelled)
                            unfinished++;
                ABT_xstream_state xst;
                ABT_xstream_get_state(g_es[i].h, &xst);
                vh_note(UEV_OPE, 'j', i, ret * 10000 + (int)xst * 1000 + unfinished);
                break;
            }
            case 'B':
                wait_blocked(me, i);
                break;
            case 'b': /* install the migration callback on unit i; "b<i>!" arms the rendezvous */
                ret = ABT_thread_set_callback(g_u[i].h, mig_cb, &g_u[i]);
                if (strchr(t, '!'))
                    g_cb_armed = 1;
                vh_note(UEV_OPE, 'b', i, ret);
                break;
            case 'w': /* wait until the armed callback has been entered */
                while (!g_cb_entered)
                    self_yield(me);
                break;
            case 'd': /* wait until unit i exists and its function has been entered */
                while (!g_u[i].created || g_u[i].entries == 0) {
                    self_yield(me);
                    usleep(20);
                }
                break;
            case 'q': /* wait until somebody has called ABT_xstream_join on ES i, and a little longer so that the
                       * request has been posted */
                while (!g_join_issued[i & 15]) {
                    self_yield(me);
                    usleep(20);
                }
                usleep(3000);
                break;
            case 'z': { /* the calling ULT (running on ES i) replaces the main scheduler of ES i by a BASIC
                         * scheduler over pool <p> ("z<i>:<p>") */
                int p = atoi(strchr(t, ':') + 1);
                ABT_pool np = pool_handle(p);
                vh_note(UEV_OPB, 'z', i, p);
                {
                    /* the replaced scheduler and the (automatic) pools only it uses are freed by the runtime */
                    int q;
                    for (q = 0; q < g_es[i].npools; q++)
                        if (!g_pool[g_es[i].pools[q]].user && g_es[i].pools[q] != p)
                            g_pool[g_es[i].pools[q]].dead = 1;
                    g_es[i].npools = 1;
                    g_es[i].pools[0] = p;
                }
                ret = ABT_xstream_set_main_sched_basic(g_es[i].h, ABT_SCHED_BASIC, 1, &np);
                vh_note(UEV_OPE, 'z', i, ret);
                break;
            }
            case 'o': /* let the callback return */
                g_cb_release = 1;
                break;
            case 'p': { /* record the pool unit i was last associated with and its callback count */
                ABT_pool lp;
                int pid = -1, q;
                ret = ABT_thread_get_last_pool(g_u[i].h, &lp);
                for (q = 0; q < g_npool; q++)
                    if (lp == g_pool[q].h)
                        pid = q;
                if (pid < 0 && lp == pool_handle(99))
                    pid = 99;
                vh_note(UEV_OPE, 'p', i, pid * 1000 + g_cb_calls[i]);
                break;
            }
            case 'm':
                vh_note(UEV_OPB, 'm', i, 0);
                ret = ABT_thread_migrate(g_u[i].h);
                vh_note(UEV_OPE, 'm', i, ret);
                break;
            case 'V':
                vh_note(UEV_OPB, 'V', i, 0);
                if (!g_u[i].cancelled && g_u[i].entries - g_u[i].ent0 != 1)
                    g_u[i].lost++;
                g_u[i].cancelled = 0;
                g_u[i].ent0 = g_u[i].entries;
                g_u[i].finished = 0;
                g_u[i].revives++;
                if (g_u[i].kind == 'U')
                    ret = ABT_thread_revive(pool_handle(g_u[i].pool), unit_fn, &g_u[i], &g_u[i].h);
                else
                    ret = ABT_task_revive(pool_handle(g_u[i].pool), unit_fn, &g_u[i], &g_u[i].h);
                vh_note(UEV_OPE, 'V', i, ret);
                break;
            default:
                VH_DIE("bad op %s", t);
        }
    }
}

static void parse_toks(unit_t *u, char *s)
{
    char *save, *tok = strtok_r(s, " ", &save);
    while (tok && u->ntoks < MAXTOK) {
        u->toks[u->ntoks++] = strdup(tok);
        tok = strtok_r(NULL, " ", &save);
    }
}

static void load(const char *path)
{
    FILE *f = fopen(path, "r");
    if (!f)
        VH_DIE("cannot open %s", path);
    char *line;
    while ((line = vh_getline(f))) {
        unsigned long long ull;
        int a, off = 0;
        char k1, k2, s1[32], s2[32];
        if (!line[0] || line[0] == '#') {
        } else if (sscanf(line, "SEED %llu", &ull) == 1)
            g_seed = ull;
        else if (sscanf(line, "WATCHDOG %d", &a) == 1)
            g_watchdog = a;
        else if (sscanf(line, "PERTURB %d", &a) == 1)
            g_perturb = a;
        else if (sscanf(line, "POOL %d %15s %7s", &a, s1, s2) == 3) {
            if (a != g_npool)
                VH_DIE("POOL indices must be consecutive");
            g_pool[a].user = strstr(line, " user") != NULL;
            strcpy(g_pool[a].kind, s1);
            strcpy(g_pool[a].access, s2);
            g_npool++;
        } else if (sscanf(line, "ES %d %15s %31s", &a, s1, s2) == 3) {
            if (a != g_nes || a >= MAXES)
                VH_DIE("ES indices must be 1,2,..");
            strcpy(g_es[a].sched, s1);
            char *save, *tok = strtok_r(s2, ",", &save);
            while (tok) {
                g_es[a].pools[g_es[a].npools++] = atoi(tok);
                tok = strtok_r(NULL, ",", &save);
            }
            g_nes++;
        } else if (sscanf(line, "UNIT %d %c %c %d :%n", &a, &k1, &k2, &off, &off) >= 4 && off) {
            int pool;
            sscanf(line, "UNIT %d %c %c %d", &a, &k1, &k2, &pool);
            if (a != g_nu)
                VH_DIE("UNIT indices must be consecutive");
            g_u[a].idx = a;
            g_u[a].kind = k1;
            g_u[a].named = k2;
            g_u[a].pool = pool;
            parse_toks(&g_u[a], strchr(line, ':') + 1);
            g_nu++;
        } else if (sscanf(line, "EXT %d :%n", &a, &off) >= 1 && off) {
            g_ext[g_next].idx = a;
            g_ext[g_next].kind = 'E';
            parse_toks(&g_ext[g_next], strchr(line, ':') + 1);
            g_next++;
        } else if (!strncmp(line, "MAIN :", 6)) {
            g_main.idx = 999;
            g_main.kind = 'M';
            parse_toks(&g_main, line + 6);
        } else
            VH_DIE("bad scenario line: %s", line);
        free(line);
    }
    fclose(f);
}

static void dump_history(const char *status)
{
    FILE *f = fopen(g_out, "w");
    if (!f)
        VH_DIE("cannot write %s", g_out);
    vh_dump(f, status);
    int i;
    for (i = 0; i < g_nu; i++)
        fprintf(f, "UNITSTAT %d kind=%c named=%c pool=%d created=%d entries=%d finished=%d badarg=%d revives=%d lost=%d badstate=%d\n", i,
                g_u[i].kind, g_u[i].named, g_u[i].pool, g_u[i].created, g_u[i].entries, g_u[i].finished, g_u[i].badarg,
                g_u[i].revives,
                g_u[i].lost + (!strcmp(status, "DONE") && g_u[i].created && !g_u[i].cancelled &&
                               g_u[i].entries - g_u[i].ent0 != 1),
                g_u[i].badstate);
    fclose(f);
}

static void *watchdog(void *arg)
{
    (void)arg;
    int ms = 0;
    while (!g_finished && ms < g_watchdog * 1000) {
        struct timespec ts = { 0, 5 * 1000 * 1000 };
        nanosleep(&ts, NULL);
        ms += 5;
    }
    if (!g_finished) {
        vh_trace_lock();
        dump_history("STUCK");
        fprintf(stderr, "watchdog: scenario did not finish in %d s\n", g_watchdog);
        _exit(4);
    }
    return NULL;
}

static ABT_pool_kind pk(const char *s)
{
    return !strcmp(s, "fifo") ? ABT_POOL_FIFO : !strcmp(s, "fifo_wait") ? ABT_POOL_FIFO_WAIT : ABT_POOL_RANDWS;
}
static ABT_pool_access pa(const char *s)
{
    return !strcmp(s, "priv") ? ABT_POOL_ACCESS_PRIV
           : !strcmp(s, "spsc") ? ABT_POOL_ACCESS_SPSC
           : !strcmp(s, "mpsc") ? ABT_POOL_ACCESS_MPSC
           : !strcmp(s, "spmc") ? ABT_POOL_ACCESS_SPMC : ABT_POOL_ACCESS_MPMC;
}
static ABT_sched_predef sp(const char *s)
{
    return !strcmp(s, "basic") ? ABT_SCHED_BASIC
           : !strcmp(s, "basic_wait") ? ABT_SCHED_BASIC_WAIT
           : !strcmp(s, "prio") ? ABT_SCHED_PRIO : !strcmp(s, "randws") ? ABT_SCHED_RANDWS : ABT_SCHED_DEFAULT;
}

int main(int argc, char **argv)
{
    if (argc < 3)
        VH_DIE("usage: %s scenario history-out", argv[0]);
    g_out = argv[2];
    load(argv[1]);
    int i, j, ret;
    if (ABT_init(0, NULL) != ABT_SUCCESS)
        VH_DIE("ABT_init");
    ABT_xstream_self(&g_es[0].h);
    for (i = 0; i < g_npool; i++) {
        ret = ABT_pool_create_basic(pk(g_pool[i].kind), pa(g_pool[i].access), g_pool[i].user ? ABT_FALSE : ABT_TRUE,
                                    &g_pool[i].h);
        if (ret != ABT_SUCCESS)
            VH_DIE("pool_create_basic");
    }
    /* hooks on before the streams start so that every record of the scenario is seen */
    vh_log_all = 1;
    vh_trace_init(g_seed, g_perturb, 0);
    vh_register_self(999, 'M');
    {
        ABT_pool mp;
        ABT_xstream_get_main_pools(g_es[0].h, 1, &mp);
        vh_note(UEV_POOLPTR, 99, (uintptr_t)ABTI_pool_get_ptr(mp), 0);
        ABTI_xstream *px = ABTI_xstream_get_ptr(g_es[0].h);
        vh_note(UEV_SCHEDPTR, 0, (uintptr_t)px->p_main_sched, (uintptr_t)&px->p_main_sched->p_ythread->thread);
    }
    for (i = 0; i < g_npool; i++)
        vh_note(UEV_POOLPTR, i, (uintptr_t)ABTI_pool_get_ptr(g_pool[i].h), pa(g_pool[i].access));
    for (i = 1; i < g_nes; i++) {
        ABT_pool ps[MAXP];
        for (j = 0; j < g_es[i].npools; j++)
            ps[j] = g_pool[g_es[i].pools[j]].h;
        ABT_sched sched;
        ret = ABT_sched_create_basic(sp(g_es[i].sched), g_es[i].npools, ps, ABT_SCHED_CONFIG_NULL, &sched);
        if (ret != ABT_SUCCESS)
            VH_DIE("sched_create_basic");
        ret = ABT_xstream_create(sched, &g_es[i].h);
        if (ret != ABT_SUCCESS)
            VH_DIE("xstream_create");
        ABTI_xstream *px = ABTI_xstream_get_ptr(g_es[i].h);
        vh_note(UEV_SCHEDPTR, i, (uintptr_t)px->p_main_sched, (uintptr_t)&px->p_main_sched->p_ythread->thread);
    }
    pthread_t wd;
    pthread_create(&wd, NULL, watchdog, NULL);
    for (i = 0; i < g_next; i++)
        pthread_create(&g_ext[i].pth, NULL, ext_fn, &g_ext[i]);
    run_ops(&g_main);
    /* wait for every created unit and every external thread without blocking ES0's OS thread */
    for (i = 0; i < g_next; i++) {
        while (!g_ext[i].finished)
            ABT_thread_yield();
        pthread_join(g_ext[i].pth, NULL);
    }
    for (i = 0; i < g_nu; i++) {
        /* wait until the unit's function has finished, or (cancelled units) until it is TERMINATED / freed */
        while (g_u[i].created && !g_u[i].finished) {
            if (g_u[i].named == 'N') {
                if (g_u[i].h == ABT_THREAD_NULL)
                    break;
                ABT_thread_state st;
                ABT_thread_get_state(g_u[i].h, &st);
                if (st == ABT_THREAD_STATE_TERMINATED)
                    break;
            }
            ABT_thread_yield();
        }
    }
    vh_note(UEV_QUIESCE, 0, 0, 0);
    for (i = 1; i < g_nes; i++) {
        vh_note(UEV_OPB, 'x', i, 0);
        ret = ABT_xstream_join(g_es[i].h);
        ABT_xstream_state xst;
        ABT_xstream_get_state(g_es[i].h, &xst);
        vh_note(UEV_OPE, 'x', i, ret * 100 + (int)xst);
    }
    /* pool bookkeeping at quiescence */
    for (i = 0; i < g_npool; i++) {
        size_t sz = 0, tot = 0;
        if (g_pool[i].dead)
            continue;
        ABT_pool_get_size(g_pool[i].h, &sz);
        ABT_pool_get_total_size(g_pool[i].h, &tot);
        vh_note(UEV_QUIESCE, 1 + i, sz, tot);
    }
    g_finished = 1;
    pthread_join(wd, NULL);
    vh_trace_lock();
    dump_history("DONE");
    vh_log_all = 0;
    vh_trace_unlock();
    for (i = 1; i < g_nes; i++)
        ABT_xstream_free(&g_es[i].h);
    for (i = 0; i < g_nu; i++)
        if (g_u[i].named == 'N' && g_u[i].created && g_u[i].h != ABT_THREAD_NULL)
            ABT_thread_free(&g_u[i].h);
    for (i = 0; i < g_npool; i++)
        if (g_pool[i].user)
            ABT_pool_free(&g_pool[i].h);
    ABT_finalize();
    return 0;
}
