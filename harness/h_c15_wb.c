/* C15 white-box harness: memory pool (src/mem/mem_pool.c + abti_mem_pool.h) and
 * the tagged-pointer LIFO (abti_sync_lifo.h), driven by a case file; prints one
 * canonical line per case (same format as ocaml/drv_c15.ml).
 *
 *   MP <N> <S> <npools> <hs> <ho> <extra> ; op , op , ...
 *        N = headers per bucket, S = headers per page, hs = header_size,
 *        ho = header_offset, page_size = sizeof(page) + S*hs + extra
 *        ops: I i | A i | F i k | D i | B k | Z
 *   LF ; op , op ...       ops: P e | p e (unsafe) | O | o (unsafe)
 *
 * Second mode:  --storm <threads> <elems> <iters> <seed>  (multi-threaded LIFO
 * storm with an ownership monitor; prints one STORM line).
 *
 * mem_pool.c is compiled into this translation unit (sanitizer-instrumented)
 * with its external entry points renamed and the large-page allocator replaced
 * by a recording allocator that can be told to fail. */
#define ABTI_mem_pool_init_global_pool vhx_mp_init_global_pool
#define ABTI_mem_pool_destroy_global_pool vhx_mp_destroy_global_pool
#define ABTI_mem_pool_init_local_pool vhx_mp_init_local_pool
#define ABTI_mem_pool_destroy_local_pool vhx_mp_destroy_local_pool
#define ABTI_mem_pool_take_bucket vhx_mp_take_bucket
#define ABTI_mem_pool_return_bucket vhx_mp_return_bucket
#include "abti.h"
#include "vh_common.h"
#include <pthread.h>
#include <unistd.h>

/* ---- recording page allocator */
#define MAXPAGES 4096
static void *g_page_base[MAXPAGES + 1];
static int g_npages;
static long g_budget = -1;
static int g_freed[MAXPAGES + 1], g_nfreed;

static int vhx_alloc_largepage(size_t size, size_t alignment_hint,
                               const ABTU_MEM_LARGEPAGE_TYPE *requested_types,
                               int num_requested_types,
                               ABTU_MEM_LARGEPAGE_TYPE *p_actual, void **p_ptr)
{
    (void)alignment_hint;
    (void)requested_types;
    (void)num_requested_types;
    if (g_budget == 0)
        return ABT_ERR_MEM;
    if (g_budget > 0)
        g_budget--;
    if (g_npages >= MAXPAGES)
        VH_DIE("too many pages");
    void *p = NULL;
    if (posix_memalign(&p, 64, size) != 0)
        VH_DIE("posix_memalign");
    memset(p, 0xA5, size); /* fresh memory is garbage, not zero */
    g_page_base[++g_npages] = p;
    *p_actual = ABTU_MEM_LARGEPAGE_MALLOC;
    *p_ptr = p;
    return ABT_SUCCESS;
}

static void vhx_free_largepage(void *ptr, size_t size,
                               ABTU_MEM_LARGEPAGE_TYPE type)
{
    (void)size;
    (void)type;
    int i;
    for (i = 1; i <= g_npages; i++)
        if (g_page_base[i] == ptr) {
            g_freed[g_nfreed++] = i;
            free(ptr);
            return;
        }
    g_freed[g_nfreed++] = -1; /* not a page we handed out */
}

#define ABTU_alloc_largepage vhx_alloc_largepage
#define ABTU_free_largepage vhx_free_largepage
#include "mem/mem_pool.c"
#undef ABTU_alloc_largepage
#undef ABTU_free_largepage

/* ---- MP cases */
static size_t c_N, c_S, c_hs, c_ho, c_extra, c_page_size;

static long blk_id(void *p)
{
    int i;
    if (!p)
        return 0;
    for (i = 1; i <= g_npages; i++) {
        char *b = (char *)g_page_base[i];
        if (b && (char *)p >= b && (char *)p < b + c_page_size) {
            size_t off = (char *)p - b;
            if (off < c_ho || (off - c_ho) % c_hs != 0 ||
                (off - c_ho) / c_hs >= c_S)
                return -2; /* not a header address */
            return (long)((i - 1) * c_S + (off - c_ho) / c_hs + 1);
        }
    }
    return -1;
}

static long page_id(ABTI_mem_pool_page *pg)
{
    int i;
    if (!pg)
        return 0;
    for (i = 1; i <= g_npages; i++)
        if (g_page_base[i] &&
            (char *)pg == (char *)g_page_base[i] + c_page_size -
                              sizeof(ABTI_mem_pool_page))
            return i;
    return -1;
}

static void pr_chain(ABTI_mem_pool_header *h, size_t fuel)
{
    int first = 1;
    printf("[");
    while (h && fuel--) {
        long id = blk_id(h);
        printf("%s%ld", first ? "" : " ", id);
        first = 0;
        if (id <= 0)
            break;
        h = h->p_next;
    }
    printf("]");
}

static void pr_pages(ABTI_mem_pool_page *pg, int lifo_link)
{
    int first = 1, fuel = g_npages + 1;
    printf("[");
    while (pg && fuel--) {
        long id = page_id(pg);
        long carved = id > 0 ? (long)(((char *)pg->p_mem_extra -
                                       (char *)pg->mem) / (long)c_hs)
                             : -1;
        printf("%s%ld:%ld", first ? "" : " ", id, carved);
        first = 0;
        if (id <= 0)
            break;
        if (lifo_link) {
            ABTI_sync_lifo_element *e = pg->lifo_elem.p_next;
            pg = e ? mem_pool_lifo_elem_to_page(e) : NULL;
        } else {
            pg = pg->p_next_empty_page;
        }
    }
    printf("]");
}

#define MAXPOOLS 8
#define MAXHELD 100000

static void do_mp(char *line)
{
    char *save1;
    char *hd = strtok_r(line, ";", &save1);
    char *ops = strtok_r(NULL, ";", &save1);
    unsigned long N, S, np, hs, ho, extra;
    if (sscanf(hd, "MP %lu %lu %lu %lu %lu %lu", &N, &S, &np, &hs, &ho,
               &extra) != 6)
        VH_DIE("bad MP header");
    if (np > MAXPOOLS)
        VH_DIE("too many pools");
    c_N = N, c_S = S, c_hs = hs, c_ho = ho, c_extra = extra;
    c_page_size = sizeof(ABTI_mem_pool_page) + S * hs + extra;
    g_npages = 0, g_budget = -1, g_nfreed = 0;
    memset(g_page_base, 0, sizeof(g_page_base));

    ABTI_mem_pool_global_pool *gp = NULL;
    if (posix_memalign((void **)&gp, 64, sizeof(*gp)) != 0)
        VH_DIE("memalign");
    memset(gp, 0, sizeof(*gp));
    ABTU_MEM_LARGEPAGE_TYPE req = ABTU_MEM_LARGEPAGE_MALLOC;
    vhx_mp_init_global_pool(gp, N, hs, ho, c_page_size, &req, 1, 64, NULL);
    ABTI_mem_pool_local_pool lp[MAXPOOLS];
    int live[MAXPOOLS];
    memset(lp, 0, sizeof(lp));
    memset(live, 0, sizeof(live));
    void **held = malloc(sizeof(void *) * MAXHELD);
    size_t nheld = 0;
    int global_destroyed = 0;

    printf("MP");
    char *save2;
    char *o = ops ? strtok_r(ops, ",", &save2) : NULL;
    for (; o; o = strtok_r(NULL, ",", &save2)) {
        char k;
        long a = 0, b = 0;
        int n = sscanf(o, " %c %ld %ld", &k, &a, &b);
        if (n < 1)
            continue;
        if (global_destroyed) {
            printf(" x");
            continue;
        }
        if (k == 'I') {
            if (a < 0 || a >= (long)np || live[a]) {
                printf(" x");
                continue;
            }
            int r = vhx_mp_init_local_pool(&lp[a], gp);
            if (r == ABT_SUCCESS) {
                live[a] = 1;
                printf(" u");
            } else
                printf(" E");
        } else if (k == 'A') {
            if (a < 0 || a >= (long)np || !live[a]) {
                printf(" x");
                continue;
            }
            void *m = NULL;
            int r = ABTI_mem_pool_alloc(&lp[a], &m);
            if (r == ABT_SUCCESS) {
                if (nheld >= MAXHELD)
                    VH_DIE("too many held blocks");
                memmove(held + 1, held, nheld * sizeof(void *));
                held[0] = m;
                nheld++;
                /* the client uses its block: scribble over the header */
                memset(m, 0x5A, sizeof(ABTI_mem_pool_header));
                printf(" %ld", blk_id(m));
            } else
                printf(" E");
        } else if (k == 'F') {
            if (a < 0 || a >= (long)np || !live[a] || nheld == 0) {
                printf(" x");
                continue;
            }
            size_t idx = (size_t)b % nheld;
            void *m = held[idx];
            memmove(held + idx, held + idx + 1,
                    (nheld - idx - 1) * sizeof(void *));
            nheld--;
            ABTI_mem_pool_free(&lp[a], m);
            printf(" u");
        } else if (k == 'D') {
            if (a < 0 || a >= (long)np || !live[a]) {
                printf(" x");
                continue;
            }
            vhx_mp_destroy_local_pool(&lp[a]);
            live[a] = 0;
            printf(" u");
        } else if (k == 'B') {
            g_budget = a;
            printf(" u");
        } else if (k == 'Z') {
            int any = 0, i;
            for (i = 0; i < (int)np; i++)
                any |= live[i];
            if (any) {
                printf(" x");
                continue;
            }
            vhx_mp_destroy_global_pool(gp);
            global_destroyed = 1;
            printf(" Z[");
            for (i = 0; i < g_nfreed; i++)
                printf("%s%d", i ? " " : "", g_freed[i]);
            printf("]");
        } else
            VH_DIE("bad op %c", k);
    }
    /* ---- dump */
    printf(" |");
    if (!global_destroyed) {
        int i;
        for (i = 0; i < (int)np; i++) {
            if (!live[i]) {
                printf(" L%d:-", i);
                continue;
            }
            printf(" L%d:i=%zu", i, lp[i].bucket_index);
            size_t j;
            for (j = 0; j <= lp[i].bucket_index &&
                        j < ABT_MEM_POOL_MAX_LOCAL_BUCKETS;
                 j++) {
                printf(",");
                pr_chain(lp[i].buckets[j], 2 * c_N + 2);
                printf("#%ld",
                       (long)lp[i].buckets[j]->bucket_info.num_headers);
            }
        }
        printf(" G:bt=%zu,", gp->bucket_lifo.p_top.tag);
        {
            ABTI_sync_lifo_element *e =
                (ABTI_sync_lifo_element *)gp->bucket_lifo.p_top.ptr;
            size_t fuel = (size_t)g_npages * c_S + 1;
            while (e && fuel--) {
                ABTI_mem_pool_header *h = mem_pool_lifo_elem_to_header(e);
                if (blk_id(h) <= 0) {
                    printf("[%ld]", blk_id(h));
                    break;
                }
                pr_chain(h, 2 * c_N + 2);
                e = e->p_next;
            }
        }
        printf(";pt=%zu,pl=", gp->mem_page_lifo.p_top.tag);
        {
            ABTI_sync_lifo_element *e =
                (ABTI_sync_lifo_element *)gp->mem_page_lifo.p_top.ptr;
            pr_pages(e ? mem_pool_lifo_elem_to_page(e) : NULL, 1);
        }
        printf(",pe=");
        pr_pages((ABTI_mem_pool_page *)ABTD_atomic_relaxed_load_ptr(
                     &gp->p_mem_page_empty),
                 0);
        printf(";pp=");
        if (gp->partial_bucket) {
            printf("#%ld", (long)gp->partial_bucket->bucket_info.num_headers);
            pr_chain(gp->partial_bucket, 4 * c_N + 4);
        } else
            printf("-");
        printf(" np=%d", g_npages);
        /* silent clean-up */
        for (i = 0; i < (int)np; i++)
            if (live[i])
                vhx_mp_destroy_local_pool(&lp[i]);
        vhx_mp_destroy_global_pool(gp);
    } else {
        printf(" gone np=%d", g_npages);
    }
    printf("\n");
    free(held);
    free(gp);
}

/* ---- LF cases */
#define LF_ELEMS 16
static void do_lf(char *line)
{
    char *save1;
    strtok_r(line, ";", &save1);
    char *ops = strtok_r(NULL, ";", &save1);
    static ABTI_sync_lifo lifo;
    static ABTI_sync_lifo_element el[LF_ELEMS + 1];
    int in[LF_ELEMS + 1];
    memset(in, 0, sizeof(in));
    memset(el, 0, sizeof(el));
    ABTI_sync_lifo_init(&lifo);
    printf("LF");
    char *save2;
    char *o = ops ? strtok_r(ops, ",", &save2) : NULL;
    for (; o; o = strtok_r(NULL, ",", &save2)) {
        char k;
        long a = 0;
        if (sscanf(o, " %c %ld", &k, &a) < 1)
            continue;
        if (k == 'P' || k == 'p') {
            if (a < 1 || a > LF_ELEMS || in[a]) {
                printf(" x");
                continue;
            }
            /* the owner used the union word for something else meanwhile */
            el[a].p_next = (ABTI_sync_lifo_element *)(uintptr_t)0x77;
            if (k == 'P')
                ABTI_sync_lifo_push(&lifo, &el[a]);
            else
                ABTI_sync_lifo_push_unsafe(&lifo, &el[a]);
            in[a] = 1;
            printf(" u");
        } else if (k == 'O' || k == 'o') {
            ABTI_sync_lifo_element *e = (k == 'O')
                                            ? ABTI_sync_lifo_pop(&lifo)
                                            : ABTI_sync_lifo_pop_unsafe(&lifo);
            long id = e ? (long)(e - el) : 0;
            if (e)
                in[id] = 0;
            printf(" %ld", id);
        } else
            VH_DIE("bad LF op");
    }
    printf(" | tag=%zu [", lifo.p_top.tag);
    {
        ABTI_sync_lifo_element *e = (ABTI_sync_lifo_element *)lifo.p_top.ptr;
        int fuel = LF_ELEMS + 1, first = 1;
        while (e && fuel--) {
            printf("%s%ld", first ? "" : " ", (long)(e - el));
            first = 0;
            e = e->p_next;
        }
    }
    printf("]\n");
}

/* ---- storm */
typedef struct {
    ABTI_sync_lifo_element e; /* first: element address = node address */
    int id;
    volatile int in_hand; /* 1 while some thread holds it */
} node_t;

static ABTI_sync_lifo s_lifo;
static node_t *s_nodes;
static int s_nelems;
static long s_iters;
static volatile int s_violation; /* 1 = handed out twice, 2 = bad pointer */
static volatile long s_badid;
static pthread_barrier_t s_bar;

typedef struct {
    int tid;
    uint64_t seed;
    long pops, pushes, empties;
    node_t **mine;
    int nmine;
} thr_t;

static void *storm_thread(void *arg)
{
    thr_t *t = (thr_t *)arg;
    uint64_t s = t->seed;
    long it;
    pthread_barrier_wait(&s_bar);
    for (it = 0; it < s_iters && !s_violation; it++) {
        uint64_t r = vh_rand(&s);
        int want_pop = (t->nmine == 0) || ((r & 3) != 0 && t->nmine < 6);
        if (want_pop) {
            ABTI_sync_lifo_element *e = ABTI_sync_lifo_pop(&s_lifo);
            if (!e) {
                t->empties++;
                if (t->nmine == 0)
                    continue;
            } else {
                node_t *n = (node_t *)e;
                if (n < s_nodes || n >= s_nodes + s_nelems ||
                    ((char *)n - (char *)s_nodes) % sizeof(node_t) != 0) {
                    s_badid = (long)(uintptr_t)e;
                    s_violation = 2;
                    break;
                }
                if (__atomic_exchange_n(&n->in_hand, 1, __ATOMIC_ACQ_REL)) {
                    s_badid = n->id;
                    s_violation = 1;
                    break;
                }
                /* use the union word while we own the element */
                n->e.p_next =
                    (ABTI_sync_lifo_element *)(uintptr_t)(8 * (r >> 40));
                t->mine[t->nmine++] = n;
                t->pops++;
                continue;
            }
        }
        if (t->nmine > 0) {
            int k = (int)((r >> 8) % (uint64_t)t->nmine);
            node_t *n = t->mine[k];
            t->mine[k] = t->mine[--t->nmine];
            __atomic_store_n(&n->in_hand, 0, __ATOMIC_RELEASE);
            ABTI_sync_lifo_push(&s_lifo, &n->e);
            t->pushes++;
        }
    }
    return NULL;
}

static int do_storm(int nthreads, int nelems, long iters, uint64_t seed)
{
    int i;
    s_nelems = nelems;
    s_iters = iters;
    if (posix_memalign((void **)&s_nodes, 64, sizeof(node_t) * nelems) != 0)
        VH_DIE("memalign");
    memset(s_nodes, 0, sizeof(node_t) * nelems);
    ABTI_sync_lifo_init(&s_lifo);
    for (i = 0; i < nelems; i++) {
        s_nodes[i].id = i + 1;
        ABTI_sync_lifo_push(&s_lifo, &s_nodes[i].e);
    }
    pthread_barrier_init(&s_bar, NULL, nthreads);
    pthread_t *th = malloc(sizeof(pthread_t) * nthreads);
    thr_t *ts = calloc(nthreads, sizeof(thr_t));
    for (i = 0; i < nthreads; i++) {
        ts[i].tid = i;
        ts[i].seed = seed * 1000003ULL + i * 7919ULL + 1;
        ts[i].mine = calloc(nelems + 8, sizeof(node_t *));
        pthread_create(&th[i], NULL, storm_thread, &ts[i]);
    }
    long pops = 0, pushes = 0, empties = 0, held = 0;
    for (i = 0; i < nthreads; i++) {
        pthread_join(th[i], NULL);
        pops += ts[i].pops;
        pushes += ts[i].pushes;
        empties += ts[i].empties;
        held += ts[i].nmine;
    }
    if (s_violation == 1) {
        printf("STORM VIOLATION element %ld handed out twice (threads=%d "
               "elems=%d)\n",
               s_badid, nthreads, nelems);
        return 1;
    }
    if (s_violation == 2) {
        printf("STORM VIOLATION pop returned a pointer that is not an element: "
               "0x%lx\n",
               s_badid);
        return 1;
    }
    /* conservation: every element is in the LIFO xor in some thread's hands */
    int *seen = calloc(nelems + 1, sizeof(int));
    long inlifo = 0;
    ABTI_sync_lifo_element *e = (ABTI_sync_lifo_element *)s_lifo.p_top.ptr;
    long fuel = nelems + 1;
    while (e && fuel--) {
        node_t *n = (node_t *)e;
        if (n < s_nodes || n >= s_nodes + nelems) {
            printf("STORM VIOLATION LIFO chain leaves the element array\n");
            return 1;
        }
        if (seen[n->id]++ || n->in_hand) {
            printf("STORM VIOLATION element %d twice in the LIFO or also held\n",
                   n->id);
            return 1;
        }
        inlifo++;
        e = e->p_next;
    }
    for (i = 0; i < nthreads; i++) {
        int k;
        for (k = 0; k < ts[i].nmine; k++)
            if (seen[ts[i].mine[k]->id]++) {
                printf("STORM VIOLATION element %d held twice\n",
                       ts[i].mine[k]->id);
                return 1;
            }
    }
    if (inlifo + held != nelems || e != NULL) {
        printf("STORM VIOLATION lost elements: in LIFO %ld + held %ld != %d\n",
               inlifo, held, nelems);
        return 1;
    }
    if ((long)s_lifo.p_top.tag != nelems + pops + pushes) {
        printf("STORM VIOLATION tag %zu != number of successful operations "
               "%ld\n",
               s_lifo.p_top.tag, nelems + pops + pushes);
        return 1;
    }
    printf("STORM ok threads=%d elems=%d pops=%ld pushes=%ld empties=%ld\n",
           nthreads, nelems, pops, pushes, empties);
    for (i = 0; i < nthreads; i++)
        free(ts[i].mine);
    free(ts);
    free(th);
    free(seen);
    free(s_nodes);
    return 0;
}

int main(int argc, char **argv)
{
    if (argc >= 6 && strcmp(argv[1], "--storm") == 0) {
        int r = do_storm(atoi(argv[2]), atoi(argv[3]), atol(argv[4]),
                         strtoull(argv[5], NULL, 10));
        fflush(stdout);
        _exit(r); /* verdict printed; skip exit-time leak report on the violation paths */
    }
    FILE *f = argc > 1 ? fopen(argv[1], "r") : stdin;
    if (!f)
        VH_DIE("cannot open case file");
    char *line;
    while ((line = vh_getline(f))) {
        if (line[0] == 0 || line[0] == '#') {
            free(line);
            continue;
        }
        if (strncmp(line, "MP", 2) == 0)
            do_mp(line);
        else if (strncmp(line, "LF", 2) == 0)
            do_lf(line);
        else
            VH_DIE("bad line: %s", line);
        fflush(stdout);
        free(line);
    }
    return 0;
}
