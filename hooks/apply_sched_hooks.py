#!/usr/bin/env python3
"""One-off generator of the scheduler/lifecycle hook commit in /repo (add-only, guarded by ABT_VERIF).
Kept for the record; the result is committed in /repo as 'verif-hook: scheduler ...'."""
import re, sys
R = sys.argv[1] if len(sys.argv) > 1 else "/repo"
R += "/src/"

def edit(path, old, new, count=1):
    s = open(R + path).read()
    n = s.count(old)
    assert n >= 1 and (count == -1 or n == count), (path, old[:60], n)
    s = s.replace(old, new)
    open(R + path, "w").write(s)

def insert_after(path, anchor, text, count=1):
    edit(path, anchor, anchor + text, count)

def insert_before(path, anchor, text, count=1):
    edit(path, anchor, text + anchor, count)

# ---------------------------------------------------------------- event kinds
insert_after("include/abti_verif.h", "    ABTI_VEV_CALLBACK = 22, /* a = object: user callback about to be invoked */\n", """    ABTI_VEV_Q_PUSH = 30,   /* a = queue, b = thread, c = 0 head / 1 tail (under the pool lock) */
    ABTI_VEV_Q_POP = 31,    /* a = queue, b = thread or 0, c = 0 head / 1 tail */
    ABTI_VEV_Q_REMOVE = 32, /* a = queue, b = thread */
    ABTI_VEV_Q_EMPTY = 33,  /* a = queue, c = is_empty read without the lock */
    ABTI_VEV_NB_ADD = 34,   /* a = pool, b = 1 inc / 2 dec, c = old value */
    ABTI_VEV_NB_LOAD = 35,  /* a = pool, c = value */
    ABTI_VEV_NSCHED_LOAD = 36, /* a = pool, c = value */
    ABTI_VEV_REQ_OR = 37,   /* a = thread, b = bits, c = old value */
    ABTI_VEV_REQ_AND = 38,  /* a = thread, b = bits cleared */
    ABTI_VEV_REQ_LOAD = 39, /* a = thread, b = site, c = value */
    ABTI_VEV_STATE = 40,    /* a = thread, b = new state */
    ABTI_VEV_STATE_LOAD = 41, /* a = thread, b = site, c = value */
    ABTI_VEV_LINK_STORE = 42, /* a = target, b = joiner thread, c = 1 if external dummy */
    ABTI_VEV_LINK_LOAD = 43,  /* a = thread, b = linked thread or 0 */
    ABTI_VEV_CB = 44,       /* a = previous thread, b = callback kind: its context is saved */
    ABTI_VEV_FUTEX_RESUME = 45, /* a = joiner dummy thread */
    ABTI_VEV_SET_POOL = 46, /* a = thread, b = pool */
    ABTI_VEV_MIG_STORE = 47, /* a = thread, b = target pool */
    ABTI_VEV_MIG_LOAD = 48,  /* a = thread, b = target pool */
    ABTI_VEV_MIG_CB = 49,    /* a = thread: migration callback about to be called */
    ABTI_VEV_UNIT_INIT = 50, /* a = thread, b = type bits, c = pool */
    ABTI_VEV_UNIT_REVIVE = 51, /* a = thread, c = pool */
    ABTI_VEV_UNIT_FREE = 52, /* a = thread */
    ABTI_VEV_SREQ_OR = 53,  /* a = sched, b = bits */
    ABTI_VEV_SREQ_LOAD = 54, /* a = sched, b = site, c = value */
    ABTI_VEV_XSTATE = 55,   /* a = xstream, b = state */
    ABTI_VEV_SCHED_STOP = 56, /* a = sched: main scheduler leaves its loop, b = reason */
    ABTI_VEV_RUN_TASK = 57, /* a = tasklet: function about to be called */
""")
insert_before("include/abti_verif.h", "#define ABTI_VERIF_ON()", """enum ABTI_verif_cb_kind {
    ABTI_VCB_YIELD = 1, ABTI_VCB_THREAD_YIELD_TO = 2, ABTI_VCB_RESUME_YIELD_TO = 3,
    ABTI_VCB_SUSPEND = 4, ABTI_VCB_RESUME_SUSPEND_TO = 5, ABTI_VCB_EXIT = 6,
    ABTI_VCB_RESUME_EXIT_TO = 7, ABTI_VCB_SUSPEND_UNLOCK = 8, ABTI_VCB_SUSPEND_JOIN = 9,
    ABTI_VCB_SUSPEND_REPLACE_SCHED = 10, ABTI_VCB_ORPHAN = 11
};
""")

# ---------------------------------------------------------------- thread_queue.h
TQ = "pool/thread_queue.h"
for fn, code in (("push_head", 0), ("push_tail", 1)):
    edit(TQ, """static inline void thread_queue_%s(thread_queue_t *p_queue,
                                          ABTI_thread *p_thread)
{
""" % fn, """static inline void thread_queue_%s(thread_queue_t *p_queue,
                                          ABTI_thread *p_thread)
{
    ABTI_VERIF_BEGIN(); /* queue update + record are one step (caller holds the pool lock) */
""" % fn)
# the two push functions end with the same statement
s = open(R + TQ).read()
parts = s.split("    ABTD_atomic_release_store_int(&p_thread->is_in_pool, 1);\n}\n")
assert len(parts) == 3
s = parts[0] + "    ABTD_atomic_release_store_int(&p_thread->is_in_pool, 1);\n    ABTI_VERIF_END(ABTI_VEV_Q_PUSH, p_queue, p_thread, 0);\n}\n" + \
    parts[1] + "    ABTD_atomic_release_store_int(&p_thread->is_in_pool, 1);\n    ABTI_VERIF_END(ABTI_VEV_Q_PUSH, p_queue, p_thread, 1);\n}\n" + parts[2]
# pops
for fn, code in (("pop_head", 0), ("pop_tail", 1)):
    a = s.index("static inline ABTI_thread *thread_queue_%s(thread_queue_t *p_queue)" % fn)
    b = s.index("\n}\n", a)
    body = s[a:b]
    body2 = body.replace("    if (p_queue->num_threads > 0) {\n", "    ABTI_VERIF_BEGIN();\n    if (p_queue->num_threads > 0) {\n", 1)
    body2 = body2.replace("        ABTD_atomic_release_store_int(&p_thread->is_in_pool, 0);\n        return p_thread;",
                          "        ABTD_atomic_release_store_int(&p_thread->is_in_pool, 0);\n        ABTI_VERIF_END(ABTI_VEV_Q_POP, p_queue, p_thread, %d);\n        return p_thread;" % code, 1)
    body2 = body2.replace("    } else {\n        return NULL;", "    } else {\n        ABTI_VERIF_END(ABTI_VEV_Q_POP, p_queue, 0, %d);\n        return NULL;" % code, 1)
    assert body2.count("ABTI_VERIF") == 3, fn
    s = s[:a] + body2 + s[b:]
# remove
s = s.replace("""                    ABT_ERR_POOL);

    if (p_queue->num_threads == 1) {""", """                    ABT_ERR_POOL);

    ABTI_VERIF_BEGIN();
    if (p_queue->num_threads == 1) {""", 1)
s = s.replace("""    ABTD_atomic_release_store_int(&p_thread->is_in_pool, 0);
    p_thread->p_prev = NULL;
    p_thread->p_next = NULL;
    return ABT_SUCCESS;""", """    ABTD_atomic_release_store_int(&p_thread->is_in_pool, 0);
    p_thread->p_prev = NULL;
    p_thread->p_next = NULL;
    ABTI_VERIF_END(ABTI_VEV_Q_REMOVE, p_queue, p_thread, 0);
    return ABT_SUCCESS;""", 1)
# lock-free emptiness reads: record the value that decided
s = s.replace("""    if (ABTD_atomic_acquire_load_int(&p_queue->is_empty)) {
        /* The pool is empty.  Lock is not taken. */
        return 1;
    }""", """#ifdef ABT_VERIF
    if (ABTI_VERIF_ON()) {
        ABTI_VERIF_BEGIN();
        int verif_empty = ABTD_atomic_acquire_load_int(&p_queue->is_empty);
        ABTI_VERIF_END(ABTI_VEV_Q_EMPTY, p_queue, 0, verif_empty);
        if (verif_empty)
            return 1;
    }
#endif
    if (ABTD_atomic_acquire_load_int(&p_queue->is_empty)) {
        /* The pool is empty.  Lock is not taken. */
        return 1;
    }""", 1)
s = s.replace("""static inline ABT_bool thread_queue_is_empty(const thread_queue_t *p_queue)
{
""", """static inline ABT_bool thread_queue_is_empty(const thread_queue_t *p_queue)
{
#ifdef ABT_VERIF
    if (ABTI_VERIF_ON()) {
        ABTI_VERIF_BEGIN();
        int verif_empty = ABTD_atomic_acquire_load_int(&p_queue->is_empty);
        ABTI_VERIF_END(ABTI_VEV_Q_EMPTY, p_queue, 1, verif_empty);
        return verif_empty ? ABT_TRUE : ABT_FALSE;
    }
#endif
""", 1)
open(R + TQ, "w").write(s)

# ---------------------------------------------------------------- abti_pool.h
edit("include/abti_pool.h", """    ABTD_atomic_fetch_add_int32(&p_pool->num_blocked, 1);
""", """#ifdef ABT_VERIF
    if (ABTI_VERIF_ON()) {
        ABTI_VERIF_BEGIN();
        int32_t verif_old = ABTD_atomic_fetch_add_int32(&p_pool->num_blocked, 1);
        ABTI_VERIF_END(ABTI_VEV_NB_ADD, p_pool, 1, verif_old);
        return;
    }
#endif
    ABTD_atomic_fetch_add_int32(&p_pool->num_blocked, 1);
""")
edit("include/abti_pool.h", """    ABTD_atomic_fetch_sub_int32(&p_pool->num_blocked, 1);
""", """#ifdef ABT_VERIF
    if (ABTI_VERIF_ON()) {
        ABTI_VERIF_BEGIN();
        int32_t verif_old = ABTD_atomic_fetch_sub_int32(&p_pool->num_blocked, 1);
        ABTI_VERIF_END(ABTI_VEV_NB_ADD, p_pool, 2, verif_old);
        return;
    }
#endif
    ABTD_atomic_fetch_sub_int32(&p_pool->num_blocked, 1);
""")
edit("include/abti_pool.h", """    ABTD_atomic_relaxed_store_int(&p_thread->state, ABT_THREAD_STATE_READY);
    /* Add the ULT to the associated pool */""", """    ABTI_VERIF_BEGIN();
    ABTD_atomic_relaxed_store_int(&p_thread->state, ABT_THREAD_STATE_READY);
    ABTI_VERIF_END(ABTI_VEV_STATE, p_thread, ABT_THREAD_STATE_READY, 0);
    /* Add the ULT to the associated pool */""")

# ---------------------------------------------------------------- sched.c: has_unit / has_to_stop
edit("sched/sched.c", """            case ABT_POOL_ACCESS_PRIV:
                if (ABTD_atomic_acquire_load_int32(&p_pool->num_blocked))
                    return ABT_TRUE;""", """            case ABT_POOL_ACCESS_PRIV:
#ifdef ABT_VERIF
                if (ABTI_VERIF_ON()) {
                    ABTI_VERIF_BEGIN();
                    int32_t verif_nb = ABTD_atomic_acquire_load_int32(&p_pool->num_blocked);
                    ABTI_VERIF_END(ABTI_VEV_NB_LOAD, p_pool, 0, verif_nb);
                    if (verif_nb)
                        return ABT_TRUE;
                    break;
                }
#endif
                if (ABTD_atomic_acquire_load_int32(&p_pool->num_blocked))
                    return ABT_TRUE;""")
edit("sched/sched.c", """            case ABT_POOL_ACCESS_MPMC:
                if (ABTD_atomic_acquire_load_int32(&p_pool->num_scheds) == 1) {""", """            case ABT_POOL_ACCESS_MPMC:
#ifdef ABT_VERIF
                if (ABTI_VERIF_ON()) {
                    ABTI_VERIF_BEGIN();
                    int32_t verif_ns = ABTD_atomic_acquire_load_int32(&p_pool->num_scheds);
                    ABTI_VERIF_END(ABTI_VEV_NSCHED_LOAD, p_pool, 0, verif_ns);
                    if (verif_ns == 1) {
                        ABTI_VERIF_BEGIN();
                        int32_t verif_nb = ABTD_atomic_acquire_load_int32(&p_pool->num_blocked);
                        ABTI_VERIF_END(ABTI_VEV_NB_LOAD, p_pool, 0, verif_nb);
                        if (verif_nb)
                            return ABT_TRUE;
                    }
                    break;
                }
#endif
                if (ABTD_atomic_acquire_load_int32(&p_pool->num_scheds) == 1) {""")
edit("include/abti_sched.h", """    ABTD_atomic_fetch_or_uint32(&p_sched->request, req);
""", """    ABTI_VERIF_BEGIN();
    ABTD_atomic_fetch_or_uint32(&p_sched->request, req);
    ABTI_VERIF_END(ABTI_VEV_SREQ_OR, p_sched, req, 0);
""")

# ---------------------------------------------------------------- abti_thread.h
edit("include/abti_thread.h", """static inline void ABTI_thread_set_request(ABTI_thread *p_thread, uint32_t req)
{
""", """static inline void ABTI_thread_set_request(ABTI_thread *p_thread, uint32_t req)
{
#ifdef ABT_VERIF
    if (ABTI_VERIF_ON()) {
        ABTI_VERIF_BEGIN();
        uint32_t verif_old = ABTD_atomic_fetch_or_uint32(&p_thread->request, req);
        ABTI_VERIF_END(ABTI_VEV_REQ_OR, p_thread, req, verif_old);
        return;
    }
#endif
""")
edit("include/abti_thread.h", """                                             uint32_t req)
{
    ABTD_atomic_fetch_and_uint32(&p_thread->request, ~req);""", """                                             uint32_t req)
{
#ifdef ABT_VERIF
    if (ABTI_VERIF_ON()) {
        ABTI_VERIF_BEGIN();
        ABTD_atomic_fetch_and_uint32(&p_thread->request, ~req);
        ABTI_VERIF_END(ABTI_VEV_REQ_AND, p_thread, req, 0);
        return;
    }
#endif
    ABTD_atomic_fetch_and_uint32(&p_thread->request, ~req);""")
edit("include/abti_thread.h", """    const uint32_t request =
        ABTD_atomic_acquire_load_uint32(&p_thread->request);
""", """    ABTI_VERIF_BEGIN();
    const uint32_t request =
        ABTD_atomic_acquire_load_uint32(&p_thread->request);
    ABTI_VERIF_END(ABTI_VEV_REQ_LOAD, p_thread, allow_termination, request);
""")
edit("include/abti_thread.h", """    if (!(thread_type & ABTI_THREAD_TYPE_NAMED)) {
        ABTD_atomic_release_store_int(&p_thread->state,
                                      ABT_THREAD_STATE_TERMINATED);
""", """    if (!(thread_type & ABTI_THREAD_TYPE_NAMED)) {
        ABTI_VERIF_BEGIN();
        ABTD_atomic_release_store_int(&p_thread->state,
                                      ABT_THREAD_STATE_TERMINATED);
        ABTI_VERIF_END(ABTI_VEV_STATE, p_thread, ABT_THREAD_STATE_TERMINATED, 0);
""")
edit("include/abti_thread.h", """         * TERMINATED. */
        ABTD_atomic_release_store_int(&p_thread->state,
                                      ABT_THREAD_STATE_TERMINATED);
""", """         * TERMINATED. */
        ABTI_VERIF_BEGIN();
        ABTD_atomic_release_store_int(&p_thread->state,
                                      ABT_THREAD_STATE_TERMINATED);
        ABTI_VERIF_END(ABTI_VEV_STATE, p_thread, ABT_THREAD_STATE_TERMINATED, 1);
""")

# ---------------------------------------------------------------- abti_ythread.h : RUNNING stores
Y = "include/abti_ythread.h"
s = open(R + Y).read()
def wrap_state_store(s, target_expr, thread_expr, state):
    pat = "    ABTD_atomic_release_store_int(&%s,\n                                  %s);\n" % (target_expr, state)
    n = s.count(pat)
    assert n >= 1, (target_expr, n)
    rep = "    ABTI_VERIF_BEGIN();\n" + pat + "    ABTI_VERIF_END(ABTI_VEV_STATE, %s, %s, 0);\n" % (thread_expr, state)
    return s.replace(pat, rep), n
tot = 0
for tgt, thr in (("p_child->thread.state", "&p_child->thread"), ("p_target->thread.state", "&p_target->thread"),
                 ("p_primary->thread.state", "&p_primary->thread")):
    s, n = wrap_state_store(s, tgt, thr, "ABT_THREAD_STATE_RUNNING")
    tot += n
assert tot == 8, tot
# joiner hand-off (deeper indentation)
pat = """            ABTD_atomic_release_store_int(&p_joiner->thread.state,
                                          ABT_THREAD_STATE_RUNNING);
"""
assert s.count(pat) == 1
s = s.replace(pat, "            ABTI_VERIF_BEGIN();\n" + pat + "            ABTI_VERIF_END(ABTI_VEV_STATE, &p_joiner->thread, ABT_THREAD_STATE_RUNNING, 1);\n")
# tasklet RUNNING
pat = """            ABTD_atomic_release_store_int(&p_thread->state,
                                          ABT_THREAD_STATE_RUNNING);
"""
assert s.count(pat) == 1
s = s.replace(pat, "            ABTI_VERIF_BEGIN();\n" + pat + "            ABTI_VERIF_END(ABTI_VEV_STATE, p_thread, ABT_THREAD_STATE_RUNNING, 2);\n")
pat = "            p_thread->f_thread(p_thread->p_arg);\n"
assert s.count(pat) == 1
s = s.replace(pat, "            ABTI_VERIF_EV(ABTI_VEV_RUN_TASK, p_thread, 0, 0);\n" + pat)
# get_joiner: link loads and the fetch_or
pat = """    ABTD_ythread_context *p_link =
        ABTD_atomic_acquire_load_ythread_context_ptr(&p_ctx->p_link);
    if (!p_link) {
        uint32_t req = ABTD_atomic_fetch_or_uint32(&p_ythread->thread.request,
                                                   ABTI_THREAD_REQ_JOIN);
"""
assert s.count(pat) == 1
s = s.replace(pat, """    ABTI_VERIF_BEGIN();
    ABTD_ythread_context *p_link =
        ABTD_atomic_acquire_load_ythread_context_ptr(&p_ctx->p_link);
    ABTI_VERIF_END(ABTI_VEV_LINK_LOAD, &p_ythread->thread,
                   p_link ? &ABTI_ythread_context_get_ythread(p_link)->thread : NULL, 0);
    if (!p_link) {
        ABTI_VERIF_BEGIN();
        uint32_t req = ABTD_atomic_fetch_or_uint32(&p_ythread->thread.request,
                                                   ABTI_THREAD_REQ_JOIN);
        ABTI_VERIF_END(ABTI_VEV_REQ_OR, &p_ythread->thread, ABTI_THREAD_REQ_JOIN, req);
""")
pat = """            } while (!p_link);
            return ABTI_ythread_context_get_ythread(p_link);"""
assert s.count(pat) == 1
s = s.replace(pat, """            } while (!p_link);
            ABTI_VERIF_EV(ABTI_VEV_LINK_LOAD, &p_ythread->thread,
                          &ABTI_ythread_context_get_ythread(p_link)->thread, 1);
            return ABTI_ythread_context_get_ythread(p_link);""")
# futex resume of an external joiner (two sites)
pat = "            ABTD_futex_resume(p_futex);\n"
assert s.count(pat) == 2
s = s.replace(pat, "            ABTI_VERIF_EV(ABTI_VEV_FUTEX_RESUME, &p_joiner->thread, 0, 0);\n" + pat)
open(R + Y, "w").write(s)

# ---------------------------------------------------------------- ythread.c callbacks
C = "ythread.c"
s = open(R + C).read()
def cb_entry(s, sig, first_line, kind, prev_expr):
    pat = sig + "\n{\n"
    a = s.index(pat)
    # insert after the declarations that define p_prev: we insert right after the line first_line
    b = s.index(first_line, a) + len(first_line)
    return s[:b] + "    ABTI_VERIF_EV(ABTI_VEV_CB, &%s->thread, %s, 0);\n" % (prev_expr, kind) + s[b:]
s = cb_entry(s, """static inline void ythread_callback_yield_impl(void *arg,
                                               ABT_pool_context context)""", "    ABTI_ythread *p_prev = (ABTI_ythread *)arg;\n", "ABTI_VCB_YIELD", "p_prev")
s = cb_entry(s, "void ABTI_ythread_callback_thread_yield_to(void *arg)", "    ABTI_ythread *p_prev = (ABTI_ythread *)arg;\n", "ABTI_VCB_THREAD_YIELD_TO", "p_prev")
s = cb_entry(s, "void ABTI_ythread_callback_resume_yield_to(void *arg)", "    ABTI_ythread *p_next = p_arg->p_next;\n", "ABTI_VCB_RESUME_YIELD_TO", "p_prev")
s = cb_entry(s, "void ABTI_ythread_callback_suspend(void *arg)", "    ABTI_ythread *p_prev = (ABTI_ythread *)arg;\n", "ABTI_VCB_SUSPEND", "p_prev")
s = cb_entry(s, "void ABTI_ythread_callback_resume_suspend_to(void *arg)", "    ABTI_ythread *p_next = p_arg->p_next;\n", "ABTI_VCB_RESUME_SUSPEND_TO", "p_prev")
s = cb_entry(s, "void ABTI_ythread_callback_exit(void *arg)", "    ABTI_ythread *p_prev = (ABTI_ythread *)arg;\n", "ABTI_VCB_EXIT", "p_prev")
s = cb_entry(s, "void ABTI_ythread_callback_resume_exit_to(void *arg)", "    ABTI_ythread *p_next = p_arg->p_next;\n", "ABTI_VCB_RESUME_EXIT_TO", "p_prev")
s = cb_entry(s, "void ABTI_ythread_callback_suspend_unlock(void *arg)", "    ABTD_spinlock *p_lock = p_arg->p_lock;\n", "ABTI_VCB_SUSPEND_UNLOCK", "p_prev")
s = cb_entry(s, "void ABTI_ythread_callback_suspend_join(void *arg)", "    ABTI_ythread *p_target = p_arg->p_target;\n", "ABTI_VCB_SUSPEND_JOIN", "p_prev")
s = cb_entry(s, "void ABTI_ythread_callback_suspend_replace_sched(void *arg)", "    ABTI_sched *p_main_sched = p_arg->p_main_sched;\n", "ABTI_VCB_SUSPEND_REPLACE_SCHED", "p_prev")
s = cb_entry(s, "void ABTI_ythread_callback_orphan(void *arg)", "    ABTI_ythread *p_prev = (ABTI_ythread *)arg;\n", "ABTI_VCB_ORPHAN", "p_prev")
pat = """    ABTD_atomic_release_store_int(&p_prev->thread.state,
                                  ABT_THREAD_STATE_BLOCKED);
"""
assert s.count(pat) == 5
s = s.replace(pat, "    ABTI_VERIF_BEGIN();\n" + pat + "    ABTI_VERIF_END(ABTI_VEV_STATE, &p_prev->thread, ABT_THREAD_STATE_BLOCKED, 0);\n")
pat = """    ABTD_atomic_release_store_ythread_context_ptr(&p_target->ctx.p_link,
                                                  &p_prev->ctx);
"""
assert s.count(pat) == 1
s = s.replace(pat, "    ABTI_VERIF_BEGIN();\n" + pat + "    ABTI_VERIF_END(ABTI_VEV_LINK_STORE, &p_target->thread, &p_prev->thread, 0);\n")
open(R + C, "w").write(s)

# ---------------------------------------------------------------- thread.c
T = "thread.c"
s = open(R + T).read()
pat = """    ABTD_atomic_release_store_int(&p_newthread->thread.state,
                                  ABT_THREAD_STATE_READY);
"""
assert s.count(pat) == 1
s = s.replace(pat, "    ABTI_VERIF_BEGIN();\n" + pat + "    ABTI_VERIF_END(ABTI_VEV_UNIT_INIT, &p_newthread->thread, thread_type, p_pool);\n")
pat = "    ABTD_atomic_relaxed_store_int(&p_thread->state, ABT_THREAD_STATE_READY);\n    ABTD_atomic_relaxed_store_uint32(&p_thread->request, 0);\n"
assert s.count(pat) == 1
s = s.replace(pat, "    ABTI_VERIF_BEGIN();\n    ABTD_atomic_relaxed_store_int(&p_thread->state, ABT_THREAD_STATE_READY);\n    ABTD_atomic_relaxed_store_uint32(&p_thread->request, 0);\n    ABTI_VERIF_END(ABTI_VEV_UNIT_REVIVE, p_thread, 0, p_pool);\n")
# thread_free
pat = """static inline void thread_free(ABTI_global *p_global, ABTI_local *p_local,
                               ABTI_thread *p_thread, ABT_bool free_unit)
{
"""
assert s.count(pat) == 1
s = s.replace(pat, pat + "    ABTI_VERIF_EV(ABTI_VEV_UNIT_FREE, p_thread, free_unit, 0);\n")
# join: fast path, fetch_or (ULT joiner), yield loop exit, busywait exit, futexwait fetch_or + link store
pat = """static inline void thread_join(ABTI_local **pp_local, ABTI_thread *p_thread)
{
    if (ABTD_atomic_acquire_load_int(&p_thread->state) ==
        ABT_THREAD_STATE_TERMINATED) {
"""
assert s.count(pat) == 1
s = s.replace(pat, """static inline void thread_join(ABTI_local **pp_local, ABTI_thread *p_thread)
{
#ifdef ABT_VERIF
    if (ABTI_VERIF_ON()) {
        /* record the value read by the fast-path test */
        ABTI_VERIF_BEGIN();
        int verif_state = ABTD_atomic_acquire_load_int(&p_thread->state);
        ABTI_VERIF_END(ABTI_VEV_STATE_LOAD, p_thread, 1, verif_state);
    }
#endif
    if (ABTD_atomic_acquire_load_int(&p_thread->state) ==
        ABT_THREAD_STATE_TERMINATED) {
""")
pat = """    uint32_t req = ABTD_atomic_fetch_or_uint32(&p_ythread->thread.request,
                                               ABTI_THREAD_REQ_JOIN);
    if (req & ABTI_THREAD_REQ_JOIN) {"""
assert s.count(pat) == 1
s = s.replace(pat, """    ABTI_VERIF_BEGIN();
    uint32_t req = ABTD_atomic_fetch_or_uint32(&p_ythread->thread.request,
                                               ABTI_THREAD_REQ_JOIN);
    ABTI_VERIF_END(ABTI_VEV_REQ_OR, &p_ythread->thread, ABTI_THREAD_REQ_JOIN, req);
    if (req & ABTI_THREAD_REQ_JOIN) {""")
pat = """        uint32_t req = ABTD_atomic_fetch_or_uint32(&p_ythread->thread.request,
                                                   ABTI_THREAD_REQ_JOIN);
        if (!(req & ABTI_THREAD_REQ_JOIN)) {"""
assert s.count(pat) == 1
s = s.replace(pat, """        ABTI_VERIF_BEGIN();
        uint32_t req = ABTD_atomic_fetch_or_uint32(&p_ythread->thread.request,
                                                   ABTI_THREAD_REQ_JOIN);
        ABTI_VERIF_END(ABTI_VEV_REQ_OR, &p_ythread->thread, ABTI_THREAD_REQ_JOIN, req);
        if (!(req & ABTI_THREAD_REQ_JOIN)) {""")
pat = """            ABTD_atomic_release_store_ythread_context_ptr(&p_ythread->ctx
                                                               .p_link,
                                                          &dummy_ythread.ctx);
"""
assert s.count(pat) == 1
s = s.replace(pat, "            ABTI_VERIF_BEGIN();\n" + pat + "            ABTI_VERIF_END(ABTI_VEV_LINK_STORE, &p_ythread->thread, &dummy_ythread.thread, 1);\n")
# loop exits: record a read of the state after the loop (TERMINATED is stable until free/revive)
pat = """        ABTD_atomic_pause();
    }
    ABTI_event_thread_join(NULL, p_thread, NULL);"""
assert s.count(pat) == 1
s = s.replace(pat, """        ABTD_atomic_pause();
    }
    ABTI_VERIF_BEGIN();
    ABTI_VERIF_END(ABTI_VEV_STATE_LOAD, p_thread, 2, ABTD_atomic_acquire_load_int(&p_thread->state));
    ABTI_event_thread_join(NULL, p_thread, NULL);""")
pat = """                           ABT_SYNC_EVENT_TYPE_THREAD_JOIN, (void *)p_thread);
    }
    ABTI_event_thread_join(ABTI_xstream_get_local(*pp_local_xstream), p_thread,"""
assert s.count(pat) == 1
s = s.replace(pat, """                           ABT_SYNC_EVENT_TYPE_THREAD_JOIN, (void *)p_thread);
    }
    ABTI_VERIF_BEGIN();
    ABTI_VERIF_END(ABTI_VEV_STATE_LOAD, p_thread, 3, ABTD_atomic_acquire_load_int(&p_thread->state));
    ABTI_event_thread_join(ABTI_xstream_get_local(*pp_local_xstream), p_thread,""")
# ABT_thread_resume: the BLOCKED test
pat = """    ABTI_CHECK_TRUE(ABTD_atomic_acquire_load_int(&p_ythread->thread.state) ==
                        ABT_THREAD_STATE_BLOCKED,
                    ABT_ERR_THREAD);"""
assert s.count(pat) == 1
s = s.replace(pat, """#ifdef ABT_VERIF
    if (ABTI_VERIF_ON()) {
        ABTI_VERIF_BEGIN();
        int verif_state = ABTD_atomic_acquire_load_int(&p_ythread->thread.state);
        ABTI_VERIF_END(ABTI_VEV_STATE_LOAD, &p_ythread->thread, 4, verif_state);
        ABTI_CHECK_TRUE(verif_state == ABT_THREAD_STATE_BLOCKED, ABT_ERR_THREAD);
    }
#endif
""" + pat)
# ABT_thread_get_state
pat = "    *state = (ABT_thread_state)ABTD_atomic_acquire_load_int(&p_thread->state);\n"
assert s.count(pat) == 1
s = s.replace(pat, "    ABTI_VERIF_BEGIN();\n" + pat + "    ABTI_VERIF_END(ABTI_VEV_STATE_LOAD, p_thread, 5, *state);\n")
# migration request
pat = """    ABTD_atomic_relaxed_store_ptr(&p_mig_data->p_migration_pool,
                                  (void *)p_pool);
"""
assert s.count(pat) == 1
s = s.replace(pat, "    ABTI_VERIF_BEGIN();\n" + pat + "    ABTI_VERIF_END(ABTI_VEV_MIG_STORE, p_thread, p_pool, 0);\n")
pat = """    ABTI_pool *p_pool =
        ABTD_atomic_relaxed_load_ptr(&p_mig_data->p_migration_pool);
"""
assert s.count(pat) == 1
s = s.replace(pat, "    ABTI_VERIF_BEGIN();\n" + pat + "    ABTI_VERIF_END(ABTI_VEV_MIG_LOAD, p_thread, p_pool, 0);\n")
pat = "        p_mig_data->f_migration_cb(thread, p_mig_data->p_migration_cb_arg);\n"
assert s.count(pat) == 1
s = s.replace(pat, "        ABTI_VERIF_EV(ABTI_VEV_MIG_CB, p_thread, 0, 0);\n" + pat)
# main scheduler: request loads and the stop decision
pat = """        uint32_t request = ABTD_atomic_acquire_load_uint32(
            &p_sched->p_ythread->thread.request);
"""
assert s.count(pat) == 1
s = s.replace(pat, "        ABTI_VERIF_BEGIN();\n" + pat + "        ABTI_VERIF_END(ABTI_VEV_REQ_LOAD, &p_sched->p_ythread->thread, 2, request);\n")
pat = """    /* Finish this thread and goes back to the root thread. */
"""
assert s.count(pat) == 1
s = s.replace(pat, pat + "    ABTI_VERIF_EV(ABTI_VEV_SCHED_STOP, p_local_xstream->p_main_sched, 0, 0);\n")
# root function: xstream TERMINATED
pat = """    ABTD_atomic_release_store_int(&p_local_xstream->state,
                                  ABT_XSTREAM_STATE_TERMINATED);
"""
assert s.count(pat) == 1
s = s.replace(pat, "    ABTI_VERIF_BEGIN();\n" + pat + "    ABTI_VERIF_END(ABTI_VEV_XSTATE, p_local_xstream, ABT_XSTREAM_STATE_TERMINATED, 0);\n")
open(R + T, "w").write(s)

# ---------------------------------------------------------------- task.c
pat = "    ABTD_atomic_relaxed_store_int(&p_newtask->state, ABT_THREAD_STATE_READY);\n"
s = open(R + "task.c").read()
assert s.count(pat) == 1
s = s.replace(pat, "    ABTI_VERIF_BEGIN();\n" + pat + "    ABTI_VERIF_END(ABTI_VEV_UNIT_INIT, p_newtask, refcount ? ABTI_THREAD_TYPE_NAMED : 0, p_pool);\n")
open(R + "task.c", "w").write(s)

# ---------------------------------------------------------------- abti_unit.h: pool (re)association
U = "include/abti_unit.h"
s = open(R + U).read()
n = s.count("        p_thread->p_pool = p_pool;\n")
s = s.replace("        p_thread->p_pool = p_pool;\n", "        p_thread->p_pool = p_pool;\n        ABTI_VERIF_EV(ABTI_VEV_SET_POOL, p_thread, p_pool, 0);\n")
n2 = s.count("            p_thread->p_pool = p_pool;\n")
s = s.replace("            p_thread->p_pool = p_pool;\n", "            p_thread->p_pool = p_pool;\n            ABTI_VERIF_EV(ABTI_VEV_SET_POOL, p_thread, p_pool, 0);\n")
print("SET_POOL sites:", n, n2)
open(R + U, "w").write(s)
print("done")
