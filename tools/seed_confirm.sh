#!/bin/sh
# usage: seed_confirm.sh <id> [runs]   -- confirms a seeded change delivered in /tmp/seedwork-<id> against its
# scratch worktree /tmp/seed-<id>: (1) with the change the demonstration fails, (2) without it the demonstration
# passes, (3) with the change the pinned test suite passes.  Prints a summary; leaves the worktree WITH the change.
id=$1; runs=${2:-5}
wt=/tmp/seed-$id; sw=/tmp/seedwork-$id; out=$sw/confirm.txt
: > $out
cd $wt || exit 2
bld() { make -j8 >/dev/null 2>&1 || { echo "BUILD FAILED" | tee -a $out; exit 2; };
        gcc -O1 -g -o $sw/demo_confirm $sw/demo.c -I$wt/src/include $EXTRA_LDFLAGS $wt/src/.libs/libabt.a -lpthread -lm 2>>$out || exit 2; }
rundemo() { f=0; i=0; while [ $i -lt $runs ]; do timeout 120 $sw/demo_confirm >$sw/confirm_out.txt 2>&1; rc=$?; [ $rc -ne 0 ] && f=$((f+1)); i=$((i+1)); done; echo "$1: demo failed $f/$runs (last rc=$rc: $(tail -1 $sw/confirm_out.txt | cut -c1-150))" | tee -a $out; }
git diff > $sw/cur.diff
cmp -s $sw/cur.diff $sw/patch.diff || { git checkout -- . ; git apply $sw/patch.diff || exit 2; }
bld; rundemo WITH
git apply -R $sw/patch.diff; bld; rundemo WITHOUT
git apply $sw/patch.diff; bld
( make -C test -j6 check 2>&1 | grep -E "^# (TOTAL|PASS|FAIL|ERROR)" | tr '\n' ' ' ; echo ) | sed "s/^/suite WITH: /" | tee -a $out
