#!/usr/bin/env python3
"""regenerates the table of seeded changes in DESIGN.md (between the SEEDED-TABLE markers) from seeded/*/meta.json"""
import json, glob, os, re
V = os.path.dirname(os.path.dirname(os.path.abspath(__file__)))
rows = []
for mp in sorted(glob.glob(os.path.join(V, "seeded", "*", "meta.json"))):
    m = json.load(open(mp))
    d = os.path.basename(os.path.dirname(mp))
    res = []
    for p, c in sorted(m.get("checks", {}).items()):
        if c["caught"]:
            res.append("%s: caught (%s)" % (p, "failing input" if c["found_failing_input"] else "no-failing-input-found"))
        else:
            res.append("%s: not caught" % p)
    hist = m.get("history", "")
    rows.append("| `%s` | %s | %s | %s |%s" % (d, m["summary"].replace("|", "/"), m["needs_to_manifest"].replace("|", "/"),
                                           "; ".join(res), (" " + hist) if hist else ""))
tab = "| seeded/ | change | needs to manifest | quick checks (seed 1) |\n|---|---|---|---|\n" + "\n".join(rows) + "\n"
p = os.path.join(V, "DESIGN.md")
s = open(p).read()
s2 = re.sub(r"(<!-- SEEDED-TABLE-BEGIN -->\n).*?(<!-- SEEDED-TABLE-END -->)", lambda mo: mo.group(1) + tab + mo.group(2), s, flags=re.S)
open(p, "w").write(s2)
print(tab)
