#!/usr/bin/env python3
"""MANIFEST.setup_cmd: build the whole Coq development (full .vo), extract, build all OCaml drivers."""
import sys, os, glob
sys.path.insert(0, os.path.dirname(os.path.abspath(__file__)))
import vlib

def main():
    vlib.gen_coqproject()
    ok, log = vlib.coq_make(["all"], keep_going=False, timeout=7200)
    if not ok:
        print(log)
        print("SETUP: Coq build failed")
        return 1
    bad = vlib.grep_forbidden()
    if bad:
        print("SETUP: forbidden constructs:", bad)
        return 1
    rc = 0
    for d in sorted(glob.glob(os.path.join(vlib.OCAML, "drv_*.ml"))):
        prop = os.path.basename(d)[4:-3]
        ok, exe, err = vlib.build_driver(prop)
        print("driver", prop, "ok" if ok else "FAILED\n" + err)
        rc |= 0 if ok else 1
    print("SETUP: done")
    return rc

if __name__ == "__main__":
    sys.exit(main())
