#!/usr/bin/env python3
"""MANIFEST.setup_cmd: build the Coq development of every claimed property (full .vo), extract,
build the OCaml drivers.  Files of properties that are still under construction (not listed in
tools/claimed.txt) are not built here; `make -C coq all` builds everything."""
import sys, os, glob, importlib
sys.path.insert(0, os.path.dirname(os.path.abspath(__file__)))
import vlib


def main():
    claimed = [l.strip() for l in open(os.path.join(vlib.VERIF, "tools", "claimed.txt")) if l.strip() and not l.startswith("#")]
    targets, drivers = [], []
    for pid in claimed:
        mod = importlib.import_module("props." + pid.lower())
        targets += getattr(mod, "COQ_TARGETS", ["Properties_%s.vo" % pid, "Extract_%s.vo" % pid])
        drivers += getattr(mod, "DRIVERS", [pid.lower()])
        pre = getattr(mod, "pre_setup", None)
        if pre:
            pre()
    vlib.gen_coqproject()
    ok, log = vlib.coq_make(sorted(set(targets)), keep_going=False, timeout=7200)
    if not ok:
        print(log)
        print("SETUP: Coq build failed")
        return 1
    closure = set(vlib.coq_dep_closure([t[:-1] for t in targets]))
    bad = vlib.grep_forbidden(only=closure)
    if bad:
        print("SETUP: forbidden constructs:", bad)
        return 1
    rc = 0
    for prop in sorted(set(drivers)):
        ok, exe, err = vlib.build_driver(prop)
        print("driver", prop, "ok" if ok else "FAILED\n" + err)
        rc |= 0 if ok else 1
    print("SETUP: done (%d properties, %d Coq files)" % (len(claimed), len(closure)))
    return rc


if __name__ == "__main__":
    sys.exit(main())
