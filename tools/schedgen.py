"""Scenario generators for the scheduler / life-cycle harness (harness/h_sched.c)."""
import random

SCHEDS = ["default", "basic", "basic_wait", "prio", "randws"]


class Scn:
    def __init__(self, rng, nes, pools):
        self.rng = rng
        self.lines = ["SEED %d" % rng.randint(1, 10**9), "WATCHDOG 25"]
        self.units = []      # (kind, named, pool, ops)
        self.ext = []
        self.main = []
        self.pools = list(pools)
        self.npool = len(pools)
        self.es_lines = []
        self.nes = nes

    def es(self, i, sched, pools):
        self.es_lines.append("ES %d %s %s" % (i, sched, ",".join(map(str, pools))))

    def unit(self, kind, named, pool, ops):
        self.units.append([kind, named, pool, list(ops)])
        return len(self.units) - 1

    def add_pool(self, kind="fifo", acc="mpmc"):
        """a pool served by no stream (parking pool for targets of directed switches)"""
        self.pools.append((kind, acc))
        return len(self.pools) - 1

    def text(self):
        out = list(self.lines) + ["POOL %d %s" % (i, " ".join(pl)) for i, pl in enumerate(self.pools)] + self.es_lines
        for i, (k, n, p, ops) in enumerate(self.units):
            out.append("UNIT %d %s %s %d : %s" % (i, k, n, p, " ".join(ops)))
        for i, ops in enumerate(self.ext):
            out.append("EXT %d : %s" % (i, " ".join(ops)))
        out.append("MAIN : " + " ".join(self.main))
        return "\n".join(out) + "\n"


def topology(rng, max_es=3):
    """streams and pools: every pool is consumed by exactly one stream (num_scheds == 1) unless 'shared'"""
    nes = rng.randint(0, max_es)
    pools = []
    es = []
    for e in range(1, nes + 1):
        np_ = 1   # one pool per stream: every predefined scheduler serves pools[0] first, so a yield-looping unit in pools[0] starves pools[1..]
        mine = []
        for _ in range(np_):
            kind = rng.choice(["fifo", "fifo", "fifo_wait", "randws"])
            acc = rng.choice(["mpmc", "mpmc", "mpsc"])
            pools.append((kind, acc))
            mine.append(len(pools) - 1)
        es.append((e, rng.choice(SCHEDS), mine))
    return nes, pools, es


def pick_pool(rng, npool):
    # 99 = the primary stream's main pool
    return rng.choice([99] + list(range(npool)) * 2) if npool else 99


def gen_basic(rng, big=False):
    """C01 family: named/unnamed ULTs and tasklets, created by main, units and external threads; yields; joins; frees"""
    nes, pools, es = topology(rng)
    s = Scn(rng, nes, pools)
    for e, sch, mine in es:
        s.es(e, sch, mine)
    npool = len(pools)
    nroots = rng.randint(1, 6 if big else 4)
    def body(depth):
        ops = []
        for _ in range(rng.randint(0, 5)):
            ops.append(rng.choice(["Y", "Y", "W"]))
        return ops
    def make(depth, creator_ops):
        kind = rng.choice(["U", "U", "U", "T"])
        named = rng.choice(["N", "A"])
        ops = [] if kind == "T" else body(depth)
        if kind == "T":
            ops = ["W"] * rng.randint(0, 2)
        u = s.unit(kind, named, pick_pool(rng, npool), ops)
        creator_ops.append("C%d" % u)
        if kind == "U" and depth < 2 and rng.random() < 0.5:
            for _ in range(rng.randint(1, 2)):
                child_ops = s.units[u][3]
                make(depth + 1, child_ops)
                if rng.random() < 0.5:
                    child_ops.append("Y")
        if named == "N":
            creator_ops.append(rng.choice(["F%d" % u, "J%d F%d" % (u, u)]) if rng.random() < 0.8 else "Y F%d" % u)
        return u
    for _ in range(nroots):
        make(0, s.main)
    # an external thread that creates and joins its own units
    if rng.random() < 0.5 and npool:
        ops = []
        for _ in range(rng.randint(1, 3)):
            u = s.unit(rng.choice(["U", "T"]), "N", rng.randrange(npool), ["Y"] if rng.random() < 0.5 else [])
            if s.units[u][0] == "T":
                s.units[u][3] = []
            ops += ["C%d" % u, rng.choice(["J%d F%d" % (u, u), "F%d" % u])]
        s.ext.append(" ".join(ops).split())
    # fix-up: split multi-token entries
    s.main = " ".join(s.main).split()
    for u in s.units:
        u[3] = " ".join(u[3]).split()
    return s.text()


def gen_steal(rng, big=False):
    """work stealing: 2-3 streams with RANDWS schedulers; each serves its own RANDWS pool first and steals from the
    tail of the others' pools (ABT_POOL_CONTEXT_OWNER_SECONDARY); bursts of 3-8 units land in one pool so that the
    victims hold several units when they are robbed; the stolen units yield (pushed back to their own pool)"""
    nes = rng.choice([2, 2, 3])
    pools = [("randws", "mpmc") for _ in range(nes)]
    s = Scn(rng, nes, pools)
    for e in range(1, nes + 1):
        others = [p for p in range(nes) if p != e - 1]
        rng.shuffle(others)
        s.es(e, "randws", [e - 1] + others)
    for _ in range(rng.randint(1, 3 if big else 2)):
        victim = rng.randrange(nes)
        burst = []
        for _ in range(rng.randint(3, 8)):
            kind = rng.choice(["U", "U", "U", "T"])
            ops = ["W"] if kind == "T" else [rng.choice(["Y", "W", "Y"]) for _ in range(rng.randint(1, 4))]
            u = s.unit(kind, "N", victim, ops)
            burst.append(u)
            s.main.append("C%d" % u)
        s.main += ["Y"] * rng.randint(0, 2)
        rng.shuffle(burst)
        s.main += [rng.choice(["F%d" % u, "J%d F%d" % (u, u)]) for u in burst]
    s.main = " ".join(s.main).split()
    return s.text()


def gen_spsc(rng, big=False):
    """single-producer / single-consumer pools used within their contract: the primary ULT is the only producer, one
    secondary stream the only consumer, the units never yield (a yield would make the consumer a second producer);
    bursts of creations overlap with the consumer's pops"""
    nes = rng.choice([1, 2])
    kinds = [rng.choice(["fifo", "fifo", "fifo_wait", "randws"]) for _ in range(nes)]
    pools = [(k, "spsc") for k in kinds]
    s = Scn(rng, nes, pools)
    for e in range(1, nes + 1):
        s.es(e, rng.choice(["basic", "basic_wait", "default"]), [e - 1])
    named = []
    for _ in range(rng.randint(20, 60 if big else 40)):
        kind = rng.choice(["U", "T", "T"])
        nm = rng.choice(["N", "A", "A"])
        u = s.unit(kind, nm, rng.randrange(nes), ["W"] * rng.randint(0, 2))
        s.main.append("C%d" % u)
        if nm == "N":
            named.append(u)
        if rng.random() < 0.1:
            s.main.append("W")
    rng.shuffle(named)
    s.main += ["F%d" % u for u in named]
    return s.text()


def gen_suspend(rng, big=False):
    """C11 family (suspend/resume): named ULTs suspend; main, helper ULTs on other streams or external threads
    poll for BLOCKED and resume at once"""
    nes, pools, es = topology(rng)
    s = Scn(rng, nes, pools)
    for e, sch, mine in es:
        s.es(e, sch, mine)
    npool = len(pools)
    n = rng.randint(1, 5 if big else 3)
    frees = []
    for _ in range(n):
        k = rng.randint(1, 3)
        ops = []
        for _ in range(k):
            ops += [rng.choice(["W", "Y"]), "S"]
        ops.append("W")
        u = s.unit("U", "N", pick_pool(rng, npool), ops)
        s.main.append("C%d" % u)
        who = rng.choice(["main", "helper", "ext"]) if npool else "main"
        rops = ["R%d" % u] * k
        if who == "main":
            s.main += rops
        elif who == "helper":
            h = s.unit("U", "N", pick_pool(rng, npool), rops)
            s.main.append("C%d" % h)
            frees.append(h)
        else:
            s.ext.append(rops)
        frees.append(u)
    rng.shuffle(frees)
    s.main += ["F%d" % u for u in frees]
    return s.text()


def gen_join(rng, big=False):
    """C03 family: join issued before / during / after termination by ULT (same or other stream), external thread,
    tasklet-free; targets that return, exit, block first or are cancelled"""
    nes, pools, es = topology(rng)
    s = Scn(rng, nes, pools)
    for e, sch, mine in es:
        s.es(e, sch, mine)
    npool = len(pools)
    n = rng.randint(1, 6 if big else 4)
    for _ in range(n):
        behaviour = rng.choice(["ret", "ret", "exit", "yield", "cancel", "task"])
        if behaviour == "task":
            t = s.unit("T", "N", pick_pool(rng, npool), ["W"])
        else:
            ops = {"ret": ["W"], "exit": ["Y", "X"], "yield": ["Y", "Y", "W", "Y"], "cancel": ["Y"] * 6}[behaviour]
            t = s.unit("U", "N", pick_pool(rng, npool), ops)
        timing = rng.choice(["early", "late", "mid"])
        joiner = rng.choice(["main", "ult", "ext"]) if npool else rng.choice(["main", "ult"])
        pre = {"early": [], "mid": ["Y"], "late": ["D%d" % t]}[timing]
        jops = pre + [rng.choice(["J%d F%d" % (t, t), "F%d" % t])]
        jops = " ".join(jops).split()
        if behaviour == "cancel":
            jops = ["K%d" % t] + jops
        if joiner == "main":
            s.main += ["C%d" % t] + jops
        elif joiner == "ult":
            j = s.unit("U", "N", pick_pool(rng, npool), ["C%d" % t] + jops)
            s.main += ["C%d" % j, "F%d" % j]
        else:
            s.ext.append(["C%d" % t] + jops)
    if rng.random() < 0.5:
        # the _many variants, with ABT_THREAD_NULL holes in the list: every listed unit is joined / freed
        us = []
        for _ in range(rng.randint(2, 4)):
            kind = rng.choice("UUT")
            us.append(s.unit(kind, "N", pick_pool(rng, npool), ["W"] if kind == "T" else [rng.choice(["Y", "Y", "W"]) for _ in range(rng.randint(1, 24))]))
        s.main += ["C%d" % u for u in us]
        ent = [str(u) for u in us]
        for _ in range(rng.randint(0, 2)):
            ent.insert(rng.randrange(len(ent) + 1), "_")
        if rng.random() < 0.6:
            s.main.append("N" + ".".join(ent))
            s.main.append("E" + ".".join(ent) if rng.random() < 0.5 else " ".join("F%d" % u for u in us))
        else:
            s.main.append("E" + ".".join(ent))
        s.main = " ".join(s.main).split()
    return s.text()


def gen_join_shared(rng, big=False):
    """C03 family: a ULT joiner in a pool served by two streams joins / frees several still-running targets of another
    stream (single calls or the _many variants): it blocks on one stream and usually resumes on the other one, and
    has to carry on with the right stream context; a busy bystander runs in the shared pool meanwhile"""
    pools = [("fifo", "mpmc"), (rng.choice(["fifo", "fifo_wait", "randws"]), "mpmc")]
    s = Scn(rng, 3, pools)
    s.es(1, rng.choice(["basic", "default", "prio"]), [0])
    s.es(2, rng.choice(["basic", "default", "prio"]), [0])
    s.es(3, rng.choice(["basic", "default", "basic_wait"]), [1])
    ts = [s.unit("U", "N", 1, [rng.choice(["Y", "Y", "W"]) for _ in range(rng.randint(8, 30))]) for _ in range(rng.randint(2, 4))]
    ent = [str(t) for t in ts]
    for _ in range(rng.randint(0, 1)):
        ent.insert(rng.randrange(len(ent) + 1), "_")
    how = rng.choice(["join_many", "free_many", "single"])
    if how == "join_many":
        jops = ["N" + ".".join(ent)] + ["F%d" % t for t in ts]
    elif how == "free_many":
        jops = ["E" + ".".join(ent)]
    else:
        jops = [rng.choice(["F%d" % t, "J%d F%d" % (t, t)]) for t in ts]
    j = s.unit("U", "N", 0, " ".join(jops).split())
    w = s.unit("U", "N", 0, [rng.choice(["W", "W", "Y"]) for _ in range(rng.randint(10, 40))])
    s.main += ["C%d" % t for t in ts] + ["C%d" % w, "C%d" % j, "F%d" % j, "F%d" % w]
    return s.text()


def topo_with_parking(rng):
    nes, pools, es = topology(rng, max_es=2)
    pools = list(pools) + [("fifo", "mpmc")]          # last pool: parking pool, served by no stream
    return nes, pools, es, len(pools) - 1


def gen_directed(rng, big=False):
    """C11 family (directed switches): chains built from yield_to, thread_yield_to, suspend_to, resume_yield_to,
    resume_suspend_to, exit_to, resume_exit_to, create_to; targets started or not, same or different pools"""
    nes, pools, es = topology(rng, max_es=2)
    s = Scn(rng, nes, pools)
    for e, sch, mine in es:
        s.es(e, sch, mine)
    sched_pools = [99] + [m for _, _, mine in es for m in mine]
    frees = []
    for _ in range(rng.randint(1, 5 if big else 3)):
        park = s.add_pool()      # one parking pool per chain: two takers on one pool can hide each other's target
        tpl = rng.choice(["yield_to", "thread_yield_to", "suspend_to", "resume_yield_to", "resume_suspend_to",
                          "exit_to", "resume_exit_to", "create_to"])
        apool = rng.choice(sched_pools)
        if tpl in ("yield_to", "thread_yield_to"):
            op = "y" if tpl == "yield_to" else "t"
            nb = rng.randint(1, 3)
            bs = []
            aops = ["W"]
            for _ in range(nb):
                yields = rng.choice([0, 0, 1, 2])
                b = s.unit("U", "N", park, ["W"] + ["Y"] * yields)
                bs.append(b)
                s.main.append("C%d" % b)
                aops += ["%s%d" % (op, b)] * (yields + 1)
            a = s.unit("U", "N", apool, aops + ["W"])
            s.main.append("C%d" % a)
            frees += [a] + bs
        elif tpl == "suspend_to":
            a = s.unit("U", "N", apool, [])
            b = s.unit("U", "N", park, ["R%d" % a, "W"])
            s.units[a][3] = ["W", "s%d" % b, "W"]
            s.main += ["C%d" % b, "C%d" % a]
            frees += [a, b]
        elif tpl == "resume_yield_to":
            b = s.unit("U", "N", rng.choice(sched_pools), ["W", "S", "W"])
            a = s.unit("U", "N", apool, ["r%d" % b, "W"])
            if rng.random() < 0.35:
                # the caller has asked for its own cancellation: the switch's callback terminates it; the bookkeeping
                # for the resumed unit (its count is dropped) must be done all the same
                # (it first waits for the target to be blocked: a yield made while polling would serve the cancel early)
                s.units[a][3] = ["B%d" % b, "K%d" % a, "r%d" % b, "W"]
            s.main += ["C%d" % b, "C%d" % a]
            frees += [a, b]
        elif tpl == "resume_suspend_to":
            a = s.unit("U", "N", apool, [])
            b = s.unit("U", "N", rng.choice(sched_pools), ["S", "R%d" % a, "W"])
            s.units[a][3] = ["u%d" % b, "W"]
            s.main += ["C%d" % b, "C%d" % a]
            frees += [a, b]
        elif tpl == "exit_to":
            b = s.unit("U", "N", park, ["W"])
            a = s.unit("U", "N", apool, ["W", "e%d" % b])
            s.main += ["C%d" % b, "C%d" % a]
            frees += [a, b]
        elif tpl == "resume_exit_to":
            b = s.unit("U", "N", rng.choice(sched_pools), ["S", "W"])
            a = s.unit("U", "N", apool, ["W", "x%d" % b])
            s.main += ["C%d" % b, "C%d" % a]
            frees += [a, b]
        else:
            b = s.unit("U", rng.choice(["N", "A"]), rng.choice(sched_pools), ["W"] + ["Y"] * rng.choice([0, 1]))
            a = s.unit("U", "N", apool, ["W", "c%d" % b, "W"])
            s.main.append("C%d" % a)
            frees.append(a)
            if s.units[b][1] == "N":
                frees.append(b)
    # free in creation-independent order, but a unit created by another unit (create_to) must exist: free creators first
    s.main += ["F%d" % u for u in frees]
    return s.text()


def gen_lifecycle(rng, big=False):
    """C12 family: cancel before / during execution, exit, revive cycles, tasklets"""
    nes, pools, es = topology(rng)
    s = Scn(rng, nes, pools)
    for e, sch, mine in es:
        s.es(e, sch, mine)
    npool = len(pools)
    for _ in range(rng.randint(1, 5 if big else 3)):
        what = rng.choice(["cancel_early", "cancel_mid", "cancel_task", "exit", "revive", "revive_task", "cancel_revive", "cancel_revive",
                           "cancel_then_fresh"])
        pool = pick_pool(rng, npool)
        if what == "cancel_early":
            t = s.unit("U", "N", pool, ["Y"] * 3)
            s.main += ["C%d" % t, "K%d" % t, "F%d" % t]
        elif what == "cancel_mid":
            t = s.unit("U", "N", pool, ["Y"] * rng.randint(6, 14))
            s.main += ["C%d" % t] + ["Y"] * rng.randint(0, 3) + ["K%d" % t, rng.choice(["F%d" % t, "J%d F%d" % (t, t)])]
        elif what == "cancel_task":
            t = s.unit("T", "N", pool, ["W"])
            s.main += ["C%d" % t, "K%d" % t, "F%d" % t]
        elif what == "exit":
            t = s.unit("U", rng.choice(["N", "A"]), pool, ["W"] + ["Y"] * rng.randint(0, 2) + ["X"])
            s.main.append("C%d" % t)
            if s.units[t][1] == "N":
                s.main.append("F%d" % t)
        elif what == "cancel_then_fresh":
            # a cancelled unit is freed and a new unit is created right away (it gets the recycled descriptor): the new
            # one starts with no request and runs exactly once
            k1 = rng.choice("TTU")
            t = s.unit(k1, "N", pool, ["W"] if k1 == "T" else ["Y"] * 3)
            s.main += ["C%d" % t, "K%d" % t, "F%d" % t]
            for _ in range(rng.randint(1, 3)):
                t2 = s.unit(rng.choice("TTU"), rng.choice("NNA"), pool, ["W"])
                s.main.append("C%d" % t2)
                if s.units[t2][1] == "N":
                    s.main.append("F%d" % t2)
        elif what == "cancel_revive":
            # a unit that was cancelled (before it ran, while it ran, or after it had finished) is revived: the new
            # incarnation starts with no request and runs exactly once
            kind = rng.choice("UUT")
            t = s.unit(kind, "N", pool, ["W"] if kind == "T" else ["Y"] * rng.choice([0, 3, 8]))
            s.main += ["C%d" % t] + ["Y"] * rng.randint(0, 2) + ["K%d" % t]
            for _ in range(rng.randint(1, 3)):
                s.main += ["J%d" % t, "V%d" % t]
                if rng.random() < 0.3:
                    s.main += ["Y"] * rng.randint(0, 2) + ["K%d" % t]
            s.main.append("F%d" % t)
        elif what == "revive":
            t = s.unit("U", "N", pool, ["W"] + ["Y"] * rng.randint(0, 2))
            s.main += ["C%d" % t]
            for _ in range(rng.randint(1, 4)):
                s.main += ["J%d" % t, "V%d" % t]
            s.main.append("F%d" % t)
        else:
            t = s.unit("T", "N", pool, ["W"])
            s.main += ["C%d" % t, "J%d" % t, "V%d" % t, "J%d" % t, "V%d" % t, "F%d" % t]
    s.main = " ".join(s.main).split()
    return s.text()


def gen_migrate(rng, big=False, self_suspend=False):
    """C13 family: migration requests (external, self, repeated) handled at yields and at scheduling"""
    nes, pools, es = topology(rng, max_es=2)
    while nes < 1:
        nes, pools, es = topology(rng, max_es=2)
    s = Scn(rng, nes, pools)
    for e, sch, mine in es:
        s.es(e, sch, mine)
    sched_pools = [99] + [m for _, _, mine in es for m in mine]
    for _ in range(rng.randint(1, 4 if big else 2)):
        src = rng.choice(sched_pools)
        dst = rng.choice([p for p in sched_pools if p != src])
        how = rng.choice(["ext", "self", "twice", "auto", "reject_same", "again", "attr_cb"]) if not self_suspend else "self_suspend"
        if how == "ext":
            t = s.unit("U", "N", src, ["Y"] * rng.randint(4, 10))
            s.main += ["C%d" % t, "M%d:%d" % (t, dst), "F%d" % t]
        elif how == "self":
            t = s.unit("U", "N", src, [])
            s.units[t][3] = ["W", "M%d:%d" % (t, dst), "Y", "W", "Y"]
            s.main += ["C%d" % t, "F%d" % t]
        elif how == "auto":
            # ABT_thread_migrate: some other running stream that does not serve the unit's pool must be chosen
            t = s.unit("U", "N", src, ["Y"] * rng.randint(4, 8))
            s.main += ["C%d" % t, "m%d" % t, "F%d" % t]
        elif how == "reject_same":
            t = s.unit("U", "N", src, ["Y"] * 3)
            s.main += ["C%d" % t, "M%d:%d" % (t, src), "F%d" % t]
        elif how == "again":
            # migrated to dst, finished, revived into its first pool, then asked to migrate to dst once more: the
            # second request names the target of the first one and must be performed all the same
            t = s.unit("U", "N", src, ["Y"] * rng.randint(3, 6))
            s.main += ["C%d" % t, "M%d:%d" % (t, dst), "J%d" % t, "V%d" % t, "M%d:%d" % (t, dst), "F%d" % t]
            # (no final-pool check: the revived unit may finish before the second request is issued; what is checked is
            # that an acknowledged request was stored - driver monitor "returned-0-without-storing-the-request")
        elif how == "attr_cb":
            # created non-migratable with the callback in the attribute, made migratable later, migrated by its own
            # request: the callback runs (final-pool / callback-count record 'p')
            t = s.unit("U", "N", src, [])
            s.units[t][3] = ["n%d" % t, "M%d:%d" % (t, dst), "Y", "W", "Y"]
            s.main += ["a%d" % t, "J%d" % t, "p%d" % t, "F%d" % t]
        elif how == "twice":
            t = s.unit("U", "N", src, [])
            s.units[t][3] = ["M%d:%d" % (t, dst), "Y", "M%d:%d" % (t, src), "Y", "W"]
            s.main += ["C%d" % t, "F%d" % t]
        else:
            t = s.unit("U", "N", src, [])
            s.units[t][3] = ["M%d:%d" % (t, dst), "S", "W"]
            s.main += ["C%d" % t, "R%d" % t, "F%d" % t]
    return s.text()


def gen_xjoin(rng, big=False):
    """C06 family: ABT_xstream_join is requested while units of that stream's pool are blocked (suspended / joining /
    waiting to be resumed by another stream) and are resumed only afterwards; the join must return only when they are done"""
    nes, pools, es = topology(rng, max_es=3)
    while nes < 1:
        nes, pools, es = topology(rng, max_es=3)
    s = Scn(rng, nes, pools)
    for e, sch, mine in es:
        s.es(e, sch, mine)
    tgt_es, _, tgt_pools = rng.choice(es)
    p = tgt_pools[0]
    units = []
    for _ in range(rng.randint(1, 4 if big else 3)):
        k = rng.randint(1, 2)
        ops = ["W"]
        for _ in range(k):
            ops += ["S", rng.choice(["W", "Y"])]
        u = s.unit("U", "N", p, ops)
        units.append((u, k))
        s.main.append("C%d" % u)
    # wait until they are all blocked, then ask for the join from an external thread, then resume them
    s.main += ["B%d" % u for u, _ in units]
    # (the external thread starts with the scenario: it waits for the same condition itself, otherwise its request can
    # reach a stream whose pools are still empty, which then stops before the units are pushed - a legal outcome)
    s.ext.append(["B%d" % u for u, _ in units] + ["j%d" % tgt_es])
    s.main += ["W"] * rng.randint(0, 3) + ["Y"] * rng.randint(0, 3)
    order = []
    for u, k in units:
        order += [u] * k
    rng.shuffle(order)
    s.main += ["R%d" % u for u in order]
    s.main += ["F%d" % u for u, _ in units]
    return s.text()


def gen_replace(rng, big=False):
    """C06 / C17 (scheduler replacement): a ULT running on a secondary stream replaces the stream's main scheduler
    (ABT_xstream_set_main_sched_basic over a fresh pool) - before or after somebody has asked to join the stream; the
    join must still return, and only after the ULT has finished"""
    s = Scn(rng, 1, [(rng.choice(["fifo", "fifo_wait", "randws"]), "mpmc")])
    s.lines[1] = "WATCHDOG 10"
    s.es(1, rng.choice(["basic", "default", "prio", "randws", "basic_wait"]), [0])
    newp = s.add_pool(rng.choice(["fifo", "fifo_wait"]), "mpmc")
    late = rng.random() < 0.6
    pre = [rng.choice(["W", "Y"]) for _ in range(rng.randint(0, 2))]
    post = [rng.choice(["W", "Y", "Y"]) for _ in range(rng.randint(0, 4))]
    u = s.unit("U", "N", 0, pre + (["q1"] if late else []) + ["z1:%d" % newp] + post)
    s.main += ["C%d" % u]
    if late:
        # the join request is posted first, the replacement comes second
        # (the external thread starts with the scenario: it waits until the unit runs, otherwise its request can reach
        # a stream whose pool is still empty, which then stops before the unit is pushed - a legal outcome)
        s.ext.append(["d%d" % u, "j1"])
        s.main += ["F%d" % u]
    else:
        s.main += ["Y"] * rng.randint(0, 3) + ["F%d" % u]
    return s.text()


def gen_replace_keep(rng, big=False):
    """C06 / C01 (a pool that outlives a scheduler): the stream's pool is user-managed; a ULT replaces the main scheduler
    by a new one over the SAME pool (the old scheduler is freed and must give up its share of the pool); afterwards
    units of the pool block, the stream is joined from outside, and the units are resumed only then: the join must
    return only when they are done (the pool is served by this one scheduler, so its blocked units count)"""
    s = Scn(rng, 1, [(rng.choice(["fifo", "fifo_wait", "randws"]), "mpmc", "user")])
    s.lines[1] = "WATCHDOG 10"
    s.es(1, rng.choice(["basic", "default", "prio", "randws", "basic_wait"]), [0])
    pre = [rng.choice(["W", "Y"]) for _ in range(rng.randint(0, 2))]
    post = [rng.choice(["W", "Y"]) for _ in range(rng.randint(0, 2))]
    r = s.unit("U", "N", 0, pre + ["z1:0"] + post)
    s.main += ["C%d" % r, "F%d" % r]
    units = []
    for _ in range(rng.randint(1, 2)):
        u = s.unit("U", "N", 0, ["W", "S", rng.choice(["W", "Y"])])
        units.append(u)
        s.main.append("C%d" % u)
    s.main += ["B%d" % u for u in units]
    s.ext.append(["B%d" % u for u in units] + ["j1"])
    s.main += ["W"] * rng.randint(1, 4) + ["Y"] * rng.randint(0, 3)
    rng.shuffle(units)
    s.main += ["R%d" % u for u in units] + ["F%d" % u for u in units]
    return s.text()


def gen_f6(rng, big=False):
    """finding F6: a second migration request issued while the first one is being handled (between the handler's read
    of the target and its clearing of the request bit) is acknowledged with ABT_SUCCESS and never performed"""
    s = Scn(rng, 2, [("fifo", "mpmc"), ("fifo", "mpmc")])
    s.lines.append("# F6")
    s.es(1, "basic", [0])
    s.es(2, "basic", [1])
    u = s.unit("U", "N", 99, [])
    if rng.random() < 0.5:
        s.units[u][3] = ["b%d!" % u, "M%d:0" % u, "Y", "Y", "Y", "Y"]
        h = s.unit("U", "N", 1, ["w", "M%d:1" % u, "o"])
    else:
        # the second request is issued right after the callback has been let go: it lands while the handler finishes
        # (around its clearing of the request bit) or just after; the unit keeps away from its next scheduling point
        # until the requester has finished, so an acknowledged request always has one left
        h = s.unit("U", "N", 1, ["w", "o", "M%d:1" % u])
        s.units[u][3] = ["b%d!" % u, "M%d:0" % u, "Y", "Z%d" % h, "Y", "Y", "Y"]
    s.main += ["C%d" % u, "C%d" % h, "F%d" % h, "D%d" % u, "p%d" % u, "F%d" % u]
    return s.text()


def gen_mig_switch(rng, big=False):
    """a pending (self-)migration handled inside the callback of a directed switch: old ABT_thread_yield_to (pre-increment
    / decrement of the caller's pool), self_yield_to, resume_yield_to, suspend_to, resume_suspend_to"""
    nes, pools, es = topology(rng, max_es=2)
    while nes < 1:
        nes, pools, es = topology(rng, max_es=2)
    s = Scn(rng, nes, pools)
    for e, sch, mine in es:
        s.es(e, sch, mine)
    sched_pools = [99] + [m for _, _, mine in es for m in mine]
    frees = []
    for _ in range(rng.randint(1, 3)):
        src = rng.choice(sched_pools)
        dst = rng.choice([p for p in sched_pools if p != src])
        how = rng.choice(["thread_yield_to", "thread_yield_to", "yield_to", "suspend_to", "resume_yield_to"])
        park = s.add_pool()
        if how in ("thread_yield_to", "yield_to"):
            b = s.unit("U", "N", park, ["W"])
            u = s.unit("U", "N", src, [])
            s.units[u][3] = ["W", "M%d:%d" % (u, dst), ("t%d" if how == "thread_yield_to" else "y%d") % b, "W", "Y", "W"]
            s.main += ["C%d" % b, "C%d" % u]
            frees += [u, b]
        elif how == "suspend_to":
            u = s.unit("U", "N", src, [])
            b = s.unit("U", "N", park, ["R%d" % u, "W"])
            s.units[u][3] = ["M%d:%d" % (u, dst), "s%d" % b, "W"]
            s.main += ["C%d" % b, "C%d" % u]
            frees += [u, b]
        else:
            b = s.unit("U", "N", rng.choice(sched_pools), ["W", "S", "W"])
            u = s.unit("U", "N", src, [])
            s.units[u][3] = ["M%d:%d" % (u, dst), "r%d" % b, "W"]
            s.main += ["C%d" % b, "C%d" % u]
            frees += [u, b]
    s.main += ["F%d" % x for x in frees]
    return s.text()
