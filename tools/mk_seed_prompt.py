#!/usr/bin/env python3
"""usage: mk_seed_prompt.py <PROP> <name> [hint...]  -> prints the prompt for a seeding sub-agent working in
/tmp/seed-<name> (worktree) and /tmp/seedwork-<name> (deliverables).  Only the property text is given to the agent."""
import sys, json
pid, name = sys.argv[1], sys.argv[2]
hint = " ".join(sys.argv[3:])
p = None
for l in open('/verif/properties.jsonl'):
    d = json.loads(l)
    if d['id'] == pid: p = d
a = p['anchors']
mech = "; ".join("%s (%s)" % (m['name'], m['where']) for m in a.get('mechanism', []))
wt, sw = "/tmp/seed-" + name, "/tmp/seedwork-" + name
print(f"""You are testing how well a verification suite detects subtle bugs. You get one semantic property of the C library pmodels/argobots (a user-level threading runtime) and a scratch git worktree of the library at {wt} (already configured and built with ./configure && make; the unit tests are built: `make -C {wt}/test -j8 check` runs all 119 tests in about a minute and they currently all pass). Work ONLY inside {wt} (and {sw} for your own files; create it); never touch /repo or /verif and do not look into /verif.

The property ({pid} — {p['title']}):
  Statement: {p['statement']}
  Holds for: {p['quantifier']['text']}
  Why the existing tests cannot settle it: {p['why_tests_cant']}
  Code it is anchored in: {', '.join(a['files'])}
  Mechanisms meant to make it hold: {mech}

Your job: make ONE small change to the library source under {wt}/src (a realistic bug a maintainer could introduce: a reordering, a dropped or misplaced update, an off-by-one, a wrong condition on a rarely taken path, two sites that each look fine alone) that BREAKS this property while (1) the library still compiles without new warnings-as-errors, (2) the existing test suite still passes completely (run `make -C {wt} -j16 && make -C {wt}/test -j8 check` and check the PASS/FAIL totals; run it twice if your bug is timing dependent), and (3) the bug needs something specific to manifest — a particular interleaving, a multi-step sequence of operations, an unusual input or configuration, a fault at a particular point — NOT something that ordinary use exposes at once. Lines inside `#ifdef ABT_VERIF` / `ABTI_VERIF_*(...)` macros are inactive instrumentation: leave them exactly as they are and do not count on them (if you move a statement that has such a line attached directly before/after it, move them together). {hint}
Then write a demonstration: a small C program (or test) under {sw}/ that links against the library built in {wt} (e.g. `gcc demo.c -I{wt}/src/include {wt}/src/.libs/libabt.a -lpthread -lm`), which FAILS (non-zero exit, hang detected by its own timeout/alarm, crash, or wrong printed result) with your change and PASSES without it. Verify both, rebuilding the library each time; to take your change out and put it back use `git -C {wt} diff > {sw}/patch.diff; git -C {wt} apply -R {sw}/patch.diff` and later `git -C {wt} apply {sw}/patch.diff` — do NOT use `git stash` (the stash is shared with other worktrees of the same repository and other people use it concurrently). If the failure is probabilistic, make the demo loop until it hits it or report the observed rate; the demo should finish within about a minute.
Deliver, in {sw}/: patch.diff (`git -C {wt} diff > patch.diff`, must apply with `git apply` to a clean checkout of the same commit), demo.c (+ build/run instructions in a comment at the top), and notes.txt: what the change is, why it violates the property, exactly what is needed for it to manifest, what you ran and what you observed with and without the change (test-suite totals, demo outcomes). Leave the worktree with your change applied. Your final message: a 10-line summary of the same.""")
