#!/usr/bin/env python3
"""usage: seed_store.py <work-id> <dirname> <PROP> <summary> <needs>  -- copies the confirmed seeded change from
/tmp/seedwork-<work-id> into /verif/seeded/<dirname>/ and writes meta.json (the 'checks' key is filled by seedtest.py)."""
import sys, os, json, shutil, time
wid, dn, prop, summary, needs = sys.argv[1:6]
sw = "/tmp/seedwork-" + wid
d = "/verif/seeded/" + dn
os.makedirs(d, exist_ok=True)
for f in ("patch.diff", "demo.c", "notes.txt", "confirm.txt"):
    if os.path.exists(os.path.join(sw, f)): shutil.copy(os.path.join(sw, f), os.path.join(d, f))
conf = open(os.path.join(sw, "confirm.txt")).read().strip().split("\n")
mp = os.path.join(d, "meta.json")
meta = json.load(open(mp)) if os.path.exists(mp) else {}
meta.update({"property": prop, "summary": summary, "needs_to_manifest": needs,
             "confirmed": time.strftime("%Y-%m-%d") + ": tools/seed_confirm.sh in the agent's scratch worktree: " + " ; ".join(conf),
             "origin": "fresh sub-agent given only the property text and a scratch worktree"})
json.dump(meta, open(mp, "w"), indent=1)
print(d)
