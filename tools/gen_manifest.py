#!/usr/bin/env python3
"""Regenerates MANIFEST.json from tools/props/*.py (each claimed property module has a MANIFEST dict)."""
import sys, os, json, importlib, glob, subprocess
sys.path.insert(0, os.path.dirname(os.path.abspath(__file__)))
import vlib

PENDING_REASON = "not claimed yet: model/proofs/harness for this property are not complete in this revision (see DESIGN.md section 5)"

def main():
    props = [json.loads(l)["id"] for l in open(os.path.join(vlib.VERIF, "properties.jsonl"))]
    checks, na = [], []
    # only properties whose files have been reviewed and committed are claimed (one id per line)
    allow = set(l.strip() for l in open(os.path.join(vlib.VERIF, "tools", "claimed.txt")) if l.strip() and not l.startswith("#"))
    for pid in props:
        p = os.path.join(vlib.VERIF, "tools", "props", pid.lower() + ".py")
        m = None
        if os.path.exists(p):
            mod = importlib.import_module("props." + pid.lower())
            m = getattr(mod, "MANIFEST", None) if pid in allow else None
        if m is None:
            na.append({"property_id": pid, "reason": getattr(mod, "NA_REASON", PENDING_REASON) if os.path.exists(p) else PENDING_REASON})
            continue
        c = {"property_id": pid,
             "quick_cmd": "python3 tools/check.py %s --tier quick" % pid,
             "thorough_cmd": "python3 tools/check.py %s --tier thorough" % pid,
             "evidence_file": "/verif/evidence/%s.json" % pid,
             "replay_cmd_template": "python3 tools/check.py %s --replay {path}" % pid,
             "engine": "coq+extraction+harness",
             "level_claimed": {"category": m.get("category", "proof"), "text": m["text"], "design_ref": "DESIGN.md section 5, " + pid},
             "level_note": m["note"],
             "technique": m.get("technique", "machine-checked proof in Coq 8.16 over an executable Gallina model + differential correspondence with the C implementation")}
        checks.append(c)
    try:
        hooks = subprocess.run(["git", "-C", vlib.REPO, "log", "--format=%H %s", "--grep=^verif-hook"], capture_output=True, text=True).stdout.split("\n")
        hook_commits = [h.split()[0] for h in hooks if h.strip()]
    except Exception:
        hook_commits = []
    man = {"version": 1,
           "setup_cmd": "python3 tools/setup.py",
           "hooks": {"guard": vlib.GUARD,
                     "enable": "checks copy /repo/src to a scratch dir and compile every source with gcc -O2 -DHAVE_CONFIG_H -D%s (tools/vlib.py build_lib)" % vlib.GUARD,
                     "baseline_off_cmd": "make -C /repo -j16 && make -C /repo/test -j8 check",
                     "source_commits": hook_commits, "add_only": True},
           "engines": [{"name": "coq+extraction+harness", "path": "tools/check.py",
                        "serves_properties": [c["property_id"] for c in checks],
                        "kind_free_text": "Coq 8.16 theorems over executable Gallina models; models extracted to OCaml and run against the implementation (built from /repo's working tree) on generated cases / recorded histories"}],
           "checks": checks,
           "not_applicable": na,
           "notes": "See DESIGN.md. known_findings.txt lists genuine defects (known:/fixed:)."}
    with open(os.path.join(vlib.VERIF, "MANIFEST.json"), "w") as f:
        json.dump(man, f, indent=1)
    print("claimed:", [c["property_id"] for c in checks])

if __name__ == "__main__":
    main()
