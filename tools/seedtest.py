#!/usr/bin/env python3
"""usage: seedtest.py [--in-repo] [--tier quick|thorough] <seeded/<dir>> <PROP> [<PROP>...]

Runs the registered checks against a seeded change and records the outcomes in seeded/<dir>/meta.json (key 'checks').
default    : the change is applied to a scratch copy of /repo's src/ (VERIF_REPO) and evidence/replays go to a scratch
             directory (VERIF_OUT), so /repo, evidence/ and concurrently running checks are not disturbed; the first
             replay of each catching check is kept as seeded/<dir>/replay-<PROP>.txt
--in-repo  : git -C /repo apply <patch>; run; git -C /repo checkout -- .   (what a user would do)"""
import sys, os, json, subprocess, time, shutil, tempfile, re
args = sys.argv[1:]
in_repo = "--in-repo" in args
if in_repo: args.remove("--in-repo")
tier = "quick"
if "--tier" in args:
    i = args.index("--tier"); tier = args[i + 1]; del args[i:i + 2]
d = os.path.abspath(args[0])
props = args[1:]
patch = os.path.join(d, "patch.diff")
def sh(c, **k): return subprocess.run(c, shell=True, capture_output=True, text=True, **k)
env = dict(os.environ)
scratch = None
if in_repo:
    assert sh("git -C /repo status --porcelain --untracked-files=no").stdout.strip() == "", "/repo has uncommitted changes"
    r = sh("git -C /repo apply --check %s" % patch)
    assert r.returncode == 0, r.stderr
    sh("git -C /repo apply %s" % patch)
else:
    scratch = tempfile.mkdtemp(prefix="seedrepo-", dir="/tmp")
    os.makedirs(scratch + "/repo/test")
    sh("cp -a /repo/src %s/repo/src && cp -a /repo/test/leakcheck %s/repo/test/leakcheck" % (scratch, scratch))
    sh("find %s/repo -name '*.o' -o -name '*.lo' -o -name '*.la' -o -name '.libs' -prune | xargs rm -rf" % scratch)
    r = sh("patch -p1 -d %s/repo < %s" % (scratch, patch))
    assert r.returncode == 0, r.stdout + r.stderr
    env["VERIF_REPO"] = scratch + "/repo"
    env["VERIF_OUT"] = scratch + "/out"
out = {}
try:
    for p in props:
        t = time.time()
        seeds = os.environ.get("SEEDTEST_SEEDS", "1").split(",")
        res = []
        for sd in seeds:
            e = dict(env); e["VERIF_SEED"] = sd
            r = sh("python3 /verif/tools/check.py %s --tier %s" % (p, tier), cwd="/verif", env=e)
            viol = [l for l in r.stdout.split("\n") if l.startswith("VIOLATION")]
            res.append({"seed": int(sd), "exit": r.returncode, "violation_lines": viol[:3],
                        "detail": [l[:400] for l in r.stderr.split("\n") if l.strip()][:3]})
            if viol and not in_repo:
                m = re.search(r"replay=(\S+)", viol[0])
                if m and os.path.exists(m.group(1)) and not os.path.exists(os.path.join(d, "replay-%s.txt" % p)):
                    with open(m.group(1), errors="replace") as f: body = f.read(20000)
                    open(os.path.join(d, "replay-%s.txt" % p), "w").write(body)
                res[-1]["violation_lines"] = [re.sub(r"replay=\S*/replays/", "replay=replays/", v) for v in viol[:3]]
        out[p] = {"tier": tier, "runs": res, "caught": any(x["exit"] == 1 and x["violation_lines"] for x in res),
                  "found_failing_input": any(x["violation_lines"] and "no-failing-input-found" not in x["violation_lines"][0] for x in res),
                  "wall_s": round(time.time() - t, 1)}
        print(os.path.basename(d), p, "caught=%s" % out[p]["caught"], "input=%s" % out[p]["found_failing_input"],
              res[0]["violation_lines"][:1], res[0]["detail"][:1], flush=True)
finally:
    if in_repo: sh("git -C /repo checkout -- .")
    else: shutil.rmtree(scratch, ignore_errors=True)
    if "C02" in props:
        # C02 regenerates the tracked model coq/Asm/FctxGen.v from the tree it is pointed at: put /repo's back
        sh("python3 -c \"import sys; sys.path.insert(0,'/verif/tools'); sys.path.insert(0,'/verif/tools/props'); import c02; print(c02.setup_regenerate())\"", cwd="/verif")
mp = os.path.join(d, "meta.json")
meta = json.load(open(mp)) if os.path.exists(mp) else {}
meta.setdefault("checks", {}).update(out)
json.dump(meta, open(mp, "w"), indent=1)
