#!/usr/bin/env python3
"""usage: seedtest.py <seeded/<dir>> <PROP> [<PROP>...]  — applies seeded/<dir>/patch.diff to /repo, runs the quick
checks, restores /repo (git checkout -- .), and records the outcomes in seeded/<dir>/meta.json (key 'checks')."""
import sys, os, json, subprocess, time
d = os.path.abspath(sys.argv[1])
props = sys.argv[2:]
patch = os.path.join(d, "patch.diff")
def sh(c, **k): return subprocess.run(c, shell=True, capture_output=True, text=True, **k)
assert sh("git -C /repo status --porcelain --untracked-files=no").stdout.strip() == "", "/repo has uncommitted changes"
r = sh("git -C /repo apply --check %s" % patch)
assert r.returncode == 0, r.stderr
sh("git -C /repo apply %s" % patch)
out = {}
try:
    for p in props:
        t = time.time()
        seeds = os.environ.get("SEEDTEST_SEEDS", "1").split(",")
        res = []
        for sd in seeds:
            r = sh("VERIF_SEED=%s python3 /verif/tools/check.py %s --tier quick" % (sd, p), cwd="/verif")
            viol = [l for l in r.stdout.split("\n") if l.startswith("VIOLATION")]
            res.append({"seed": int(sd), "exit": r.returncode, "violation_lines": viol[:3],
                        "detail": [l for l in r.stderr.split("\n") if l.strip()][:3]})
        out[p] = {"runs": res, "caught": any(x["exit"] == 1 and x["violation_lines"] for x in res),
                  "found_failing_input": any(x["violation_lines"] and "no-failing-input-found" not in x["violation_lines"][0] for x in res),
                  "wall_s": round(time.time() - t, 1)}
        print(p, out[p]["caught"], out[p]["found_failing_input"], res[0]["violation_lines"][:1], res[0]["detail"][:1])
finally:
    sh("git -C /repo checkout -- .")
mp = os.path.join(d, "meta.json")
meta = json.load(open(mp)) if os.path.exists(mp) else {}
meta.setdefault("checks", {}).update(out)
json.dump(meta, open(mp, "w"), indent=1)
