#!/usr/bin/env python3
"""C02 (a) translator: x86-64 fcontext assembly -> Coq instruction lists.

  asm2coq.py <root>  [--out coq/Asm/FctxGen.v]      (root contains src/...)

Runs the C preprocessor (gcc -E, -DHAVE_CONFIG_H, -I <root>/src/include, so the
tree's abt_config.h decides ABTD_FCONTEXT_PRESERVE_FPU) on
<root>/src/arch/fcontext/fcontext_x86_64_sysv_elf_gas.S and maps every
instruction one-to-one to a constructor of coq/Asm/X86.v.  Anything that is not
understood (mnemonic, operand form, directive, register, stray label) is a hard
error: the obligation "the theorems hold of the current assembly" is then
broken, never silently weakened.  The output is deterministic (no time stamps)
and written only when it differs from the file on disk."""
import os, re, subprocess, sys

ASM_REL = os.path.join("src", "arch", "fcontext", "fcontext_x86_64_sysv_elf_gas.S")
ROUTINES = ["switch_fcontext", "jump_fcontext", "init_and_switch_fcontext", "init_and_jump_fcontext",
            "switch_with_call_fcontext", "jump_with_call_fcontext", "init_and_switch_with_call_fcontext",
            "init_and_jump_with_call_fcontext", "peek_fcontext"]
REGS = {"rax", "rbx", "rcx", "rdx", "rsi", "rdi", "rbp", "rsp", "r8", "r9", "r10", "r11", "r12", "r13", "r14", "r15"}
# directives that carry no semantics for the model
DIRECTIVES_OK = {".text", ".globl", ".global", ".type", ".align", ".p2align", ".size", ".section", ".file", ".ident"}
# AT&T spellings with and without the 64-bit suffix (only 64-bit registers are accepted as operands)
MNEMONIC = {"pushq": "push", "push": "push", "popq": "pop", "pop": "pop", "leaq": "lea", "lea": "lea",
            "movq": "mov", "andq": "and", "addq": "add", "subq": "sub",
            "stmxcsr": "stmxcsr", "ldmxcsr": "ldmxcsr", "fnstcw": "fnstcw", "fldcw": "fldcw",
            "callq": "call", "call": "call", "jmpq": "jmp", "jmp": "jmp", "ret": "ret", "retq": "ret"}


class TranslateError(Exception):
    pass


def preprocess(root):
    src = os.path.join(root, ASM_REL)
    if not os.path.exists(src):
        raise TranslateError("missing " + src)
    cmd = ["gcc", "-E", "-P", "-x", "assembler-with-cpp", "-DHAVE_CONFIG_H",
           "-I" + os.path.join(root, "src", "include"), src]
    p = subprocess.run(cmd, stdout=subprocess.PIPE, stderr=subprocess.PIPE, text=True, timeout=120)
    if p.returncode != 0:
        raise TranslateError("preprocessor failed: " + p.stderr[-2000:])
    return p.stdout


def _int(tok, what, line):
    m = re.fullmatch(r"([+-]?)(0[xX][0-9a-fA-F]+|[0-9]+)", tok)
    if not m:
        raise TranslateError("line %r: cannot read %s %r" % (line, what, tok))
    v = int(m.group(2), 0) if m.group(2).lower().startswith("0x") else int(m.group(2), 10)
    if m.group(2)[0] == "0" and len(m.group(2)) > 1 and not m.group(2).lower().startswith("0x"):
        raise TranslateError("line %r: octal literal %r not supported" % (line, tok))
    return -v if m.group(1) == "-" else v


def _z(v):
    return "(%d)" % v if v < 0 else "%d" % v


def _operand(tok, line):
    """-> ('reg', R) | ('imm', n) | ('mem', d, R) | ('ind', R)"""
    tok = tok.strip()
    m = re.fullmatch(r"%(\w+)", tok)
    if m:
        if m.group(1) not in REGS:
            raise TranslateError("line %r: register %%%s is outside the modelled set (64-bit GPRs)" % (line, m.group(1)))
        return ("reg", m.group(1).upper())
    m = re.fullmatch(r"\*%(\w+)", tok)
    if m:
        if m.group(1) not in REGS:
            raise TranslateError("line %r: register %%%s is outside the modelled set" % (line, m.group(1)))
        return ("ind", m.group(1).upper())
    m = re.fullmatch(r"\$(\S+)", tok)
    if m:
        v = _int(m.group(1), "immediate", line)
        if not -2**31 <= v < 2**31:
            raise TranslateError("line %r: immediate %d does not fit a sign-extended imm32" % (line, v))
        return ("imm", v)
    m = re.fullmatch(r"(\S*?)\(\s*%(\w+)\s*\)", tok)
    if m:
        if m.group(2) not in REGS:
            raise TranslateError("line %r: base register %%%s is outside the modelled set" % (line, m.group(2)))
        d = _int(m.group(1), "displacement", line) if m.group(1) else 0
        if not -2**31 <= d < 2**31:
            raise TranslateError("line %r: displacement %d does not fit disp32" % (line, d))
        return ("mem", d, m.group(2).upper())
    raise TranslateError("line %r: operand form %r is not modelled" % (line, tok))


def _split_operands(s):
    out, depth, cur = [], 0, ""
    for ch in s:
        if ch == "(":
            depth += 1
        if ch == ")":
            depth -= 1
        if ch == "," and depth == 0:
            out.append(cur)
            cur = ""
        else:
            cur += ch
    if cur.strip():
        out.append(cur)
    return [o.strip() for o in out]


def translate_instr(line):
    parts = line.split(None, 1)
    mn = parts[0]
    if mn not in MNEMONIC:
        raise TranslateError("line %r: mnemonic %r is not modelled" % (line, mn))
    kind = MNEMONIC[mn]
    ops = [_operand(o, line) for o in _split_operands(parts[1])] if len(parts) > 1 else []
    shape = tuple(o[0] for o in ops)

    def bad():
        raise TranslateError("line %r: operand shape %s of %s is not modelled" % (line, shape, mn))
    if kind in ("push", "pop"):
        if shape != ("reg",):
            bad()
        if ops[0][1] == "RSP":
            raise TranslateError("line %r: push/pop of %%rsp is not accepted" % line)
        return "%s %s" % ("Pushq" if kind == "push" else "Popq", ops[0][1])
    if kind == "lea":
        if shape != ("mem", "reg"):
            bad()
        return "Leaq %s %s %s" % (_z(ops[0][1]), ops[0][2], ops[1][1])
    if kind == "mov":
        if shape == ("reg", "reg"):
            return "MovRR %s %s" % (ops[0][1], ops[1][1])
        if shape == ("reg", "mem"):
            return "MovRM %s %s %s" % (ops[0][1], _z(ops[1][1]), ops[1][2])
        if shape == ("mem", "reg"):
            return "MovMR %s %s %s" % (_z(ops[0][1]), ops[0][2], ops[1][1])
        bad()
    if kind in ("and", "add", "sub"):
        if shape != ("imm", "reg"):
            bad()
        return "%s %s %s" % ({"and": "AndqI", "add": "AddqI", "sub": "SubqI"}[kind], _z(ops[0][1]), ops[1][1])
    if kind in ("stmxcsr", "ldmxcsr", "fnstcw", "fldcw"):
        if shape != ("mem",):
            bad()
        return "%s %s %s" % (kind.capitalize(), _z(ops[0][1]), ops[0][2])
    if kind in ("call", "jmp"):
        if shape != ("ind",):
            bad()
        return "%s %s" % ("CallReg" if kind == "call" else "JmpReg", ops[0][1])
    if kind == "ret":
        if shape != ():
            bad()
        return "Ret"
    bad()


def parse(text):
    """-> ordered dict name -> [(coq constructor text, source line)]"""
    routines, cur = {}, None
    for raw in text.split("\n"):
        for line in raw.split(";"):
            line = line.strip()
            if not line or line.startswith("#"):
                continue
            m = re.fullmatch(r"([A-Za-z_.$][\w.$]*)\s*:\s*(.*)", line)
            if m:
                name, rest = m.group(1), m.group(2).strip()
                if cur is not None:
                    raise TranslateError("label %r inside routine %r: local labels / fall-through are not modelled" % (name, cur))
                if name in routines:
                    raise TranslateError("label %r defined twice" % name)
                cur = name
                routines[cur] = []
                if not rest:
                    continue
                line = rest
            if line.startswith("."):
                d = line.split()[0]
                if d not in DIRECTIVES_OK:
                    raise TranslateError("directive %r is not understood" % line)
                if d == ".size":
                    m2 = re.match(r"\.size\s+([\w.$]+)\s*,", line)
                    if cur is None or not m2 or m2.group(1) != cur:
                        raise TranslateError(".size %r does not close routine %r" % (line, cur))
                    cur = None
                elif cur is not None and d not in (".align", ".p2align"):
                    raise TranslateError("directive %r inside routine %r" % (line, cur))
                elif cur is not None:
                    raise TranslateError("alignment padding inside routine %r is not modelled" % cur)
                continue
            if cur is None:
                raise TranslateError("instruction %r outside any routine" % line)
            routines[cur].append((translate_instr(line), line))
    if cur is not None:
        raise TranslateError("routine %r is not closed by .size" % cur)
    for r in ROUTINES:
        if r not in routines:
            raise TranslateError("routine %r not found" % r)
        if not routines[r]:
            raise TranslateError("routine %r is empty" % r)
    return routines


def emit(routines):
    out = ["(* GENERATED by tools/asm2coq.py from " + ASM_REL + " (after gcc -E with the tree's abt_config.h).",
           "   Do not edit: regenerated on every run of tools/check.py C02 and by tools/setup.py. *)",
           "From Coq Require Import ZArith List.",
           "From ABT Require Import Asm.X86.",
           "Import ListNotations.",
           "Local Open Scope Z_scope.", ""]
    for name, ins in routines.items():
        out.append("Definition %s : list instr :=" % name)
        w = max(len(c) for c, _ in ins)
        body = []
        for k, (c, src) in enumerate(ins):
            sep = ";" if k + 1 < len(ins) else " "
            cm = " ".join(src.split()).replace("(*", "( *").replace("*)", "* )")
            body.append("   %s%s%s (* %s *)" % (c, sep, " " * (w - len(c)), cm))
        body[0] = "  [" + body[0][3:]
        out += body
        out.append("  ].")
        out.append("")
    return "\n".join(out)


def translate(root):
    """-> (text, info).  Raises TranslateError."""
    pre = preprocess(root)
    routines = parse(pre)
    info = {"routines": {k: len(v) for k, v in routines.items()},
            "instructions": sum(len(v) for v in routines.values()),
            "mnemonics": sorted(set(c.split()[0] for v in routines.values() for c, _ in v))}
    return emit(routines), info


def write_if_changed(path, text):
    old = open(path).read() if os.path.exists(path) else None
    if old == text:
        return False
    tmp = path + ".tmp%d" % os.getpid()
    with open(tmp, "w") as f:
        f.write(text)
    os.replace(tmp, path)
    return True


def main(argv):
    if len(argv) < 2:
        print(__doc__)
        return 2
    root = argv[1]
    out = argv[argv.index("--out") + 1] if "--out" in argv else None
    try:
        text, info = translate(root)
    except TranslateError as e:
        print("asm2coq: " + str(e), file=sys.stderr)
        return 1
    if out:
        ch = write_if_changed(out, text)
        print("asm2coq: %d instructions in %d routines -> %s (%s)" % (info["instructions"], len(info["routines"]), out,
                                                                       "updated" if ch else "unchanged"))
    else:
        sys.stdout.write(text)
    return 0


if __name__ == "__main__":
    sys.exit(main(sys.argv))
