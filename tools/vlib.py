"""Shared machinery for /verif checks: scratch build of /repo, Coq build,
OCaml driver build, evidence, known findings.  Python stdlib only."""
import os, sys, subprocess, shutil, json, time, glob, re, tempfile, hashlib, random
from concurrent.futures import ThreadPoolExecutor

VERIF = os.path.dirname(os.path.dirname(os.path.abspath(__file__)))
REPO = os.environ.get("VERIF_REPO", "/repo")
# where evidence/ and replays/ are written (tools/seedtest.py redirects it so that runs against a seeded change
# do not overwrite the evidence of the real tree)
OUT = os.environ.get("VERIF_OUT", os.path.dirname(os.path.dirname(os.path.abspath(__file__))))
COQ = os.path.join(VERIF, "coq")
OCAML = os.path.join(VERIF, "ocaml")
HARNESS = os.path.join(VERIF, "harness")
BUILD = os.path.join(VERIF, "_build")          # framework build output (ignored by git)
NPROC = os.cpu_count() or 4
GUARD = "ABT_VERIF"

FORBIDDEN = re.compile(r"\b(Admitted|admit|Axiom|Axioms|Parameter|Parameters|Conjecture|Conjectures|Hypothesis|Hypotheses)\b|Unset\s+Guard|bypass_check|Admit\s+Obligations|-type-in-type|-impredicative-set|Unset\s+Universe\s+Checking|Unset\s+Positivity")


def log(*a):
    print(*a, file=sys.stderr, flush=True)


def run(cmd, cwd=None, timeout=None, env=None, stdin=None, check=False):
    """run a command, return (rc, stdout, stderr); rc = -9 on timeout"""
    try:
        p = subprocess.run(cmd, cwd=cwd, timeout=timeout, env=env, input=stdin,
                           stdout=subprocess.PIPE, stderr=subprocess.PIPE, text=True,
                           errors="replace")
        if check and p.returncode != 0:
            raise RuntimeError("command failed: %s\n%s\n%s" % (cmd, p.stdout[-4000:], p.stderr[-4000:]))
        return p.returncode, p.stdout, p.stderr
    except subprocess.TimeoutExpired as e:
        out = e.stdout if isinstance(e.stdout, str) else (e.stdout or b"").decode(errors="replace")
        err = e.stderr if isinstance(e.stderr, str) else (e.stderr or b"").decode(errors="replace")
        return -9, out, err


# ---------------------------------------------------------------- scratch
class Scratch:
    """scratch directory outside /repo and /verif, removed on exit"""
    def __init__(self, tag="x"):
        base = os.environ.get("TMPDIR", "/var/tmp")
        os.makedirs(base, exist_ok=True)
        self.path = tempfile.mkdtemp(prefix="abt-verif-%s-" % tag, dir=base)

    def __enter__(self):
        return self.path

    def __exit__(self, *a):
        shutil.rmtree(self.path, ignore_errors=True)


# ---------------------------------------------------------------- repo build
def copy_repo_src(dst):
    """copy the sources of /repo's working tree (src/, test/leakcheck/rtrace.*)"""
    src = os.path.join(REPO, "src")
    def ign(d, names):
        return [n for n in names if n.endswith((".o", ".lo", ".la", ".a", ".so")) or n in (".libs", ".deps", ".dirstamp")]
    shutil.copytree(src, os.path.join(dst, "src"), ignore=ign, symlinks=True)
    lk = os.path.join(REPO, "test", "leakcheck")
    os.makedirs(os.path.join(dst, "rtrace"), exist_ok=True)
    for f in ("rtrace.c", "rtrace.h"):
        if os.path.exists(os.path.join(lk, f)):
            shutil.copy(os.path.join(lk, f), os.path.join(dst, "rtrace", f))


def lib_sources(root):
    s = sorted(glob.glob(os.path.join(root, "src", "*.c")) + glob.glob(os.path.join(root, "src", "*", "*.c")))
    s.append(os.path.join(root, "src", "arch", "fcontext", "fcontext_x86_64_sysv_elf_gas.S"))
    return s


def build_lib(scratch, guard=True, cflags=("-O2",), name="libabt.a"):
    """compile every library source of the scratch copy into a static archive.
    Returns (ok, archive path, error text)."""
    if not os.path.isdir(os.path.join(scratch, "src")):
        copy_repo_src(scratch)
    objdir = os.path.join(scratch, "obj-" + name)
    os.makedirs(objdir, exist_ok=True)
    inc = ["-I" + os.path.join(scratch, "src", "include"), "-I" + os.path.join(scratch, "src")]
    base = ["gcc", "-DHAVE_CONFIG_H", "-D_GNU_SOURCE", "-Wno-error", "-w"] + list(cflags) + inc
    if guard:
        base.append("-D" + GUARD)
    jobs = []
    for i, s in enumerate(lib_sources(scratch)):
        o = os.path.join(objdir, "%03d_%s.o" % (i, os.path.basename(s).rsplit(".", 1)[0]))
        jobs.append((base + ["-c", s, "-o", o], o))
    errs = []
    def one(j):
        rc, out, err = run(j[0], timeout=300)
        if rc != 0:
            errs.append(err[-3000:])
    with ThreadPoolExecutor(NPROC) as ex:
        list(ex.map(one, jobs))
    if errs:
        return False, None, "\n".join(errs[:3])
    ar = os.path.join(scratch, name)
    rc, out, err = run(["ar", "rcs", ar] + [j[1] for j in jobs])
    if rc != 0:
        return False, None, err
    return True, ar, ""


SAN = ["-fsanitize=address,undefined", "-fno-sanitize-recover=all", "-fno-omit-frame-pointer"]


def build_harness(scratch, src, out, lib=None, san=False, extra=(), opt="-O1"):
    """compile one harness translation unit against the scratch tree"""
    inc = ["-I" + os.path.join(scratch, "src", "include"), "-I" + os.path.join(scratch, "src"),
           "-I" + HARNESS, "-I" + os.path.join(scratch, "rtrace")]
    cmd = ["gcc", "-DHAVE_CONFIG_H", "-D_GNU_SOURCE", "-D" + GUARD, "-g", opt, "-w"] + inc
    if san:
        cmd += SAN
    cmd += list(extra) + [src, "-o", out]
    if lib:
        cmd += [lib]
    cmd += ["-lpthread", "-lm", "-ldl"]
    rc, o, e = run(cmd, timeout=600)
    return rc == 0, e[-4000:]


# ---------------------------------------------------------------- Coq
def gen_coqproject():
    vs = []
    for root, ds, fs in os.walk(COQ):
        ds[:] = sorted(d for d in ds if not d.startswith("."))
        for f in sorted(fs):
            if f.endswith(".v"):
                vs.append(os.path.relpath(os.path.join(root, f), COQ))
    txt = "-Q . ABT\n-arg -w -arg -all\n" + "\n".join(sorted(vs)) + "\n"
    p = os.path.join(COQ, "_CoqProject")
    old = open(p).read() if os.path.exists(p) else None
    if old != txt:
        open(p, "w").write(txt)
        run(["coq_makefile", "-f", "_CoqProject", "-o", "Makefile"], cwd=COQ, check=True)
    elif not os.path.exists(os.path.join(COQ, "Makefile")):
        run(["coq_makefile", "-f", "_CoqProject", "-o", "Makefile"], cwd=COQ, check=True)


def coq_make(targets, keep_going=True, timeout=3000):
    """(incremental) full .vo build of the given targets; returns (ok, log)"""
    import fcntl
    os.makedirs(BUILD, exist_ok=True)
    with open(os.path.join(BUILD, "coq.lock"), "w") as lk:
        fcntl.flock(lk, fcntl.LOCK_EX)      # one Coq build at a time (shared .vo files)
        gen_coqproject()
        os.makedirs(os.path.join(OCAML, "extracted"), exist_ok=True)
        cmd = ["make", "-j%d" % NPROC] + (["-k"] if keep_going else []) + list(targets)
        rc, out, err = run(cmd, cwd=COQ, timeout=timeout)
    return rc == 0, (out + err)[-6000:]


def coq_assumptions(prop_file):
    """re-run coqc on a Properties file; returns (ok, [(theorem, assumptions-text)], raw)"""
    rc, out, err = run(["coqc", "-Q", ".", "ABT", "-w", "-all", prop_file], cwd=COQ, timeout=1200)
    src = open(os.path.join(COQ, prop_file)).read()
    names = re.findall(r"^Print Assumptions\s+(\S+)\.", src, re.M)
    # split the output into blocks: each Print Assumptions prints either
    # "Closed under the global context" or "Axioms:" followed by the list
    blocks = re.split(r"(?=Closed under the global context|Axioms:)", out)
    blocks = [b.strip() for b in blocks if b.strip()]
    res = list(zip(names, blocks)) if len(blocks) == len(names) else [(n, "?") for n in names]
    return rc == 0 and len(blocks) == len(names), res, (out + err)[-4000:]


def count_theorems(prop_file):
    src = open(os.path.join(COQ, prop_file)).read()
    return re.findall(r"^(?:Theorem|Lemma|Corollary)\s+(\S+)", src, re.M)


def coq_dep_closure(files):
    """transitive closure of `From ABT Require ... X.Y` dependencies (paths relative to coq/)"""
    seen, todo = set(), list(files)
    while todo:
        f = todo.pop()
        if f in seen or not os.path.exists(os.path.join(COQ, f)):
            continue
        seen.add(f)
        txt = strip_coq_comments(open(os.path.join(COQ, f)).read())
        for m in re.finditer(r"(?:From\s+ABT\s+)?Require\s+(.*?)\.(?=\s|$)", txt, re.S):
            frm = m.group(0).startswith("From")
            for mod in m.group(1).split():
                if mod in ("Import", "Export"):
                    continue
                if frm:
                    todo.append(mod.replace(".", "/") + ".v")
                elif mod.startswith("ABT."):
                    todo.append(mod[4:].replace(".", "/") + ".v")
    return sorted(seen)


def grep_forbidden(only=None):
    hits = []
    for root, ds, fs in os.walk(COQ):
        for f in fs:
            if f.endswith(".v"):
                p = os.path.join(root, f)
                if only is not None and os.path.relpath(p, COQ) not in only:
                    continue
                txt = open(p).read()
                # strip comments (non-nested approximation is not enough: do nested)
                txt = strip_coq_comments(txt)
                for i, line in enumerate(txt.split("\n"), 1):
                    if FORBIDDEN.search(line):
                        # "Variable"/"Hypothesis" inside Section are allowed; we only flag Hypothesis
                        # outside sections conservatively: check section depth
                        hits.append("%s:%d:%s" % (os.path.relpath(p, COQ), i, line.strip()))
    return [h for h in hits if not _in_section_ok(h)]


def strip_coq_comments(txt):
    out = []
    depth = 0
    i = 0
    n = len(txt)
    instr = False
    while i < n:
        c = txt[i]
        if depth == 0 and c == '"':
            instr = not instr
            out.append(c); i += 1; continue
        if not instr and txt.startswith("(*", i):
            depth += 1; i += 2; continue
        if not instr and depth > 0 and txt.startswith("*)", i):
            depth -= 1; i += 2; continue
        if depth == 0:
            out.append(c)
        elif c == "\n":
            out.append(c)
        i += 1
    return "".join(out)


def _in_section_ok(hit):
    """Hypothesis/Hypotheses are legal inside a Section; verify by section depth."""
    path, line, text = hit.split(":", 2)
    if not re.search(r"\b(Hypothesis|Hypotheses)\b", text) or re.search(r"\b(Admitted|admit|Axiom|Parameter|Conjecture)\b", text):
        return False
    txt = strip_coq_comments(open(os.path.join(COQ, path)).read()).split("\n")
    depth = 0
    for l in txt[: int(line) - 1]:
        if re.match(r"\s*Section\s+\w+", l):
            depth += 1
        if re.match(r"\s*End\s+\w+", l):
            depth -= 1
    return depth > 0


# ---------------------------------------------------------------- OCaml driver
def build_driver(prop):
    """prop like 'c20': compiles ocaml/extracted/<prop>.ml(i) + zhelp + drv_<prop>.ml"""
    os.makedirs(BUILD, exist_ok=True)
    ext_ml = os.path.join(OCAML, "extracted", prop + ".ml")
    ext_mli = os.path.join(OCAML, "extracted", prop + ".mli")
    drv = os.path.join(OCAML, "drv_%s.ml" % prop)
    zh = os.path.join(OCAML, "zhelp.ml")
    exe = os.path.join(BUILD, "drv_" + prop)
    srcs = [ext_ml, ext_mli, drv, zh]
    if os.path.exists(exe) and all(os.path.getmtime(exe) >= os.path.getmtime(s) for s in srcs):
        return True, exe, ""
    bdir = os.path.join(BUILD, "ml_" + prop)
    shutil.rmtree(bdir, ignore_errors=True)
    os.makedirs(bdir)
    shutil.copy(ext_ml, bdir); shutil.copy(ext_mli, bdir)
    main = os.path.join(bdir, "main_%s.ml" % prop)
    with open(main, "w") as f:
        f.write("open %s\n" % prop.capitalize())
        f.write(open(zh).read()); f.write("\n"); f.write(open(drv).read())
    rc, out, err = run(["ocamlfind", "ocamlopt", "-w", "-a"] +
                       [prop + ".mli", prop + ".ml", os.path.basename(main), "-o", exe], cwd=bdir, timeout=600)
    return rc == 0, exe, (out + err)[-4000:]


# ---------------------------------------------------------------- findings
def known_findings(prop):
    """returns list of (key, text) for 'known:' entries of this property"""
    p = os.path.join(VERIF, "known_findings.txt")
    res = []
    if os.path.exists(p):
        for l in open(p):
            l = l.strip()
            m = re.match(r"known:\s+property=(\S+)\s+key=(\S+)\s+(.*)", l)
            if m and m.group(1) == prop:
                res.append((m.group(2), m.group(3)))
    return res


# ---------------------------------------------------------------- evidence
def write_evidence(prop, tier, seed, coverage, assumptions, wall, violations, level="proof"):
    os.makedirs(os.path.join(OUT, "evidence"), exist_ok=True)
    ev = {"property_id": prop, "tier": tier, "seed": int(seed), "level": level,
          "coverage": coverage, "assumptions": assumptions, "wall_s": round(wall, 2),
          "violations": int(violations)}
    p = os.path.join(OUT, "evidence", prop + ".json")
    with open(p, "w") as f:
        json.dump(ev, f, indent=1, sort_keys=True)
    return p


def write_replay(prop, name, payload):
    d = os.path.join(OUT, "replays", prop)
    os.makedirs(d, exist_ok=True)
    p = os.path.join(d, name)
    with open(p, "w") as f:
        if isinstance(payload, str):
            f.write(payload)
        else:
            json.dump(payload, f, indent=1)
    return p


TRUSTED_BASE = [
    "Coq 8.16.1 kernel (coqc, full .vo build); vm_compute used for Examples/refutation witnesses; no native_compute",
    "no axioms declared by the development (grep + Print Assumptions on every run)",
    "extraction: ExtrOcamlBasic only (Extract Inductive bool/option/unit/list/prod/sumbool/sumor; inlined fst/snd/andb/orb/negb), OCaml 4.13.1",
    "hand-written Gallina model of the C code, tied by the correspondence harness (C compiled from /repo's working tree with -DABT_VERIF)",
    "gcc 12, glibc, Linux futex/pthread behave as specified",
]


# ---------------------------------------------------------------- cached lib build
def tree_hash(root):
    h = hashlib.sha256()
    for dp, ds, fs in os.walk(root):
        ds.sort()
        for f in sorted(fs):
            p = os.path.join(dp, f)
            h.update(os.path.relpath(p, root).encode())
            with open(p, "rb") as fh:
                h.update(fh.read())
    return h.hexdigest()[:20]


def get_lib(scratch, guard=True, cflags=("-O2",), tag="o2"):
    """library archive for the scratch copy of /repo's current tree; archives are
    cached under _build/libcache keyed by a hash of the copied sources + flags,
    so an unchanged tree is compiled once per flag set."""
    if not os.path.isdir(os.path.join(scratch, "src")):
        copy_repo_src(scratch)
    key = tree_hash(os.path.join(scratch, "src")) + "-" + tag + ("-g" if guard else "-n")
    cdir = os.path.join(BUILD, "libcache")
    os.makedirs(cdir, exist_ok=True)
    cached = os.path.join(cdir, key + ".a")
    dst = os.path.join(scratch, "libabt-%s.a" % tag)
    if os.path.exists(cached) and os.environ.get("VERIF_NOCACHE") != "1":
        shutil.copy(cached, dst)
        return True, dst, ""
    ok, ar, err = build_lib(scratch, guard=guard, cflags=cflags, name="libabt-%s.a" % tag)
    if ok:
        tmp = cached + ".%d" % os.getpid()
        shutil.copy(ar, tmp)
        os.replace(tmp, cached)
        # keep the cache small
        ents = sorted(glob.glob(os.path.join(cdir, "*.a")), key=os.path.getmtime)
        for e in ents[:-8]:
            try:
                os.remove(e)
            except OSError:
                pass
    return ok, ar, err


# ---------------------------------------------------------------- proof stage
def proof_stage(prop_file, targets):
    """build the Coq targets and collect Print Assumptions. Returns dict."""
    t0 = time.time()
    ok, mlog = coq_make(targets)
    thms = count_theorems(prop_file)
    res = {"ok": ok, "theorems": thms, "discharged": 0, "assumptions": [], "log": "", "forbidden": []}
    if ok:
        aok, ass, raw = coq_assumptions(prop_file)
        res["assumptions"] = ass
        res["discharged"] = len(thms) if aok else 0
        if not aok:
            res["ok"] = False
            res["log"] = raw
    else:
        res["log"] = mlog
    closure = coq_dep_closure([prop_file] + [t[:-1] for t in targets if t.endswith(".vo")])
    res["files"] = closure
    fb = grep_forbidden(only=set(closure))
    res["forbidden"] = fb
    if fb:
        res["ok"] = False
        res["log"] += "\nforbidden constructs: " + "; ".join(fb[:5])
    res["wall"] = time.time() - t0
    return res


def axioms_summary(ass):
    out = []
    for name, txt in ass:
        if txt.startswith("Closed under"):
            out.append("%s: closed under the global context" % name)
        else:
            out.append("%s: %s" % (name, " ".join(txt.split())[:300]))
    return out


# ---------------------------------------------------------------- differential
def run_lines(exe, casefile, timeout=600, env=None):
    rc, out, err = run([exe, casefile], timeout=timeout, env=env)
    if out == "":
        return rc, [], err
    return rc, out.split("\n")[:-1] if out.endswith("\n") else out.split("\n"), err


def differential(harness_exe, driver_exe, cases, scratch, name="cases", timeout=900, env=None):
    """run both sides on the list of case lines; returns list of
    (index, case, impl_line, model_line); impl_line = 'CRASH: ...' when the
    implementation died on that case."""
    cf = os.path.join(scratch, name + ".txt")
    with open(cf, "w") as f:
        f.write("\n".join(cases) + "\n")
    rc_m, model, err_m = run_lines(driver_exe, cf, timeout=timeout)
    if rc_m != 0 or len(model) != len(cases):
        raise RuntimeError("model driver failed (rc=%s, %d/%d lines): %s" % (rc_m, len(model), len(cases), err_m[-2000:]))
    impl = []
    start = 0
    guard = 0
    while start < len(cases) and guard < 50:
        guard += 1
        cf2 = os.path.join(scratch, name + ".part.txt")
        with open(cf2, "w") as f:
            f.write("\n".join(cases[start:]) + "\n")
        rc, lines, err = run_lines(harness_exe, cf2, timeout=timeout, env=env)
        if rc == 0 and len(lines) == len(cases) - start:
            impl += lines
            start = len(cases)
            break
        # crashed / hung on case number start+len(complete lines)
        k = min(len(lines), len(cases) - start - 1)
        impl += lines[:k]
        sig = "rc=%s %s" % (rc, " ".join(err.strip().split("\n")[-12:])[:600])
        impl.append("CRASH: " + sig)
        start += k + 1
    while len(impl) < len(cases):
        impl.append("CRASH: not run")
    # a case that did not finish in the batch (watchdog / timeout) is run again on its own with a long watchdog: a
    # slow case on a loaded machine is not a hang.  The verdict stands when any of the repeats dies too.
    retried = 0
    confirmed_hang = False
    for i, a in enumerate(impl):
        # only a hang verdict depends on the machine's load; an abort, a signal or a sanitizer report stands as it is
        if not a.startswith("CRASH:") or retried >= 8 or not ("harness watchdog" in a or a.startswith("CRASH: rc=-9 ")):
            continue
        if confirmed_hang:
            continue          # one confirmed hang is a violation already; the others keep their batch verdict
        retried += 1
        cf3 = os.path.join(scratch, name + ".one.txt")
        with open(cf3, "w") as f:
            f.write(cases[i] + "\n")
        e2 = dict(env if env is not None else os.environ)
        e2["VH_WATCHDOG"] = "90"
        good = None
        for _ in range(3):
            rc, lines, err = run_lines(harness_exe, cf3, timeout=300, env=e2)
            if rc == 0 and len(lines) == 1:
                good = lines[0]
            else:
                good = None
                confirmed_hang = True
                impl[i] = "CRASH: rc=%s %s" % (rc, " ".join(err.strip().split("\n")[-12:])[:600])
                break
        if good is not None:
            log("case %d died in the batch (%s) but ran to completion 3 times on its own; result of the single run used" % (i, a[:160]))
            impl[i] = good
    bad = []
    for i, (c, a, b) in enumerate(zip(cases, impl, model)):
        if a != b:
            bad.append((i, c, a, b))
    return bad, impl, model


def shrink_ops(case_ok, ops, sep=" , "):
    """delta-debugging style shrink of an op list; case_ok(list)->True if still failing"""
    cur = list(ops)
    n = 2
    while len(cur) >= 2:
        chunk = max(1, len(cur) // n)
        reduced = False
        for i in range(0, len(cur), chunk):
            cand = cur[:i] + cur[i + chunk:]
            if cand and case_ok(cand):
                cur = cand
                n = max(n - 1, 2)
                reduced = True
                break
        if not reduced:
            if chunk == 1:
                break
            n = min(len(cur), n * 2)
    return cur


# ---------------------------------------------------------------- final report
class Report:
    def __init__(self, prop, tier, seed):
        self.prop, self.tier, self.seed = prop, tier, seed
        self.t0 = time.time()
        self.violations = []      # (replay_path, no_input_found:bool, text)
        self.known = []           # text
        self.coverage = {}
        self.assumptions = list(TRUSTED_BASE)

    def violation(self, name, payload, found_input=True, text=""):
        p = write_replay(self.prop, name, payload)
        self.violations.append((p, not found_input, text))

    def finish(self, proof, extra_cov):
        cov = {
            "obligations": max(1, len(proof["theorems"])),
            "discharged": proof["discharged"],
            "checker_cmd": "make -C coq <targets> (coqc 8.16.1, full .vo) + coqc Properties file for Print Assumptions",
            "trusted_base": TRUSTED_BASE + axioms_summary(proof["assumptions"]),
            "theorems": proof["theorems"],
        }
        cov.update(extra_cov)
        if cov["discharged"] == 0:
            # schema requires >= 1 for the proof keys; fall back to generic counts
            cov.pop("discharged")
            cov["discharged_none"] = True
        for p, nof, text in self.violations:
            print("VIOLATION property=%s replay=%s%s" % (self.prop, p, " no-failing-input-found" if nof else ""))
            if text:
                log("  " + text)
        for k in self.known:
            print("KNOWN-FINDING: property=%s %s" % (self.prop, k))
        write_evidence(self.prop, self.tier, self.seed, cov, self.assumptions,
                       time.time() - self.t0, len(self.violations))
        return 1 if self.violations else 0


# ---------------------------------------------------------------- generic differential property runner
def load_corpus(prop):
    d = os.path.join(VERIF, "corpus", prop)
    cases = []
    if os.path.isdir(d):
        for f in sorted(os.listdir(d)):
            if f.endswith(".txt"):
                for l in open(os.path.join(d, f)):
                    l = l.rstrip("\n")
                    if l and not l.startswith("#"):
                        cases.append(l)
    return cases


def run_differential_property(prop, prop_file, targets, drv, harness_src, gen, classify, nontrivial,
                              tier, seed, replay=None, san=True, lib_needed=True, known_match=None,
                              extra_assumptions=(), harness_extra=(), env=None, rule="", extra_stage=None):
    """Standard pipeline for sequential / pure-function properties:
       proofs -> scratch build of /repo -> corpus + generated cases -> model vs implementation.
       classify(case, impl, model) -> 'observable' | 'internal' ; known_match(case, impl, model) -> key or None"""
    rep = Report(prop, tier, seed)
    rep.assumptions += list(extra_assumptions)
    proof = proof_stage(prop_file, targets)
    cov = {}
    if not proof["ok"]:
        log("proof stage failed:\n" + proof["log"][-3000:])
    okd, drv_exe, derr = build_driver(drv)
    if not okd:
        rep.violation("driver-build.txt", "model driver does not build (extraction broken):\n" + derr +
                      "\n" + proof["log"][-3000:], found_input=False)
        return rep.finish(proof, {"evaluations": 0})
    with Scratch(prop) as sc:
        copy_repo_src(sc)
        lib = None
        if lib_needed:
            okl, lib, lerr = get_lib(sc)
            if not okl:
                rep.violation("repo-build.txt", "the library of /repo's working tree does not compile with -D%s:\n%s" % (GUARD, lerr), found_input=False)
                return rep.finish(proof, {"evaluations": 0})
        hexe = os.path.join(sc, "harness_" + drv)
        okh, herr = build_harness(sc, os.path.join(HARNESS, harness_src), hexe, lib=lib, san=san, extra=harness_extra)
        if not okh:
            rep.violation("harness-build.txt", "harness %s does not compile against /repo's working tree "
                          "(the code the model corresponds to changed shape):\n%s" % (harness_src, herr), found_input=False)
            return rep.finish(proof, {"evaluations": 0})
        if replay:
            payload = json.load(open(replay))
            cases = payload.get("cases", [])
            stats = {"replay": replay}
        else:
            rng = random.Random(seed)
            corpus = load_corpus(prop)
            cases, stats = gen(rng, tier)
            cases = corpus + cases
            stats["corpus_cases"] = len(corpus)
        bad, impl, model = differential(hexe, drv_exe, cases, sc, env=env)
        obs, internal, known_hits = [], [], {}
        for (i, c, a, b) in bad:
            k = known_match(c, a, b) if known_match else None
            if k:
                known_hits.setdefault(k, []).append(c)
                continue
            (obs if classify(c, a, b) == "observable" else internal).append((i, c, a, b))
        kf = dict(known_findings(prop))
        for k, cs in known_hits.items():
            if k in kf:
                rep.known.append("key=%s %s (%d cases this run, e.g. %s)" % (k, kf[k], len(cs), cs[0][:120]))
            else:
                # matched a finding pattern that is not listed any more -> it is a violation
                obs.append((-1, cs[0], "known-pattern %s not listed in known_findings.txt" % k, ""))
        distinct = set(c for c in cases if nontrivial(c))
        cov = {"evaluations": len(cases), "distinct_nontrivial": len(distinct),
               "rule": rule, "samples": cases[:3] + cases[-2:],
               "disagreements_checked": len(cases), "generator_stats": stats,
               "mismatch_observable": len(obs), "mismatch_internal_only": len(internal),
               "known_finding_cases": sum(len(v) for v in known_hits.values())}
        if extra_stage:
            extra_stage(rep, sc, lib, cov, tier, seed)
        if obs:
            i, c, a, b = obs[0]
            rep.violation("obs-%d.json" % seed,
                          {"kind": "diff", "property": prop, "seed": seed, "cases": [c],
                           "implementation": a, "model_proved_equal_to_spec": b,
                           "explanation": "the implementation's observable result differs from the model, "
                                          "which is proved equal to the specification; this input is the failing input",
                           "more": [x[1] for x in obs[1:10]]},
                          found_input=True, text="%s\n   impl : %s\n   model: %s" % (c, a, b))
        elif internal:
            i, c, a, b = internal[0]
            rep.violation("corr-%d.json" % seed,
                          {"kind": "diff", "property": prop, "seed": seed, "cases": [c],
                           "implementation": a, "model": b,
                           "broken": "correspondence %s <-> %s (internal structure dump differs; observable results agree on all %d cases)" % (harness_src, drv, len(cases))},
                          found_input=False, text="%s\n   impl : %s\n   model: %s" % (c, a, b))
        if not proof["ok"] and not obs:
            rep.violation("proof-%d.txt" % seed,
                          "proof obligation(s) of %s no longer check:\n%s\n(correspondence: %d cases, %d observable mismatches)"
                          % (prop_file, proof["log"][-3000:], len(cases), len(obs)), found_input=False)
    return rep.finish(proof, cov)


def proof_stage_multi(prop_files, targets, name_re=None):
    """proof stage over several Properties files; only theorems whose name matches name_re are counted
    (a Properties file of a shared model holds theorems of several properties)."""
    t0 = time.time()
    ok, mlog = coq_make(targets)
    rx = re.compile(name_re) if name_re else None
    res = {"ok": ok, "theorems": [], "discharged": 0, "assumptions": [], "log": "" if ok else mlog, "forbidden": []}
    for pf in prop_files:
        thms = [t for t in count_theorems(pf) if (rx is None or rx.search(t))]
        res["theorems"] += thms
        if ok:
            aok, ass, raw = coq_assumptions(pf)
            ass = [(n, a) for (n, a) in ass if (rx is None or rx.search(n))]
            res["assumptions"] += ass
            if aok:
                res["discharged"] += len(thms)
            else:
                res["ok"] = False
                res["log"] += raw
    closure = coq_dep_closure(list(prop_files) + [t[:-1] for t in targets if t.endswith(".vo")])
    res["files"] = closure
    fb = grep_forbidden(only=set(closure))
    res["forbidden"] = fb
    if fb:
        res["ok"] = False
        res["log"] += "\nforbidden constructs: " + "; ".join(fb[:5])
    bad_ax = [n for (n, a) in res["assumptions"] if not a.startswith("Closed under")]
    res["axioms_used"] = bad_ax
    res["wall"] = time.time() - t0
    return res
