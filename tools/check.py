#!/usr/bin/env python3
"""Single entry point: tools/check.py <ID> --tier quick|thorough [--replay file]"""
import sys, os, argparse, importlib
sys.path.insert(0, os.path.dirname(os.path.abspath(__file__)))
import vlib


def main():
    ap = argparse.ArgumentParser()
    ap.add_argument("prop")
    ap.add_argument("--tier", default=os.environ.get("VERIF_TIER", "quick"), choices=["quick", "thorough"])
    ap.add_argument("--replay", default=None)
    ap.add_argument("--seed", type=int, default=int(os.environ.get("VERIF_SEED", "1")))
    a = ap.parse_args()
    pid = a.prop.upper()
    mod = importlib.import_module("props." + pid.lower())
    os.chdir(vlib.VERIF)
    rc = mod.run(a.tier, a.seed, a.replay)
    sys.exit(rc)


if __name__ == "__main__":
    main()
