#!/usr/bin/env python3
"""debug helper: runscn.py <harness.c> <scenario-file> [driver]  -- builds the harness against /repo's tree (VERIF_REPO),
runs one scenario, leaves the history in /tmp/lasthist.txt and prints the op-level lines (+ the driver verdict)."""
import sys, os, subprocess
sys.path.insert(0, os.path.dirname(os.path.abspath(__file__)))
import vlib
with vlib.Scratch("dbg") as sc:
    ok, lib, err = vlib.get_lib(sc)
    assert ok, err
    exe = sc + "/h"
    ok, err = vlib.build_harness(sc, os.path.join(vlib.HARNESS, sys.argv[1]), exe, lib=lib)
    assert ok, err
    try:
        r = subprocess.run([exe, sys.argv[2], sc + "/h.txt"], capture_output=True, text=True, timeout=120)
        print("rc", r.returncode, r.stderr[-500:])
    except subprocess.TimeoutExpired:
        print("timeout")
    out = open(sc + "/h.txt").read()
    open("/tmp/lasthist.txt", "w").write(out)
    print("\n".join(l for l in out.split("\n") if "UNITSTAT" in l or " OP" in l or "START" in l or "FINISH" in l)[:8000])
    if len(sys.argv) > 3:
        ok, drv, err = vlib.build_driver(sys.argv[3])
        r = subprocess.run([drv, sc + "/h.txt"], capture_output=True, text=True)
        print(r.stdout[-2000:])
