"""Shared runner for history-conformance properties (scenario -> real execution with hooks ->
recorded history -> replay through the extracted LTS)."""
import os, json, random, time, re
from concurrent.futures import ThreadPoolExecutor
import vlib

KIND_CODES = {"ACQ": 1, "TRY": 2, "REL": 3, "ENQ": 10, "SIGNAL": 11, "WAKE": 12, "BCAST": 13, "TIMEOUT": 14, "RETURN": 15, "DATA": 20, "LOAD": 21, "CALLBACK": 22}


def run_scenarios(hexe, drv_exe, scenarios, sc, tag="s", env=None, timeout=60, workers=None):
    """scenarios: list of scenario texts. Returns list of dicts
       {i, scenario, status: OK|MISMATCH|MONFAIL|CRASH, model_line, mon_line, history_path}"""
    os.makedirs(os.path.join(sc, tag), exist_ok=True)
    def one(i):
        sp = os.path.join(sc, tag, "scn%d.txt" % i)
        hp = os.path.join(sc, tag, "hist%d.txt" % i)
        open(sp, "w").write(scenarios[i])
        e = dict(os.environ)
        if env:
            e.update(env)
        rc, out, err = vlib.run([hexe, sp, hp], timeout=timeout, env=e)
        res = {"i": i, "scenario": scenarios[i], "rc": rc, "history_path": hp, "stderr": err[-500:], "env": dict(env or {})}
        if not os.path.exists(hp):
            res.update(status="CRASH", model_line="", mon_line="no history (rc=%s) %s" % (rc, err[-300:]))
            return res
        rc2, out2, err2 = vlib.run([drv_exe, hp], timeout=120)
        lines = out2.strip().split("\n")
        if rc2 != 0 or len(lines) < 2:
            res.update(status="DRIVER", model_line=(out2 + err2)[-400:], mon_line="")
            return res
        res["model_line"], res["mon_line"] = lines[0], lines[1]
        res["extra_lines"] = lines[2:]
        if rc not in (0, 4):
            res["status"] = "CRASH"
            res["mon_line"] += " harness rc=%s %s" % (rc, err[-300:])
        elif not lines[1].startswith("MON ok"):
            res["status"] = "MONFAIL"
        elif not lines[0].startswith("OK"):
            res["status"] = "MISMATCH"
        else:
            res["status"] = "OK"
        return res
    with ThreadPoolExecutor(workers or max(2, vlib.NPROC // 3)) as ex:
        return list(ex.map(one, range(len(scenarios))))


def history_excerpt(path, around=None, n=40):
    try:
        ls = open(path).read().split("\n")
    except OSError:
        return []
    if around is None:
        return ls[:n]
    lo = max(0, around - n // 2)
    return ls[lo:lo + n]


def history_stage(rep, proof_ok, sc, lib, prop, drv, harness_src, gen, tier, seed, replay=None, rule="",
                  nontrivial=None, search_rounds=2, proof_log="", prop_file="", known_patterns=None, nohooks_reps=0,
                  sweep_kinds=(), sweep_n=40, sweep_filter=None):
    """runs the scenarios of one property on the scratch build and files violations in rep; returns coverage dict"""
    okd, drv_exe, derr = vlib.build_driver(drv)
    if not okd:
        rep.violation("driver-build.txt", "model driver does not build:\n" + derr, found_input=False)
        return {"evaluations": 0}
    hexe = os.path.join(sc, "harness_" + drv)
    if not os.path.exists(hexe):
        okh, herr = vlib.build_harness(sc, os.path.join(vlib.HARNESS, harness_src), hexe, lib=lib, san=False, opt="-O1")
        if not okh:
            rep.violation("harness-build.txt", "harness %s does not compile against /repo's working tree:\n%s" % (harness_src, herr), found_input=False)
            return {"evaluations": 0}
    ncorpus = 0
    if replay:
        payload = json.load(open(replay)) if isinstance(replay, str) else replay
        scenarios, stats = payload.get("scenarios", []), {"replay": True}
        replay_env = payload.get("env") or None
    else:
        rng = random.Random(seed)
        cdir = os.path.join(vlib.VERIF, "corpus", prop)
        corpus = [open(os.path.join(cdir, f)).read() for f in sorted(os.listdir(cdir))] if os.path.isdir(cdir) else []
        scenarios, stats = gen(rng, tier)
        scenarios = corpus + scenarios
        stats["corpus"] = ncorpus = len(corpus)
    res = run_scenarios(hexe, drv_exe, scenarios, sc, tag="s_" + prop, env=replay_env if replay else None)
    if nohooks_reps and not replay:
        # the same scenarios with the hooks off: the trace lock serialises the hooked sections and would hide a
        # missing lock there; these runs are judged by the harness-level monitors only (no replay)
        nh = []
        for k in range(nohooks_reps):
            nh += run_scenarios(hexe, drv_exe, scenarios, sc, tag="nh%d_%s" % (k, prop), env={"VH_NOHOOKS": "1"})
        for j, r in enumerate(nh):
            r["i"] = len(res) + j
        stats["runs_without_hooks"] = len(nh)
        res = res + nh
    if sweep_kinds and not replay:
        # perturbation sweep: part of the scenarios again with a delay injected right after every record of one kind
        # (a lock release, a state store, ...): windows of a few instructions are held open for up to 200 us, as a
        # preemption at that point would
        sw = []
        for k in sweep_kinds:
            # k > 0: delay right after every record of kind k; k < 0: delay just before the next hooked action of a
            # thread whose latest record was of kind -k (holds open the unhooked code between the two)
            # (corpus scenarios come first in the list; each of them runs three times under a sweep: they are the
            # minimised timing-dependent failures, and a delay is drawn afresh on every run)
            pick = scenarios[:ncorpus] * 2 + scenarios[:sweep_n]
            if k < 0 and sweep_filter:
                pick = [x for x in scenarios if sweep_filter(x)][:2 * sweep_n]
            sw += run_scenarios(hexe, drv_exe, pick, sc, tag="sweep%d_%s" % (k, prop),
                                env={("VH_TARGET_KIND" if k > 0 else "VH_TARGET_PRE_KIND"): str(abs(k)), "VH_TARGET_US": "200"})
        for j, r in enumerate(sw):
            r["i"] = len(res) + j
        stats["runs_with_targeted_delay"] = len(sw)
        stats["delay_after_record_kinds"] = list(sweep_kinds)
        res = res + sw
    nev = 0
    for r in res:
        if r["model_line"].startswith("OK"):
            try:
                nev += int(r["model_line"].split("events=")[1].split()[0])
            except Exception:
                pass
    # counters the driver prints after its verdict lines (e.g. "STOPS decisions=3 within_hypotheses=2 ...")
    extra = {}
    for r in res:
        for l in r.get("extra_lines", []):
            w = l.split()
            for kv in w[1:]:
                if "=" in kv:
                    k, v = kv.split("=", 1)
                    try:
                        extra[w[0].lower() + "_" + k] = extra.get(w[0].lower() + "_" + k, 0) + int(v)
                    except ValueError:
                        pass
    stats.update(extra)
    by = {}
    for r in res:
        by.setdefault(r["status"], []).append(r)
    monfail = by.get("MONFAIL", []) + by.get("CRASH", [])
    mism = by.get("MISMATCH", []) + by.get("DRIVER", [])
    # a watchdog verdict alone depends on machine load: a scenario whose only failure is "did not finish in time" is
    # re-run alone (twice, with a 3x longer watchdog); it counts only if it fails again
    unconfirmed = 0
    confirmed = []
    for r in monfail:
        only_stuck = (r["status"] == "MONFAIL" and r["model_line"].startswith("OK") and
                      all(f.startswith("status=STUCK") or f.endswith("not-finished") for f in r["mon_line"].split()[1:])) or \
                     (r["status"] == "CRASH" and "rc=-9" in r["mon_line"] and r["model_line"].startswith("OK"))
        if not only_stuck:
            confirmed.append(r)
            continue
        if confirmed:
            continue   # one reportable failure is enough: do not spend minutes re-running further timeouts
        scn = re.sub(r"WATCHDOG \d+", "WATCHDOG 75", r["scenario"])
        again = []
        for k in range(2):
            again += run_scenarios(hexe, drv_exe, [scn], sc, tag="confirm_%s_%d_%d" % (prop, r["i"], k), timeout=120, workers=1,
                                   env=r.get("env") or None)
            if again[-1]["status"] != "OK":
                break
        if any(a["status"] != "OK" for a in again):
            bad = [a for a in again if a["status"] != "OK"][0]
            bad["scenario"] = scn
            confirmed.append(bad)
        else:
            unconfirmed += 1
    monfail = confirmed
    # known findings: a scenario carrying the finding's marker whose ONLY monitor failure is the finding's pattern
    known_hits = {}
    if known_patterns:
        listed = dict(vlib.known_findings(prop))
        keep = []
        for r in monfail:
            hit = None
            for key, (marker, rx) in known_patterns.items():
                fails = r["mon_line"].split()[1:] if r["mon_line"].startswith("MONFAIL") else ["?"]
                if marker in r["scenario"] and fails and all(re.match(rx, f) for f in fails) and r["model_line"].startswith("OK"):
                    hit = key
            if hit and hit in listed:
                known_hits.setdefault(hit, []).append(r)
            else:
                keep.append(r)
        monfail = keep
        for key, rs in known_hits.items():
            rep.known.append("key=%s %s (%d scenarios this run: %s)" % (key, listed[key], len(rs), rs[0]["mon_line"][:160]))
    searched = 0
    if (mism or not proof_ok) and not monfail and not replay:
        kinds = set()
        for r in mism:
            for w in r["model_line"].split():
                if w.startswith("event="):
                    kinds.add(KIND_CODES.get(w[6:], -1))
        kinds.discard(-1)
        for rnd in range(search_rounds):
            for k in (sorted(kinds) or [3]):
                extra, _ = gen(random.Random(seed * 1000 + rnd), tier)
                scs = [r["scenario"] for r in mism][:10] + extra[:max(10, len(extra) // 2)]
                r2 = run_scenarios(hexe, drv_exe, scs, sc, tag="search%d_%d_%s" % (rnd, k, prop),
                                   env={"VH_TARGET_KIND": str(k), "VH_TARGET_US": "300"})
                searched += len(scs)
                monfail += [r for r in r2 if r["status"] in ("MONFAIL", "CRASH")]
            if monfail:
                break
    cov = {"evaluations": len(scenarios), "traces_validated_against_impl": len(by.get("OK", [])),
           "events_replayed": nev, "distinct_nontrivial": len(set(s for s in scenarios if (nontrivial(s) if nontrivial else True))),
           "rule": rule, "samples": scenarios[:2], "generator_stats": stats,
           "history_mismatches": len(mism), "monitor_failures": len(monfail), "search_runs": searched,
           "disagreements_checked": len(scenarios), "stuck_once_but_passed_when_rerun_alone": unconfirmed, "known_finding_scenarios": sum(len(v) for v in known_hits.values())}
    if monfail:
        r = monfail[0]
        rep.violation("monitor-%d.json" % seed,
                      {"kind": "history", "property": prop, "seed": seed, "scenarios": [r["scenario"]],
                       "env": r.get("env", {}),
                       "monitor": r["mon_line"], "model": r["model_line"],
                       "history": history_excerpt(r["history_path"], n=400),
                       "explanation": "a property monitor failed on a real execution of this scenario (history attached)"},
                      found_input=True, text=r["mon_line"] + " | " + r["model_line"])
    elif mism:
        r = mism[0]
        at = None
        for w in r["model_line"].split():
            if w.startswith("line="):
                at = int(w[5:])
        rep.violation("conformance-%d.json" % seed,
                      {"kind": "history", "property": prop, "seed": seed, "scenarios": [r["scenario"]],
                       "broken": "history conformance %s <-> LTS %s: the implementation performed an atomic action the model does not allow" % (harness_src, drv),
                       "first_disagreement": r["model_line"], "history_around": history_excerpt(r["history_path"], at),
                       "mismatching_scenarios": len(mism), "search_runs_without_monitor_failure": searched},
                      found_input=False, text=r["model_line"])
    elif not proof_ok:
        rep.violation("proof-%d.txt" % seed, "proof obligation(s) of %s no longer check:\n%s" % (prop_file, proof_log[-3000:]), found_input=False)
    return cov


def run_sched_property(prop, prop_files, targets, name_re, gen, tier, seed, replay=None, rule="", extra_assumptions=(),
                       known_patterns=None, extra_sweeps=(), sweep_filter=None):
    """properties decided on the scheduler LTS (Conc/Sched.v): theorems from the shared Properties_Sched*.v files
    (filtered by name) + history conformance of harness/h_sched.c scenarios"""
    rep = vlib.Report(prop, tier, seed)
    rep.assumptions += list(extra_assumptions) + [
        "recorded order = real order of the logged atomic actions (each logged atomic operation and its record are one "
        "step under the trace lock; x86-TSO)",
        "sequentially consistent LTS; acquire/release annotations of the C code are not checked",
        "scheduler LTS Conc/Sched.v: streams are not modelled (a unit has one structural place); user-defined pools, stacked "
        "schedulers and scheduler replacement are outside the replayed scenarios",
        "idle-loop compression of the trace: a repeated identical lock-free read by an idle scheduler is recorded once"]
    proof = vlib.proof_stage_multi(prop_files, targets + ["Extract_Sched.vo"], name_re)
    if not proof["ok"]:
        vlib.log("proof stage failed:\n" + proof["log"][-3000:])
    with vlib.Scratch(prop) as sc:
        vlib.copy_repo_src(sc)
        okl, lib, lerr = vlib.get_lib(sc)
        if not okl:
            rep.violation("repo-build.txt", "the library does not compile with -D%s:\n%s" % (vlib.GUARD, lerr), found_input=False)
            return rep.finish(proof, {"evaluations": 0})
        cov = history_stage(rep, proof["ok"], sc, lib, prop, "sched", "h_sched.c", gen, tier, seed, replay=replay, rule=rule,
                            proof_log=proof["log"], prop_file=",".join(prop_files), known_patterns=known_patterns,
                            nohooks_reps=3 if tier == "quick" else 2,
                            sweep_kinds=(40, 30, 34, 42, 33) + tuple(extra_sweeps), sweep_n=30 if tier == "quick" else 200,
                            sweep_filter=sweep_filter)
    return rep.finish(proof, cov)


def run_history_property(prop, prop_file, targets, drv, harness_src, gen, tier, seed, replay=None,
                         rule="", extra_assumptions=(), nontrivial=None, search_rounds=2, stage_extra=None,
                         known_patterns=None):
    """gen(rng, tier) -> (list of scenario texts, stats)"""
    rep = vlib.Report(prop, tier, seed)
    rep.assumptions += list(extra_assumptions) + [
        "recorded order = real order of the logged atomic actions (each logged atomic operation and its record are one "
        "step under the trace lock; x86-TSO)",
        "sequentially consistent LTS; acquire/release annotations of the C code are not checked"]
    proof = vlib.proof_stage(prop_file, targets)
    if not proof["ok"]:
        vlib.log("proof stage failed:\n" + proof["log"][-3000:])
    with vlib.Scratch(prop) as sc:
        vlib.copy_repo_src(sc)
        okl, lib, lerr = vlib.get_lib(sc)
        if not okl:
            rep.violation("repo-build.txt", "the library does not compile with -D%s:\n%s" % (vlib.GUARD, lerr), found_input=False)
            return rep.finish(proof, {"evaluations": 0})
        cov = history_stage(rep, proof["ok"], sc, lib, prop, drv, harness_src, gen, tier, seed, replay=replay, rule=rule,
                            nontrivial=nontrivial, search_rounds=search_rounds, proof_log=proof["log"], prop_file=prop_file,
                            known_patterns=known_patterns,
                            sweep_kinds=(3, 10, 20), sweep_n=40 if tier == "quick" else 300)
        if stage_extra:
            stage_extra(rep, sc, lib, cov, tier, seed)
    return rep.finish(proof, cov)
