"""C04 — ABT_mutex: mutual exclusion, recursion, no lost wakeup (history conformance with LTS Conc/Mutex.v)."""
import vlib, hist

ID = "C04"
MANIFEST = {
    "text": "Theorems (Coq, every number of callers, every interleaving of the LTS whose labels are the ABT_VERIF hook records): "
            "mutual exclusion, holder = lock word, trylock succeeds iff free, no lost wakeup (a queued caller implies mutex held or "
            "broadcast owed; a completed unlock leaves nobody queued), recursion (owner holds while nesting_cnt>0; only the unlock "
            "at nesting 0 releases). Tie: real multi-threaded executions (ULT/external/tasklet callers, 1-4 streams with private or one shared pool, static and "
            "dynamic, recursive mutexes) are recorded by the hooks as a totally ordered history of atomic actions and replayed "
            "through the extracted step function; every event must be enabled; independent monitors (two holders, lost update, "
            "stuck caller) run on every execution. Starvation-freedom under barging and fair scheduling are not claimed (partial).",
    "note": "Trusted: Coq kernel; extraction; the LTS abstraction (spinlock-protected sections as atomic steps, SC memory); the hook "
            "placement and the trace lock making the recorded order the real order; blocking itself (futex, context switch) is "
            "abstracted to pcs UQ/US/EW/ES and covered by C02/C11. With hooks registered the three spinlock primitives run an "
            "instrumented copy of the same test-and-set loop.",
    "technique": "Coq proof of an inductive invariant over a parametric LTS + history conformance (recorded hook events replayed by the extracted step function)",
}


def gen_scenario(rng, big=False):
    nes = rng.choice([0, 1, 2, 3])
    nm = rng.choice([1, 1, 2, 3])
    kinds = [rng.choice(["plain", "plain", "rec", "static", "static_rec"]) for _ in range(nm)]
    nthr = rng.randint(2, 8 if big else 6)
    # a mutex is "spin-safe" if no critical section on it contains a yield or a blocking lock
    spin_safe = [rng.random() < 0.4 for _ in range(nm)]
    lines = ["SEED %d" % rng.randint(1, 10**9), "NES %d" % nes, "WATCHDOG 20"]
    if nes >= 2 and rng.random() < 0.5:
        # the secondary streams serve one shared pool: blocked ULTs are resumed on other streams
        lines.append("SHARED 1")
    for i, k in enumerate(kinds):
        lines.append("MUTEX %d %s" % (i, k))
    for t in range(nthr):
        kind = rng.choice("UUUUEET")
        es = rng.randint(0, nes)
        toks = []
        nblocks = rng.randint(1, 12 if big else 6)
        for _ in range(nblocks):
            m = rng.randrange(nm)
            rec = kinds[m] in ("rec", "static_rec")
            lockop = rng.choice(["L", "L", "l", "h"])
            unlock = rng.choice(["U", "U", "u", "d"])
            body = []
            if not spin_safe[m]:
                body += [rng.choice(["W", "Y", "Y"]) for _ in range(rng.choice([0, 1, 1, 2]))]
                # nested blocking lock on a higher-numbered mutex (lock order => no deadlock)
                if m + 1 < nm and rng.random() < 0.3 and kind != "T":
                    m2 = rng.randrange(m + 1, nm)
                    body += ["L%d" % m2, "W", "U%d" % m2]
            else:
                body += ["W"] * rng.choice([0, 1])
            if kind == "T":
                # tasklets cannot block: trylock only
                toks += ["T%d" % m] + [b for b in body if b == "W"] + ["%s%d" % (unlock, m)]
                continue
            r = rng.random()
            if rec and r < 0.4:
                d = rng.randint(1, 3)
                inner = rng.choice(["L", "T", "L"])
                toks += ["%s%d" % (lockop, m)] + ["%s%d" % (inner, m)] * d + body + ["%s%d" % (unlock, m)] * (d + 1)
            elif r < 0.55:
                toks += ["T%d" % m] + body + ["%s%d" % (unlock, m)]
            elif r < 0.65 and spin_safe[m]:
                toks += ["S%d" % m] + body + ["%s%d" % (unlock, m)]
            else:
                toks += ["%s%d" % (lockop, m)] + body + ["%s%d" % (unlock, m)]
            if rng.random() < 0.3:
                toks.append("Y" if kind == "U" else "W")
        lines.append("THREAD %d %s %d : %s" % (t, kind, es, " ".join(toks)))
    return "\n".join(lines) + "\n"


def gen_deep(rng, d):
    """a recursive mutex nested d levels deep by one caller and released level by level, while another caller keeps
    trying: the mutex stays held until the last level is gone (nesting depths around 2^8 and beyond)"""
    nes = rng.choice([0, 1])
    kind = rng.choice(["rec", "static_rec"])
    lines = ["SEED %d" % rng.randint(1, 10**9), "NES %d" % nes, "WATCHDOG 30", "MUTEX 0 %s" % kind]
    locks = [rng.choice(["L0", "L0", "T0", "l0", "h0"]) for _ in range(d)]
    locks[0] = "L0"
    unl = []
    for i in range(d):
        unl.append(rng.choice(["U0", "U0", "u0", "d0"]))
        if i < 6 or i % 64 == 0:
            unl.append(rng.choice(["Y", "W"]))
    lines.append("THREAD 0 %s %d : %s" % (rng.choice("UE"), rng.randint(0, nes), " ".join(locks + ["Y"] + unl)))
    tries = []
    for _ in range(rng.randint(20, 60)):
        tries += ["T0", "U0", rng.choice(["Y", "W"])]
    lines.append("THREAD 1 %s %d : %s" % (rng.choice("UE"), rng.randint(0, nes), " ".join(tries)))
    return "\n".join(lines) + "\n"


def gen(rng, tier):
    n = 160 if tier == "quick" else 1500
    deep = [gen_deep(rng, d) for d in ([200, 256, 257, 300] if tier == "quick" else [2, 255, 256, 257, 258, 300, 511, 512, 513, 1000])]
    return deep + [gen_scenario(rng, big=(tier != "quick" and i % 3 == 0)) for i in range(n)], {"scenarios": n + len(deep), "deep_recursion": len(deep)}


def run(tier, seed, replay):
    return hist.run_history_property(
        ID, "Properties_C04.v", ["Properties_C04.vo", "Extract_C04.vo"], "c04", "h_c04.c", gen, tier, seed, replay=replay,
        rule="seeded scenarios: 2-8 callers (ULTs on 1-4 streams, external pthreads, tasklets with trylock), 1-3 mutexes "
             "(dynamic, recursive, static initialisers), lock/lock_low/lock_high/trylock/spinlock/unlock/_se/_de, nested in lock "
             "order, yields inside critical sections; every history replayed through the extracted LTS; non-trivial = all",
        extra_assumptions=["blocking (futex / context switch) is abstracted: a ULT between enqueue and the callback's release is "
                           "pc UQ; context-switch correctness is C02/C11"])
