"""C06 — decided on the scheduler LTS (see tools/schedprops.py, coq/Conc/Sched*.v)."""
import schedprops, schedgen
ID = "C06"
COQ_TARGETS = schedprops.SCHED_TARGETS + ["Properties_SchedStop.vo", "Extract_Sched.vo"]
DRIVERS = ["sched"]


def gen_migrate_ss(rng, big=False):
    return schedgen.gen_migrate(rng, big, self_suspend=True)


FAMS = [schedgen.gen_xjoin, schedgen.gen_suspend, schedgen.gen_mig_switch, schedgen.gen_replace, schedgen.gen_directed, schedgen.gen_replace_keep]
NAME_RE = r"^(C06_|SchedCount_invariant|C11_suspend_counts|C11_resume_decrements)"
MANIFEST = {
    "text": "Theorems (Coq, every number of units/pools, every interleaving of the scheduler LTS whose labels are the ABT_VERIF hook "
            "records): num_blocked equals the size of the ghost multiset of counted units, is never negative, is >= 1 while a unit of the pool is blocked, about to be published as blocked or resumed but not yet pushed back, equals the number of such units when no late decrement is outstanding, and a resumer's decrement never uncounts a unit before its push; the stop decision of a main scheduler is sound for a pool only it consumes (C06_stop_sound: num_blocked(p) = 0 read in a state where no executor holds a unit of p, the queue of p read empty later, no work arriving from outside in between => every unit of p has terminated, and this persists), while the single evaluation 'empty, then zero' is refuted (C06_single_evaluation_refuted). Tie: generated scenarios run on the real runtime (1-4 streams, FIFO/FIFO_WAIT/RANDWS pools, all predefined "
            "schedulers, ULTs/tasklets/external threads); every recorded atomic action must be enabled in the model with the recorded "
            "values (state loads, request bits, num_blocked, queue emptiness); API-level monitors (entry counts, arguments, return codes, "
            "pool sizes at quiescence, join/xstream-join postconditions, watchdog) run on every execution; at every recorded stop of a main scheduler the trace monitor requires the scheduler's own observations to contain 'num_blocked = 0, then queue empty' for each pool it consumes alone, evaluates the theorem's hypotheses on the model state and, where they hold, its conclusion.",
    "note": schedprops.NOTE,
    "technique": schedprops.TECH,
}


def run(tier, seed, replay):
    return schedprops.run(ID, NAME_RE, FAMS, tier, seed, replay, files=schedprops.SCHED_FILES + ["Properties_SchedStop.v"],
                          rule="seeded scenario families %s; every history replayed through the extracted LTS; non-trivial = all (each scenario has >= 1 unit)" % [f.__name__ for f in FAMS])
