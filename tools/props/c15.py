"""C15 — descriptors and stacks: exclusive ownership, conservation, any stack size.

Pipeline: proofs (Properties_C15.v) -> scratch build of /repo's tree -> three ties
  (1) white box: mem_pool.c + abti_mem_pool.h + abti_sync_lifo.h (ASan/UBSan copy) vs the extracted
      MemPool / SyncLifo models on generated op sequences (results + dump of every chain, tag, page list);
  (2) multi-threaded storm on the tagged LIFO with an ownership monitor (no element handed out twice,
      none lost, tag = number of successful operations);
  (3) API level: ULTs of every provenance / size / user-stack offset under several memory-pool
      environments, one process per setting, with an allocation ledger (link-time wrappers), vs the
      extracted StackGeom model.
Known findings F5 (mem_pool_return_partial_bucket) and F1 (free of a malloc'ed stack whose size is not a
multiple of 64) are recognised as: the implementation's line differs from the model of the patched code and
is *identical* to the line of the model of the unpatched code."""
import os, json, random, itertools
import vlib

ID = "C15"
MANIFEST = {
    "text": "Theorems (Coq, unbounded): for every sequence of init/alloc/free/destroy operations on any number of "
            "local pools sharing a global pool, any bucket size, page capacity and page-allocation failure pattern, "
            "no block is in two places (client, local chains, bucket LIFO, partial bucket, uncarved remainders) "
            "(C15_exclusive, also for the unpatched code), nothing is lost (C15_conserved, a permutation of all "
            "blocks; refuted for the unpatched mem_pool_return_partial_bucket = finding F5), destroy frees every "
            "page exactly once, take_bucket's loop terminates; the tagged-pointer LIFO is a linearisable stack in "
            "every interleaving (separate ptr/tag loads, weak CAS, owners scribbling on the link word), and breaks "
            "without the tag increment (C15_lifo_no_aba, C15_lifo_needs_tag); every ythread_create provenance gives "
            "the requested stack inside owned memory next to a non-overlapping descriptor and ABTI_mem_free_thread "
            "returns exactly the pointer obtained for every size (C15_stack_size; refuted for the unpatched free "
            "path iff size mod 64 != 0 = finding F1); descriptor / first-frame alignment; byte-level page carving = "
            "slot arithmetic. Tie: extracted models vs mem_pool.c/abti_mem_pool.h/abti_sync_lifo.h (white box, "
            "ASan+UBSan) on exhaustive small scopes + seeded sequences with full chain dumps, a multi-threaded LIFO "
            "storm monitor, and API-level ULT creation/free under several ABT_MEM_* / ABT_STACK_OVERFLOW_CHECK "
            "settings with an allocation ledger, on every run.",
    "note": "Trusted: Coq kernel, extraction (ExtrOcamlBasic), the hand-written models (validated by the differential "
            "harnesses, not verified against the C text), gcc/glibc/ld --wrap. Operations of different local pools "
            "interleave at whole-operation granularity in the pool model; the interleaving of take_bucket's internal "
            "LIFO accesses is covered by the separate LIFO LTS (linearisability), not by one combined model. 64-bit "
            "tag wrap-around is assumed unreachable. mprotect guard placement is proved only for default stacks "
            "with the two extra pages the runtime adds (guard_inside); lazy stack allocation, the spinlock LIFO "
            "variant and valgrind registration are compiled out and not modelled.",
}
WRAP = "-Wl,--wrap=malloc,--wrap=calloc,--wrap=realloc,--wrap=posix_memalign,--wrap=free,--wrap=mmap,--wrap=munmap"


# ------------------------------------------------------------------ generators
def gen_mp_case(rng, maxops=60):
    N = rng.choice([1, 2, 2, 3, 4, 4, 5, 8])
    S = rng.choice([1, 2, 3, 5, 7, 8, 16, 3 * N, 2 * N + 1])
    np_ = rng.choice([1, 2, 3, 4])
    hs = rng.choice([16, 24, 32, 48, 64, 128])
    ho = rng.choice([x for x in (0, 8, 16, 48, 112) if x + 16 <= hs])
    extra = rng.choice([x for x in (0, 8, 16, 40) if x < hs])
    ops = []
    live = set()
    nops = rng.choice([5, 10, 20, 40, maxops])
    mode = rng.choice(["mixed", "grow", "churn", "destroyheavy"])
    for _ in range(nops):
        r = rng.random()
        i = rng.randrange(np_)
        if i not in live and r < 0.7:
            ops.append("I %d" % i); live.add(i); continue
        if mode == "grow":
            pa, pf, pd = 0.7, 0.2, 0.03
        elif mode == "churn":
            pa, pf, pd = 0.45, 0.45, 0.03
        elif mode == "destroyheavy":
            pa, pf, pd = 0.45, 0.25, 0.2
        else:
            pa, pf, pd = 0.5, 0.35, 0.06
        if r < pa:
            for _ in range(rng.choice([1, 1, 1, 2, 3, N, 2 * N + 1])):
                ops.append("A %d" % i)
        elif r < pa + pf:
            for _ in range(rng.choice([1, 1, 2, N, 2 * N + 1])):
                ops.append("F %d %d" % (i, rng.choice([0, 0, 1, rng.randrange(1000)])))
        elif r < pa + pf + pd:
            ops.append("D %d" % i); live.discard(i)
        elif r < pa + pf + pd + 0.04:
            ops.append("B %d" % rng.choice([0, 0, 1, 2, -1, -1]))
        else:
            ops.append("A %d" % i)
    if rng.random() < 0.5:
        ops.append("B -1")
        for i in range(np_):
            ops.append("D %d" % i)
        ops.append("Z")
    return "MP %d %d %d %d %d %d ; %s" % (N, S, np_, hs, ho, extra, " , ".join(ops))


def gen_mp_exhaustive(maxlen):
    """every op sequence up to maxlen over two pools with buckets of 2 and pages of 3 headers"""
    alpha = ["I 0", "I 1", "A 0", "A 1", "F 0 0", "F 1 1", "D 0", "D 1"]
    out = []
    for L in range(1, maxlen + 1):
        for seq in itertools.product(alpha, repeat=L):
            if seq[0][0] != "I":
                continue          # nothing happens before the first init
            out.append("MP 2 3 2 32 8 8 ; " + " , ".join(seq))
    return out


def gen_lf_case(rng):
    ops = []
    for _ in range(rng.choice([3, 10, 30])):
        if rng.random() < 0.5:
            ops.append("%s %d" % (rng.choice("Pp"), rng.randint(1, rng.choice([3, 16]))))
        else:
            ops.append(rng.choice("Oo"))
    return "LF ; " + " , ".join(ops)


F5_CORPUS = "MP 4 6 3 64 16 8 ; I 0 , I 1 , I 2 , A 0 , A 1 , A 1 , D 0 , D 1"

ENVS = [
    dict(D=16384, G=0, LP="malloc", MS=4, MD=4),
    dict(D=16384, G=0, LP="mmap_rp", MS=2, MD=2),
    dict(D=24576, G=1, LP="mmap_rp", MS=8, MD=8),
    dict(D=24576, G=2, LP="malloc", MS=4, MD=6),
    dict(D=65536, G=0, LP="thp", MS=16, MD=16, PG=65536),
    dict(D=4096, G=0, LP="mmap_hp_rp", MS=6, MD=10, SP=32768),
    dict(D=16384, G=0, LP="mmap_hp_thp", MS=1024, MD=4096),
    dict(D=32768, G=1, LP="mmap_hp_rp", MS=4, MD=4, SP=262144),
]


def env_hdr(e, sy):
    return "API " + " ".join("%s=%s" % (k, v) for k, v in e.items()) + " SY=%d" % sy


def gen_api_mixed(rng, e, sy, n):
    """mixed creators / freers; only sizes that are multiples of 64 (ordinary cases)"""
    specs = []
    minsz = 4096 if e["G"] == 0 else 16384
    for _ in range(n):
        cr = rng.choice("MMMSX")
        fr = rng.choice("mmmsx")
        k = rng.random()
        if k < 0.5:
            specs.append("%s N %s" % (cr, fr))
        elif k < 0.8:
            sz = rng.choice([minsz, e["D"], 2 * e["D"], 65536, 1 << 20, 16 << 20, minsz + 64 * rng.randrange(1, 4000)])
            specs.append("%s A %d %s" % (cr, sz, fr))
        else:
            sz = rng.choice([minsz, 32768, 65536 + 8 * rng.randrange(0, 64)])
            specs.append("%s U %d %d %s" % (cr, 8 * rng.randrange(0, 8), sz, fr))
    return env_hdr(e, sy) + " ; " + " , ".join(specs)


def gen_api(rng, tier, sy):
    cases = []
    quick = tier == "quick"
    # (a) every residue mod 64 of the attribute stack size (the finding-F1 family before the fix)
    bases = [4096, 20000 - 20000 % 64] if quick else [4096, 8192, 20000 - 20000 % 64, 1 << 20, (16 << 20) - 64]
    for b in bases:
        for lo in (0, 32):
            specs = ["%s A %d %s" % (("M", "S", "X")[r % 3], b + r, "msx"[(r // 3) % 3]) for r in range(lo, lo + 32)]
            cases.append(env_hdr(ENVS[0], sy) + " ; " + " , ".join(specs))
    cases.append(env_hdr(ENVS[0], sy) + " ; M A 20008 m")           # the recipe of the finding itself
    # (b) sizes 4 KiB .. 16 MiB (multiples of 64), all creators
    sizes = [4096 << i for i in range(0, 13)] + [4096 + 64, 12352, 100032, (16 << 20) - 64]
    specs = ["%s A %d %s" % ("MSX"[i % 3], s, "mxs"[i % 3]) for i, s in enumerate(sizes)]
    cases.append(env_hdr(ENVS[0], sy) + " ; " + " , ".join(specs))
    # (c) user stacks at every 8-byte offset mod 64, sizes with every residue mod 16
    specs = ["%s U %d %d %s" % ("MSX"[o % 3], 8 * o, 16384 + 8 * ((3 * o) % 8), "mxs"[o % 3]) for o in range(8)]
    for e in (ENVS[0], ENVS[2]):
        cases.append(env_hdr(e, sy) + " ; " + " , ".join(specs))
    # (d) every environment: enough default-size ULTs to force bucket hand-over in both directions
    for e in ENVS if not quick else ENVS[:6]:
        n = min(3 * e["MS"] + 5, 60)
        specs = ["%s N %s" % ("M" if i % 5 else "S", "m" if i % 7 else "x") for i in range(n)]
        cases.append(env_hdr(e, sy) + " ; " + " , ".join(specs))
        cases.append(gen_api_mixed(rng, e, sy, 24 if quick else 60))
    if not quick:
        for _ in range(100):
            cases.append(gen_api_mixed(rng, rng.choice(ENVS), sy, rng.choice([5, 30, 120])))
    # (e) concurrent creation / free on two streams and external threads (overlap registry + ledger)
    for e in (ENVS[0], ENVS[1], ENVS[2]) if quick else ENVS:
        cases.append(env_hdr(e, sy).replace("API ", "APIS ", 1) + " ; W=%d X=%d R=%d K=%d" %
                     (rng.choice([2, 4, 6]), rng.choice([1, 2, 3]), 40 if quick else 400, rng.choice([3, 8, 16])))
        # the same after an external thread has freed more stream-created tasklets than two buckets hold
        # (descriptor buckets travel external pool -> global pool; they must never reach the stack pool)
        cases.append(env_hdr(e, sy).replace("API ", "APIS ", 1) + " ; W=%d X=%d R=%d K=%d T=%d" %
                     (rng.choice([2, 4]), rng.choice([1, 2]), 20 if quick else 200, rng.choice([16, 32, 64]),
                      min(8192, 3 * max(e["MS"], e["MD"]) + rng.choice([1, 5, 17]))))
    # (f) the migrating joiner: a ULT of a pool shared by two streams frees a tasklet that has not run yet (the free
    # polls with yields, the caller resumes on either stream) while its siblings use the streams' descriptor pools
    for e in (ENVS[0], ENVS[2]) if quick else ENVS:
        cases.append(env_hdr(e, sy).replace("API ", "APIS ", 1) + " ; W=1 X=0 R=2 K=2 J=%d" % (4000 if quick else 60000))
    return cases


def gen_wb(rng, tier):
    quick = tier == "quick"
    ex = gen_mp_exhaustive(4 if quick else 6)
    nr = 2500 if quick else 150000
    rnd = [gen_mp_case(rng, 60 if quick else 200) for _ in range(nr)]
    lf = [gen_lf_case(rng) for _ in range(200 if quick else 3000)]
    return [F5_CORPUS] + ex + rnd + lf, {"mp_exhaustive_len<=%d_8ops_2pools" % (4 if quick else 6): len(ex),
                                         "mp_random": nr, "lf_random": len(lf)}


# ------------------------------------------------------------------ verdicts
def split_obs(line):
    for sep in (" | ", " ; "):
        if sep in line:
            return line.split(sep)[0]
    return line


def classify(case, impl, model):
    if impl.startswith("CRASH") or "CRASH" in impl[:12]:
        return "observable"
    if case.startswith("API"):
        return "observable"
    return "observable" if split_obs(impl) != split_obs(model) else "internal"


def nontrivial(case):
    if case.startswith("MP"):
        return case.count(",") >= 2 and " A " in case
    if case.startswith("LF"):
        return case.count(",") >= 1
    return True


def run_driver(drv_exe, cases, sc, name, flags=()):
    cf = os.path.join(sc, name + ".txt")
    with open(cf, "w") as f:
        f.write("\n".join(cases) + "\n")
    rc, out, err = vlib.run([drv_exe] + list(flags) + [cf], timeout=1800)
    lines = out.split("\n")[:-1] if out.endswith("\n") else out.split("\n")
    if rc != 0 or len(lines) != len(cases):
        raise RuntimeError("model driver failed (rc=%s, %d/%d lines): %s" % (rc, len(lines), len(cases), err[-2000:]))
    return lines


def run(tier, seed, replay):
    rep = vlib.Report(ID, tier, seed)
    rep.assumptions += ["mem_pool.c / abti_mem_pool.h / abti_sync_lifo.h are exercised as an ASan+UBSan-instrumented "
                        "white-box copy with a recording page allocator; the API level runs the -O2 library with "
                        "ld --wrap allocation ledger, one forked process per memory-pool setting"]
    proof = vlib.proof_stage("Properties_C15.v", ["Properties_C15.vo", "Extract_C15.vo"])
    if not proof["ok"]:
        vlib.log("proof stage failed:\n" + proof["log"][-3000:])
    okd, drv_exe, derr = vlib.build_driver("c15")
    if not okd:
        rep.violation("driver-build.txt", "model driver does not build (extraction broken):\n" + derr +
                      "\n" + proof["log"][-3000:], found_input=False)
        return rep.finish(proof, {"evaluations": 0})
    kf = dict(vlib.known_findings(ID))
    cov = {}
    with vlib.Scratch(ID) as sc:
        vlib.copy_repo_src(sc)
        okl, lib, lerr = vlib.get_lib(sc)
        if not okl:
            rep.violation("repo-build.txt", "the library of /repo's working tree does not compile with -D%s:\n%s"
                          % (vlib.GUARD, lerr), found_input=False)
            return rep.finish(proof, {"evaluations": 0})
        h_wb = os.path.join(sc, "h_c15_wb")
        h_api = os.path.join(sc, "h_c15_api")
        ok1, e1 = vlib.build_harness(sc, os.path.join(vlib.HARNESS, "h_c15_wb.c"), h_wb, lib=lib, san=True)
        ok2, e2 = vlib.build_harness(sc, os.path.join(vlib.HARNESS, "h_c15_api.c"), h_api, lib=lib, san=False,
                                     extra=[WRAP])
        if not (ok1 and ok2):
            rep.violation("harness-build.txt", "C15 harness does not compile against /repo's working tree "
                          "(the code the model corresponds to changed shape):\n%s\n%s" % (e1, e2), found_input=False)
            return rep.finish(proof, {"evaluations": 0})
        rc, out, err = vlib.run([h_api, "--consts"], timeout=60)
        sy = int(out.strip().split("=")[1]) if rc == 0 and "SY=" in out else 0
        storms = []
        if replay:
            payload = json.load(open(replay))
            allc = payload.get("cases", [])
            wb_cases = [c for c in allc if c[:2] in ("MP", "LF")]
            api_cases = [c for c in allc if c.startswith("API")]
            storms = payload.get("storms", [])
            stats = {"replay": replay}
        else:
            rng = random.Random(seed)
            corpus = vlib.load_corpus(ID)
            wb_cases, stats = gen_wb(rng, tier)
            wb_cases = [c for c in corpus if c[:2] in ("MP", "LF")] + wb_cases
            api_cases = [c for c in corpus if c.startswith("API")] + gen_api(rng, tier, sy)
            stats["api_cases"] = len(api_cases)
            stats["api_ults"] = sum(c.count(",") + 1 for c in api_cases)
            stats["corpus_cases"] = len(corpus)
            for k in range(3 if tier == "quick" else 20):
                storms.append([rng.choice([2, 4, 8, 16]), rng.choice([1, 2, 3, 8, 32]),
                               150000 if tier == "quick" else 2000000, seed * 100 + k])
        obs, internal, known_hits = [], [], {}
        for (hexe, cases, name, flag, key) in ((h_wb, wb_cases, "wb", "--f5-buggy", "F5"),
                                               (h_api, api_cases, "api", "--f1-buggy", "F1")):
            if not cases:
                continue
            bad, impl, model = vlib.differential(hexe, drv_exe, cases, sc, name=name, timeout=1800)
            if bad:
                buggy = run_driver(drv_exe, cases, sc, name + "-unpatched", [flag])
            for (i, c, a, b) in bad:
                if a == buggy[i] and buggy[i] != model[i]:
                    known_hits.setdefault(key, []).append(c)
                    continue
                (obs if classify(c, a, b) == "observable" else internal).append((i, c, a, b))
        for k, cs in known_hits.items():
            if k in kf:
                rep.known.append("key=%s %s (%d cases this run behave exactly like the model of the unpatched code, e.g. %s)"
                                 % (k, kf[k], len(cs), cs[0][:140]))
            else:
                obs.append((-1, cs[0], "behaves like the unpatched code of finding %s, which is not (any more) "
                                       "listed as known in known_findings.txt" % k, "model of the patched code differs"))
        # ---- LIFO storm
        storm_bad = []
        storm_ops = 0
        for (nt, ne, it, sd) in storms:
            rc, out, err = vlib.run([h_wb, "--storm", str(nt), str(ne), str(it), str(sd)], timeout=600)
            line = out.strip().split("\n")[-1] if out.strip() else ""
            if rc != 0 or not line.startswith("STORM ok"):
                storm_bad.append(([nt, ne, it, sd], "rc=%s %s %s" % (rc, line, err.strip()[-600:])))
            else:
                try:
                    storm_ops += int(line.split("pops=")[1].split()[0]) + int(line.split("pushes=")[1].split()[0])
                except Exception:
                    pass
        allc = wb_cases + api_cases
        distinct = set(c for c in allc if nontrivial(c))
        cov = {"evaluations": len(allc) + len(storms), "distinct_nontrivial": len(distinct),
               "rule": "MP: every op sequence of length<=L over 8 ops on 2 local pools (buckets of 2, pages of 3; "
                       "exhaustive) + seeded sequences (buckets 1..8, pages 1..24 headers, 1..4 pools, allocation-failure "
                       "budgets, destroy/finalize); LF: seeded push/pop (safe and unsafe variants); API: ULT specs per "
                       "memory-pool setting. Non-trivial = MP with >=3 ops incl. an alloc, LF with >=2 ops, every API "
                       "case. Distinct = distinct case text.",
               "samples": allc[:2] + api_cases[:1] + allc[-1:],
               "disagreements_checked": len(allc), "generator_stats": stats,
               "mismatch_observable": len(obs), "mismatch_internal_only": len(internal),
               "known_finding_cases": sum(len(v) for v in known_hits.values()),
               "lifo_storm_runs": len(storms), "lifo_storm_successful_ops": storm_ops, "sizeof_ythread": sy}
        if storm_bad:
            p, txt = storm_bad[0]
            rep.violation("storm-%d.json" % seed,
                          {"kind": "storm", "property": ID, "seed": seed, "cases": [], "storms": [p], "verdict": txt,
                           "explanation": "multi-threaded storm on ABTI_sync_lifo: the ownership monitor / conservation "
                                          "check failed (C15_lifo_no_aba is violated by the implementation)"},
                          found_input=True, text=txt)
        if obs:
            i, c, a, b = obs[0]
            rep.violation("obs-%d.json" % seed,
                          {"kind": "diff", "property": ID, "seed": seed, "cases": [c],
                           "implementation": a, "model_of_patched_code": b,
                           "explanation": "the implementation's observable result differs from the model, for which "
                                          "C15_* are proved; this input is the failing input",
                           "more": [x[1] for x in obs[1:10]]},
                          found_input=True, text="%s\n   impl : %s\n   model: %s" % (c[:300], a[:600], b[:600]))
        elif internal:
            i, c, a, b = internal[0]
            rep.violation("corr-%d.json" % seed,
                          {"kind": "diff", "property": ID, "seed": seed, "cases": [c],
                           "implementation": a, "model": b,
                           "broken": "correspondence h_c15_wb.c <-> DS/MemPool.v / DS/SyncLifo.v (internal structure "
                                     "dump differs; observable results agree on all %d cases)" % len(allc)},
                          found_input=False, text="%s\n   impl : %s\n   model: %s" % (c[:300], a[:600], b[:600]))
        if tier == "thorough" and proof["ok"] and not replay:
            # independent re-check of the compiled proofs by the stand-alone checker
            rc, out, err = vlib.run(["coqchk", "-silent", "-o", "-Q", ".", "ABT", "ABT.Properties_C15"],
                                    cwd=vlib.COQ, timeout=1500)
            txt = out + err
            cov["coqchk"] = "ok, axioms: none" if (rc == 0 and "* Axioms: <none>" in txt) else "FAILED"
            if cov["coqchk"] == "FAILED":
                rep.violation("coqchk-%d.txt" % seed, "coqchk -o on Properties_C15 failed or reports axioms:\n" +
                              txt[-3000:], found_input=False)
        if not proof["ok"] and not obs and not storm_bad:
            rep.violation("proof-%d.txt" % seed,
                          "proof obligation(s) of Properties_C15.v no longer check:\n%s\n(correspondence: %d cases, "
                          "%d observable mismatches)" % (proof["log"][-3000:], len(allc), len(obs)), found_input=False)
    return rep.finish(proof, cov)
