"""C10 — reader-writer lock: writers exclusive, readers shared, nobody stuck
(history conformance with LTS Conc/RWLock.v, built on the C05 CondMutex LTS and the C04 Mutex LTS)."""
import vlib, hist

ID = "C10"
MANIFEST = {
    "text": "Theorems (Coq; LTS Conc/RWLock.v = the three routines of rwlock.c as programs over the actions of the C05 LTS "
            "(CondMutex, carrying the C04 Mutex LTS) + reader_count/write_flag; every number of ULT/external callers, every "
            "interleaving; unlock called by a holder): rw->mutex+rw->cond of every reachable state is a reachable C05 state (C05 "
            "and C04 theorems reused, not re-proved); write_flag is set exactly while a writer holds and then reader_count = 0 and "
            "no read hold exists, reader_count = number of read holds; a writer acquires only with no holder at all, a reader only "
            "with no writer; the counters are written only by the owner of rw->mutex; readers shared: at the loop test of rdlock "
            "with write_flag = 0 the caller proceeds and cannot start a wait, whatever reader_count is; nobody stuck (safety form): "
            "every locker blocked in the cond is in its wait list, and while somebody is queued or about to enqueue the lock is held "
            "or an unlocker owning the mutex is inside its broadcast (no lost wake-up at rwlock level, built on C05 atomic "
            "release-and-wait); each unlock enters ABTI_cond_broadcast at its DATA record and leaves it only after the broadcast "
            "returned. Tie: real executions (2-8 ULT/external callers on 1-4 streams, tasklets refused, adversarial arrival orders, "
            "nested locks) recorded as totally ordered histories of atomic actions and replayed through the extracted step "
            "function; harness-side holder counters (reader with writer, two writers, lost update, max simultaneous readers) and "
            "raw-history monitors (waits although free / although only readers hold, data written without the mutex, stuck caller). "
            "Eventual acquisition under fair scheduling (liveness) and writer starvation-freedom are not claimed: the lock is "
            "reader-preferring by construction.",
    "note": "Trusted: as C04/C05 (Coq kernel, extraction, LTS abstraction, hooks, trace lock, blocking abstracted). The loop tests "
            "of rdlock/wrlock leave no record; the model takes their outcome from the caller's next record (ACQ(cond lock) = wait, "
            "DATA = proceed) and checks it against the modelled counters. Client contract in the model: unlock only by a holder "
            "(reader_count-- on 0 is excluded, the C code has only a disabled UB assert there).",
    "technique": "Coq proofs (inductive invariants, projection onto the C05/C04 LTSs, frame lemmas) + history conformance",
}


def body(rng):
    return "".join(rng.choice("YWZYW") for _ in range(rng.choice([0, 1, 1, 2, 3])))


def gen_scenario(rng, big=False):
    nes = rng.choice([0, 1, 2, 3])
    nrw = rng.choice([1, 1, 1, 2])
    nthr = rng.randint(2, 8)
    lines = ["SEED %d" % rng.randint(1, 10**9), "NES %d" % nes, "WATCHDOG 10"]
    if nes >= 2 and rng.random() < 0.3:
        lines.insert(2, "SHARED 1")   # the secondary streams serve one shared pool: blocked ULTs resume on other streams
    for i in range(nrw):
        lines.append("RWLOCK %d" % i)
    style = rng.choice(["mixed", "mixed", "readers_then_writer", "writer_then_all", "writers"])
    for t in range(nthr):
        kind = rng.choice("UUUUEEE" + ("T" if rng.random() < 0.3 else "U"))
        es = rng.randint(0, nes)
        toks = []
        if kind == "T":
            for _ in range(rng.randint(1, 3)):
                toks.append(rng.choice(["R%d", "W%d", "r%d", "w%d"]) % rng.randrange(nrw))
            lines.append("THREAD %d T %d : %s" % (t, es, " ".join(toks)))
            continue
        nops = rng.randint(1, 8 if big else 5)
        for k in range(nops):
            i = rng.randrange(nrw)
            if style == "readers_then_writer":
                wr = (t == nthr - 1) or rng.random() < 0.15
            elif style == "writer_then_all":
                wr = (t == 0 and k == 0) or rng.random() < 0.3
            elif style == "writers":
                wr = rng.random() < 0.8
            else:
                wr = rng.random() < 0.4
            r = rng.random()
            if r < 0.55:
                b = body(rng)
                toks.append("%s%d%s" % ("W" if wr else "R", i, (":" + b) if b else ""))
            elif r < 0.85:
                # lock, stay inside across several scheduling points, possibly take a second (higher) lock inside
                toks.append("%s%d" % ("w" if wr else "r", i))
                for _ in range(rng.randint(0, 3)):
                    toks.append(rng.choice(["Y", "W", "Z1", "Z2", "Y"]))
                if i + 1 < nrw and rng.random() < 0.4:
                    j = rng.randrange(i + 1, nrw)
                    toks.append("%s%d:%s" % (rng.choice("RW"), j, body(rng) or "W"))
                toks.append("u%d" % i)
            else:
                toks.append(rng.choice(["Y", "W", "Z1", "Z2"]))
        if style == "readers_then_writer" and t == nthr - 1:
            toks = ["Z1"] + toks
        lines.append("THREAD %d %s %d : %s" % (t, kind, es, " ".join(toks)))
    return "\n".join(lines) + "\n"


def gen_many_holds(rng, n):
    """One ULT takes n read holds of rwlock 0 (a reader may lock again; each hold counts in reader_count), a writer
    and a second reader arrive while they are held, then the holds are given back one by one.  n around 256 and 65536
    would show a reader_count narrower than the number of holds (the writer must stay out until the last unlock)."""
    nes = rng.choice([1, 2])
    lines = ["SEED %d" % rng.randint(1, 10**9), "NES %d" % nes, "WATCHDOG 20", "RWLOCK 0"]
    cut = rng.randint(1, n)
    toks = ["r0"] * n + ["Y", "Z1"] + ["u0"] * cut + ["Y"] + ["u0"] * (n - cut)
    lines.append("THREAD 0 U 0 : %s" % " ".join(toks))
    lines.append("THREAD 1 %s %d : Z1 w0 Y u0" % (rng.choice("UE"), rng.randint(0, nes)))
    lines.append("THREAD 2 %s %d : Y R0 Z1 R0" % (rng.choice("UE"), rng.randint(0, nes)))
    return "\n".join(lines) + "\n"


def gen(rng, tier):
    n = 220 if tier == "quick" else 8000
    scs = [gen_scenario(rng, big=(tier != "quick" and i % 3 == 0)) for i in range(n)]
    holds = [255, 256, 257, rng.randint(258, 700)] + ([rng.randint(2, 1500) for _ in range(20)] if tier != "quick" else [])
    scs += [gen_many_holds(rng, h) for h in holds]
    return scs, {"scenarios": len(scs), "many_holds_scenarios": len(holds), "max_read_holds": max(holds)}


def run(tier, seed, replay):
    return hist.run_history_property(
        ID, "Properties_C10.v", ["Properties_C10.vo", "Extract_C10.vo"], "c10", "h_c10.c", gen, tier, seed, replay=replay,
        rule="seeded scenarios: 2-8 callers (ULTs on 1-4 streams, external pthreads, tasklets that must be refused), 1-2 "
             "rwlocks, rdlock/wrlock/unlock with yields and sleeps inside the held section, adversarial arrival orders "
             "(readers then a writer, a writer then everybody, writers only, mixed), nested locks in index order; 255 / 256 / 257 / "
             "up to 700 (thorough 1500) read holds of one ULT outstanding while a writer and a reader arrive; every "
             "history replayed through the extracted LTS; harness-side holder counters + raw-history monitors; non-trivial = all",
        extra_assumptions=["a watchdog stop counts as a failure of this property only if an unfinished caller is blocked on the "
                           "rwlock with nothing left to wake it (queued in rw->cond with reader_count = write_flag = 0 and nobody "
                           "inside unlock, or queued in rw->mutex with lock word and waiter_lock free); otherwise reported as starved",
                           "blocking (futex / context switch) is abstracted to program points; context-switch correctness is C02/C11",
                           "the loop tests of rdlock/wrlock leave no record: the model takes the test outcome from the next "
                           "record of the caller (ACQ(cond lock) = wait, DATA = proceed) and checks it against the modelled fields"])
