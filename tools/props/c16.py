"""C16 — work-unit-local storage: per-unit key->value map, exactly-once destructors."""
import itertools
import vlib

ID = "C16"
MANIFEST = {
    "text": "Theorems (Coq, unbounded): for every sequence of key create/free, unit create/revive/free and set/get through any "
            "entry point by the owner, another unit or an external thread, any number of units/keys, any ABT_KEY_TABLE_SIZE "
            "(always rounded to a power of two: C16_table_size_pow2/_roundup; id & (size-1) = id mod size: C16_index_in_bounds) "
            "the field-level model of abti_key.h/key.c returns what one independent map key-id -> (destructor, value) per unit "
            "returns (C16_map; C16_key_ids_distinct: ids 2+h are pairwise distinct until the 32-bit counter wraps; "
            "C16_set_fail_clean: a set failing with ABT_ERR_MEM changes nothing); at thread_free each key id ever set is visited "
            "once and its destructor gets the current value iff both are non-NULL, nothing else is called (C16_dtor_once); "
            "every memory block obtained for a table (pool descriptor / external-thread malloc'ed descriptor / malloc) is "
            "owned by exactly one live unit or released exactly once by the matching releaser, nothing leaks once all units "
            "are freed (C16_blocks_once, C16_free_releases_all); with the byte sizes of this build every element lies inside an "
            "owned block behind the header/table, within the block, and no two overlap (C16_elems_placed). LTS over all interleavings of any number of concurrent "
            "setters/getters on one unit with allocation failures and spurious weak-CAS failures: one table at most, every "
            "set works on the published table (C16_lazy_create_once), a successful set is visible at its last step and no "
            "other step changes what readers see (C16_no_lost_set), chains stay duplicate-free, slot-correct and append-only "
            "under the single-holder table lock (C16_concurrent_append), lock-free gets are linearizable (C16_lockfree_get), "
            "no NULL table is dereferenced (C16_no_null_deref; refuted for the code before /repo commit a54fdc8: "
            "C16_loser_null_deref_refuted_before_fix). Tie: extracted model vs the implementation on the same generated API-level "
            "op lists (results, destructor log, white-box chain/block/offset dump, release log) for 21 ABT_KEY_TABLE_SIZE "
            "settings, white-box set_unsafe/alloc_elem cases, multi-stream stress of first setters, and the forced "
            "creation race with a failing creator (LTS outcome vs implementation), on every run.",
    "note": "Trusted: Coq kernel, extraction (ExtrOcamlBasic), the hand-written models DS/Ktable.v and Conc/KtableConc.v "
            "(validated by the differential harness, not verified against the C text), gcc/glibc/ASan. The LTS is not tied by "
            "recorded histories (no hooks for this property): only the forced race and the stress end states are compared; "
            "sequential consistency assumed (acquire/release annotations not checked). Not modelled: destructors that call "
            "back into the key API, the stackable-scheduler key (id 0), key-id wrap after 2^32 creations (ids then collide "
            "with the internal ids 0/1), p_ktable->size being a signed int for a 2^31 table, ABTI_mem_alloc_desc/free_desc "
            "internals (C15).",
}

ENVS_POW2 = ["1", "2", "4", "8", "16", "32", "64", "128", "256", "512", "1024"]
ENVS_ODD = ["-", "0", "3", "5", "6", "7", "12", "100", "1000", "abc"]


# ------------------------------------------------------------------ KT generator
class _Gen:
    """Generates one mostly-valid API-level op sequence obeying the harness's scheduling
    constraints (see h_c16.c): one tasklet at a time owns ES 1; an unnamed unit's handle is
    known to others only after its first own op; every unit finishes before the case ends."""

    def __init__(self, rng, nkeys, nunits, nops, p_null=0.1, p_dtor0=0.25, jump=False):
        self.r = rng
        self.ops = []
        self.keys = []          # live key handles
        self.allkeys = 0
        self.units = {0: dict(ty="p", named=True, state="run", started=True)}
        self.es1 = []           # tasklets queued on ES 1 (head runs)
        self.nextu = 1
        self.nkeys, self.nunits, self.nops = nkeys, nunits, nops
        self.p_null, self.p_dtor0 = p_null, p_dtor0
        self.jump = jump
        self.val = 0
        self.ids_left = 1 << 32

    def value(self):
        if self.r.random() < self.p_null:
            return 0
        self.val += 1
        return self.val

    def kc(self):
        d = 0 if self.r.random() < self.p_dtor0 else self.r.randint(1, 7)
        self.ops.append("kc %d" % d)
        self.keys.append(self.allkeys)
        self.allkeys += 1

    def uc(self):
        ty = self.r.choice("ttTnnkkj")
        mig = 1 if ty in "tTn" and self.r.random() < 0.3 else 0
        u = self.nextu
        self.nextu += 1
        self.units[u] = dict(ty=ty, named=ty in "tTk", state="run", started=False)
        if ty in "kj":
            self.es1.append(u)
        self.ops.append("uc %d %s %d" % (u, ty, mig))

    def can_act(self, u):
        x = self.units[u]
        if x["state"] != "run":
            return False
        if x["ty"] in "kj":
            return self.es1 and self.es1[0] == u
        return True

    def actors(self):
        return [u for u in self.units if self.can_act(u)]

    def targets(self):
        # units whose handle is known: named and not freed, or unnamed, running and started
        return [u for u, x in self.units.items()
                if (x["named"] and x["state"] in ("run", "done")) or
                   (not x["named"] and x["state"] == "run" and x["started"])]

    def key(self):
        return self.r.choice(self.keys) if self.keys else 0

    def setget(self):
        r = self.r
        if not self.keys:
            return self.kc()
        if r.random() < 0.12:
            # the external thread
            tg = self.targets()
            if r.random() < 0.15:
                self.ops.append(r.choice(["s x k 0 %d 5", "g x e 0 %d", "s x e 0 %d 6", "g x k 0 %d"]) % self.key())
            elif tg:
                u = r.choice(tg)
                if r.random() < 0.6:
                    self.ops.append("s x t %d %d %d" % (u, self.key(), self.value()))
                else:
                    self.ops.append("g x t %d %d" % (u, self.key()))
            return
        acts = self.actors()
        a = r.choice(acts)
        tg = self.targets()
        if r.random() < 0.6 or not tg:
            api, u = r.choice("ke"), a
        else:
            api, u = "t", r.choice(tg)
        if api != "t":
            self.units[a]["started"] = True
        elif u != a and not self.units[a]["started"]:
            self.units[a]["started"] = True   # any own op publishes the actor's handle
        else:
            self.units[a]["started"] = True
        if r.random() < 0.6:
            self.ops.append("s %d %s %d %d %d" % (a, api, u, self.key(), self.value()))
        else:
            self.ops.append("g %d %s %d %d" % (a, api, u, self.key()))

    def finish(self, u):
        x = self.units[u]
        self.ops.append("uj %d" % u)
        if x["ty"] in "kj":
            assert self.es1[0] == u
            self.es1.pop(0)
        x["state"] = "done" if x["named"] else "freed"

    def finishable(self):
        return [u for u in self.units if u != 0 and self.can_act(u)]

    def gen(self):
        r = self.r
        for _ in range(min(self.nkeys, r.choice([1, 2, self.nkeys]))):
            self.kc()
        for _ in range(self.nops):
            p = r.random()
            if p < 0.05 and self.allkeys < self.nkeys:
                self.kc()
            elif p < 0.08 and self.nextu <= self.nunits:
                self.uc()
            elif p < 0.10 and len(self.keys) > 1:
                h = r.choice(self.keys)
                self.keys.remove(h)
                self.ops.append("kf %d" % h)
            elif p < 0.105 and self.keys:
                # a freed / never valid handle
                dead = [h for h in range(self.allkeys) if h not in self.keys]
                if dead:
                    self.ops.append(r.choice(["s 0 k 0 %d 3", "g 0 e 0 %d", "kf %d"]) % r.choice(dead))
            elif p < 0.13:
                f = self.finishable()
                if f:
                    self.finish(r.choice(f))
            elif p < 0.15:
                d = [u for u, x in self.units.items() if x["state"] == "done"]
                if d:
                    u = r.choice(d)
                    if r.random() < 0.5:
                        self.ops.append("ur %d" % u)
                        self.units[u]["state"] = "run"
                        if self.units[u]["ty"] in "kj":
                            self.es1.append(u)
                    else:
                        self.ops.append("uf %d" % u)
                        self.units[u]["state"] = "freed"
            elif p < 0.17:
                tg = self.targets()
                acts = self.actors()
                if tg and acts:
                    a = r.choice(acts + ["x"])
                    if a != "x":
                        self.units[a]["started"] = True
                    self.ops.append("m %s %d" % (a, r.choice(tg)))
            elif p < 0.175 and self.jump:
                n = r.choice([2, 3, 2**31 - 1, 2**31, 2**32 - 1000, r.getrandbits(32) % (2**32 - 2000) + 2,
                              r.getrandbits(12) * 1024 + 2])
                self.ops.append("kj %d" % n)
            else:
                self.setget()
        # everybody finishes; tasklets in queue order
        while True:
            f = self.finishable()
            if not f:
                break
            self.finish(f[0])
        return self.ops


def gen_kt(rng, tier):
    cases = []
    stats = {}
    # exhaustive small scope: two colliding keys (table size 1 / 2), the primary ULT and one named ULT
    alpha = ["s 0 k 0 0 7", "s 0 e 0 1 8", "s 0 t 1 0 9", "s 1 k 1 0 0", "s 1 e 1 1 5", "g 0 k 0 0",
             "g 1 t 1 0", "g 0 t 1 1", "s x t 1 1 4"]
    maxlen = 2 if tier == "quick" else 3
    n = 0
    for env in (["1", "2"] if tier == "quick" else ["1", "2", "8"]):
        for L in range(1, maxlen + 1):
            for seq in itertools.product(alpha, repeat=L):
                cases.append("KT %s ; kc 1 , kc 2 , uc 1 t 0 , %s , uj 1" % (env, " , ".join(seq)))
                n += 1
    stats["kt_exhaustive_len<=%d" % maxlen] = n
    per_env = 14 if tier == "quick" else 200
    nr = 0
    for env in ENVS_POW2 + ENVS_ODD:
        for i in range(per_env):
            nkeys = rng.choice([1, 2, 3, 5, 9, 17, 40, 100, 200])
            nunits = rng.choice([0, 1, 2, 3, 5, 8])
            nops = rng.choice([3, 8, 20, 50, 120, 300]) if tier == "quick" else rng.choice([8, 30, 100, 300, 800])
            if nkeys >= 40:
                nops = max(nops, 120)
            g = _Gen(rng, nkeys, nunits, nops, p_null=rng.choice([0.0, 0.1, 0.4]),
                     p_dtor0=rng.choice([0.0, 0.25, 0.7]), jump=rng.random() < 0.2)
            cases.append("KT %s ; %s" % (env, " , ".join(g.gen())))
            nr += 1
    stats["kt_random"] = nr
    return cases, stats


def gen_wb(rng, tier):
    cases = []
    n = 240 if tier == "quick" else 5000
    for _ in range(n):
        env = rng.choice(ENVS_POW2 + ["3", "-", "100"])
        try:
            size = int(env)
        except ValueError:
            size = 4
        p = 1
        while p < size:
            p *= 2
        size = p
        base = rng.choice([0, 1, 2, 5, size - 1, 2**31, 2**32 - 1 - 7 * size])
        ids = [(base + j * size * rng.choice([1, 1, 2, 3])) % 2**32 for j in range(rng.choice([1, 2, 4, 9]))]
        ids += [rng.getrandbits(32) for _ in range(rng.choice([0, 1, 3, 20]))]
        ops = []
        v = 0
        for _ in range(rng.choice([1, 3, 8, 20, 60])):
            q = rng.random()
            if q < 0.6:
                v += 1
                ops.append("s %d %d %d" % (rng.choice(ids), rng.randint(0, 7), 0 if rng.random() < 0.1 else v))
            elif q < 0.85:
                ops.append("g %d" % rng.choice(ids + [rng.getrandbits(32)]))
            else:
                ops.append("a %d" % rng.choice([16, 32, 32, 48, 64, 96, 112, 128, 160, 1024]))
        cases.append("WB %s ; %s" % (env, " , ".join(ops)))
    return cases, {"wb_random": n}


def gen_cc(rng, tier):
    cases = []
    n = 10 if tier == "quick" else 40
    for i in range(n):
        env = rng.choice(["1", "1", "2", "4", "16", "64"])
        e = rng.choice([2, 3, 4]) if tier == "quick" else rng.choice([2, 3, 4, 5])
        k = rng.choice([1, 2, 4, 8, 16])
        r = rng.choice([1, 2, 10])
        rounds = 60 if tier == "quick" else 150
        cases.append("CC %s ; %d %d %d %d" % (env, e, k, r, rounds))
    return cases, {"cc_stress": n}


def gen(rng, tier):
    cases = ["CFG"]
    stats = {}
    for g in (gen_kt, gen_wb, gen_cc):
        c, s = g(rng, tier)
        cases += c
        stats.update(s)
    return cases, stats


def classify(case, impl, model):
    if impl.startswith("CRASH"):
        return "observable"
    if case.startswith("CFG"):
        return "internal"
    if " |" in impl and " |" in model:
        return "observable" if impl.split(" |")[0] != model.split(" |")[0] else "internal"
    return "observable"


def nontrivial(case):
    if case.startswith("KT"):
        return case.count(", s ") >= 3
    if case.startswith("WB"):
        return case.count(",") >= 1
    return case.startswith("CC")


RACE_CASES = ["RC 16 ; 30", "RC 64 ; 60", "RC 256 ; 30", "RC 1024 ; 100"]


def race_stage(rep, sc, lib, cov, tier, seed):
    """Creation race with a failing creator, forced on the implementation: the harness is linked with
    --wrap=posix_memalign; the creator's table allocation sleeps, releases the second setter into the
    spin loop and fails.  The expected line is the outcome of the same schedule in the LTS."""
    import os
    hexe = os.path.join(sc, "harness_c16_race")
    ok, err = vlib.build_harness(sc, os.path.join(vlib.HARNESS, "h_c16.c"), hexe, lib=lib, san=False,
                                 extra=["-DVH_RACE", "-Wl,--wrap=posix_memalign"])
    if not ok:
        rep.violation("race-build.txt", "race harness does not build:\n" + err, found_input=False)
        return
    cases = RACE_CASES * (1 if tier == "quick" else 5)
    bad, impl, model = vlib.differential(hexe, os.path.join(vlib.BUILD, "drv_c16"), cases, sc, name="race")
    cov["race_cases"] = len(cases)
    cov["race_mismatches"] = len(bad)
    if bad:
        i, c, a, b = bad[0]
        rep.violation("race-%d.json" % seed,
                      {"kind": "diff", "property": ID, "seed": seed, "cases": [c], "stage": "race",
                       "implementation": a, "model_LTS_same_schedule": b,
                       "explanation": "two streams set different keys on a unit without key table; the first wins the "
                                      "NULL->LOCKED CAS, its ABTI_ktable_create is made to fail while the second spins "
                                      "(theorem C16_no_null_deref / C16_no_lost_set say the second set must succeed)"},
                      found_input=True, text="%s\n   impl : %s\n   model: %s" % (c, a, b))


def run(tier, seed, replay):
    if replay:
        import json, os
        try:
            payload = json.load(open(replay))
        except Exception:
            payload = {}
        if payload.get("stage") == "race":
            # a replay of the race stage: run exactly those RC cases there; the main stage only checks the sizes
            global RACE_CASES
            RACE_CASES = payload["cases"]
            os.makedirs(vlib.BUILD, exist_ok=True)
            replay = os.path.join(vlib.BUILD, "c16-race-replay.json")
            json.dump({"cases": ["CFG"]}, open(replay, "w"))
    return vlib.run_differential_property(
        ID, "Properties_C16.v", ["Properties_C16.vo", "Extract_C16.vo"], "c16", "h_c16.c",
        gen, classify, nontrivial, tier, seed, replay=replay, san=True,
        rule="KT: API-level op sequences (key create/free, set/get through ABT_key_*, ABT_self_*_specific, "
             "ABT_thread_*_specific by the owner, another unit or an external thread, on the primary ULT, named/unnamed "
             "ULTs on two streams and tasklets; revive/free; migration-data key) with "
             "ABT_KEY_TABLE_SIZE in {unset,0,1,2,3,...,1024,abc} set before each ABT_init; exhaustive over 9 ops on 2 "
             "colliding keys up to length L + seeded; non-trivial = >=3 sets. WB: white-box set_unsafe/get/alloc_elem with "
             "arbitrary 32-bit ids and element sizes. CC: concurrent first setters / appenders on one unit, final state vs "
             "the sequential model. RC (extra stage): forced creation race with a failing creator vs the LTS. "
             "Distinct = distinct case text.",
        extra_assumptions=["the harness is key.c of the tree under test compiled with ASan/UBSan (leak check after every "
                           "case) and with the two releasers of ABTI_ktable_free redirected to logging wrappers; the inline "
                           "functions of abti_key.h are exercised both in the -O2 library (thread.c, self.c) and in the "
                           "instrumented harness",
                           "race stage: non-sanitized harness linked with --wrap=posix_memalign (allocation failure + "
                           "delay injected in the creator); the interleaving is forced by that delay, not recorded"],
        extra_stage=race_stage)
