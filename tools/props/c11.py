"""C11 — decided on the scheduler LTS (see tools/schedprops.py, coq/Conc/Sched*.v)."""
import schedprops, schedgen
ID = "C11"
COQ_TARGETS = schedprops.SCHED_TARGETS + ["Extract_Sched.vo"]
DRIVERS = ["sched"]


def gen_migrate_ss(rng, big=False):
    return schedgen.gen_migrate(rng, big, self_suspend=True)


FAMS = [schedgen.gen_suspend, schedgen.gen_directed, schedgen.gen_mig_switch, schedgen.gen_xjoin]
NAME_RE = r"^(C11_|C02_publish)"
MANIFEST = {
    "text": "Theorems (Coq, every number of units/pools, every interleaving of the scheduler LTS whose labels are the ABT_VERIF hook "
            "records): BLOCKED is stored only inside a suspend-class callback (so the context is already saved when the state becomes observable), a blocked unit is made READY at most once per blocking (a second resume is not enabled), RUNNING is stored only by a hand-over from Checked/Popped/Created/Blocked/Handoff, and suspend/resume count the unit in the pool it returns to (after a pending migration). Tie: generated scenarios run on the real runtime (1-4 streams, FIFO/FIFO_WAIT/RANDWS pools, all predefined "
            "schedulers, ULTs/tasklets/external threads); every recorded atomic action must be enabled in the model with the recorded "
            "values (state loads, request bits, num_blocked, queue emptiness); API-level monitors (entry counts, arguments, return codes, "
            "pool sizes at quiescence, join/xstream-join postconditions, watchdog) run on every execution.",
    "note": schedprops.NOTE,
    "technique": schedprops.TECH,
}


def run(tier, seed, replay):
    return schedprops.run(ID, NAME_RE, FAMS, tier, seed, replay,
                          rule="seeded scenario families %s; every history replayed through the extracted LTS; non-trivial = all (each scenario has >= 1 unit)" % [f.__name__ for f in FAMS])
