"""C07 — built-in pools (FIFO / FIFO_WAIT / RANDWS x access) are linearizable queues."""
import itertools, os, json, random, re, time
import vlib

ID = "C07"
MANIFEST = {
    "text": "Theorems (Coq, unbounded): (1) pointer-level model of thread_queue_t (head/tail/num/is_empty, per-unit prev/next/"
            "is_in_pool, NULL dereference explicit): push_head/push_tail/pop_head/pop_tail/remove map represented deques as "
            "the list operations do and never fault; walking next from head = the list, prev from tail = its reverse; "
            "num = length, is_empty <-> [], is_in_pool <-> membership, no duplicates, NULL links outside "
            "(C07_thread_queue_ops, C07_abs_is_walk, C07_rep_meaning). (2) For FIFO/FIFO_WAIT/RANDWS x every access mode, "
            "every contract-respecting sequence of public calls (push_thread(s)[_ex], pop_thread(s)[_ex], pop_wait, legacy "
            "push/pop/pop_wait/pop_timedwait/remove, get_size/get_total_size/is_empty) returns call by call what the list "
            "deque returns (C07_queue_refines_deque); FIFO order whatever the context (C07_fifo_order); RANDWS ends chosen "
            "by the decoded context flags (C07_randws_ends). (3) LTS of a shared pool under any number of concurrent callers "
            "and all interleavings (lock acquire / failed try-lock / unlocked is_empty, is_in_pool, is_locked loads / critical "
            "section / release / cond-wait / clock test as separate steps): effect events form a legal deque history ending in "
            "the represented deque and every effect lies inside its own call and carries the returned value "
            "(C07_linearizable); pushes = hand-outs + contents per unit, contents duplicate-free (C07_exactly_once); a pop "
            "hands out nothing only at a step where the pool is empty (C07_empty_honest); size/is_empty exact in every "
            "reachable state (C07_size_exact); mutual exclusion; no NULL dereference in any critical section. "
            "Tie: models extracted to OCaml and compared with the library built from the working tree through the public "
            "ABT_pool_* API with a white-box dump after every call (exhaustive small scopes + seeded + off-contract "
            "sequences), plus a no-hook concurrent stress with a conservation/duplicate/honest-emptiness/order monitor.",
    "note": "Known finding (C07_priv_timed_pop_refuted, key priv-timed-pop-uninit-lock): pop_wait/pop_timedwait on a PRIVATE "
            "FIFO/RANDWS pool take a spinlock pool_init never initialises; the refinement theorem therefore assumes the lock "
            "word is 0 for PRIV. Trusted: Coq kernel, extraction (ExtrOcamlBasic), hand-written models validated by the "
            "differential harness (not verified against the C text), gcc/glibc/pthread. LTS: critical sections atomic "
            "(fields other than is_empty/is_in_pool/num_threads only touched under the pool lock - by inspection), "
            "sequential consistency, one pool, units in no other pool, callers respect the push contract (ghost ownership); "
            "pthread_cond_timedwait modelled as release + arbitrary wake-up + re-acquire; time-outs nondeterministic. "
            "Private pools: single caller, sequential theorems only. Concurrent tie is monitor-based (no event hooks, "
            "no history conformance). All 13 theorems closed under the global context.",
}
KINDS = ["F", "W", "R"]
ACCS = ["P", "SS", "MS", "SM", "MM"]
PUSH_HEAD_CTX = [4096, 8192, 16384, 32768]          # CREATE, CREATE_TO, REVIVE, REVIVE_TO
POP_TAIL_CTX = 512                                  # OWNER_SECONDARY
OTHER_CTX = [0, 1, 2, 256, 65536, 131072, 262144, 524288, 1048576, 2097152]


# ---------------------------------------------------------------- shadow deque
# Only used to keep generated call sequences inside the callers' contract
# (a unit that is pushed is not in the pool); the driver re-checks this with the
# extracted [ops_legal] and prints ILLEGAL otherwise, so a slip here cannot
# turn into a false verdict.
def _push_head(kind, ctx):
    return kind == "R" and (ctx & 0xF000) != 0


def _pop_tail(kind, ctx):
    return kind == "R" and (ctx & 0x200) != 0


def shadow(kind, dq, op):
    """apply op text to the python list dq (head first); returns False if the op is outside the contract"""
    w = op.split()
    o = w[0]

    def push(u, ctx):
        if u == "N":
            return True
        u = int(u)
        if u in dq:
            return False
        if _push_head(kind, ctx):
            dq.insert(0, u)
        else:
            dq.append(u)
        return True

    def pop(ctx):
        if dq:
            if _pop_tail(kind, ctx):
                dq.pop()
            else:
                dq.pop(0)
    if o == "pt":
        return push(w[1], 0)
    if o == "px":
        return push(w[1], int(w[2]))
    if o == "lp":
        return push(w[1], 0)
    if o in ("pm", "pmx"):
        ctx = int(w[1]) if o == "pmx" else 0
        us = [x for x in (w[2:] if o == "pmx" else w[1:]) if x != "N"]
        if len(set(us)) != len(us) or any(int(x) in dq for x in us):
            return False
        for x in us:
            push(x, ctx)
        return True
    if o in ("ot", "lo", "lw", "ow", "lt"):
        pop(0)
    elif o in ("ox", "owx"):
        pop(int(w[1]))
    elif o in ("om", "omx"):
        ctx = int(w[1]) if o == "omx" else 0
        n = int(w[2]) if o == "omx" else int(w[1])
        for _ in range(n):
            pop(ctx)
    elif o == "lr":
        if int(w[1]) in dq:
            dq.remove(int(w[1]))
    return True


def shadow_ok(kind, ops):
    """yields, per call, whether it respects the push contract"""
    dq = []
    for op in ops:
        yield shadow(kind, dq, op)


def core_alphabet(kind, nu=3):
    a = ["pt %d" % u for u in range(nu)] + ["ot"] + ["lr %d" % u for u in range(nu)]
    if kind == "R":
        a += ["px %d 4096" % u for u in range(nu)] + ["ox 512"]
    return a


def full_alphabet(kind, nu=3):
    a = core_alphabet(kind, nu)
    a += ["lp 0", "lp 1", "lo", "lw", "lt", "ow", "om 1", "om 2", "om 3", "pm 0 1", "pm 2 N 1", "pm 1",
          "gs", "ie", "gt", "om 0", "pt N", "pm N", "pm", "lp N"]
    if kind == "R":
        a += ["omx 512 2", "owx 512", "pmx 8192 0 1", "pmx 16384 2 1", "px 2 32768", "ox 256", "px 0 512"]
    else:
        a += ["px 0 4096", "ox 512", "omx 512 2", "pmx 4096 1 2"]
    return a


def enum_legal(kind, alpha, L):
    """all contract-respecting sequences of exactly L ops (every prefix is covered by the per-op dumps)"""
    out = []

    def rec(seq, dq):
        if len(seq) == L:
            out.append(" , ".join(seq))
            return
        for op in alpha:
            d2 = list(dq)
            if shadow(kind, d2, op):
                seq.append(op)
                rec(seq, d2)
                seq.pop()
    rec([], [])
    return out


def rand_op(rng, kind, nu):
    r = rng.random()
    u = lambda: str(rng.randrange(nu)) if rng.random() < 0.97 else "N"
    ctxs = PUSH_HEAD_CTX + [POP_TAIL_CTX] + OTHER_CTX
    ctx = lambda: rng.choice(ctxs) | (rng.choice(ctxs) if rng.random() < 0.3 else 0)
    if r < 0.22:
        return "pt " + u()
    if r < 0.34:
        return "px %s %d" % (u(), ctx())
    if r < 0.40:
        k = rng.choice([0, 1, 2, 3, 4])
        us = [u() for _ in range(k)]
        return ("pm " + " ".join(us)).strip() if rng.random() < 0.5 else ("pmx %d " % ctx() + " ".join(us)).strip()
    if r < 0.44:
        return "lp " + u()
    if r < 0.56:
        return "ot"
    if r < 0.64:
        return "ox %d" % ctx()
    if r < 0.70:
        return rng.choice(["om %d" % rng.choice([0, 1, 2, 3, 9]), "omx %d %d" % (ctx(), rng.choice([1, 2, 5]))])
    if r < 0.76:
        return rng.choice(["ow", "owx %d" % ctx(), "lw", "lt", "lo"])
    if r < 0.90:
        return "lr %d" % rng.randrange(nu)
    return rng.choice(["gs", "gt", "ie"])


def rand_seq(rng, kind, nu, n, legal=True):
    dq, seq = [], []
    tries = 0
    while len(seq) < n and tries < 20 * n:
        tries += 1
        op = rand_op(rng, kind, nu)
        d2 = list(dq)
        ok = shadow(kind, d2, op)
        if ok or not legal:
            seq.append(op)
            if ok:
                dq = d2
    return " , ".join(seq)


def gen(rng, tier):
    cases, stats = [], {}
    quick = tier == "quick"
    # (1) exhaustive small scope, 3 units, core alphabet; PRIV and MPMC deepest (the other
    #     shared modes select the very same functions)
    for k in KINDS:
        for a in ACCS:
            deep = a in ("P", "MM")
            if k == "R":
                L = (4 if deep else 3) if quick else (5 if deep else 4)
            elif quick:
                # fifo.c: private and shared functions differ; fifo_wait.c: one set of functions for every access
                L = {("F", "P"): 6, ("F", "MM"): 5, ("W", "MM"): 6, ("W", "P"): 4}.get((k, a), 3)
            else:
                L = 7 if (k, a) in (("F", "P"), ("W", "MM")) else 6 if deep else 5
            seqs = enum_legal(k, core_alphabet(k), L)
            stats["exh_%s_%s_len%d" % (k, a, L)] = len(seqs)
            cases += ["Q %s %s 3 0 ; %s" % (k, a, s) for s in seqs]
    # (2) every public entry point, exhaustive at a smaller length
    for k in KINDS:
        for a in ("P", "MM"):
            L = 2 if quick else 3
            seqs = enum_legal(k, full_alphabet(k), L)
            stats["api_%s_%s_len%d" % (k, a, L)] = len(seqs)
            cases += ["Q %s %s 3 0 ; %s" % (k, a, s) for s in seqs]
    # (3) seeded longer sequences, up to 8 units
    nrand = 600 if quick else 12000
    for i in range(nrand):
        k, a = rng.choice(KINDS), rng.choice(ACCS)
        nu = rng.choice([1, 2, 3, 3, 4, 5, 8])
        n = rng.choice([8, 15, 30, 60] if quick else [8, 15, 30, 60, 120, 250])
        cases.append("Q %s %s %d 0 ; %s" % (k, a, nu, rand_seq(rng, k, nu, n)))
    stats["seeded_long"] = nrand
    # (4) outside the contract (double pushes, remove after corruption): the theorems do not apply, but the
    #     pointer-level model must still do what the C code does as long as it predicts no NULL dereference
    okd, drv, _ = vlib.build_driver("c07")
    cand = []
    for i in range(400 if quick else 4000):
        k, a = rng.choice(KINDS), rng.choice(ACCS)
        nu = rng.choice([2, 3, 3, 4])
        cand.append("Q %s %s %d 0x ; %s" % (k, a, nu, rand_seq(rng, k, nu, rng.choice([4, 6, 10, 16]), legal=False)))
    kept = []
    if okd:
        with vlib.Scratch("c07gen") as sc:
            f = os.path.join(sc, "cand.txt")
            open(f, "w").write("\n".join(cand) + "\n")
            rc, out, err = vlib.run([drv, f], timeout=300)
            lines = out.split("\n")[:-1]
            if rc == 0 and len(lines) == len(cand):
                kept = [c for c, l in zip(cand, lines) if "FAULT" not in l and "HANG" not in l]
    cases += kept
    stats["off_contract_no_fault"] = len(kept)
    return cases, stats


def classify(case, impl, model):
    if impl.startswith("CRASH") or " | " not in impl or " | " not in model:
        return "observable"
    return "observable" if impl.split(" | ")[0] != model.split(" | ")[0] else "internal"


def nontrivial(case):
    ops = case.split(";")[1]
    return ("p" in ops) and any(x in ops for x in ("ot", "ox", "om", "ow", "lo", "lw", "lt", "lr"))


# ---------------------------------------------------------------- finding stage
FINDING_KEY = "priv-timed-pop-uninit-lock"
FINDING_CASES = [
    # g = n: heap dirtied before pool creation, lock word left exactly as pool_init left it
    "Q F P 3 n ; pt 0 , ow , gs",
    "Q R P 3 n ; pt 1 , lt , gs",
    "Q F P 2 n ; pt 0 , pt 1 , lw",
    "Q R P 2 n ; px 1 4096 , owx 512",
    "Q F P 3 n ; pt 2 , lt",
    "Q W P 3 n ; pt 0 , ow , gs",      # FIFO_WAIT initialises its mutex: must behave as specified
]


def _run_lines(exe, path, extra=(), timeout=300):
    rc, out, err = vlib.run([exe, path] + list(extra), timeout=timeout)
    return rc, [l for l in out.split("\n") if l != ""], err


def finding_stage(rep, sc, hexe, drv, cases=None):
    """timed pops on private FIFO/RANDWS pools with a non-zero (never initialised) lock word.
    implementation == specification -> nothing to report (fixed); implementation == faithful model
    (HANG) -> instance of the known finding; anything else -> violation."""
    cases = cases or FINDING_CASES
    inst, bad = [], []
    for c in cases:
        f = os.path.join(sc, "finding.txt")
        open(f, "w").write(c + "\n")
        rc, impl, err = _run_lines(hexe, f, timeout=60)
        if rc != 0 or len(impl) != 1:
            bad.append((c, "CRASH rc=%s %s" % (rc, err[-300:]), ""))
            continue
        line = impl[0]
        mcase = c
        if " n ;" in c:
            m = re.match(r"G([01]) (.*)", line)
            if m:
                mcase = c.replace(" n ;", " %s ;" % m.group(1))
                line = m.group(2)
            else:                                      # FIFO_WAIT: no spinlock word to report
                mcase = c.replace(" n ;", " 0 ;")
        open(f, "w").write(mcase + "\n")
        rc1, model, e1 = _run_lines(drv, f)
        rc2, spec, e2 = _run_lines(drv, f, ["spec"])
        if rc1 != 0 or rc2 != 0 or len(model) != 1 or len(spec) != 1:
            raise RuntimeError("driver failed on finding case: %s %s" % (e1, e2))
        if line.split(" | ")[0] == spec[0]:
            continue                                   # behaves as specified on this input
        if line == model[0] and "HANG" in line:
            inst.append((c, line, spec[0]))
        else:
            bad.append((c, line, model[0]))
    if bad:
        c, a, b = bad[0]
        rep.violation("finding-other-%d.json" % rep.seed,
                      {"kind": "finding", "property": ID, "cases": [c], "implementation": a, "model": b,
                       "explanation": "timed pop on a private pool: the implementation neither meets the deque "
                                      "specification nor behaves as the faithful model predicts"},
                      found_input=True, text="%s\n   impl : %s\n   model: %s" % (c, a, b))
    if inst:
        kf = dict(vlib.known_findings(ID))
        c, a, sp = inst[0]
        if FINDING_KEY in kf:
            rep.known.append("key=%s %s (%d/%d probe cases hang this run, e.g. '%s' -> '%s'; specification: '%s')"
                             % (FINDING_KEY, kf[FINDING_KEY], len(inst), len(cases), c, a.split(" | ")[0], sp))
        else:
            rep.violation("priv-timed-pop-%d.json" % rep.seed,
                          {"kind": "finding", "property": ID, "cases": [x[0] for x in inst],
                           "implementation": a, "specification": sp, "theorem": "C07_priv_timed_pop_refuted",
                           "explanation": "ABT_pool_pop_wait / pop_timedwait on an ABT_POOL_ACCESS_PRIV FIFO/RANDWS pool "
                                          "never returns although the pool holds a unit: the spinlock they take is not "
                                          "initialised by pool_init for PRIV pools (not listed in known_findings.txt)"},
                          found_input=True, text="%s\n   impl : %s\n   spec : %s" % (c, a, sp))
    return {"finding_probe_cases": len(cases), "finding_instances": len(inst)}


# ---------------------------------------------------------------- concurrent stress (no hooks)
def gen_stress(rng, tier):
    sc = []
    quick = tier == "quick"
    rounds = 6 if quick else 40
    combos = []
    for k in KINDS:
        combos += [(k, "SS", 1, 1), (k, "MS", 3, 1), (k, "SM", 1, 3), (k, "MM", 3, 3), (k, "MM", 2, 4)]
    for (k, a, np_, nc) in combos:
        for mode in ([3, 7] if a in ("MM", "SM") else [3, 0]) + ([11, 15] if k == "R" and a in ("MM", "SM") else [])                 + ([8] if k == "R" and a not in ("MM", "SM") else []):
            upp = rng.choice([40, 150, 400] if quick else [40, 150, 400, 1000])
            leave = rng.choice([0, 0, 5, 17])
            sc.append("S %s %s %d %d %d %d %d %d %d" % (k, a, np_, nc, upp, rounds, leave, mode, rng.randrange(1, 10**6)))
    # batch atomicity (mode 16): push_threads / pop_threads are single queue operations
    for (k, a, np_, nc) in combos:
        sc.append("S %s %s %d %d %d %d 0 16 %d" % (k, a, np_, nc, rng.choice([40, 160, 400]), rounds, rng.randrange(1, 10**6)))
    return sc


def stress_stage(rep, sc, sexe, tier, seed, scenarios=None):
    if not scenarios:
        scenarios = []
        for d in range(1 if tier == "quick" else 4):          # thorough: several derived seeds
            scenarios += gen_stress(random.Random(seed * 77 + 5 + 1000 * d), tier)
    bad, ok, pushed = [], 0, 0
    # one process per scenario: a violation or a stuck run ends the process
    for s in scenarios:
        f = os.path.join(sc, "stress.txt")
        open(f, "w").write(s + "\n")
        rc, lines, err = _run_lines(sexe, f, timeout=120)
        if rc == 0 and len(lines) == 1 and lines[0].startswith("OK "):
            ok += 1
            m = re.search(r"pushed=(\d+)", lines[0])
            pushed += int(m.group(1)) if m else 0
        else:
            bad.append((s, lines[0] if lines else "CRASH rc=%s %s" % (rc, " ".join(err.split()[-30:]))))
    if bad:
        s, l = bad[0]
        rep.violation("stress-%d.json" % seed,
                      {"kind": "stress", "property": ID, "seed": seed, "cases": [s], "monitor_verdict": l,
                       "explanation": "concurrent producers/consumers (external pthreads, public API): the monitor "
                                      "'pushed = handed out + remaining, nothing handed out twice, honest emptiness, "
                                      "per-producer FIFO order, exact size at quiescence' failed; theorems "
                                      "C07_exactly_once / C07_empty_honest / C07_linearizable exclude this for the model",
                       "more": [x[0] + " -> " + x[1] for x in bad[1:6]]},
                      found_input=True, text="%s\n   monitor: %s" % (s, l))
    return {"stress_scenarios": len(scenarios), "stress_ok": ok, "stress_units_pushed": pushed,
            "stress_failed": len(bad)}


# ---------------------------------------------------------------- pipeline
RULE = ("Sequential: every contract-respecting call sequence of exactly L calls (all prefixes are compared through the "
        "per-call dumps) over 3 units on each kind x access, L per tier in generator_stats (core alphabet: push/"
        "pop/remove, RANDWS also push-head/pop-tail contexts), every public entry point at a smaller L, plus seeded "
        "sequences up to 250 calls over up to 8 units; compared: return codes, popped ids, sizes/flags and, white box, "
        "num/head/tail/is_empty/lock, the chain walked both ways and every unit's prev/next/is_in_pool after every call. "
        "non-trivial = at least one push and one pop/remove. Concurrent: external pthreads within the access mode, "
        "monitor on conservation / duplicates / honest emptiness / per-producer order / size at quiescence.")


def run(tier, seed, replay):
    rep = vlib.Report(ID, tier, seed)
    rep.assumptions += [
        "thread_queue.h / fifo.c / fifo_wait.c / randws.c / pool.c are exercised through the public ABT_pool_* API of the "
        "-O2 library; the white-box dump reads ABTI_pool.data through layout mirrors of the file-local 'struct data'",
        "LTS: one step per atomic action, critical sections atomic (sound if the queue fields other than is_empty/"
        "is_in_pool/num_threads are only accessed under the pool lock - true by inspection), sequential consistency",
        "private pools are single-caller by contract and covered by the sequential theorems only"]
    proof = vlib.proof_stage("Properties_C07.v", ["Properties_C07.vo", "Extract_C07.vo"])
    if not proof["ok"]:
        vlib.log("proof stage failed:\n" + proof["log"][-3000:])
    okd, drv, derr = vlib.build_driver("c07")
    if not okd:
        rep.violation("driver-build.txt", "model driver does not build (extraction broken):\n" + derr + "\n" +
                      proof["log"][-3000:], found_input=False)
        return rep.finish(proof, {"evaluations": 0})
    cov = {}
    with vlib.Scratch(ID) as sc:
        vlib.copy_repo_src(sc)
        okl, lib, lerr = vlib.get_lib(sc)
        if not okl:
            rep.violation("repo-build.txt", "the library of /repo's working tree does not compile:\n" + lerr, found_input=False)
            return rep.finish(proof, {"evaluations": 0})
        hexe, sexe = os.path.join(sc, "h_c07"), os.path.join(sc, "h_c07s")
        for src, exe, san in (("h_c07.c", hexe, True), ("h_c07s.c", sexe, False)):
            okh, herr = vlib.build_harness(sc, os.path.join(vlib.HARNESS, src), exe, lib=lib, san=san,
                                           opt="-O1" if san else "-O2")
            if not okh:
                rep.violation("harness-build.txt", "harness %s does not compile against /repo's working tree (the code "
                              "the model corresponds to changed shape):\n%s" % (src, herr), found_input=False)
                return rep.finish(proof, {"evaluations": 0})
        kind = None
        if replay:
            payload = json.load(open(replay))
            kind = payload.get("kind", "diff")
            rcases = payload.get("cases", [])
        # ---- sequential differential
        obs, internal, ncases, distinct, stats = [], [], 0, 0, {}
        if not replay or kind == "diff":
            if replay:
                cases, stats = rcases, {"replay": replay}
            else:
                cases, stats = gen(random.Random(seed), tier)
                corpus = vlib.load_corpus(ID)
                cases = corpus + cases
                stats["corpus_cases"] = len(corpus)
            ncases = len(cases)
            distinct = len(set(c for c in cases if nontrivial(c)))
            CH = 120000
            for i in range(0, len(cases), CH):
                bad, impl, model = vlib.differential(hexe, drv, cases[i:i + CH], sc, name="cases%d" % i)
                for (j, c, a, b) in bad:
                    if b.startswith("ILLEGAL"):
                        raise RuntimeError("generator produced a case outside the contract: " + c)
                    (obs if classify(c, a, b) == "observable" else internal).append((i + j, c, a, b))
                del impl, model
            cov.update({"samples": cases[:2] + cases[-2:]})
        cov.update({"evaluations": ncases, "distinct_nontrivial": distinct, "rule": RULE, "disagreements_checked": ncases,
                    "generator_stats": stats, "mismatch_observable": len(obs), "mismatch_internal_only": len(internal),
                    "exhaustive": True})
        if obs:
            # prefer a failing sequence inside the callers' contract (theorem scope) over an off-contract one
            i, c, a, b = min([x for x in obs if " 0x ;" not in x[1]] or obs, key=lambda x: len(x[1]))
            # shrink the shortest failing call sequence (delta debugging on the call list)
            hd, opstr = c.split(";", 1)

            def still_fails(ops):
                cand = hd + "; " + " , ".join(ops)
                if " 0x " not in hd + " " and not all(shadow_ok(hd.split()[1], ops)):
                    return False
                try:
                    bad1, im, mo = vlib.differential(hexe, drv, [cand], sc, name="shrink", timeout=60)
                except RuntimeError:
                    return False
                return bool(bad1) and classify(cand, im[0], mo[0]) == "observable"
            try:
                small = vlib.shrink_ops(still_fails, [o.strip() for o in opstr.split(",") if o.strip()])
                cand = hd + "; " + " , ".join(small)
                bad1, im, mo = vlib.differential(hexe, drv, [cand], sc, name="shrink", timeout=60)
                if bad1:
                    c, a, b = cand, im[0], mo[0]
            except Exception as e:       # shrinking is best effort
                vlib.log("shrink failed: %r" % (e,))
            rep.violation("obs-%d.json" % seed,
                          {"kind": "diff", "property": ID, "seed": seed, "cases": [c], "implementation": a,
                           "model_proved_equal_to_spec": b,
                           "explanation": "the implementation's observable results differ from the model's, which are proved "
                                          "equal to the deque specification (C07_queue_refines_deque); this call sequence "
                                          "is the failing input", "more": [x[1] for x in obs[1:10]]},
                          found_input=True, text="%s\n   impl : %s\n   model: %s" % (c, a[:400], b[:400]))
        # ---- finding probes and concurrent stress
        if not replay or kind == "finding":
            cov.update(finding_stage(rep, sc, hexe, drv, rcases if replay else None))
        if not replay or kind == "stress":
            cov.update(stress_stage(rep, sc, sexe, tier, seed, rcases if replay else None))
        if internal and not rep.violations:
            i, c, a, b = internal[0]
            rep.violation("corr-%d.json" % seed,
                          {"kind": "diff", "property": ID, "seed": seed, "cases": [c], "implementation": a, "model": b,
                           "broken": "correspondence h_c07.c <-> DS/ThreadQueue.v, DS/PoolSeq.v: the white-box dump differs "
                                     "(observable results agree on all %d cases, stress monitor passed)" % ncases},
                          found_input=False, text="%s\n   impl : %s\n   model: %s" % (c, a[:400], b[:400]))
        if not proof["ok"] and not any(not v[1] for v in rep.violations):
            rep.violation("proof-%d.txt" % seed,
                          "proof obligation(s) of Properties_C07.v no longer check:\n%s\n(correspondence: %d cases, %d "
                          "observable mismatches)" % (proof["log"][-3000:], ncases, len(obs)), found_input=False)
    return rep.finish(proof, cov)
