"""C12 — decided on the scheduler LTS (see tools/schedprops.py, coq/Conc/Sched*.v)."""
import schedprops, schedgen
ID = "C12"
COQ_TARGETS = schedprops.SCHED_TARGETS + ["Extract_Sched.vo"]
DRIVERS = ["sched"]


def gen_migrate_ss(rng, big=False):
    return schedgen.gen_migrate(rng, big, self_suspend=True)


FAMS = [schedgen.gen_lifecycle, schedgen.gen_join, schedgen.gen_directed]
NAME_RE = r"^C12_"
MANIFEST = {
    "text": "Theorems (Coq, every number of units/pools, every interleaving of the scheduler LTS whose labels are the ABT_VERIF hook "
            "records): every store to the observable state follows the allowed relation READY->RUNNING, RUNNING->READY, RUNNING->BLOCKED, BLOCKED->READY, BLOCKED->RUNNING, READY/RUNNING->TERMINATED (plus the READY-over-READY stutter when a migration request is found at pop), TERMINATED->READY only by revive; terminated is final until revive; free exactly once and only when TERMINATED; no slice after the function returned or exit was called; a cancel request observed at a scheduling point leads only to TERMINATED. Tie: generated scenarios run on the real runtime (1-4 streams, FIFO/FIFO_WAIT/RANDWS pools, all predefined "
            "schedulers, ULTs/tasklets/external threads); every recorded atomic action must be enabled in the model with the recorded "
            "values (state loads, request bits, num_blocked, queue emptiness); API-level monitors (entry counts, arguments, return codes, "
            "pool sizes at quiescence, join/xstream-join postconditions, watchdog) run on every execution.",
    "note": schedprops.NOTE,
    "technique": schedprops.TECH,
}


def run(tier, seed, replay):
    return schedprops.run(ID, NAME_RE, FAMS, tier, seed, replay,
                          rule="seeded scenario families %s; every history replayed through the extracted LTS; non-trivial = all (each scenario has >= 1 unit)" % [f.__name__ for f in FAMS])
