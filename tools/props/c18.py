"""C18 — a failed allocation makes the call fail cleanly and leaves the runtime intact.

proofs (coq/Fault, Properties_C18.v) -> scratch build of /repo's tree ->
fault enumeration with the tree's own rtrace injector (harness/h_c18.c, one
process per (scenario, failure pattern)) -> every case also run on the extracted
ladder model (ocaml/drv_c18.ml) -> direct oracles (observable) + trace / ledger /
error-vs-success comparison (internal) -> ABTI_ktable_set race (harness/h_c18r.c)."""
import os, re, json, time
from concurrent.futures import ThreadPoolExecutor
import vlib

ID = "C18"
MANIFEST = {
    "text": "Theorems (Coq): any routine ladder accepted by the boolean checker is atomic under EVERY fault oracle "
            "(any failure position / number, nested calls, tolerated fall-back failures): error => nothing acquired is "
            "still owned, no pre-existing resource released, every modelled field of every pre-existing object unchanged, "
            "handle NULL/untouched, caches only grow; no failure => commit; retry after failure = first run "
            "(C18_ladder_atomic/_commits/_retry); the 73 hand-written ladders of ABT_init, stream / scheduler / pool / "
            "ULT (4 stack provenances, migration data, key tables, unit maps) / tasklet / revive / set_main_sched / "
            "config / sync-object creation are accepted (C18_routines_wellformed, vm_compute), 3 are refuted with "
            "witnesses (findings). Tie: on every run each scenario x every failure position (quick: all single and "
            "double failures) is executed on the rebuilt library with the tree's own rtrace injector, one process per "
            "case; direct oracles: no crash/hang, ledger empty after finalize, nothing pre-existing released, handle "
            "NULL/untouched, API-getter + white-box snapshot of all pre-existing objects unchanged, follow-up workload "
            "runs, retry succeeds; model comparison: number of failure positions, acquisition kind+size sequence, "
            "error-vs-success, live ledger indices after the call; plus a deterministic two-stream reproduction of the "
            "ABTI_ktable_set creator-fails race.",
    "note": "Trusted: Coq kernel, extraction (ExtrOcamlBasic), the hand-written ladders (each step cites its C function; "
            "validated by the trace comparison, not verified), test/leakcheck/rtrace.c as injector and ledger, gcc/glibc. "
            "Modelled, not verified: destructors release exactly the constructor's footprint; the state of the object "
            "under construction; memory-pool refills appear as one cache acquisition in dedicated scenarios only. "
            "Not covered: p_global->max_xstreams stays raised after a failed ABT_xstream_create_with_rank (reported as "
            "note, not an object the property lists); ABT_thread_migrate (always MIGRATION_NA, finding F4 of C13); "
            "info/print routines; compiled-out configurations.",
}

RT_FLAGS = ["-DABT_RT_USE_DLVSYM=1"] + ["-DABT_RT_%s_VER=" % n for n in (
    "MALLOC", "CALLOC", "REALLOC", "POSIX_MEMALIGN", "FREE", "MMAP", "MUNMAP", "PTHREAD_CREATE", "PTHREAD_JOIN",
    "PTHREAD_MUTEX_INIT", "PTHREAD_MUTEX_DESTROY", "PTHREAD_COND_INIT", "PTHREAD_COND_DESTROY",
    "PTHREAD_BARRIER_INIT", "PTHREAD_BARRIER_DESTROY")]

# findings of the unchanged tree: scenario -> failure positions of the call that expose it
KNOWN = {
    "pool_add_sched_user": {2, 3},
    "pool_push_threads_userpool": {3, 4, 5, 6},
    "thread_create_many": {2, 3},
}
KNOWN_KEYS = {
    "pool_add_sched_user": "pool_add_sched_user@2,3",
    "pool_push_threads_userpool": "pool_push_threads_userpool@3,4,5,6",
    "thread_create_many": "thread_create_many@2,3",
    "ktable_race": "ktable_race",
}
# scenarios whose ladder has a fixed variant in Routines.v (used when the tree carries the fix)
FIXED_MODEL = {"pool_add_sched_user", "pool_push_threads_userpool"}
# a failed attempt legitimately leaves p_global->max_xstreams raised and the warn-once flag set, so a retry does not
# allocate the warning text again: only the first attempt is compared with the model
# (likewise the page a failed xstream_create_refill attempt left in the global pool is not needed again)
# (and the unit-map element a rolled-back unit left behind is reused by the retry when the new unit hashes alike)
FIRST_ATTEMPT_ONLY = {"xstream_create_maxxs", "xstream_create_refill", "pool_push_threads_userpool"}


def _attempt_fails(spec):
    """spec '3/0', '2,3/1/0' -> list of sets of failing positions per attempt"""
    out = []
    for a in spec.split("/"):
        out.append(set(int(x) for x in a.split(",") if x.strip() not in ("", "0", "setup")) if a != "setup" else set())
    return out


def known_key_of(scen, spec, obs):
    """key of the known finding this observable violation belongs to, or None"""
    if scen not in KNOWN:
        return None
    fails = _attempt_fails(spec)
    hit = [i + 1 for i, f in enumerate(fails) if f & KNOWN[scen]]
    if not hit:
        return None
    # every violation label must belong to an attempt that hit a known position (labels without an
    # attempt number -- leak at finalize, retry count -- are consequences)
    for lab in obs.split(","):
        m = re.match(r"A(\d+):", lab)
        if m and int(m.group(1)) < min(hit):
            return None
    if obs.startswith(("CRASH", "HANG")):
        return KNOWN_KEYS[scen]
    return KNOWN_KEYS[scen]


def translate(model_internal, sizes):
    def f(m):
        k, n, s = m.group(1), m.group(2), m.group(3)
        v = n[1:] if n.startswith("=") else sizes.get(n, "?" + n)
        return "%s:%s:%s" % (k, v, s)
    return re.sub(r"(\w+):([=\w]+):([SF])\b", f, model_internal)


def first_attempt(s):
    return s.split(" ; ")[0]


def run(tier, seed, replay):
    rep = vlib.Report(ID, tier, seed)
    rep.assumptions += ["fault injection and the resource ledger are test/leakcheck/rtrace.c of the checked tree "
                        "(dlsym interposition of malloc/calloc/realloc/posix_memalign/mmap/pthread_create/"
                        "pthread_{mutex,cond,barrier}_init), compiled into the harness with the tree's ABT_RT_* flags"]
    proof = vlib.proof_stage("Properties_C18.v", ["Properties_C18.vo", "Extract_C18.vo"])
    if not proof["ok"]:
        vlib.log("proof stage failed:\n" + proof["log"][-3000:])
    okd, drv, derr = vlib.build_driver("c18")
    if not okd:
        rep.violation("driver-build.txt", "model driver does not build (extraction broken):\n" + derr + "\n" +
                      proof["log"][-3000:], found_input=False)
        return rep.finish(proof, {"evaluations": 0})
    depth = 2 if tier == "quick" else 3
    t0 = time.time()
    with vlib.Scratch(ID) as sc:
        vlib.copy_repo_src(sc)
        okl, lib, lerr = vlib.get_lib(sc)
        if not okl:
            rep.violation("repo-build.txt", "the library of /repo's working tree does not compile:\n" + lerr, found_input=False)
            return rep.finish(proof, {"evaluations": 0})
        hexe = os.path.join(sc, "h_c18")
        okh, herr = vlib.build_harness(sc, os.path.join(vlib.HARNESS, "h_c18.c"), hexe, lib=lib, san=False, extra=RT_FLAGS)
        rexe = os.path.join(sc, "h_c18r")
        okr, rerr = vlib.build_harness(sc, os.path.join(vlib.HARNESS, "h_c18r.c"), rexe, lib=lib, san=False)
        if not (okh and okr):
            rep.violation("harness-build.txt", "harness does not compile against /repo's working tree (the code the "
                          "ladders correspond to changed shape, or rtrace changed):\n" + herr + rerr, found_input=False)
            return rep.finish(proof, {"evaluations": 0})
        rc, out, err = vlib.run([hexe, "list"], timeout=60)
        scens = out.split()
        rc, out, err = vlib.run([hexe, "sizes"], timeout=60)
        sizes = dict(l.split("=") for l in out.split())
        if replay:
            payload = json.load(open(replay))
            todo = [(c["scenario"], c.get("depth", depth)) for c in payload.get("cases", [])]
            only = set((c["scenario"], c["spec"]) for c in payload.get("cases", []) if "spec" in c)
        else:
            todo = [(s, depth) for s in scens]
            only = None

        def one(job):
            s, d = job
            rc, out, err = vlib.run([hexe, "run", s, str(d), "4"], timeout=1500)
            return s, rc, out, err
        impl, notes, harness_fail = {}, [], []
        with ThreadPoolExecutor(6) as ex:
            for s, rc, out, err in ex.map(one, todo):
                if rc != 0:
                    harness_fail.append("%s rc=%s %s" % (s, rc, err[-300:]))
                for l in out.split("\n"):
                    if l.startswith("NOTE "):
                        notes.append(l[5:])
                    elif " => " in l:
                        k, v = l.split(" => ", 1)
                        impl[k] = v
        if tier == "thorough" and not replay:
            # rtrace's full mode on the small routines: every failure pattern up to 5 failures (the 6th attempt is the
            # last the harness makes)
            rc, nout, nerr = vlib.run([drv, "/dev/stdin"], stdin="".join("#nops %s\n" % s for s in scens), timeout=120)
            small = [l.split()[1] for l in nout.split("\n") if l.startswith("nops ") and 0 < int(l.split()[2]) <= 2]
            with ThreadPoolExecutor(6) as ex:
                for s, rc, out, err in ex.map(one, [(s, 5) for s in small]):
                    for l in out.split("\n"):
                        if " => " in l and not l.startswith("NOTE "):
                            k, v = l.split(" => ", 1)
                            impl[k] = v
        if only is not None:
            impl = {k: v for k, v in impl.items() if tuple(k.split(" ", 1)) in only}
        # the race
        race_lines = []
        for i in range(3 if tier == "quick" else 10):
            rc, out, err = vlib.run([rexe], timeout=60)
            race_lines.append(out.strip() or ("ktable_race => HARNESS-ERROR[no output rc=%s] | -" % rc))
        # ---- the model on the same cases
        cases = sorted(impl.keys())
        cf = os.path.join(sc, "cases.txt")
        with open(cf, "w") as f:
            f.write("#wf\n")
            for s in scens:
                f.write("#nops %s\n" % s)
            f.write("\n".join(cases) + "\n")
        rc, mout, merr = vlib.run([drv, cf], timeout=600)
        if rc != 0:
            rep.violation("driver-run.txt", "model driver failed: " + merr[-2000:], found_input=False)
            return rep.finish(proof, {"evaluations": 0})
        model, nops, wf = {}, {}, {}
        for l in mout.split("\n"):
            if l.startswith("nops "):
                _, s, n = l.split()
                nops[s] = int(n)
            elif l.startswith("wf"):
                kind, s, b = l.split()
                wf[(kind, s)] = (b == "true")
            elif " => " in l:
                k, v = l.split(" => ", 1)
                model[k] = v
        rc, fout, ferr = vlib.run([drv, cf], timeout=600, env=dict(os.environ, VERIF_C18_FIXED="1"))
        model_fixed = dict(l.split(" => ", 1) for l in fout.split("\n") if " => " in l)

        obs_viol, internal, known_hits = [], [], {}
        tree_fixed = set()
        for k in cases:
            scen, spec = k.split(" ", 1)
            iobs, iint = impl[k].split(" | ", 1)
            mint = translate(model[k].split(" | ", 1)[1], sizes) if k in model else "NO-MODEL-LINE"
            key = None
            if iobs != "ok":
                key = known_key_of(scen, spec, iobs)
                if key:
                    known_hits.setdefault(key, []).append(k)
                else:
                    obs_viol.append((k, iobs, iint, mint))
                    continue
            a, b = iint, mint
            if key or scen in FIRST_ATTEMPT_ONLY or scen in KNOWN:
                # state is (legitimately or by the finding) not that of a first run afterwards
                if key or scen in FIRST_ATTEMPT_ONLY:
                    a, b = first_attempt(a), first_attempt(b)
                if scen == "thread_create_many":   # which garbage the handle array holds is not modelled
                    a, b = re.sub(r" h=\w+", "", a), re.sub(r" h=\w+", "", b)
            if a != b and iobs == "ok" and scen in FIXED_MODEL and k in model_fixed:
                # the tree may already carry the fix: compare with the fixed ladder
                b2 = translate(model_fixed[k].split(" | ", 1)[1], sizes)
                a2 = iint
                if scen in FIRST_ATTEMPT_ONLY:
                    a2, b2 = first_attempt(a2), first_attempt(b2)
                if a2 == b2:
                    tree_fixed.add(scen)
                    continue
            if a != b and not iobs.startswith(("CRASH", "HANG")):
                internal.append((k, iobs, iint, mint))
        # number of single-failure positions = number of attempts of the model's failure-free run
        npos = {}
        for k in cases:
            scen, spec = k.split(" ", 1)
            f = _attempt_fails(spec)
            if len([x for x in f if x]) == 1 and len(f[0]) == 1 and all(not x for x in f[1:]):
                npos.setdefault(scen, set()).update(f[0])
        for s in ([] if replay else scens):
            exp = set(range(1, nops.get(s, -1) + 1))
            if npos.get(s, set()) != exp:
                internal.append(("%s N" % s, "ok", "failure positions enumerated on the implementation: %s" %
                                 sorted(npos.get(s, set())), "model: 1..%d" % nops.get(s, -1)))
        for (kind, s), b in wf.items():
            want = (kind != "wf-refuted")
            if b != want:
                internal.append(("%s %s" % (kind, s), "ok", "checker verdict %s" % b, "expected %s" % want))
        for h in harness_fail:
            internal.append(("harness", "ok", h, ""))
        # the race
        race_bad = [l for l in race_lines if not l.startswith("ktable_race => ok")]
        if race_bad:
            known_hits.setdefault(KNOWN_KEYS["ktable_race"], []).extend(race_bad)
        kf = dict(vlib.known_findings(ID))
        extra = os.environ.get("VERIF_C18_EXTRA_KNOWN")     # development aid: lines not yet in known_findings.txt
        if extra and os.path.exists(extra):
            for l in open(extra):
                m = re.match(r"known:\s+property=C18\s+key=(\S+)\s+(.*)", l.strip())
                if m:
                    kf[m.group(1)] = m.group(2)
        for key, cs in known_hits.items():
            if key in kf:
                rep.known.append("key=%s %s (%d cases this run, e.g. %s)" % (key, kf[key], len(cs), cs[0][:100]))
            else:
                c = min(cs, key=lambda x: (len(x), x))
                iv = impl.get(c, c)
                obs_viol.append((c, iv.split(" | ")[0] if " | " in iv else iv, iv, "finding %s is not listed in known_findings.txt" % key))
        nontriv = [k for k in cases if "/" in k or "," in k]
        cov = {"evaluations": len(cases) + len(race_lines), "distinct_nontrivial": len(set(nontriv)),
               "rule": "one evaluation = one process running (scenario, failure pattern) on the rebuilt library and the same "
                       "pattern on the extracted model; patterns = every single failure position of the call and every "
                       "second failure after it (quick) / third (thorough), positions in the retry included; non-trivial = "
                       "at least one failed attempt; distinct = distinct (scenario, pattern)",
               "exhaustive": True, "scenarios": len(scens), "failure_depth": depth,
               "samples": cases[:2] + cases[-2:], "disagreements_checked": len(cases),
               "mismatch_observable": len(obs_viol), "mismatch_internal_only": len(internal),
               "known_finding_cases": sum(len(v) for v in known_hits.values()),
               "ktable_race_runs": race_lines[:3], "notes": sorted(set(notes))[:5],
               "tree_carries_fix": sorted(tree_fixed), "enumeration_wall_s": round(time.time() - t0, 1)}
        def _size(x):
            sp = (x[0].split(" ", 1) + [""])[1]
            return (sum(len(f) for f in _attempt_fails(sp)) if re.match(r"^[\d,/]+$", sp) else 99, len(sp), x[0])
        obs_viol.sort(key=_size)
        internal.sort(key=_size)
        if obs_viol:
            k, iobs, iint, mint = obs_viol[0]
            scen, spec = (k.split(" ", 1) + [""])[:2]
            rep.violation("obs-%d.json" % seed,
                          {"kind": "fault-enumeration", "property": ID, "seed": seed,
                           "cases": [{"scenario": scen, "spec": spec, "depth": max(1, spec.count("/") + spec.count(",") + 1)}],
                           "violated_oracles": iobs, "implementation": iint, "model": mint,
                           "explanation": "scenario %s with the acquisition attempt(s) %s of the call failing (rtrace): a direct "
                                          "oracle of the property failed on the implementation" % (scen, spec),
                           "more": [x[0] + " => " + x[1] for x in obs_viol[1:10]]},
                          found_input=True, text="%s => %s" % (k, iobs[:300]))
        elif internal:
            k, iobs, iint, mint = internal[0]
            scen, spec = (k.split(" ", 1) + [""])[:2]
            rep.violation("corr-%d.json" % seed,
                          {"kind": "fault-enumeration", "property": ID, "seed": seed,
                           "cases": [{"scenario": scen, "spec": spec, "depth": max(1, spec.count("/") + spec.count(",") + 1)}],
                           "implementation": iint, "model": mint,
                           "broken": "correspondence harness/h_c18.c <-> coq/Fault/Routines.v (acquisition trace / ledger / "
                                     "error-vs-success differs; all direct oracles hold on all %d cases)" % len(cases),
                           "more": [x[0] for x in internal[1:10]]},
                          found_input=False, text="%s\n   impl : %s\n   model: %s" % (k, iint[:400], mint[:400]))
        if not proof["ok"] and not obs_viol:
            rep.violation("proof-%d.txt" % seed,
                          "proof obligation(s) of Properties_C18.v no longer check:\n%s\n(enumeration: %d cases, %d observable "
                          "violations)" % (proof["log"][-3000:], len(cases), len(obs_viol)), found_input=False)
    return rep.finish(proof, cov)
