"""C08 — barriers release nobody early and everybody once the last waiter arrives
(history conformance with LTS Conc/Barrier.v + independent per-round arrival monitors)."""
import os, vlib
import vlib, hist

ID = "C08"
MANIFEST = {
    "text": "Theorems (Coq, every num_waiters >= 1, every number of ULT/external/tasklet callers, every interleaving of the LTS "
            "Conc/Barrier.v whose labels are the ABT_VERIF hook records: lock ACQ/REL, DATA counter / num_waiters, wait-list "
            "ENQ/WAKE/BCAST, harness BEGIN/END): no early release (a caller that was woken, is the last arrival, or returns from "
            "ABT_barrier_wait entered a round whose n-th arrival has happened; the round number changes only at the counter++ "
            "that makes counter = num_waiters, with num_waiters distinct callers counted in that round); all released (the reset "
            "after the n-th arrival's broadcast leaves nobody blocked, wait list empty, counter 0; the broadcast cannot end on a "
            "non-empty list and is never stuck); rounds disjoint (lock free => wait list = callers counted in the current round, "
            "length = counter < num_waiters; a re-entering caller is counted in a strictly later round than every released "
            "caller); ABTI_ASSERT(counter < num_waiters) never fails; tasklet callers get ABT_ERR_BARRIER without touching the "
            "barrier; reinit stores num_waiters only when idle. Tie: real multi-threaded executions (1-8 ULT/external waiters on "
            "1-4 streams, tasklets, 1-2 barriers, 1-50 consecutive rounds, reinit between phases, num_waiters = 1 included) are "
            "recorded by the hooks as a totally ordered history and replayed through the extracted step function (every event "
            "must be enabled, payloads equal); independent monitors on every execution: per-round arrival counters read right "
            "after each return, API-level counting law returns <= n*floor(calls/n), return codes, watchdog (stuck). "
            "ABT_xstream_barrier_wait = pthread_barrier_wait in this configuration: API-level monitors only.",
    "note": "Trusted: Coq kernel; extraction; the LTS abstraction (the critical section of p_barrier->lock as atomic steps, SC "
            "memory); hook placement and the trace lock making the recorded order the real order; blocking itself (futex, "
            "context switch) is abstracted to pcs UQ/US/ES and covered by C02/C11; libc pthread_barrier (xstream barrier; the "
            "sense-reversal #else branch is not compiled, not modelled). ABT_barrier_reinit is modelled only inside its "
            "documented contract (counter == 0, no concurrent caller: it takes no lock); ABT_barrier_free and NULL handles are "
            "not modelled (a free by a just-released waiter is checked by the directed harness h_c08_free.c, not by a theorem). Termination under fair scheduling is not claimed beyond: the broadcast reaches every queued caller "
            "and the harness watchdog.",
    "technique": "Coq proof of an inductive invariant over a parametric LTS with ghost round counters + history conformance "
                 "(recorded hook events replayed by the extracted step function) + independent runtime monitors",
}


def _sprinkle(rng, toks, p=0.25):
    out = []
    for t in toks:
        if rng.random() < p:
            out.append(rng.choice(["Y", "K", "K"]))
        out.append(t)
    return out


def gen_scenario(rng, big=False):
    """ABT_barrier scenario: `npart` ULT/external waiters + tasklets, 1-2 barriers, 1-3 phases.
    In a phase every barrier b has a participant set P_b and num_waiters = |P_b|; one global
    sequence of rounds is drawn and every thread executes the rounds of the barriers it takes
    part in, in that order (deadlock free: the first incomplete round always gets all its
    participants).  Between phases everybody meets at the harness gate G, the coordinator
    (thread 0) reinitialises the barriers (no round in progress), and everybody meets again."""
    nes = rng.choice([0, 1, 2, 3])
    nb = rng.choice([1, 1, 1, 2])
    npart = rng.choice([1, 2, 2, 3, 3, 4, 4, 5, 6, 7, 8])
    ntask = rng.choice([0, 0, 0, 1, 2])
    nphases = rng.choice([1, 1, 2, 2, 3])
    budget = rng.choice([1, 2, 3, 5, 8, 12, 20, 50 if big else 30])   # total rounds, 1..50
    kinds = [rng.choice("UUUE") for _ in range(npart)]
    if rng.random() < 0.15:
        kinds = ["E"] * npart
    if rng.random() < 0.15:
        kinds = ["U"] * npart
    ess = [rng.randint(0, nes) for _ in range(npart)]
    toks = [[] for _ in range(npart)]
    lines = ["SEED %d" % rng.randint(1, 10**9), "NES %d" % nes, "WATCHDOG 10", "GATE %d" % npart]
    if nes >= 2 and rng.random() < 0.3:
        lines.insert(2, "SHARED 1")   # the secondary streams serve one shared pool: blocked ULTs resume on other streams
    n_cur = [None] * nb
    rounds_total = 0
    for ph in range(nphases):
        parts = []
        for b in range(nb):
            r = rng.random()
            if r < 0.35:
                P = list(range(npart))
            elif r < 0.5:
                P = [rng.randrange(npart)]                     # num_waiters = 1
            else:
                P = [t for t in range(npart) if rng.random() < 0.6] or [rng.randrange(npart)]
            parts.append(P)
        if ph == 0:
            for b in range(nb):
                lines.append("BARRIER %d %d" % (b, len(parts[b])))
                n_cur[b] = len(parts[b])
        else:
            # either everybody meets at the gate first (all callers have returned), or the coordinator reinitialises
            # right after its own last wait has returned, while slower callers of that completed round may still be on
            # their way out of ABT_barrier_wait (no round is in progress: counter == 0)
            pregate = rng.random() < 0.5
            if pregate:
                for t in range(npart):
                    toks[t].append("G")
            for b in range(nb):
                r = rng.random()
                rt = []
                if r < 0.15:
                    rt.append("R%d:0" % b)                     # ABT_ERR_INV_ARG, nothing changes
                # always reinit at a phase change (possibly with the same n: no store then); the
                # harness' per-round arrival counters are indexed by (phase, k-th wait of the caller)
                rt.append("R%d:%d" % (b, len(parts[b])))
                if pregate:
                    toks[0] += rt
                else:
                    # the last arrival of the barrier's last round reinitialises it right after its own wait has
                    # returned: the round is complete (counter == 0, its critical section is over) but the callers
                    # it has just released may still be leaving ABT_barrier_wait
                    who = rng.choice(prev_parts[b])
                    at = max(i for i, x in enumerate(toks[who]) if x == "W%d" % b)
                    toks[who][at] = "L%d" % b     # it makes itself the last arrival of that round (see harness)
                    toks[who][at + 1:at + 1] = rt
                n_cur[b] = len(parts[b])
            for t in range(npart):
                toks[t].append("G")
        prev_parts = parts
        left = max(1, (budget - rounds_total) // (nphases - ph))
        seq = []
        for b in range(nb):
            seq += [b] * rng.randint(1, max(1, left // nb))
        rng.shuffle(seq)
        seq = seq[:max(1, min(len(seq), 50 - rounds_total))]
        rounds_total += len(seq)
        for b in seq:
            for t in parts[b]:
                toks[t].append("W%d" % b)
    for t in range(npart):
        lines.append("THREAD %d %s %d : %s" % (t, kinds[t], ess[t], " ".join(_sprinkle(rng, toks[t]))))
    for i in range(ntask):
        tt = ["W%d" % rng.randrange(nb) for _ in range(rng.randint(1, 3))]
        lines.append("THREAD %d T %d : %s" % (npart + i, rng.randint(0, nes), " ".join(_sprinkle(rng, tt, 0.5))))
    return "\n".join(lines) + "\n"


def gen_xscenario(rng, big=False):
    """ABT_xstream_barrier (+ an ABT_barrier with the same participants): every participant is its
    own OS thread (at most one ULT per execution stream, external pthreads) because the call blocks
    the OS thread; all participants run the same op sequence."""
    nes = rng.choice([1, 2, 3])
    who = [("U", e) for e in range(nes + 1) if rng.random() < 0.7]
    who += [("E", 0)] * rng.choice([0, 1, 2, 3])
    if not who:
        who = [("U", 1)]
    n = len(who)
    nr = rng.randint(1, 40 if big else 15)
    seq = [rng.choice(["X0", "X0", "W0"]) for _ in range(nr)]
    lines = ["SEED %d" % rng.randint(1, 10**9), "NES %d" % nes, "WATCHDOG 10",
             "BARRIER 0 %d" % n, "XBARRIER 0 %d" % n]
    for t, (k, e) in enumerate(who):
        lines.append("THREAD %d %s %d : %s" % (t, k, e, " ".join(_sprinkle(rng, seq, 0.2))))
    return "\n".join(lines) + "\n"


def gen(rng, tier):
    n = 150 if tier == "quick" else 5000
    nx = 16 if tier == "quick" else 400
    scs = [gen_scenario(rng, big=(tier != "quick" or i % 10 == 0)) for i in range(n)]
    scs += [gen_xscenario(rng, big=(tier != "quick")) for _ in range(nx)]
    return scs, {"scenarios": n + nx, "abt_barrier_scenarios": n, "xstream_barrier_scenarios": nx,
                 "waits": sum(s.count(" W") + s.count(" X") for s in scs), "reinits": sum(s.count(" R") for s in scs)}


def stage_extra(rep, sc, lib, cov, tier, seed):
    """ABT_barrier_free by a waiter the last round has just released, with the last arrival held between its counter
    reset and its lock release (harness/h_c08_free.c, directed through the hook table; verdict from the hook records:
    a record on the barrier after ABT_barrier_free returned)."""
    exe = os.path.join(sc, "h_c08_free")
    ok, err = vlib.build_harness(sc, os.path.join(vlib.HARNESS, "h_c08_free.c"), exe, lib=lib)
    if not ok:
        rep.violation("free-race-build-%d.txt" % seed, "harness/h_c08_free.c does not compile against the tree:\n" + err,
                      found_input=False)
        return
    rounds = 5 if tier == "quick" else 60
    rc, out, err = vlib.run([exe, str(rounds)], timeout=600)
    lines = [l for l in out.split("\n") if l]
    cov["free_race_configs"] = len(lines)
    cov["free_race_rounds"] = rounds * len(lines)
    bad = [l for l in lines if not l.startswith("OK")]
    if rc != 0 or bad or not lines:
        rep.violation("free-race-%d.json" % seed,
                      {"kind": "free-race", "property": ID, "seed": seed, "command": "h_c08_free %d" % rounds,
                       "exit": rc, "output": lines, "stderr": err[-2000:],
                       "explanation": "a waiter released by the last arrival freed the barrier while the last arrival was still "
                                      "inside its critical section: the barrier's memory was given back before the round was over "
                                      "(late counter / lock stores land in freed, possibly reused memory: the next barrier in that "
                                      "block loses an arrival)"},
                      found_input=True, text=(bad or ["rc=%s %s" % (rc, err[-300:])])[0])


def run(tier, seed, replay):
    return hist.run_history_property(
        ID, "Properties_C08.v", ["Properties_C08.vo", "Extract_C08.vo"], "c08", "h_c08.c", gen, tier, seed, replay=replay,
        rule="seeded scenarios: 1-8 waiters of mixed kinds (ULTs on 1-4 streams, external pthreads; tasklets get "
             "ABT_ERR_BARRIER), 1-2 barriers, 1-50 consecutive rounds in 1-3 phases, num_waiters = number of participants "
             "(also 1), ABT_barrier_reinit (same n, new n, 0) by a coordinator between phases; every history replayed through "
             "the extracted LTS; per-round arrival counters read right after each return + API-level counting law + watchdog "
             "as independent monitors; ABT_xstream_barrier: the monitors only; non-trivial = all",
        extra_assumptions=["blocking (futex / context switch) is abstracted: a ULT between enqueue and the callback's release is "
                           "pc UQ, a blocked ULT is US; context-switch correctness is C02/C11",
                           "ABT_xstream_barrier_wait is pthread_barrier_wait in this configuration (libc, trusted); only the "
                           "API-level monitor is applied to it; the sense-reversal #else branch is not compiled",
                           "ABT_barrier_reinit is modelled only inside its documented contract (counter == 0, no concurrent "
                           "caller)",
                           "ABT_barrier_free is not a step of the LTS: a free by a just-released waiter is checked by the "
                           "directed harness h_c08_free.c (hook records on the barrier after the free returned)"],
        stage_extra=None if replay else stage_extra)
