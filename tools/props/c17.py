"""C17 — execution-stream ranks are unique and the stream lifecycle is repeatable."""
import itertools, os, random
import vlib

ID = "C17"
COQ_TARGETS = ["Properties_C17.vo", "Extract_C17.vo", "Extract_Sched.vo"]   # the lifecycle stage replays through Conc/Sched.v
DRIVERS = ["c17", "sched"]
MANIFEST = {
    "text": "Theorems (Coq, unbounded): for every sequence of ABT_xstream_create / create_with_rank / set_rank (also on self) / "
            "join / revive / free / queries, the pointer-level model of stream.c's rank list (head, per-stream rank/p_prev/"
            "p_next, num_xstreams, exact insertion/removal code incl. the stale p_prev of a re-inserted node) never faults and "
            "stays a strictly rank-sorted, prev-consistent chain of exactly the live streams with the primary (rank 0) at the "
            "head (C17_ranks_distinct_sorted); an automatic rank is the least unused natural (C17_auto_rank_is_mex); an explicit/"
            "changed rank is granted iff no other live stream has it and then only that stream's rank changes "
            "(C17_explicit_iff_free); a freed rank is reusable (C17_rank_reusable); C17_head_invariant_needed exhibits the "
            "corruption without the primary-at-head invariant. C17_ctx_protocol: in every run (all interleavings, spurious "
            "wake-ups, all controller programs) of the LTS of abtd_stream.c's RUNNING/WAITING/REQ_JOIN/REQ_TERMINATE protocol no "
            "assertion fails, join returns only after the stream function returned, each revive restarts it exactly once, "
            "pthread_join in free returns only for a terminated thread, every state access/signal is under the mutex, no sleeper "
            "misses its wake-up, and completion is always reachable without spurious wake-ups. "
            "Tie: stream.c and abtd_stream.c of the working tree are compiled textually into the harness (replacing the archive "
            "members), so real streams run on them: exhaustive + seeded API sequences and white-box calls of the static list "
            "functions are compared with the extracted model (results + walk of the real list after every call); every pthread "
            "call of abtd_stream.c is recorded (macro-renamed wrappers, state and mutex ownership sampled) and each context's "
            "history is replayed through the extracted LTS (C17_replay_sound: an accepted history is a run of the LTS); the "
            "wrappers inject legal spurious wake-ups; a lock probe checks that the three list functions block while the harness "
            "holds xstream_list_lock (the model's one-locked-step assumption); concurrent rank operations from ULTs and external "
            "threads are checked for the list invariants and for a linearization admitted by the model; work submitted after "
            "revive and after ABT_xstream_set_main_sched must complete.",
    "note": "Trusted: Coq kernel, extraction (ExtrOcamlBasic), OCaml driver (incl. the linearization search), the hand-written "
            "models of stream.c / abtd_stream.c (validated by the differential and history checks, not verified against the C "
            "text), pthread mutex/cond semantics as modelled (signal wakes a sleeper, spurious wake-ups allowed), the recording "
            "wrappers. Modelled not verified: scheduler replacement is covered only observationally (return code of "
            "ABT_xstream_set_main_sched on the own / a running / a joined stream, list untouched, later work completes); the "
            "theorem C17_replace_sched of DESIGN belongs to the Sched LTS and is not part of this check; one controller per context (stream.c documents join/free/revive as "
            "thread-unsafe per stream); xstream_list_lock sections are single steps; creation failures (C18) not modelled; "
            "theorems are stated for requested ranks <= INT_MAX and fewer than INT_MAX-1 calls (no C int can overflow "
            "where the model uses Z).",
}

INT_MAX = 2147483647


# ------------------------------------------------------------------ generators
def x_alphabet():
    a = ["N -1"] + ["N %d" % r for r in (0, 1, 2, 3)]
    a += ["C %d %d" % (i, r) for i in (0, 1, 2) for r in (0, 1, 2, 3)]
    a += ["R %d" % i for i in (0, 1, 2)]
    return a


def a_alphabet():
    a = ["c"] + ["w %d" % r for r in (1, 2, 3)]
    a += ["s %d %d" % (i, r) for i in (1, 2, 3) for r in (1, 2, 3)]
    a += ["f %d" % i for i in (1, 2, 3)]
    return a


def gen_x_random(rng, n):
    cases = []
    for _ in range(n):
        ops, nalloc = [], 0
        style = rng.choice(["primaryfirst", "free", "free", "neg"])
        if style == "primaryfirst":
            ops.append("N -1"); nalloc = 1
        for _ in range(rng.choice([4, 8, 16, 30])):
            r = rng.random()
            rk = rng.choice([-1, -1, 0, 1, 2, 3, 4, 5, 7, 9, 12, rng.randint(0, 20)])
            if style == "neg" and rng.random() < 0.2:
                rk = rng.choice([-2, -3, -7])
            if r < 0.45 or nalloc == 0:
                ops.append("N %d" % rk); nalloc += 1
            elif r < 0.8:
                lo = 1 if style == "primaryfirst" and rng.random() < 0.9 else 0
                i = rng.randint(lo, max(lo, nalloc - 1))
                ops.append("C %d %d" % (i, rk if rk != -1 else rng.randint(0, 6)))
            else:
                lo = 1 if style == "primaryfirst" and rng.random() < 0.9 else 0
                ops.append("R %d" % rng.randint(lo, max(lo, nalloc - 1)))
        cases.append("X %d ; %s" % (rng.choice([1, 4, 4, 16]), " , ".join(ops)))
    return cases


def gen_a_random(rng, n, maxlen):
    cases = []
    for _ in range(n):
        ops, nid = [], 1          # ids handed out so far (0 = primary)
        small = rng.choice([3, 4, 6, 9])
        for _ in range(rng.randint(3, maxlen)):
            r = rng.random()
            anyid = lambda: rng.randint(0, nid) if rng.random() < 0.12 else rng.randint(1, max(1, nid - 1))
            rk = rng.choice([0, 1, 2, 3, rng.randint(0, small), rng.randint(0, small), -1, -4, 100, 70000])
            if r < 0.16 and nid < 40:
                ops.append("c"); nid += 1
            elif r < 0.30 and nid < 40:
                ops.append("w %d" % rk); nid += 1
            elif r < 0.46:
                ops.append("s %d %d" % (anyid(), rk))
            elif r < 0.54:
                ops.append("u %d %d" % (anyid(), rk))
            elif r < 0.64:
                ops.append("f %d" % anyid())
            elif r < 0.72:
                ops.append("j %d" % anyid())
            elif r < 0.80:
                ops.append("v %d" % anyid())
            elif r < 0.83:
                ops.append("k %d" % anyid())
            elif r < 0.86:
                ops.append("m %d" % anyid())
            elif r < 0.90:
                ops.append("g %d" % anyid())
            elif r < 0.95:
                ops.append("t %d" % anyid())
            else:
                ops.append("n")
        cases.append("A %d ; %s" % (rng.choice([1, 4, 4, 8]), " , ".join(ops)))
    return cases


FIXED = [
    "K",
    # revive / join / work-after-revive cycles, set_rank on self, rank reuse
    "A 4 ; c , j 1 , t 1 , v 1 , t 1 , k 1 , u 1 7 , g 1 , k 0 , u 0 3 , j 1 , k 1 , f 1 , g 1",
    "A 4 ; c , c , j 1 , j 1 , v 1 , v 1 , k 1 , j 1 , v 1 , k 1 , j 2 , v 2 , k 2 , f 2 , f 1 , n",
    "A 4 ; w 3 , w 3 , w 1 , c , f 1 , c , w 3 , s 3 3 , s 3 2 , f 3 , w 1 , n",
    "A 4 ; c , c , c , f 2 , c , f 1 , c , s 3 9 , c , f 3 , w 9 , g 8",
    "A 2 ; c , u 1 0 , u 1 1 , u 1 5 , c , u 1 1 , u 2 5 , u 2 3 , j 2 , u 2 4 , v 2 , u 2 4 , k 2",
    # main-scheduler replacement: on the caller's (primary) stream, on a running stream (refused), on a joined
    # stream followed by revive; work submitted afterwards must complete, ranks and list untouched
    "A 4 ; c , c , m 0 , k 0 , m 1 , j 1 , m 1 , t 1 , v 1 , k 1 , u 1 6 , m 0 , k 0 , k 2 , f 1 , m 1 , n",
    # regression for the fixed finding rank-int-max-overflow (newrank + 1 overflowed in xstream_update_max_xstreams);
    # kept apart: vlib.differential mis-attributes a crash on the first case of a restarted harness run
    "A 4 ; w %d" % INT_MAX,
    # the corruption that the primary-at-head invariant excludes (white box only)
    "X 4 ; N 5 , N 7 , C 1 3 , R 1",
    "X 4 ; N -1 , N -1 , N 5 , R 0 , N -1 , C 2 0 , R 3",
    "X 4 ; N 2 , N 1 , N 0 , R 1 , R 2 , R 0 , N -1",
    "A 4 ; c , s 1 %d" % INT_MAX,
    "A 4 ; w %d , c , n" % (INT_MAX - 1),
]


def gen(rng, tier):
    cases = list(FIXED)
    stats = {"fixed": len(FIXED)}
    lx = 3 if tier == "quick" else 4
    n0 = len(cases)
    for L in range(1, lx + 1):
        for seq in itertools.product(x_alphabet(), repeat=L):
            cases.append("X 4 ; " + " , ".join(seq))
    stats["x_exhaustive_len<=%d_alphabet20" % lx] = len(cases) - n0
    la = 2 if tier == "quick" else 3
    n0 = len(cases)
    for L in range(1, la + 1):
        for seq in itertools.product(a_alphabet(), repeat=L):
            cases.append("A 4 ; " + " , ".join(seq))
    stats["a_exhaustive_len<=%d_alphabet16" % la] = len(cases) - n0
    # a seeded sample of the next length (real streams cost ~5 ms each)
    nsamp = 450 if tier == "quick" else 5000
    al = a_alphabet()
    for _ in range(nsamp):
        cases.append("A 4 ; " + " , ".join(rng.choice(al) for _ in range(la + 1)))
    stats["a_sampled_len=%d" % (la + 1)] = nsamp
    nx = 600 if tier == "quick" else 20000
    na = 200 if tier == "quick" else 5000
    cases += gen_x_random(rng, nx)
    cases += gen_a_random(rng, na, 14 if tier == "quick" else 30)
    stats["x_random"] = nx
    stats["a_random"] = na
    np_ = 30 if tier == "quick" else 600
    for _ in range(np_):
        cases.append("P %d %d %d %d %d %d" % (rng.getrandbits(30), rng.randint(1, 3), rng.randint(1, 3),
                                              rng.randint(0, 2), rng.randint(2, 4), rng.randint(2, 5)))
    stats["p_concurrent"] = np_
    # storms: many issuers, long op lists, a longer list to scan (the check-then-insert of a rank must be one step)
    nst = 16 if tier == "quick" else 300
    for _ in range(nst):
        cases.append("P %d %d %d %d %d %d" % (rng.getrandbits(30), rng.choice([4, 8]), rng.choice([0, 2, 4]),
                                              rng.choice([4, 8]), 32, rng.choice([3, 6, 12])))
    stats["p_storm"] = nst
    return cases, stats


def classify(case, impl, model):
    if impl.startswith("CRASH"):
        return "observable"
    if " | " in impl and " | " in model:
        return "observable" if impl.split(" | ")[0] != model.split(" | ")[0] else "internal"
    return "observable"


def nontrivial(case):
    return case.startswith("P") or case.count(",") >= 2


def known_match(case, impl, model):
    # no open finding (rank-int-max-overflow was fixed in /repo by a3733c8; the model follows the fixed code)
    return None


# ------------------------------------------------------------------ history stage
def history_stage(rep, sc, lib, cov, tier, seed):
    """second stage: recorded pthread-call histories of real streams replayed through the
    extracted LTS, and concurrent operation histories searched for a linearization."""
    hexe = os.path.join(sc, "harness_c17")
    drv = os.path.join(vlib.BUILD, "drv_c17")
    rng = random.Random(seed * 7919 + 17)
    cases = [c for c in FIXED if c.startswith("A")]
    cases += gen_a_random(rng, 100 if tier == "quick" else 3000, 16)
    # lifecycle-heavy sequences: join / revive / work / free in all short orders on one stream
    life = ["j 1", "v 1", "k 1", "f 1", "t 1"]
    for L in (2, 3) if tier == "quick" else (2, 3, 4, 5):
        for seq in itertools.product(life, repeat=L):
            cases.append("A 4 ; c , " + " , ".join(seq))
    npc = 40 if tier == "quick" else 1500
    for _ in range(npc):
        cases.append("P %d %d %d %d %d %d" % (rng.getrandbits(30), rng.randint(1, 3), rng.randint(1, 3),
                                              rng.randint(0, 2), rng.randint(2, 4), rng.randint(2, 5)))
    cf = os.path.join(sc, "hist_cases.txt")
    open(cf, "w").write("\n".join(cases) + "\n")
    env = dict(os.environ)
    env["VH_PERTURB"] = str(seed)
    env["VH_WATCHDOG"] = "30"
    rc, out, err = vlib.run([hexe, cf, "hist"], timeout=900, env=env)
    hlines = out.split("\n")[:-1]
    if rc != 0 and "harness watchdog" in err:
        # a watchdog expiry may be a slow case on a loaded machine: the case is run alone three times with a long
        # watchdog, and the batch once more, before it counts as a hang
        k = min(len(hlines), len(cases) - 1)
        one = os.path.join(sc, "hist_one.txt")
        open(one, "w").write(cases[k] + "\n")
        e2 = dict(env); e2["VH_WATCHDOG"] = "90"
        if all(vlib.run([hexe, one, "hist"], timeout=300, env=e2)[0] == 0 for _ in range(3)):
            vlib.log("history stage: watchdog expired on '%s' in the batch, not when run alone; batch repeated" % cases[k])
            rc, out, err = vlib.run([hexe, cf, "hist"], timeout=1800, env=e2)
            hlines = out.split("\n")[:-1]
    if rc != 0 or len(hlines) != len(cases):
        k = min(len(hlines), len(cases) - 1)
        rep.violation("hist-crash-%d.json" % seed,
                      {"kind": "history", "property": ID, "seed": seed, "cases": [cases[k]],
                       "explanation": "the implementation crashed / hung while running this scenario",
                       "stderr": err[-2000:]}, found_input=True, text="crash in history stage: " + cases[k])
        cov["history_cases"] = len(hlines)
        return
    hf = os.path.join(sc, "hist_out.txt")
    open(hf, "w").write("\n".join(hlines) + "\n")
    rc, out, err = vlib.run([drv, hf, "hist"], timeout=900)
    vl = out.split("\n")[:-1]
    if rc != 0 or len(vl) != len(hlines):
        raise RuntimeError("history driver failed: rc=%s %s" % (rc, err[-2000:]))
    nctx = nlin = ninc = 0
    badh, badl = [], []
    for c, h, v in zip(cases, hlines, vl):
        if v.startswith("H"):
            toks = v.split()[1:]
            nctx += len(toks)
            if any(t != "ok" for t in toks):
                badh.append((c, h, v))
        else:
            nlin += 1
            if v == "L inconclusive":
                ninc += 1
            elif v != "L ok":
                badl.append((c, h, v))
    cov["history_cases"] = len(cases)
    cov["ctx_histories_replayed"] = nctx
    cov["events_replayed"] = sum(len(h.split()) for h in hlines if h.startswith("H"))
    cov["linearizability_histories"] = nlin
    cov["linearizability_inconclusive"] = ninc
    if badl:
        c, h, v = badl[0]
        rep.violation("lin-%d.json" % seed,
                      {"kind": "linearizability", "property": ID, "seed": seed, "cases": [c], "history": h, "verdict": v,
                       "explanation": "the results of concurrently issued rank operations admit no serial order of the "
                                      "(proved) model: ranks not unique / wrong automatic rank / num_xstreams wrong"},
                      found_input=True, text="%s\n   %s\n   %s" % (c, h[:300], v))
    if badh:
        c, h, v = badh[0]
        obs = "JOIN-BEFORE-RETURN" in v
        rep.violation("hist-%d.json" % seed,
                      {"kind": "history", "property": ID, "seed": seed, "cases": [c], "history": h, "verdict": v,
                       "broken": "correspondence abtd_stream.c <-> Conc/XstreamCtx.v: the recorded order of pthread calls / "
                                 "sampled p_ctx->state is not a run of the LTS (C17_ctx_protocol no longer applies to this code)"},
                      found_input=obs, text="%s\n   %s" % (c, v))


def lifecycle_stage(rep, sc, lib, cov, tier, seed):
    """third stage (scheduler harness, LTS Conc/Sched.v): a pending ABT_xstream_join / free must survive the
    replacement of the stream's main scheduler (ABT_xstream_set_main_sched called by a ULT of that stream):
    the join returns, and only after that ULT has finished.  Scenario family schedgen.gen_replace; every history is
    replayed through the extracted scheduler LTS and judged by its monitors."""
    import hist, schedgen
    history_stage(rep, sc, lib, cov, tier, seed)
    if rep.violations:
        return
    ok, lib2, err = vlib.get_lib(sc)
    if not ok:
        return

    def g(rng, t):
        n = 16 if t == "quick" else 300
        return [schedgen.gen_replace(rng) for _ in range(n)], {"scenarios": n, "families": ["gen_replace"]}
    cov2 = hist.history_stage(rep, True, sc, lib2, ID, "sched", "h_sched.c", g, tier, seed,
                              rule="scheduler replacement with a pending stream join", sweep_kinds=(54, 53),
                              sweep_n=16 if tier == "quick" else 100)
    cov["sched_replacement_scenarios"] = cov2.get("evaluations", 0)
    cov["sched_replacement_events_replayed"] = cov2.get("events_replayed", 0)


def run(tier, seed, replay):
    return vlib.run_differential_property(
        ID, "Properties_C17.v", ["Properties_C17.vo", "Extract_C17.vo"], "c17", "h_c17.c",
        gen, classify, nontrivial, tier, seed, replay=replay, san=True, known_match=known_match,
        extra_stage=lifecycle_stage,
        rule="X: white-box calls of xstream_set_new_rank/change_rank/return_rank on a private ABTI_global, all sequences of "
             "length<=L over 20 ops (ranks auto,0..3; 3 nodes) + seeded; A: public API with real streams, all sequences of "
             "length<=L over 16 ops (create, create_with_rank 1..3, set_rank x3 streams x3 ranks, free) + seeded sequences with "
             "join/revive/get_state/work/set_rank-on-self; after every op the real list is walked. P: concurrent issue from "
             "ULTs + external threads. History stage: pthread-call histories per context replayed in the LTS; linearization "
             "search for P. non-trivial = >=3 ops.",
        extra_assumptions=["stream.c and arch/abtd_stream.c of the working tree are compiled into the harness (ASan+UBSan) and "
                           "replace the archive members; the rest of the runtime is the -O2 library",
                           "pthread call order is recorded under a global trace lock; p_ctx->state is sampled only while the "
                           "recording thread holds state_lock"])
