"""C20 — configuration maps, atoi family (affinity / env clamp: see below)."""
import itertools, struct
import vlib

ID = "C20"
MANIFEST = {
    "text": "Theorems (Coq, unbounded): the config hashtable with C's truncating index refines a total finite map for every "
            "table size/op sequence/key (C20_config_map, C20_index_in_bounds); atoi_impl and the four typed front ends equal "
            "'ws* sign* digit+' saturated at the type limits with exact overflow flag and no uint64 wrap (C20_atoi_*). "
            "Tie: models extracted to OCaml and compared with the C code (ASan/UBSan white-box copies + public config API) on "
            "exhaustive small scopes and seeded cases on every run.",
    "note": "Trusted: Coq kernel, extraction (ExtrOcamlBasic), the hand-written model of hashtable.c/atoi.c/sched_config.c/"
            "pool_config.c (validated by the differential harness, not verified), gcc/glibc. Affinity parser and env clamping "
            "parts of C20 are added in later revisions (see evidence theorems list).",
}
KEYS = [-9, -1, 0, 7, 8, 15, -17, 16, 23, -2147483648, 2147483647, 1, 2, 3, -8]


def _val(rng, ty):
    if ty == 0:
        return rng.choice([0, 1, -1, 5, 2147483647, -2147483648, rng.randint(-10**6, 10**6)])
    if ty == 1:
        while True:
            bits = rng.getrandbits(64)
            if (bits >> 52) & 0x7ff != 0x7ff:
                return bits
    return rng.choice([0, 1, 2**64 - 1, rng.getrandbits(64), rng.getrandbits(47)])


def _op(rng, keys):
    r = rng.random()
    k = rng.choice(keys)
    if r < 0.40:
        ty = rng.choice([0, 1, 2]) if rng.random() < 0.93 else rng.choice([3, -1, 77])
        return "S %d %d %d" % (k, ty, _val(rng, ty if 0 <= ty <= 2 else 0))
    if r < 0.62:
        return "D %d" % k
    if r < 0.93:
        return "G %d" % k
    return "R %d" % rng.randint(0, 8)


def gen_ht(rng, tier):
    cases = []
    # exhaustive small scope: all sequences over 3 colliding keys (mod 8: -9,-1,7 -> 7)
    alpha = ["S -9 0 1", "S -1 1 4607182418800017408", "S 7 2 99", "D -9", "D -1", "D 7", "G -9", "G -1", "G 7"]
    maxlen = 3 if tier == "quick" else 4
    for L in range(1, maxlen + 1):
        for seq in itertools.product(alpha, repeat=L):
            cases.append("HT W 8 ;  ; " + " , ".join(seq))
    nexh = len(cases)
    nrand = 400 if tier == "quick" else 6000
    for _ in range(nrand):
        variant = rng.choice("WWSP")
        n = rng.choice([1, 2, 3, 5, 8, 8]) if variant == "W" else 8
        nk = rng.choice([2, 3, 4, 6, len(KEYS)])
        keys = rng.sample(KEYS, nk)
        if variant != "W" and rng.random() < 0.5:
            keys = keys + [0, 1, 2, 3]
        ents = []
        for _ in range(rng.choice([0, 0, 1, 2, 3, 4])):
            ty = rng.choice([0, 1, 2]) if rng.random() < 0.95 else 5
            idx = rng.choice(keys) if rng.random() < 0.93 else -1
            if variant == "P" and idx == -1:
                idx = -2
            ents.append("%d %d %d" % (idx, ty, _val(rng, ty if ty <= 2 else 0)))
        ops = [_op(rng, keys) for _ in range(rng.choice([1, 3, 6, 12, 25, 40]))]
        if variant == "P":
            ops = [o for o in ops if not o.startswith("R")] or ["G 0"]
        cases.append("HT %s %d ; %s ; %s" % (variant, n, " , ".join(ents), " , ".join(ops)))
    return cases, {"ht_exhaustive_len<=%d" % maxlen: nexh, "ht_random": nrand}


def _s2codes(s):
    return " ".join(str(ord(ch)) for ch in s)


LIMITS = [0, 1, 9, 10, 2**31 - 2, 2**31 - 1, 2**31, 2**31 + 1, 2**32 - 2, 2**32 - 1, 2**32, 2**32 + 1,
          2**63 - 1, 2**63, 2**64 - 2, 2**64 - 1, 2**64, 2**64 + 1, 1844674407370955161, 1844674407370955162,
          18446744073709551609, 18446744073709551610, 10**19, 10**20, 10**30, 12345678901234567890]


def gen_at(rng, tier):
    cases = []
    kinds = ["i", "u32", "u64", "sz"]
    alpha = " +-09a"
    maxlen = 4 if tier == "quick" else 5
    n_exh = 0
    for L in range(0, maxlen + 1):
        for t in itertools.product(alpha, repeat=L):
            s = "".join(t)
            # every kind shares atoi_impl; rotate kinds to bound the volume, all kinds for short strings
            ks = kinds if L <= 3 else [kinds[n_exh % 4]]
            for k in ks:
                cases.append("AT %s %s" % (k, _s2codes(s)))
            n_exh += 1
    nlim = 0
    for v in LIMITS:
        for sign in ["", "-", "+", "--", "-+-", " \t-", "\n +"]:
            for pre in ["", "0", "000"]:
                for suf in ["", " ", "x", "-", "+5", "\r"]:
                    if tier == "quick" and (len(sign) > 2 or suf in ("+5", "\r")) and rng.random() < 0.6:
                        continue
                    s = sign + pre + str(v) + suf
                    for k in kinds:
                        cases.append("AT %s %s" % (k, _s2codes(s)))
                        nlim += 1
    nrand = 800 if tier == "quick" else 20000
    chars = " \t\n\r+-0123456789abc:{},"
    for _ in range(nrand):
        r = rng.random()
        if r < 0.6:
            s = "".join(rng.choice(" \t\n\r") for _ in range(rng.choice([0, 0, 1, 3])))
            s += "".join(rng.choice("+-") for _ in range(rng.choice([0, 0, 1, 2, 5])))
            v = rng.choice(LIMITS) + rng.choice([0, 0, 1, -1, 7])
            s += "0" * rng.choice([0, 0, 2]) + str(max(v, 0))
            s += "".join(rng.choice(chars) for _ in range(rng.choice([0, 0, 1, 4])))
        else:
            s = "".join(rng.choice(chars) for _ in range(rng.randint(0, 30)))
        cases.append("AT %s %s" % (rng.choice(kinds), _s2codes(s)))
    return cases, {"at_exhaustive_len<=%d_alphabet6" % maxlen: n_exh, "at_limits": nlim, "at_random": nrand}


def gen(rng, tier):
    c1, s1 = gen_ht(rng, tier)
    c2, s2 = gen_at(rng, tier)
    s1.update(s2)
    return c1 + c2, s1


def classify(case, impl, model):
    if impl.startswith("CRASH"):
        return "observable"
    if case.startswith("HT") and " | " in impl and " | " in model:
        return "observable" if impl.split(" | ")[0] != model.split(" | ")[0] else "internal"
    return "observable"


def nontrivial(case):
    if case.startswith("HT"):
        return case.count(",") >= 2
    return any(48 <= int(x) <= 57 for x in case.split()[2:])


def run(tier, seed, replay):
    return vlib.run_differential_property(
        ID, "Properties_C20.v", ["Properties_C20.vo", "Extract_C20.vo"], "c20", "h_c20.c",
        gen, classify, nontrivial, tier, seed, replay=replay, san=True,
        rule="HT: every op sequence of length<=L over 9 ops on 3 colliding keys (exhaustive) + seeded sequences on W(hite-box, "
             "n in 1..8)/S(ched)/P(ool) config objects; non-trivial = >=3 ops. AT: all strings of length<=L over ' +-09a' "
             "(exhaustive) + limit-centred and random strings; non-trivial = contains a digit. Distinct = distinct case text.",
        extra_assumptions=["hashtable.c / atoi.c are exercised as ASan+UBSan-instrumented copies (white box) and through "
                           "ABT_sched_config_* / ABT_pool_config_* of the -O2 library"])
