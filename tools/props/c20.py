"""C20 — configuration maps, atoi family, ABT_SET_AFFINITY parser, ABT_* numeric settings."""
import itertools, struct, re, os
import vlib

ID = "C20"
MANIFEST = {
    "text": "Theorems (Coq, unbounded): the config hashtable with C's truncating index refines a total finite map for every "
            "table size/op sequence/key (C20_config_map, C20_index_in_bounds); atoi_impl and the four typed front ends equal "
            "'ws* sign* digit+' saturated at the type limits with exact overflow flag and no uint64 wrap (C20_atoi_*); the "
            "ABT_SET_AFFINITY parser (model = code with the F3 fix, index-based with explicit reads) accepts exactly the documented "
            "grammar with explicit white space (C20_affinity_sound, C20_affinity_complete), returns the documented expansion modulo "
            "2^32 (C20_affinity_expand), never reads beyond the terminating NUL nor exhausts its fuel, also without the fix "
            "(C20_affinity_memory_safe), never overflows an int (C20_affinity_no_overflow) while the unfixed code does on "
            "'99999999999' and '-2147483648' (C20_affinity_no_overflow_refuted, finding F3) and differs from the fixed code only there "
            "(C20_affinity_fix_conservative); list sizes are bounded by length * (2^20 - 1) (C20_affinity_alloc_bounded); every "
            "numeric field written by ABTD_env_init lies in its documented range with its documented rounding for every environment "
            "(C20_env_clamped, C20_env_rounding, C20_env_load_is_clamp), and no unsigned operation wraps unless the system page size "
            "exceeds 2^62 under mprotect or the ULT stack size reaches 2^62 (C20_env_no_overflow, C20_env_overflow_witness). "
            "Tie: models extracted to OCaml and compared with the C code on every run: ASan/UBSan white-box copies of hashtable.c, "
            "atoi.c and abtd_affinity_parser.c (all strings of length <= 5/6 over '09+- {}:,', the parser's compiled-out self test, "
            "seeded valid and mutated strings, INT_MAX / MAX_NUM_ELEMS boundaries) and ABTD_env_init + ABT_init + "
            "ABT_info_query_config + a smoke workload in a child process under generated ABT_* environments.",
    "note": "Trusted: Coq kernel, extraction (ExtrOcamlBasic), the hand-written models of hashtable.c/atoi.c/sched_config.c/"
            "pool_config.c/abtd_affinity_parser.c/abtd_env.c (validated by the differential harness, not verified), gcc/glibc, the "
            "sanitizers. Modelled, not verified: allocation failure inside the affinity parser is not modelled (allocations succeed); "
            "uint32_t index is a natural number (strings shorter than 2^32); the uint32_t element counters are list lengths (proved "
            "< 2^32 for strings of <= 4096 characters; beyond ~40 KB and 16 GB of ids they could wrap); ABT_SET_AFFINITY itself is "
            "only reached white-box (HAVE_PTHREAD_SETAFFINITY_NP is undefined in the active configuration); ABT_MEM_LP_ALLOC and the "
            "huge-page probing, affinity type, and print_config output are not modelled; sysconf/getpagesize are parameters. The "
            "'sane magnitude' predicate under which ABT_init and the smoke workload are run is part of the model (EnvClamp.sane).",
}
KEYS = [-9, -1, 0, 7, 8, 15, -17, 16, 23, -2147483648, 2147483647, 1, 2, 3, -8]


def _val(rng, ty):
    if ty == 0:
        return rng.choice([0, 1, -1, 5, 2147483647, -2147483648, rng.randint(-10**6, 10**6)])
    if ty == 1:
        while True:
            bits = rng.getrandbits(64)
            if (bits >> 52) & 0x7ff != 0x7ff:
                return bits
    return rng.choice([0, 1, 2**64 - 1, rng.getrandbits(64), rng.getrandbits(47)])


def _op(rng, keys):
    r = rng.random()
    k = rng.choice(keys)
    if r < 0.40:
        ty = rng.choice([0, 1, 2]) if rng.random() < 0.93 else rng.choice([3, -1, 77])
        return "S %d %d %d" % (k, ty, _val(rng, ty if 0 <= ty <= 2 else 0))
    if r < 0.62:
        return "D %d" % k
    if r < 0.93:
        return "G %d" % k
    return "R %d" % rng.randint(0, 8)


def gen_ht(rng, tier):
    cases = []
    # exhaustive small scope: all sequences over 3 colliding keys (mod 8: -9,-1,7 -> 7)
    alpha = ["S -9 0 1", "S -1 1 4607182418800017408", "S 7 2 99", "D -9", "D -1", "D 7", "G -9", "G -1", "G 7"]
    maxlen = 3 if tier == "quick" else 4
    for L in range(1, maxlen + 1):
        for seq in itertools.product(alpha, repeat=L):
            cases.append("HT W 8 ;  ; " + " , ".join(seq))
    nexh = len(cases)
    nrand = 400 if tier == "quick" else 6000
    for _ in range(nrand):
        variant = rng.choice("WWSP")
        n = rng.choice([1, 2, 3, 5, 8, 8]) if variant == "W" else 8
        nk = rng.choice([2, 3, 4, 6, len(KEYS)])
        keys = rng.sample(KEYS, nk)
        if variant != "W" and rng.random() < 0.5:
            keys = keys + [0, 1, 2, 3]
        ents = []
        for _ in range(rng.choice([0, 0, 1, 2, 3, 4])):
            ty = rng.choice([0, 1, 2]) if rng.random() < 0.95 else 5
            idx = rng.choice(keys) if rng.random() < 0.93 else -1
            if variant == "P" and idx == -1:
                idx = -2
            ents.append("%d %d %d" % (idx, ty, _val(rng, ty if ty <= 2 else 0)))
        ops = [_op(rng, keys) for _ in range(rng.choice([1, 3, 6, 12, 25, 40]))]
        if variant == "P":
            ops = [o for o in ops if not o.startswith("R")] or ["G 0"]
        cases.append("HT %s %d ; %s ; %s" % (variant, n, " , ".join(ents), " , ".join(ops)))
    return cases, {"ht_exhaustive_len<=%d" % maxlen: nexh, "ht_random": nrand}


def _s2codes(s):
    return " ".join(str(ord(ch)) for ch in s)


LIMITS = [0, 1, 9, 10, 2**31 - 2, 2**31 - 1, 2**31, 2**31 + 1, 2**32 - 2, 2**32 - 1, 2**32, 2**32 + 1,
          2**63 - 1, 2**63, 2**64 - 2, 2**64 - 1, 2**64, 2**64 + 1, 1844674407370955161, 1844674407370955162,
          18446744073709551609, 18446744073709551610, 10**19, 10**20, 10**30, 12345678901234567890]


def gen_at(rng, tier):
    cases = []
    kinds = ["i", "u32", "u64", "sz"]
    alpha = " +-09a"
    maxlen = 4 if tier == "quick" else 5
    n_exh = 0
    for L in range(0, maxlen + 1):
        for t in itertools.product(alpha, repeat=L):
            s = "".join(t)
            # every kind shares atoi_impl; rotate kinds to bound the volume, all kinds for short strings
            ks = kinds if L <= 3 else [kinds[n_exh % 4]]
            for k in ks:
                cases.append("AT %s %s" % (k, _s2codes(s)))
            n_exh += 1
    nlim = 0
    for v in LIMITS:
        for sign in ["", "-", "+", "--", "-+-", " \t-", "\n +"]:
            for pre in ["", "0", "000"]:
                for suf in ["", " ", "x", "-", "+5", "\r"]:
                    if tier == "quick" and (len(sign) > 2 or suf in ("+5", "\r")) and rng.random() < 0.6:
                        continue
                    s = sign + pre + str(v) + suf
                    for k in kinds:
                        cases.append("AT %s %s" % (k, _s2codes(s)))
                        nlim += 1
    nrand = 800 if tier == "quick" else 20000
    chars = " \t\n\r+-0123456789abc:{},"
    for _ in range(nrand):
        r = rng.random()
        if r < 0.6:
            s = "".join(rng.choice(" \t\n\r") for _ in range(rng.choice([0, 0, 1, 3])))
            s += "".join(rng.choice("+-") for _ in range(rng.choice([0, 0, 1, 2, 5])))
            v = rng.choice(LIMITS) + rng.choice([0, 0, 1, -1, 7])
            s += "0" * rng.choice([0, 0, 2]) + str(max(v, 0))
            s += "".join(rng.choice(chars) for _ in range(rng.choice([0, 0, 1, 4])))
        else:
            s = "".join(rng.choice(chars) for _ in range(rng.randint(0, 30)))
        cases.append("AT %s %s" % (rng.choice(kinds), _s2codes(s)))
    return cases, {"at_exhaustive_len<=%d_alphabet6" % maxlen: n_exh, "at_limits": nlim, "at_random": nrand}


# ------------------------------------------------------------------ AF: affinity strings
INT_MAX = 2**31 - 1
MAX_NUM_ELEMS = 1024 * 1024
AF_ALPHA = "09+- {}:,"
# the compiled-out self test of abtd_affinity_parser.c (legal / illegal / comparison strings)
AF_SELFTEST = [
    "++1", "+-1", "+-+-1", "+0", "-0", "-9:1:-9", "-9:1:0", "-9:1:9", "0:1:-9", "0:1:0", "0:1:9", "9:1:-9", "9:1:0",
    "9:1:9", "{-9:1:-9}", "{-9:1:0}", "{-9:1:9}", "{0:1:-9}", "{0:1:0}", "{0:1:9}", "{9:1:-9}", "{9:1:0}", "{9:1:9}",
    "1,2,3", "1,2,{1,2}", "1,2,{1:2}", "1:2,{1:2}", "1:2:1,2", " 1 :  +2 , { -1 : \r 2\n:2}\n",
    "", "{}", "+ 1", "+ +1", "+ -1", "1:", "1:2:", "1:2,", "1:-2", "1:0", "1:-2:4", "1:0:4", "1:1:1:", "1:1:1:1",
    "1:1:1:1,1", "{1:2:3},", "{1:2:3}:", "{1:2:3}:2:", "{:2:3}", "{{2:3}}", "{2:3}}", "2:3}", "{1:2:3", "{1,2,}",
    "{1:-2}", "{1:0}", "{1:-2:4}", "{1:0:4}",
    "{1},{2},{3},{4}", "1,2,3,4", "{1:4:1}", "{1,2,3,4}", "{1:4}", "1:2,3:2", "{1:2},3:2", "{1,2},3,4",
    "{1:1:4},{2:1:-4},{3:1:0},{4:1}", "{3:4:-1}", "{3,2,1,0}", "3:4:-1,-1", "3,2,1,0,-1", "{1:2:3}:1", "{1,4}",
    "{1:2:3}:3", "{1,4},{2,5},{3,6}", "{1:2:3}:3:2", "{1:2:3}:3:-2", "{1:2:3}:3:-2,1", "{-2:3:-2}:2:-4",
    # documentation examples
    "{0},{1},{2},{3},{4},{5},{6},{7},{8},{9},{10},{11}", "{0}:12:1", "0:12", "{6}:6:1,{0}:6:1", "6:6,0:6",
    "{0}:3:4,{1}:3:4,{2}:3:4,{3}:3:4", "{0,1,2,3}:3:4", "{0:4:1}:3:4", "{0:4}:3:4", "{0,6},{2,8},{4,10}", "{0,6}:3:2",
]
# around INT_MAX (finding F3: literals beyond INT_MAX), wrap-around of id + stride * i, MAX_NUM_ELEMS
AF_LIMITS = [
    "2147483647", "-2147483647", "2147483648", "-2147483648", "99999999999", "-99999999999", "21474836470",
    "4294967296", "4294967297", "0000000000000000000002147483647", "0000000000000000000002147483648",
    "{2147483647}", "{2147483648}", "{0:2147483648}", "{0:2:2147483648}", "0:2147483648", "0:1:2147483648",
    "1,2,2147483648", "1,{2,-2147483649}", " +-2147483650 ", "9223372036854775807", "18446744073709551616",
    "2147483647:3:1", "{2147483647:3:1}", "-2147483647:3:-1", "{-2147483647:4:-1}", "5:4:2147483647",
    "{5:4:2147483647}", "{2147483647:2:2147483647}:3:2147483647", "{0:3:-2147483647}:2:-2147483647",
    "0:1048576", "{0:1048576}", "{0:1048576:0}", "0:1048577:0", "0:2147483647", "{0:2147483647}",
    "0:1048576,1", "{1,0:1048576}", "{1}:1048576", "{1}:01048576:0",
]
AF_BIG = ["{5:1048575:0}", "{5:1048574:0}", " { 1 , 5 : +1048575 : -0 } ", "{7:1048575:0x"]
AF_BIG_THOROUGH = ["0:999999", "0:1048575:0x", "7:1048575:0", "0:1048575", "{0:1048575}", "{3,0:1048575:-1}:2:5", "{1}:1048575:0,2"]


def _af_int(rng, kind):
    """an integer literal; 10-digit literals (which cost the harness a fork) and literals beyond INT_MAX
    (finding F3) are kept rare"""
    r = rng.random()
    if kind == "num":
        v = rng.choice([1, 1, 2, 2, 3, 4, 5, 7, 12]) if r < 0.93 else rng.choice([0, 0, -1, -3, 40, 40, 100, 100, 1048576, 999999999, 2147483648])
    elif kind == "stride":
        v = rng.randint(-9, 9) if r < 0.85 else rng.choice([12, 100, -100, 12, 100, -100, 64, -1000, 999999999, -999999999, 715827883,
                                                            2147483647, -2147483647, 1073741824, 4294967295, 2147483648])
    else:
        v = rng.randint(-12, 40) if r < 0.975 else rng.choice([999999999, -999999999, 123456789, 2147483647, -2147483647, 2147483646,
                                                               2147483648, -2147483648, 1000000000, 4294967296, 99999999999])
    neg = v < 0
    digits = "0" * rng.choice([0, 0, 0, 0, 1, 3]) + str(abs(v))
    signs = ""
    if rng.random() < 0.25:
        signs = "".join(rng.choice("+-") for _ in range(rng.choice([1, 1, 2, 3])))
    if (signs.count("-") % 2 == 1) != neg:
        signs = "-" + signs
    return signs + digits


def _ws(rng):
    return "".join(rng.choice(" \t\r\n ") for _ in range(rng.choice([0, 0, 0, 0, 1, 1, 2])))


def _af_opt(rng):
    r = rng.random()
    if r < 0.45:
        return ""
    s = _ws(rng) + ":" + _ws(rng) + _af_int(rng, "num")
    if r < 0.75:
        return s
    return s + _ws(rng) + ":" + _ws(rng) + _af_int(rng, "stride")


def _af_es(rng):
    if rng.random() < 0.45:
        return _ws(rng) + _af_int(rng, "id")
    items = [_ws(rng) + _af_int(rng, "id") + _af_opt(rng) for _ in range(rng.choice([1, 1, 2, 3, 4]))]
    return _ws(rng) + "{" + (_ws(rng) + ",").join(items) + _ws(rng) + "}"


def af_valid(rng):
    items = [_af_es(rng) + _af_opt(rng) for _ in range(rng.choice([1, 1, 2, 2, 3, 5, 8]))]
    return (_ws(rng) + ",").join(items) + _ws(rng)


def af_mutate(rng, s):
    chars = AF_ALPHA + "\t\r\n123456789" + "ax;}{"
    for _ in range(rng.choice([1, 1, 2, 3])):
        k = rng.random()
        i = rng.randrange(len(s) + 1)
        if k < 0.3 and s:
            i = min(i, len(s) - 1)
            s = s[:i] + s[i + 1:]
        elif k < 0.6:
            s = s[:i] + rng.choice(chars) + s[i:]
        elif k < 0.85 and s:
            i = min(i, len(s) - 1)
            s = s[:i] + rng.choice(chars) + s[i + 1:]
        elif s:
            i = min(i, len(s) - 1)
            s = s[:i] + s[i] + s[i:]
    return s


def af_size_bound(s):
    """crude upper bound on the number of ids the string can expand to: the product of all
    integers written after a ':' (counts and strides) that could be a count"""
    b = 1
    for run in re.findall(r":[ \t\r\n+-]*([0-9]+)", s):
        v = int(run)
        if 2 <= v < MAX_NUM_ELEMS:
            b *= v
    return b


def gen_af(rng, tier):
    """returns (forking, plain, stats): the harness parses strings with a run of >= 10 digits in a child
    process, which is cheap only while the harness process is still small, so those cases go first"""
    cases = ["AF null", "AF 49 0 50", "AF 49 44 0 123"]
    maxlen = 5 if tier == "quick" else 6
    n_exh = 0
    for L in range(0, maxlen + 1):
        for t in itertools.product(AF_ALPHA, repeat=L):
            cases.append("AF " + " ".join(str(ord(ch)) for ch in t))
            n_exh += 1
    cur = AF_SELFTEST + AF_LIMITS
    first = []
    for s0 in cur:
        first.append("AF " + _s2codes(s0))
    nrand = 4000 if tier == "quick" else 120000
    n_valid = n_mut = n_drop = 0
    for _ in range(nrand):
        s0 = af_valid(rng)
        if rng.random() < 0.5:
            s0 = af_mutate(rng, s0)
            n_mut += 1
        else:
            n_valid += 1
        if af_size_bound(s0) > 20000:
            n_drop += 1
            continue
        first.append("AF " + _s2codes(s0))
    return first, cases, {"af_exhaustive_len<=%d_alphabet9" % maxlen: n_exh, "af_curated": len(cur), "af_random_valid": n_valid,
                          "af_random_mutated": n_mut, "af_dropped_too_large": n_drop}


def _codes2s(case):
    out = []
    for x in case.split()[1:]:
        if not x.lstrip("-").isdigit():
            return None
        c = int(x)
        if c == 0:
            break
        out.append(chr(c & 0xFF))
    return "".join(out)


def af_has_overflow_literal(case):
    s0 = _codes2s(case)
    return s0 is not None and any(int(r) > INT_MAX for r in re.findall(r"[0-9]+", s0))


# ------------------------------------------------------------------ ENV: ABT_* settings
U32, U64 = 2**32, 2**64
ENV_NUM = {   # name -> interesting magnitudes
    "MAX_NUM_XSTREAMS": [0, 1, 2, 17, 2**30 - 1, 2**30, 2**31 - 1, 2**31, 2**32, 2**63, 2**64],
    "KEY_TABLE_SIZE": [0, 1, 2, 3, 4, 5, 1023, 1025, 65536, 65537, 2**30, 2**30 + 1, 2**31 - 1, 2**31, 2**32 - 1, 2**32, 2**64],
    "SYS_PAGE_SIZE": [0, 1, 63, 64, 65, 4095, 4096, 4097, 65536, 2**31, 2**32, 2**61, 2**62, 2**62 + 1, 2**63 - 1, 2**63, 2**64 - 1, 2**64],
    "THREAD_STACKSIZE": [0, 511, 512, 513, 575, 576, 16383, 16384, 16385, 20008, 65536, 2**20, 2**24, 2**24 + 1, 2**26 + 64, 2**31,
                         2**32, 2**61 - 64, 2**61 - 63, 2**61, 2**62 - 1, 2**62, 2**62 + 1, 2**63 - 64, 2**63 - 1, 2**63, 2**64 - 1, 2**64],
    "SCHED_STACKSIZE": [0, 511, 512, 513, 16384, 65535, 65536, 2**22, 2**22 + 1, 2**26, 2**26 + 1, 2**32, 2**63 - 1, 2**63, 2**64],
    "SCHED_EVENT_FREQ": [0, 1, 2, 50, 2**31 - 2, 2**31 - 1, 2**31, 2**32 - 1, 2**32, 2**64],
    "SCHED_SLEEP_NSEC": [0, 1, 100, 10**6, 10**6 + 1, 2**32, 2**63 - 2, 2**63 - 1, 2**63, 2**64 - 1, 2**64, 10**20],
    "MUTEX_MAX_HANDOVERS": [0, 1, 2, 64, 2**31 - 1, 2**31, 2**32],
    "MUTEX_MAX_WAKEUPS": [0, 1, 2, 2**31 - 1, 2**31, 2**32 + 1],
    "HUGE_PAGE_SIZE": [0, 4095, 4096, 4097, 2**21, 2**30, 2**30 + 1, 2**63 - 1, 2**63, 2**64],
    "MEM_PAGE_SIZE": [0, 4095, 4096, 4097, 4159, 4160, 2**21, 2**21 + 1, 2**26, 2**26 + 1, 2**62, 2**62 + 1, 2**63 - 64, 2**63 - 63, 2**63 - 1, 2**63, 2**64],
    "MEM_STACK_PAGE_SIZE": [0, 1, 65535, 65536, 65537, 2**23, 2**28, 2**28 + 1, 2**63 - 1, 2**63, 2**64],
    "MEM_MAX_NUM_STACKS": [0, 1, 2, 3, 4, 1023, 1024, 65535, 65536, 65537, 2**31 - 2, 2**31 - 1, 2**31, 2**32],
    "MEM_MAX_NUM_DESCS": [0, 1, 2, 3, 4095, 4097, 2**20, 2**20 + 1, 2**31 - 1, 2**31, 2**32],
}
ENV_BOOL = ["USE_LOG", "USE_DEBUG", "PRINT_RAW_STACK", "PRINT_CONFIG"]
BOOL_VALS = ["0", "1", "y", "Y", "yes", "YeS", "true", "TRUE", "on", "oN", "n", "N", "no", "NO", "false", "False", "off", "OFF",
             "", "2", "00", "01", " 1", "1 ", "yess", "o", "tru"]
GUARD_VALS = ["mprotect", "MPROTECT", "mprotect_strict", "Mprotect_Strict", "none", "", "mprotect ", "mprotect_stric", "canary",
              "mprotect_strictx", "MPROTECT_STRICT"]
JUNK = ["", " ", "abc", "-", "+", "0x10", "1e3", "١", " \t", "--", "+-"]


def _envtok(name, val):
    return "%s=%s" % (name, ".".join(str(b) for b in val.encode("utf-8", "replace") if b != 0))


def _numstr(rng, v):
    r = rng.random()
    s0 = str(v)
    if r < 0.35:
        return s0
    pre = rng.choice(["", "", "+", "-", "--", "+-", " ", "\t ", " +", "\n-", "-+-"])
    zeros = rng.choice(["", "", "0", "000", "0" * 25])
    suf = rng.choice(["", "", "", " ", "x", "k", ".5", "e3", "-", "+1", "\n", " 7", "_"])
    return pre + zeros + s0 + suf


def gen_env(rng, tier):
    nc = os.sysconf("SC_NPROCESSORS_ONLN")
    pg = os.sysconf("SC_PAGE_SIZE")
    head = "ENV nc=%d pg=%d" % (nc, pg)
    cases = [head]
    n_single = 0
    # every numeric setting alone: limit values +-1, plain / signed / zero-padded / junk suffix
    for name, vals in ENV_NUM.items():
        vs = set()
        for v in vals:
            vs.update([v, v + 1, max(v - 1, 0)])
        for v in sorted(vs):
            forms = [str(v), "-" + str(v), "+" + str(v), "000" + str(v), str(v) + "x", " " + str(v) + " "]
            if tier == "quick":
                forms = forms[:1] + rng.sample(forms[1:], 1)
            for f in forms:
                prefix = "ABT_" if rng.random() < 0.8 else "ABT_ENV_"
                cases.append(head + " " + _envtok(prefix + name, f))
                n_single += 1
        for j in JUNK:
            cases.append(head + " " + _envtok("ABT_" + name, j))
            n_single += 1
    for name in ENV_BOOL:
        for v in BOOL_VALS:
            cases.append(head + " " + _envtok(rng.choice(["ABT_", "ABT_ENV_"]) + name, v))
            n_single += 1
    for v in GUARD_VALS:
        cases.append(head + " " + _envtok("ABT_STACK_OVERFLOW_CHECK", v))
        cases.append(head + " " + _envtok("ABT_STACK_OVERFLOW_CHECK", v) + " " + _envtok("ABT_SYS_PAGE_SIZE", str(rng.choice([64, 4096, 8192, 2**62, 2**62 + 1, 2**63]))))
        n_single += 2
    # alias priority: ABT_X wins over ABT_ENV_X
    for name in ["KEY_TABLE_SIZE", "THREAD_STACKSIZE", "MAX_NUM_XSTREAMS", "USE_LOG"]:
        cases.append(head + " " + _envtok("ABT_ENV_" + name, "8") + " " + _envtok("ABT_" + name, "32"))
        cases.append(head + " " + _envtok("ABT_" + name, "junk") + " " + _envtok("ABT_ENV_" + name, "32"))
    # min_val > max_val: ABT_MEM_STACK_PAGE_SIZE is clamped to [4 * thread_stacksize, SIZE_MAX / 2], an empty
    # range for a ULT stack size above 2^61 (the only place where the order of min and max in the clamp matters)
    for ts in [2**61 + 1, 2**61 + 2**60, 2**62 - 64, 2**62 - 63, 2**62 + 64, 2**63 - 64]:
        for sp in ["1", "4096", str(2**63), str(2**64), "junk"]:
            cases.append(head + " " + _envtok("ABT_THREAD_STACKSIZE", str(ts)) + " " + _envtok("ABT_MEM_STACK_PAGE_SIZE", sp))
            n_single += 1
    # combinations
    ncomb = 300 if tier == "quick" else 8000
    names = list(ENV_NUM)
    for _ in range(ncomb):
        toks = []
        sane_bias = rng.random() < 0.5
        for name in rng.sample(names, rng.choice([2, 3, 4, 6])):
            vals = ENV_NUM[name]
            if sane_bias:
                v = rng.choice([x for x in vals if x <= 2**24] or vals)
            else:
                v = rng.choice(vals) + rng.choice([0, 0, 1, -1])
            toks.append(_envtok(rng.choice(["ABT_", "ABT_", "ABT_ENV_"]) + name, _numstr(rng, max(v, 0))))
        if rng.random() < 0.3:
            toks.append(_envtok("ABT_STACK_OVERFLOW_CHECK", rng.choice(GUARD_VALS)))
        if rng.random() < 0.3:
            toks.append(_envtok("ABT_" + rng.choice(ENV_BOOL[:3]), rng.choice(BOOL_VALS)))
        rng.shuffle(toks)
        cases.append(head + " " + " ".join(toks))
    return cases, {"env_single_variable": n_single, "env_combinations": ncomb}


def gen(rng, tier):
    c1, s1 = gen_ht(rng, tier)
    c2, s2 = gen_at(rng, tier)
    c3a, c3b, s3 = gen_af(rng, tier)
    c4, s4 = gen_env(rng, tier)
    s1.update(s2)
    s1.update(s3)
    s1.update(s4)
    # id lists with 2^20 - 1 elements: last, because the harness process forks slowly once it has grown
    big = ["AF " + _s2codes(s0) for s0 in AF_BIG + (AF_BIG_THOROUGH if tier != "quick" else [])]
    s1["af_max_num_elems_boundary"] = len(big)
    # cases that make the harness fork (ENV, long AF strings) first: fork is cheap while the process is small
    return c4 + c3a + c1 + c2 + c3b + big, s1


def classify(case, impl, model):
    if impl.startswith("CRASH"):
        return "observable"
    if case.startswith("HT") and " | " in impl and " | " in model:
        return "observable" if impl.split(" | ")[0] != model.split(" | ")[0] else "internal"
    return "observable"


def nontrivial(case):
    if case.startswith("HT"):
        return case.count(",") >= 2
    if case.startswith("ENV"):
        return "ABT_" in case
    if case.startswith("AF"):
        return any(x in ("48", "57") or (x.isdigit() and 48 <= int(x) <= 57) for x in case.split()[1:])
    return any(48 <= int(x) <= 57 for x in case.split()[2:])


def known_match(case, impl, model):
    """F3: signed overflow in consume_int -- exactly the affinity strings that contain an integer literal
    whose magnitude exceeds INT_MAX; the model (which follows the fixed code) rejects them."""
    if (case.startswith("AF ") and impl.startswith("CRASH: AF") and "signed integer overflow" in impl
            and model == "AF reject" and af_has_overflow_literal(case)):
        return "F3"
    return None


def run(tier, seed, replay):
    return vlib.run_differential_property(
        ID, "Properties_C20.v", ["Properties_C20.vo", "Extract_C20.vo"], "c20", "h_c20.c",
        gen, classify, nontrivial, tier, seed, replay=replay, san=True, known_match=known_match,
        rule="HT: every op sequence of length<=L over 9 ops on 3 colliding keys (exhaustive) + seeded sequences on W(hite-box, "
             "n in 1..8)/S(ched)/P(ool) config objects; non-trivial = >=3 ops. AT: all strings of length<=L over ' +-09a' "
             "(exhaustive) + limit-centred and random strings; non-trivial = contains a digit. AF: all strings of length<=5 (quick) / "
             "6 (thorough) over '09+- {}:,' (exhaustive), the parser's self-test and documentation strings, INT_MAX and "
             "MAX_NUM_ELEMS boundaries, seeded grammar-generated strings with random white space, half of them mutated; "
             "non-trivial = contains a digit. ENV: every numeric ABT_* setting alone at its type/range limits +-1 in plain, signed, "
             "zero-padded and junk-suffixed spellings, booleans, stack-guard strings, ABT_/ABT_ENV_ priority, min>max combinations, "
             "seeded combinations; non-trivial = sets at least one variable. Distinct = distinct case text.",
        extra_assumptions=["hashtable.c / atoi.c / abtd_affinity_parser.c are exercised as ASan+UBSan-instrumented copies (white "
                           "box); sched/pool config objects and ABTD_env_init / ABT_init / ABT_info_query_config through the -O2 "
                           "library (ENV cases in a forked child of the harness)",
                           "F3 (signed overflow in consume_int) is matched by: UBSan 'signed integer overflow' abort of an AF "
                           "case whose string contains an integer literal beyond INT_MAX while the model (fixed code) rejects"])
